"""Translator: value.c / util.c / struct.c / janet.h  ->  Gen/Value.lean

Constants of the hash functions, the JanetType order used by janet_compare, janet_tablen's shifts, and *shape checks*
of the comparison code the Lean model (Value/Model.lean) mirrors by hand.  If the shape is no longer recognised the
extractor raises ExtractError (reported by the check as a broken tie)."""
import re
from . import csrc
from .csrc import ExtractError


def _need(m, what):
    if not m:
        raise ExtractError(what + " not recognised")
    return m


def extract(tree):
    c = {}
    util = csrc.strip_comments(csrc.read(tree, "src/core/util.c"))
    value = csrc.strip_comments(csrc.read(tree, "src/core/value.c"))
    struct = csrc.strip_comments(csrc.read(tree, "src/core/struct.c"))
    hdr = csrc.strip_comments(csrc.read(tree, "src/include/janet.h"))
    conf = csrc.strip_comments(csrc.read(tree, "src/conf/janetconf.h"))
    utilh = csrc.strip_comments(csrc.read(tree, "src/core/util.h"))

    if re.search(r"^\s*#\s*define\s+JANET_PRF\b", conf, re.M):
        raise ExtractError("JANET_PRF is defined: string hash is halfsiphash, not the modelled djb2+mix")
    # ---- janet_hash_mix
    b = csrc.func_body(util, "janet_hash_mix")
    m = _need(re.search(r"uint32_t\s+mix1\s*=\s*\(\s*more\s*\+\s*(\w+)\s*\+\s*\(input\s*<<\s*(\d+)\)\s*\+\s*\(input\s*>>\s*(\d+)\)\s*\)\s*;\s*"
                        r"return\s+input\s*\^\s*\(\s*(\w+)\s*\+\s*\(mix1\s*<<\s*(\d+)\)\s*\+\s*\(mix1\s*>>\s*(\d+)\)\s*\)\s*;", b), "janet_hash_mix body")
    c["mixK1"], c["mixShl1"], c["mixShr1"], c["mixK2"], c["mixShl2"], c["mixShr2"] = [csrc.cint(g) for g in m.groups()]
    # ---- janet_string_calchash (non-PRF branch is the first definition)
    b = csrc.func_body(util, "janet_string_calchash")
    m = _need(re.search(r"if\s*\(\s*NULL\s*==\s*str\s*\|\|\s*len\s*==\s*0\s*\)\s*return\s+(\d+)\s*;.*?uint32_t\s+hash\s*=\s*(\d+)\s*;\s*while\s*\(\s*str\s*<\s*end\s*\)\s*"
                        r"hash\s*=\s*\(hash\s*<<\s*(\d+)\)\s*\+\s*hash\s*\+\s*\*str\+\+\s*;\s*hash\s*=\s*janet_hash_mix\s*\(\s*hash\s*,\s*\(uint32_t\)\s*len\s*\)\s*;", b, re.S),
              "janet_string_calchash body")
    c["strEmpty"], c["strSeed"], c["strShl"] = [csrc.cint(g) for g in m.groups()]
    # ---- array / kv hash
    b = csrc.func_body(util, "janet_array_calchash")
    m = _need(re.search(r"uint32_t\s+hash\s*=\s*(\d+)\s*;\s*while\s*\(\s*array\s*<\s*end\s*\)\s*\{\s*hash\s*=\s*janet_hash_mix\s*\(\s*hash\s*,\s*janet_hash\s*\(\s*\*array\+\+\s*\)\s*\)\s*;\s*\}", b),
              "janet_array_calchash body")
    c["arraySeed"] = csrc.cint(m.group(1))
    b = csrc.func_body(util, "janet_kv_calchash")
    m = _need(re.search(r"uint32_t\s+hash\s*=\s*(\d+)\s*;\s*while\s*\(\s*kvs\s*<\s*end\s*\)\s*\{\s*hash\s*=\s*janet_hash_mix\s*\(\s*hash\s*,\s*janet_hash\s*\(\s*kvs->key\s*\)\s*\)\s*;\s*"
                        r"hash\s*=\s*janet_hash_mix\s*\(\s*hash\s*,\s*janet_hash\s*\(\s*kvs->value\s*\)\s*\)\s*;\s*kvs\+\+\s*;\s*\}", b), "janet_kv_calchash body")
    c["kvSeed"] = csrc.cint(m.group(1))
    # ---- janet_tablen
    b = csrc.func_body(util, "janet_tablen")
    _need(re.search(r"if\s*\(\s*n\s*<\s*0\s*\)\s*return\s+0\s*;", b), "janet_tablen negative guard")
    shifts = [int(x) for x in re.findall(r"n\s*\|=\s*n\s*>>\s*(\d+)\s*;", b)]
    if not shifts or not re.search(r"return\s+n\s*\+\s*1\s*;", b):
        raise ExtractError("janet_tablen body not recognised")
    c["tablenShifts"] = shifts
    m = _need(re.search(r"#\s*define\s+janet_maphash\s*\(\s*cap\s*,\s*hash\s*\)\s*\(\s*\(uint32_t\)\s*\(hash\)\s*&\s*\(cap\s*-\s*1\)\s*\)", utilh), "janet_maphash macro")
    # ---- janet_hash
    b = csrc.func_body(value, "janet_hash")
    _need(re.search(r"case\s+JANET_NIL\s*:\s*hash\s*=\s*0\s*;", b), "janet_hash nil case")
    _need(re.search(r"case\s+JANET_BOOLEAN\s*:\s*hash\s*=\s*janet_unwrap_boolean\s*\(x\)\s*;", b), "janet_hash boolean case")
    _need(re.search(r"case\s+JANET_STRING\s*:\s*case\s+JANET_SYMBOL\s*:\s*case\s+JANET_KEYWORD\s*:\s*hash\s*=\s*janet_string_hash\s*\(", b), "janet_hash string case")
    _need(re.search(
        r"case\s+JANET_TUPLE\s*:\s*hash\s*=\s*janet_tuple_hash\s*\(janet_unwrap_tuple\(x\)\)\s*;\s*hash\s*\+=\s*\(janet_tuple_flag\(janet_unwrap_tuple\(x\)\)\s*&\s*JANET_TUPLE_FLAG_BRACKETCTOR\)\s*\?\s*1\s*:\s*0\s*;", b),
        "janet_hash tuple case (stored hash + 1 for bracketed tuples)")
    _need(re.search(r"case\s+JANET_STRUCT\s*:\s*hash\s*=\s*janet_struct_hash\s*\(janet_unwrap_struct\(x\)\)\s*;", b), "janet_hash struct case")
    m = re.search(r"as\.d\s*=\s*janet_unwrap_number\s*\(x\)\s*;\s*(as\.d\s*\+=\s*0\.0\s*;)\s*uint32_t\s+lo\s*=\s*\(uint32_t\)\s*\(as\.u\s*&\s*0xFFFFFFFF\)\s*;\s*"
                  r"uint32_t\s+hi\s*=\s*\(uint32_t\)\s*\(as\.u\s*>>\s*32\)\s*;\s*uint32_t\s+hilo\s*=\s*\(hi\s*\^\s*lo\)\s*\*\s*(\w+)\s*;\s*"
                  r"hash\s*=\s*\(int32_t\)\s*\(\(hilo\s*<<\s*(\d+)\)\s*\|\s*\(hilo\s*>>\s*(\d+)\)\)\s*;", b)
    _need(m, "janet_hash number case (with `as.d += 0.0` normalisation of -0)")
    c["numMul"], c["numShl"], c["numShr"] = csrc.cint(m.group(2)), int(m.group(3)), int(m.group(4))
    m = _need(re.search(r"uint64_t\s+i\s*=\s*murmur64\s*\(\s*janet_u64\s*\(x\)\s*\)\s*;\s*hash\s*=\s*\(int32_t\)\s*\(i\s*>>\s*(\d+)\)\s*;", b), "janet_hash pointer case")
    c["ptrShr"] = int(m.group(1))
    b = csrc.func_body(value, "murmur64")
    m = _need(re.search(r"h\s*\^=\s*h\s*>>\s*(\d+)\s*;\s*h\s*\*=\s*(\w+)\s*;\s*h\s*\^=\s*h\s*>>\s*(\d+)\s*;\s*h\s*\*=\s*(\w+)\s*;\s*h\s*\^=\s*h\s*>>\s*(\d+)\s*;\s*return\s+h\s*;", b), "murmur64 body")
    c["murShr1"], c["murMul1"], c["murShr2"], c["murMul2"], c["murShr3"] = int(m.group(1)), csrc.cint(m.group(2)), int(m.group(3)), csrc.cint(m.group(4)), int(m.group(5))
    # ---- struct end: proto hash mixing
    b = csrc.func_body(struct, "janet_struct_end")
    m = re.search(r"janet_struct_hash\s*\(st\)\s*=\s*janet_kv_calchash\s*\(\s*st\s*,\s*janet_struct_capacity\s*\(st\)\s*\)\s*;\s*"
                  r"if\s*\(\s*janet_struct_proto\s*\(st\)\s*\)\s*\{\s*janet_struct_hash\s*\(st\)\s*\+=\s*(\w+)\s*\*\s*janet_struct_hash\s*\(\s*janet_struct_proto\s*\(st\)\s*\)\s*;\s*\}", b)
    _need(m, "janet_struct_end hash computation (kv hash + protoMul * proto hash)")
    c["protoMul"] = csrc.cint(m.group(1))
    b = csrc.func_body(struct, "janet_struct_begin")
    _need(re.search(r"int32_t\s+capacity\s*=\s*janet_tablen\s*\(\s*2\s*\*\s*count\s*\)\s*;", b), "janet_struct_begin capacity")
    # ---- janet_struct_put_ext / janet_table_put: the early-return guards in front of the probe (which puts are ignored),
    #      and what the duplicate-key branch (`status == 0`) writes
    c["_guards"] = put_guards(struct, csrc.strip_comments(csrc.read(tree, "src/core/table.c")))
    # ---- type order
    ty = csrc.enum_values(hdr, "JANET_NUMBER")
    want = ["JANET_NUMBER", "JANET_NIL", "JANET_BOOLEAN", "JANET_FIBER", "JANET_STRING", "JANET_SYMBOL", "JANET_KEYWORD", "JANET_ARRAY", "JANET_TUPLE",
            "JANET_TABLE", "JANET_STRUCT", "JANET_BUFFER", "JANET_FUNCTION", "JANET_CFUNCTION", "JANET_ABSTRACT", "JANET_POINTER"]
    for w in want:
        if w not in ty:
            raise ExtractError("JanetType member %s missing" % w)
    # ---- shape of compare's cross-type rule
    b = csrc.func_body(value, "janet_compare")
    _need(re.search(r"if\s*\(\s*tx\s*!=\s*ty\s*\)\s*return\s+tx\s*<\s*ty\s*\?\s*-1\s*:\s*1\s*;", b), "janet_compare cross-type rule")
    # ---- symcache.c: the two constants written into vacated slots, thresholds
    sym = csrc.strip_comments(csrc.read(tree, "src/core/symcache.c"))
    b = _findmem_by_role(sym)
    _need(re.search(r"index=\(uint32_t\)hash&\(janet_vm\.cache_capacity-1\);", b), "findmem home index")
    _need(re.search(r"if\(NULL==test\)\{?if\(NULL==firstEmpty\)\{?firstEmpty=janet_vm\.cache\+i;\}?gotonotfound;", b), "findmem empty-slot branch")
    _need(re.search(r"if\(JANET_SYMCACHE_DELETED==test\)\{?if\(NULL==firstEmpty\)\{?firstEmpty=janet_vm\.cache\+i;\}?continue;", b), "findmem tombstone branch")
    m = _need(re.search(r"if\(NULL!=firstEmpty\)\{\*firstEmpty=test;janet_vm\.cache\[i\]=(\w+);returnfirstEmpty;\}returnjanet_vm\.cache\+i;", b),
              "findmem move-into-first-tombstone branch")
    sc = {}
    if m.group(1) not in ("JANET_SYMCACHE_DELETED", "NULL"):
        raise ExtractError("findmem: vacated slot set to %s" % m.group(1))
    sc["symMoveVacatedDeleted"] = m.group(1) == "JANET_SYMCACHE_DELETED"
    b = csrc.func_body(sym, "janet_symbol_deinit")
    # structure, not statement order: under `if (status)` the function decrements cache_count, increments cache_deleted and
    # stores ONE constant into *bucket (the model's `deinit` has a single unconditional write)
    m = _need(re.search(r"if\s*\(\s*status\s*\)\s*\{", b), "janet_symbol_deinit: `if (status) {`")
    blk = b[m.end() - 1:csrc.match_brace(b, m.end() - 1)]
    writes = re.findall(r"\*\s*bucket\s*=\s*([^;]+);", blk)
    stmts = [re.sub(r"\s+", "", x) for x in blk.strip()[1:-1].split(";") if x.strip()]
    want_stmts = {"janet_vm.cache_count--", "janet_vm.cache_deleted++"}
    if len(writes) != 1 or set(stmts) - {"*bucket=" + re.sub(r"\s+", "", writes[0])} != want_stmts or len(stmts) != 3:
        raise ExtractError("janet_symbol_deinit body not recognised (expected exactly: cache_count--, cache_deleted++, one store to *bucket; found %r)" % stmts)
    w = writes[0].strip()
    if w not in ("JANET_SYMCACHE_DELETED", "NULL"):
        raise ExtractError("janet_symbol_deinit: slot set to %s" % w)
    sc["symDeinitWritesDeleted"] = w == "JANET_SYMCACHE_DELETED"
    b = csrc.func_body(sym, "janet_symcache_put")
    _need(re.search(r"if\s*\(\s*\(janet_vm\.cache_count\s*\+\s*janet_vm\.cache_deleted\)\s*\*\s*2\s*>\s*janet_vm\.cache_capacity\s*\)\s*\{\s*int\s+status\s*;\s*"
                    r"janet_cache_resize\s*\(\s*janet_tablen\s*\(\s*\(\s*2\s*\*\s*janet_vm\.cache_count\s*\+\s*1\s*\)\s*\)\s*\)\s*;\s*bucket\s*=\s*janet_symcache_find\s*\(\s*x\s*,\s*&status\s*\)\s*;\s*\}\s*"
                    r"janet_vm\.cache_count\+\+\s*;\s*\*bucket\s*=\s*x\s*;", b), "janet_symcache_put body")
    b = csrc.func_body(sym, "janet_symcache_init")
    m = _need(re.search(r"janet_vm\.cache_capacity\s*=\s*(\d+)\s*;", b), "janet_symcache_init capacity")
    sc["symCacheInitCap"] = int(m.group(1))
    sc.update(gensym_facts(sym, csrc.strip_comments(csrc.read(tree, "src/core/state.h"))))
    c["_sym"] = sc
    return c, {k: ty[k] for k in want}


def _func_params(src, name):
    """parameter names of the definition of `name` (comment-stripped source), in order"""
    for m in re.finditer(r"\b%s\s*\(" % re.escape(name), src):
        e = _match_paren(src, m.end() - 1)
        if not re.match(r"\s*\{", src[e:]):
            continue
        ls = src.rfind("\n", 0, m.start()) + 1
        if not re.match(r"^[A-Za-z_][\w\s\*]*$", src[ls:m.start()]):
            continue
        out = []
        for prm in src[m.end():e - 1].split(","):
            mm = re.search(r"(\w+)\s*(?:\[\s*\w*\s*\])?\s*$", prm.strip())
            if mm:
                out.append(mm.group(1))
        return out
    raise ExtractError("definition of %s not found" % name)


def _rename(text, mapping):
    """rename identifiers (whole words) simultaneously"""
    if not mapping:
        return text
    rx = re.compile(r"\b(" + "|".join(re.escape(k) for k in mapping) + r")\b")
    return rx.sub(lambda m: mapping[m.group(1)], text)


def _squash(text):
    """canonical text of a piece of C for shape matching: no whitespace, NULL / constant on the LEFT of == and !=,
    `!p` never used for pointers here, `&a[i]` written `a+i`, `(void) x;` statements dropped"""
    t = re.sub(r"\(\s*void\s*\)\s*\w+\s*;", "", text)
    t = re.sub(r"\s+", "", t)
    t = re.sub(r"&(janet_vm\.cache)\[(\w+)\]", r"\1+\2", t)
    t = re.sub(r"\b([A-Za-z_][\w\.\->]*)(==|!=)(NULL|JANET_SYMCACHE_DELETED)\b", r"\3\2\1", t)
    return t


def _findmem_by_role(sym):
    """body of janet_symcache_findmem with its locals renamed BY ROLE to the names the shape patterns use (hash = third
    parameter, index = the masked hash, i = the variable that indexes janet_vm.cache, test = the slot content read there,
    firstEmpty = the `const uint8_t **` local initialised to NULL), squashed: a renamed local, re-wrapped lines, optional braces,
    `x == NULL` vs `NULL == x`, `&cache[i]` vs `cache + i` make no difference"""
    b = csrc.func_body(sym, "janet_symcache_findmem")
    prm = _func_params(sym, "janet_symcache_findmem")
    if len(prm) != 4:
        raise ExtractError("janet_symcache_findmem: expected 4 parameters, found %r" % prm)
    roles = {prm[2]: "hash"}
    m = _need(re.search(r"(\w+)\s*=\s*\(\s*uint32_t\s*\)\s*%s\s*&\s*\(\s*janet_vm\.cache_capacity\s*-\s*1\s*\)\s*;" % re.escape(prm[2]), b), "findmem home index")
    roles[m.group(1)] = "index"
    m = _need(re.search(r"const\s+uint8_t\s*\*\s*(\w+)\s*=\s*janet_vm\.cache\s*\[\s*(\w+)\s*\]\s*;", b), "findmem: read of the slot `janet_vm.cache[i]`")
    roles[m.group(1)], roles[m.group(2)] = "test", "i"
    m = _need(re.search(r"const\s+uint8_t\s*\*\*\s*(\w+)\s*=\s*NULL\s*;", b), "findmem: the first-empty-slot local")
    roles[m.group(1)] = "firstEmpty"
    if len(set(roles.values())) != len(roles):
        raise ExtractError("janet_symcache_findmem: roles not distinct: %r" % roles)
    # a role name used for something else would be captured: rename such bystanders away first
    clash = {v: v + "_other" for v in roles.values() if v not in roles and re.search(r"\b%s\b" % v, b)}
    return _squash(_rename(_rename(b, clash), roles))


def _loops(body):
    """every loop of a function body as (kind, condition text, text of the loop body incl. condition): do/while, while, for.
    Located by structure (keyword + balanced parentheses / braces), not by layout."""
    out = []
    for m in re.finditer(r"\b(do|while|for)\b", body):
        kind, i = m.group(1), m.end()
        if kind == "do":
            j = body.find("{", i)
            if j < 0 or body[i:j].strip():
                continue
            e = csrc.match_brace(body, j)
            mw = re.match(r"\s*while\s*\(", body[e:])
            if not mw:
                continue
            k = e + mw.end() - 1
            ce = _match_paren(body, k)
            out.append(("do", body[k + 1:ce - 1], body[j:ce]))
        else:
            mp = re.match(r"\s*\(", body[i:])
            if not mp:
                continue
            k = i + mp.end() - 1
            ce = _match_paren(body, k)
            rest = body[ce:]
            if kind == "while" and re.match(r"\s*;", rest):
                continue                      # the tail of a do/while
            mb = re.match(r"\s*\{", rest)
            if mb:
                be = csrc.match_brace(body, ce + mb.end() - 1)
            else:
                be = body.find(";", ce) + 1
            out.append((kind, body[k + 1:ce - 1], body[k:be]))
    return out


def _match_paren(src, i):
    assert src[i] == "("
    depth = 0
    while i < len(src):
        if src[i] == "(":
            depth += 1
        elif src[i] == ")":
            depth -= 1
            if depth == 0:
                return i + 1
        i += 1
    raise ExtractError("unbalanced parenthesis")


def gensym_facts(sym, stateh):
    """janet_symbol_gen / inc_gensym / the counter's initialisation (symcache.c), as data for Value/SymGen.lean:
       * gensymProbeLoop: the probe `janet_symcache_findmem(janet_vm.gensym_counter, …, &status)` sits in a loop that
         repeats while `status` (found) and advances the counter with inc_gensym() on every repetition, and the bucket of the
         failed probe goes to janet_symcache_put  (structure, not text: do/while, while or for are all accepted);
       * gensymSteps: the special digit transitions of inc_gensym in source order (from, to, carry?) - every other digit is
         incremented and the loop stops; gensymDigits: the positions it walks (sizeof-2 down to 1);
       * gensymInit: the initial counter bytes (memset '0', [0] = '_'), name length sizeof-1."""
    f = {}
    m = _need(re.search(r"uint8_t\s+gensym_counter\s*\[\s*(\d+)\s*\]\s*;", stateh), "state.h gensym_counter declaration")
    size = int(m.group(1))
    b = csrc.func_body(sym, "janet_symcache_init")
    m = _need(re.search(r"memset\s*\(\s*&?\s*janet_vm\.gensym_counter\s*,\s*'(.)'\s*,\s*sizeof\s*\(\s*janet_vm\.gensym_counter\s*\)\s*\)\s*;\s*"
                        r"janet_vm\.gensym_counter\s*\[\s*0\s*\]\s*=\s*'(.)'\s*;", b), "janet_symcache_init: gensym counter initialisation")
    f["gensymInit"] = [ord(m.group(2))] + [ord(m.group(1))] * (size - 2)
    # ---- inc_gensym
    b = csrc.func_body(sym, "inc_gensym")
    ctr = r"janet_vm\.gensym_counter"
    m = _need(re.search(r"for\s*\(\s*int\s+(\w+)\s*=\s*sizeof\s*\(\s*" + ctr + r"\s*\)\s*-\s*2\s*;\s*\1\s*;\s*\1--\s*\)\s*\{", b), "inc_gensym loop header (sizeof-2 down to 1)")
    iv = m.group(1)
    loop = b[m.end() - 1:csrc.match_brace(b, m.end() - 1)]
    cell = ctr + r"\s*\[\s*" + iv + r"\s*\]"
    steps, pos = [], 1
    while True:
        mm = re.match(r"\s*(?:else\s+)?if\s*\(\s*" + cell + r"\s*==\s*'(.)'\s*\)\s*\{\s*" + cell + r"\s*=\s*'(.)'\s*;\s*(break\s*;)?\s*\}", loop[pos:])
        if not mm:
            break
        steps.append((ord(mm.group(1)), ord(mm.group(2)), mm.group(3) is None))
        pos += mm.end()
    _need(re.fullmatch(r"\s*else\s*\{\s*" + cell + r"\s*\+\+\s*;\s*break\s*;\s*\}\s*\}\s*", loop[pos:]), "inc_gensym: final `else { counter[i]++; break; }`")
    if not steps:
        raise ExtractError("inc_gensym: no digit transitions recognised")
    f["gensymSteps"] = steps
    f["gensymNameLen"] = size - 1
    # ---- janet_symbol_gen: structure of the probe loop
    b = csrc.func_body(sym, "janet_symbol_gen")
    probe = r"janet_symcache_findmem\s*\(\s*" + ctr
    if len(re.findall(probe, b)) == 0:
        raise ExtractError("janet_symbol_gen: probe of the gensym counter not found")
    ok = False
    for kind, cond, text in _loops(b):
        inner = text
        by_cond = re.search(r"\bstatus\b", cond) and not re.search(r"!\s*status\b", cond)
        # `for (;;) { probe; if (!status) break; inc_gensym(); }` / `while (1) { … }`: the exit test is a break on a failed probe
        by_break = re.sub(r"\s+", "", cond) in ("", ";;", "1") and re.search(r"if\s*\(\s*(!\s*status|status\s*==\s*0|0\s*==\s*status)\s*\)\s*\{?\s*break\s*;", inner)
        if re.search(probe, inner) and (by_cond or by_break) and re.search(r"\binc_gensym\s*\(\s*\)", inner):
            # every probe of the counter must be inside this loop, except a first probe in front of a `while (status) { inc; probe }`
            outside = len(re.findall(probe, b.replace(text, "", 1)))
            if outside == 0 or (kind == "while" and outside == 1):
                ok = True
    f["gensymProbeLoop"] = ok
    _need(re.search(r"janet_symcache_put\s*\(\s*\(const\s+uint8_t\s*\*\)\s*\w+\s*,\s*bucket\s*\)\s*;", b), "janet_symbol_gen: janet_symcache_put(sym, bucket)")
    _need(re.search(r"memcpy\s*\(\s*\w+\s*,\s*" + ctr + r"\s*,\s*sizeof\s*\(\s*" + ctr + r"\s*\)\s*\)\s*;", b), "janet_symbol_gen: the new symbol's bytes are the counter")
    return f


GUARD_TAGS = [
    ("nilKeyOrValue", r"janet_checktype\(key,JANET_NIL\)\|\|janet_checktype\(value,JANET_NIL\)"),
    ("nilKey", r"janet_checktype\(key,JANET_NIL\)"),
    ("nanKey", r"janet_checktype\(key,JANET_NUMBER\)&&isnan\(janet_unwrap_number\(key\)\)"),
    ("full", r"janet_struct_hash\(st\)==janet_struct_length\(st\)"),
]


def _guard_list(prefix, fname):
    """the `if (<cond>) return;` statements of `prefix` (the part of a function body in front of its main work), in order,
    each classified; an unknown condition, or any other statement than declarations, is a shape change"""
    out = []
    rest = prefix
    for m in re.finditer(r"if\s*\((.*?)\)\s*return\s*;", prefix, re.S):
        cond = re.sub(r"\s+", "", m.group(1))
        tag = next((t for t, rx in GUARD_TAGS if re.fullmatch(rx, cond)), None)
        if tag is None:
            raise ExtractError("%s: early-return guard `%s` not recognised" % (fname, m.group(1).strip()))
        out.append(tag)
        rest = rest.replace(m.group(0), "", 1)
    # what is left must be declarations / initialisations only
    for stmt in [x.strip().lstrip("{").strip() for x in rest.split(";") if x.strip().lstrip("{").strip()]:
        if not re.match(r"(int32_t|int|JanetKV\s*\*|uint32_t)\s", stmt):
            raise ExtractError("%s: statement `%s` in front of the probe not recognised" % (fname, stmt[:80]))
    return out


def put_guards(struct_src, table_src):
    g = {}
    b = csrc.func_body(struct_src, "janet_struct_put_ext")
    i = b.find("for (dist = 0")
    if i < 0:
        raise ExtractError("janet_struct_put_ext: probe loop `for (dist = 0, …` not found")
    g["structPutGuards"] = _guard_list(b[:i], "janet_struct_put_ext")
    # the loop: empty slot -> store + count++ ; status 1 -> swap and carry on with dist/hash of the evicted pair ; status 0 -> replace value only
    loop = b[i:]
    _need(re.search(r"if\s*\(\s*janet_checktype\s*\(\s*kv->key\s*,\s*JANET_NIL\s*\)\s*\)\s*\{\s*kv->key\s*=\s*key\s*;\s*kv->value\s*=\s*value\s*;\s*"
                    r"janet_struct_hash\s*\(st\)\+\+\s*;\s*return\s*;\s*\}", loop), "janet_struct_put_ext empty-slot branch")
    _need(re.search(r"if\s*\(\s*dist\s*<\s*otherdist\s*\)\s*status\s*=\s*-1\s*;\s*else\s+if\s*\(\s*otherdist\s*<\s*dist\s*\)\s*status\s*=\s*1\s*;\s*"
                    r"else\s+if\s*\(\s*hash\s*<\s*otherhash\s*\)\s*status\s*=\s*-1\s*;\s*else\s+if\s*\(\s*otherhash\s*<\s*hash\s*\)\s*status\s*=\s*1\s*;\s*"
                    r"else\s+status\s*=\s*janet_compare\s*\(\s*key\s*,\s*kv->key\s*\)\s*;", loop), "janet_struct_put_ext priority (dist, hash, janet_compare)")
    _need(re.search(r"if\s*\(\s*status\s*==\s*1\s*\)\s*\{\s*JanetKV\s+temp\s*=\s*\*kv\s*;\s*kv->key\s*=\s*key\s*;\s*kv->value\s*=\s*value\s*;\s*key\s*=\s*temp\.key\s*;\s*"
                    r"value\s*=\s*temp\.value\s*;\s*dist\s*=\s*otherdist\s*;\s*hash\s*=\s*otherhash\s*;\s*\}", loop), "janet_struct_put_ext swap branch (carries dist and hash of the evicted pair)")
    m = _need(re.search(r"else\s+if\s*\(\s*status\s*==\s*0\s*\)\s*\{\s*if\s*\(\s*replace\s*\)\s*\{(.*?)\}\s*return\s*;\s*\}", loop, re.S), "janet_struct_put_ext duplicate-key branch")
    writes = [re.sub(r"\s+", "", x) for x in m.group(1).split(";") if x.strip()]
    fields = []
    for w in writes:
        mm = re.fullmatch(r"kv->(key|value)=(key|value)", w)
        if not mm or mm.group(1) != mm.group(2):
            raise ExtractError("janet_struct_put_ext duplicate-key branch: statement `%s` not recognised" % w)
        fields.append(mm.group(1))
    g["structDupWrites"] = fields
    _need(re.search(r"void\s+janet_struct_put\s*\(\s*JanetKV\s*\*st\s*,\s*Janet\s+key\s*,\s*Janet\s+value\s*\)\s*\{\s*janet_struct_put_ext\s*\(\s*st\s*,\s*key\s*,\s*value\s*,\s*1\s*\)\s*;", struct_src),
          "janet_struct_put = janet_struct_put_ext(…, 1)")
    b = csrc.func_body(table_src, "janet_table_put")
    i = b.find("if (janet_checktype(value, JANET_NIL)) {")
    if i < 0:
        raise ExtractError("janet_table_put: nil-value (remove) branch not found")
    g["tablePutGuards"] = _guard_list(b[:i], "janet_table_put")
    return g


def abstract_hooks(tree):
    """every `JanetAbstractType` initialiser of src/core whose compare or hash slot is not NULL: [(file, name, compare, hash)]"""
    import os
    out = []
    d = os.path.join(tree, "src/core")
    for fn in sorted(os.listdir(d)):
        if not fn.endswith(".c"):
            continue
        src = csrc.strip_comments(csrc.read(tree, "src/core/" + fn))
        for m in re.finditer(r"const\s+JanetAbstractType\s+(\w+)\s*=\s*\{", src):
            i = src.index("{", m.start())
            body = src[i + 1:csrc.match_brace(src, i) - 1]
            items, depth, cur = [], 0, ""
            for ch in body:
                if ch in "({":
                    depth += 1
                elif ch in ")}":
                    depth -= 1
                if ch == "," and depth == 0:
                    items.append(cur.strip())
                    cur = ""
                else:
                    cur += ch
            if cur.strip():
                items.append(cur.strip())
            # name gc gcmark get put marshal unmarshal tostring compare hash next call length bytes; JANET_ATEND_* fills the rest with NULL
            cmpf = items[8] if len(items) > 8 and not items[8].startswith("JANET_ATEND") else "NULL"
            hashf = items[9] if len(items) > 9 and not items[9].startswith("JANET_ATEND") else "NULL"
            if any(it.startswith("JANET_ATEND") for it in items[:9]):
                k = next(j for j, it in enumerate(items) if it.startswith("JANET_ATEND"))
                if k <= 8:
                    cmpf = "NULL"
                if k <= 9:
                    hashf = "NULL"
            if cmpf != "NULL" or hashf != "NULL":
                out.append((fn, items[0].strip('"'), cmpf, hashf))
    return out


def render(tree):
    c, ty = extract(tree)
    out = [csrc.lean_header("src/core/value.c, util.c, struct.c, include/janet.h"), "namespace JanetModel.Gen.Value\n"]
    out.append("/-- constants read off janet_hash_mix, janet_string_calchash, janet_array_calchash, janet_kv_calchash (util.c),")
    out.append("    janet_hash, murmur64 (value.c), janet_struct_end (struct.c) -/")
    sc = c.pop("_sym")
    guards = c.pop("_guards")
    for k, v in c.items():
        if k == "tablenShifts":
            out.append("abbrev tablenShifts : List Nat := [%s]" % ", ".join(str(x) for x in v))
        else:
            out.append("abbrev %s : Nat := %d" % (k, v))
    out.append("\n/-- JanetType enum order (janet.h); janet_compare orders values of different types by it -/")
    for k, v in ty.items():
        out.append("abbrev ty%s : Nat := %d" % (k[6:].capitalize(), v))
    out.append("\n/-- symcache.c: what janet_symcache_findmem writes into the slot it vacates when it moves a live symbol into an earlier")
    out.append("    tombstone, what janet_symbol_deinit writes (true = JANET_SYMCACHE_DELETED, false = NULL), initial capacity -/")
    out.append("abbrev symMoveVacatedDeleted : Bool := %s" % ("true" if sc["symMoveVacatedDeleted"] else "false"))
    out.append("abbrev symDeinitWritesDeleted : Bool := %s" % ("true" if sc["symDeinitWritesDeleted"] else "false"))
    out.append("abbrev symCacheInitCap : Nat := %d" % sc["symCacheInitCap"])
    out.append("\n/-- symcache.c janet_symbol_gen / inc_gensym: the probe of the counter is repeated (with inc_gensym) until it misses;")
    out.append("    the special digit transitions of inc_gensym (from, to, carry into the next position?) in source order, any other")
    out.append("    digit is incremented; initial counter (the symbol name: sizeof(gensym_counter) - 1 bytes) -/")
    out.append("abbrev gensymProbeLoop : Bool := %s" % ("true" if sc["gensymProbeLoop"] else "false"))
    out.append("abbrev gensymSteps : List (Nat × Nat × Bool) := [%s]" % ", ".join("(%d, %d, %s)" % (a, b2, "true" if cy else "false") for a, b2, cy in sc["gensymSteps"]))
    out.append("abbrev gensymInit : List Nat := [%s]" % ", ".join(str(x) for x in sc["gensymInit"][:sc["gensymNameLen"]]))
    out.append("\n/-- struct.c janet_struct_put_ext / table.c janet_table_put: the early-return guards in front of the probe, in source order")
    out.append("    (which puts are ignored: nil key or value, NaN key, struct already full), and the fields the duplicate-key branch")
    out.append("    (`status == 0`, under `replace`) writes -/")
    for k in ("structPutGuards", "structDupWrites", "tablePutGuards"):
        out.append("abbrev %s : List String := [%s]" % (k, ", ".join('"%s"' % x for x in guards[k])))
    out.append("\nend JanetModel.Gen.Value\n")
    return "\n".join(out)


# ------------------------------------------------------------------------------------------------ abstract values (Gen/ValueAbs.lean)
def _stmts(body):
    """top-level statements of a squashed body `{...}` with the braces of single-statement blocks removed"""
    t = body.strip()
    if t.startswith("{") and t.endswith("}"):
        t = t[1:-1]
    t = t.replace("{", "").replace("}", "")
    return [x + ";" for x in t.split(";") if x]


def compare_abstract_steps(value):
    """the decisions of janet_compare_abstract in source order, locals renamed by role (a, b = the two parameters; ta, tb = what
    janet_abstract_type() of each is assigned to)"""
    b = csrc.func_body(value, "janet_compare_abstract")
    prm = _func_params(value, "janet_compare_abstract")
    if len(prm) != 2:
        raise ExtractError("janet_compare_abstract: expected 2 parameters")
    roles = {prm[0]: "a", prm[1]: "b"}
    for who, role in ((prm[0], "ta"), (prm[1], "tb")):
        m = _need(re.search(r"(\w+)\s*=\s*janet_abstract_type\s*\(\s*%s\s*\)\s*;" % re.escape(who), b), "janet_compare_abstract: type of " + who)
        roles[m.group(1)] = role
    t = _squash(_rename(b, roles))
    forms = [
        ("sameAddress:0", r"if\((a==b|b==a)\)return0;"),
        ("typeDiffers:byTypePointer", r"if\((ta!=tb|tb!=ta)\)return(ta>tb\?1:-1|ta<tb\?-1:1|tb<ta\?1:-1);"),
        ("noCompareHook:byAddress", r"if\((NULL==t[ab]->compare|!t[ab]->compare)\)return(a>b\?1:-1|a<b\?-1:1|b<a\?1:-1);"),
        ("compareHook", r"returnt[ab]->compare\(a,b\);"),
    ]
    steps = []
    for st in _stmts(t):
        if re.fullmatch(r"constJanetAbstractType\*t[ab]=janet_abstract_type\([ab]\);", st):
            continue
        tag = next((tag for tag, rx in forms if re.fullmatch(rx, st)), None)
        if tag is None:
            raise ExtractError("janet_compare_abstract: statement `%s` not recognised" % st)
        steps.append(tag)
    return steps


def _hook_shape(src, fn, kind):
    """shape of a compare / hash hook body, locals renamed by role"""
    if fn == "NULL":
        return "NULL"
    b = csrc.func_body(src, fn)
    prm = _func_params(src, fn)
    if kind == "compare":
        if len(prm) != 2:
            raise ExtractError("%s: expected 2 parameters" % fn)
        roles, ty = {}, None
        for who, role in ((prm[0], "x"), (prm[1], "y")):
            m = _need(re.search(r"\b(u?int64_t)\s+(\w+)\s*=\s*\*\s*\(\s*\(\s*\1\s*\*\s*\)\s*%s\s*\)\s*;" % re.escape(who), b), "%s: read of one 64-bit integer from %s" % (fn, who))
            if ty not in (None, m.group(1)):
                raise ExtractError("%s: the two arguments are read at different types" % fn)
            ty = m.group(1)
            roles[m.group(2)] = role
        t = _squash(_rename(b, roles))
        rest = [st for st in _stmts(t) if not re.fullmatch(r"u?int64_t[xy]=\*\(\(u?int64_t\*\)\w+\);", st)]
        ok = (len(rest) == 1 and re.fullmatch(r"return\(?(x==y|y==x)\)?\?0:\(?(\(?x<y\)?\?-1:1|\(?x>y\)?\?1:-1|\(?y>x\)?\?-1:1)\)?;", rest[0])) or \
             (len(rest) == 2 and re.fullmatch(r"if\((x==y|y==x)\)return0;", rest[0]) and re.fullmatch(r"return(x<y\?-1:1|x>y\?1:-1);", rest[1]))
        if not ok:
            raise ExtractError("%s: body is not the three-way comparison `x == y ? 0 : x < y ? -1 : 1` (found %r)" % (fn, rest))
        return "threeWay:" + ty
    if len(prm) != 2:
        raise ExtractError("%s: expected 2 parameters" % fn)
    m = _need(re.search(r"\b(u?int32_t)\s*\*\s*(\w+)\s*=\s*(?:\(\s*\1\s*\*\s*\)\s*)?%s\s*;" % re.escape(prm[0]), b), "%s: the payload read as 32-bit words" % fn)
    t = _squash(_rename(b, {m.group(2): "w"}))
    rest = [st for st in _stmts(t) if not re.fullmatch(r"u?int32_t\*w=(\(u?int32_t\*\))?\w+;", st)]
    if not (len(rest) == 1 and re.fullmatch(r"return(w\[0\]\^w\[1\]|w\[1\]\^w\[0\]);", rest[0])):
        raise ExtractError("%s: body is not `words[0] ^ words[1]` (found %r)" % (fn, rest))
    return "xorWords:int32_t"


def abstract_facts(tree):
    value = csrc.strip_comments(csrc.read(tree, "src/core/value.c"))
    f = {"compareAbstractSteps": compare_abstract_steps(value)}
    # ---- janet_hash: hook when not NULL, else fall through to the pointer hash
    b = _squash(csrc.func_body(value, "janet_hash"))
    m = _need(re.search(r"caseJANET_ABSTRACT:\{JanetAbstract(\w+)=janet_unwrap_abstract\(x\);constJanetAbstractType\*(\w+)=janet_abstract_type\(\1\);"
                        r"if\((NULL!=\2->hash|\2->hash)\)\{hash=\2->hash\(\1,janet_abstract_size\(\1\)\);break;\}\}default:", b),
              "janet_hash: JANET_ABSTRACT case (hash hook when not NULL, else fallthrough to the pointer hash)")
    f["hashAbstractHookElsePointer"] = True
    # ---- janet_equals / janet_compare: dispatch to janet_compare_abstract
    call = r"janet_compare_abstract\(janet_unwrap_abstract\(x\),janet_unwrap_abstract\(y\)\)"
    be = _squash(csrc.func_body(value, "janet_equals"))
    _need(re.search(r"caseJANET_ABSTRACT:\{?if\(" + call + r"(!=0)?\)\{?return0;\}?break;", be), "janet_equals: JANET_ABSTRACT case")
    f["equalsAbstractViaCompare"] = True
    bc = _squash(csrc.func_body(value, "janet_compare"))
    _need(re.search(r"caseJANET_ABSTRACT:\{int(\w+)=" + call + r";if\(\1(!=0)?\)\{?return\1;\}?break;\}", bc), "janet_compare: JANET_ABSTRACT case")
    f["compareAbstractDiffReturned"] = True
    # ---- pointer short-cuts of janet_equals (and their absence in janet_compare)
    def shortcut(body, unwrap):
        m2 = re.search(r"const\w+\*(\w+)=%s\(x\);const\w+\*(\w+)=%s\(y\);" % (unwrap, unwrap), body)
        if not m2:
            raise ExtractError("%s(x) / (y) not found" % unwrap)
        p, q = m2.group(1), m2.group(2)
        return bool(re.match(r"if\((%s==%s|%s==%s)\)\{?break;\}?" % (p, q, q, p), body[m2.end():]))
    f["equalsTuplePtrShortcut"] = shortcut(be, "janet_unwrap_tuple")
    f["equalsStructPtrShortcut"] = shortcut(be, "janet_unwrap_struct")
    f["compareTuplePtrShortcut"] = shortcut(bc, "janet_unwrap_tuple")
    f["compareStructPtrShortcut"] = shortcut(bc, "janet_unwrap_struct")
    # ---- hooked types and the shapes of their hooks
    hooked = []
    for fn, name, cmpf, hashf in abstract_hooks(tree):
        src = csrc.strip_comments(csrc.read(tree, "src/core/" + fn))
        if cmpf != "NULL" and hashf == "NULL":
            raise ExtractError("abstract type %s has a compare hook but no hash hook: equal values would hash by address" % name)
        hooked.append((name, _hook_shape(src, cmpf, "compare"), _hook_shape(src, hashf, "hash")))
    f["hookedTypes"] = hooked
    return f


def render_abs(tree):
    f = abstract_facts(tree)
    bl = lambda v: "true" if v else "false"
    out = ["-- GENERATED by /verif/tools/gen from the current janet source tree (src/core/value.c, inttypes.c, every JanetAbstractType initialiser of src/core).",
           "-- Regenerated on every check run; do not edit.", "", "namespace JanetModel.Gen.ValueAbs", "",
           "/-- value.c janet_compare_abstract: its decisions in source order -/",
           "abbrev compareAbstractSteps : List String := [%s]" % ", ".join('"%s"' % x for x in f["compareAbstractSteps"]), "",
           "/-- value.c: janet_hash calls `at->hash` when it is not NULL and otherwise falls through to the pointer hash; janet_equals is",
           "    `janet_compare_abstract(..) != 0 -> return 0`; janet_compare returns the non-zero result of janet_compare_abstract -/",
           "abbrev hashAbstractHookElsePointer : Bool := %s" % bl(f["hashAbstractHookElsePointer"]),
           "abbrev equalsAbstractViaCompare : Bool := %s" % bl(f["equalsAbstractViaCompare"]),
           "abbrev compareAbstractDiffReturned : Bool := %s" % bl(f["compareAbstractDiffReturned"]), "",
           "/-- pointer short-cuts: janet_equals leaves the tuple / struct case at once when both sides are the same object",
           "    (`if (t1 == t2) break;`, `if (s1 == s2) break;`); janet_compare has no such test for tuples and structs -/",
           "abbrev equalsTuplePtrShortcut : Bool := %s" % bl(f["equalsTuplePtrShortcut"]),
           "abbrev equalsStructPtrShortcut : Bool := %s" % bl(f["equalsStructPtrShortcut"]),
           "abbrev compareTuplePtrShortcut : Bool := %s" % bl(f["compareTuplePtrShortcut"]),
           "abbrev compareStructPtrShortcut : Bool := %s" % bl(f["compareStructPtrShortcut"]), "",
           "/-- every JanetAbstractType initialiser of src/core with a compare or hash hook: (type name, shape of the compare hook, shape of",
           "    the hash hook); shapes are recognised from the hook's body: `threeWay:T` = reads one T from each argument, returns",
           "    `x == y ? 0 : x < y ? -1 : 1`; `xorWords:int32_t` = returns words[0] ^ words[1] of the argument read as int32_t words -/",
           "abbrev hookedTypes : List (String × String × String) := [%s]" % ", ".join('("%s", "%s", "%s")' % h for h in f["hookedTypes"]), "",
           "end JanetModel.Gen.ValueAbs", ""]
    return "\n".join(out)


# ------------------------------------------------------------------------------------------------ traversal_next (Gen/ValueTrav.lean)
def traversal_facts(tree):
    """structure of value.c traversal_next, locals renamed by role (t = the node pointer read from janet_vm.traversal; self / other
    = what t->self / t->other are assigned to; ts, ss, to, so = their casts to JanetTupleHead* / JanetStructHead*; x, y = the two
    out-parameters): the decisions of the tuple branch and of the struct branch in source order, with the status numbers"""
    value = csrc.strip_comments(csrc.read(tree, "src/core/value.c"))
    b = csrc.func_body(value, "traversal_next")
    prm = _func_params(value, "traversal_next")
    if len(prm) != 2:
        raise ExtractError("traversal_next: expected 2 parameters")
    roles = {prm[0]: "x", prm[1]: "y"}
    m = _need(re.search(r"JanetTraversalNode\s*\*\s*(\w+)\s*=\s*janet_vm\.traversal\s*;", b), "traversal_next: node pointer")
    t = m.group(1)
    roles[t] = "t"
    for fld, role in (("self", "self"), ("other", "other")):
        m = _need(re.search(r"JanetGCObject\s*\*\s*(\w+)\s*=\s*%s\s*->\s*%s\s*;" % (re.escape(t), fld), b), "traversal_next: t->" + fld)
        roles[m.group(1)] = role
    inv = {v: k for k, v in roles.items()}
    for ty, pre in (("JanetTupleHead", "t"), ("JanetStructHead", "s")):
        for who in ("self", "other"):
            m = _need(re.search(r"%s\s*\*\s*(\w+)\s*=\s*\(\s*%s\s*\*\s*\)\s*%s\s*;" % (ty, ty, re.escape(inv[who])), b), "traversal_next: cast of %s to %s" % (who, ty))
            roles[m.group(1)] = pre + who[0]          # ts, to, ss, so
    if len(set(roles.values())) != len(roles):
        raise ExtractError("traversal_next: roles not distinct: %r" % roles)
    clash = {v: v + "_other" for v in roles.values() if v not in roles and re.search(r"\b%s\b" % v, b)}
    q = _squash(_rename(_rename(b, clash), roles))
    f = {}
    _need(re.search(r"while\(t&&t>janet_vm\.traversal_base\)\{", q), "traversal_next: loop over the stack")
    _need(re.search(r"if\(\(self->flags&JANET_MEM_TYPEBITS\)==JANET_MEMORY_TUPLE\)\{", q), "traversal_next: tuple / struct discrimination")
    # tuple branch
    _need(re.search(r"if\(t->index<ts->length&&t->index<to->length\)\{int32_t(\w+)=t->index\+\+;\*x=ts->data\[\1\];\*y=to->data\[\1\];janet_vm\.traversal=t;return0;\}", q),
          "traversal_next tuple branch: next element while the index is inside BOTH tuples")
    m = _need(re.search(r"if\(t->index2&&ts->length!=to->length\)\{?returnts->length>to->length\?(\d+):(\d+);\}?", q),
              "traversal_next tuple branch: length comparison when index2 is set")
    f["travTupleLonger"], f["travTupleShorter"] = int(m.group(1)), int(m.group(2))
    # struct branch
    _need(re.search(r"if\(t->index2\)\{t->index2=0;int32_t(\w+)=t->index\+\+;\*x=ss->data\[\1\]\.value;\*y=so->data\[\1\]\.value;janet_vm\.traversal=t;return0;\}", q),
          "traversal_next struct branch: the value of the slot whose key was just compared")
    _need(re.search(r"for\(int32_t(\w+)=t->index;\1<ss->capacity;\1\+\+\)\{t->index2=1;\*x=ss->data\[t->index\]\.key;\*y=so->data\[t->index\]\.key;janet_vm\.traversal=t;return0;\}", q),
          "traversal_next struct branch: next key while the index is below SELF's capacity")
    m = _need(re.search(r"JanetStruct(\w+)=ss->proto;JanetStruct(\w+)=so->proto;if\(\1&&!\2\)return(\d+);if\(!\1&&\2\)return(\d+);"
                        r"if\((?:\2&&\1|\1&&\2)\)\{\*x=janet_wrap_struct\(\1\);\*y=janet_wrap_struct\(\2\);janet_vm\.traversal=t-1;return0;\}", q),
              "traversal_next struct branch: prototypes (only self: greater; only other: less; both: compare them, frame popped)")
    f["travProtoSelfOnly"], f["travProtoOtherOnly"] = int(m.group(3)), int(m.group(4))
    m = _need(re.search(r"\}t--;\}janet_vm\.traversal=t;return(\d+);\}$", q), "traversal_next: pop and the final status")
    f["travExhausted"] = int(m.group(1))
    # how the two callers read the status
    bc = _squash(csrc.func_body(value, "janet_compare"))
    m = _need(re.search(r"while\(!\((\w+)=traversal_next\(&x,&y\)\)\);return\1-(\d+);", bc), "janet_compare: `return status - 2`")
    f["travCompareBias"] = int(m.group(2))
    be = _squash(csrc.func_body(value, "janet_equals"))
    _need(re.search(r"while\(!traversal_next\(&x,&y\)\);return1;", be), "janet_equals: `return 1` after the loop")
    return f


def render_trav(tree):
    f = traversal_facts(tree)
    out = ["-- GENERATED by /verif/tools/gen from the current janet source tree (src/core/value.c traversal_next, janet_compare, janet_equals).",
           "-- Regenerated on every check run; do not edit.", "", "namespace JanetModel.Gen.ValueTrav", "",
           "/-- traversal_next: the statuses it returns.  Tuple frame with index2 set and different lengths: self longer / self shorter;",
           "    struct frame after the last slot: only self has a prototype / only other has one; stack exhausted; janet_compare returns",
           "    `status - travCompareBias`.  (That the next element is taken while the index is inside BOTH tuples, the next key while the",
           "    index is below SELF's capacity, the value right after its key, and that the frame is popped when the prototypes are",
           "    pushed, are shape assertions of the translator.) -/"]
    for k in ("travTupleLonger", "travTupleShorter", "travProtoSelfOnly", "travProtoOtherOnly", "travExhausted", "travCompareBias"):
        out.append("abbrev %s : Nat := %d" % (k, f[k]))
    out += ["", "end JanetModel.Gen.ValueTrav", ""]
    return "\n".join(out)
