"""C10 translator: the READ SITES of the unmarshaller (marsh.c) -> lean/JanetModel/Gen/UnmarshSites.lean.

For every place where marsh.c dereferences the input pointer (`*data`, `data[k]`, memcpy / janet_string / ... from `data`)
this extracts the `MARSH_EOS(st, data + <var> + k)` that precedes it in the same region (guard = none when the region has
no such test) and the largest offset dereferenced under it, taking `data++` / `data += k` in between into account.
The Lean model (Unmarsh/Bytes.lean) performs its checks with the extracted offsets; `Sites.ok` (checked by `decide` in
Unmarsh/BytesObligations.lean) demands that every guard dominates the reads.  Removing a check therefore breaks the
obligation, and the model - run with the extracted table - answers `oob` on the truncated input that the real code
over-reads.

Also extracted: presence of the count check in peg_unmarshal, the call sequence of every abstract type's unmarshal hook
(classified into the kinds the model knows; an unknown sequence is a broken tie), the funcdef / fiber flag constants the
model hard-codes (asserted), JOP_CALL.
"""
import re

from .csrc import ExtractError, read, strip_comments, func_body, enum_values, lean_header

# ---------------------------------------------------------------------------------------------- generic region scanner
EOS_RE = re.compile(r"MARSH_EOS\s*\(\s*st\s*,\s*([^;]*?)\)\s*;")


def parse_offset(expr, ptr, var):
    """`<ptr> [+ var] [+|- k]` in any order -> (uses_var, const).  sizeof(void *), sizeof(double), sizeof(JanetCFunction) = 8."""
    e = expr.replace(" ", "")
    e = e.replace("sizeof(void*)", "8").replace("sizeof(JanetCFunction)", "8").replace("sizeof(double)", "8")
    if not e.startswith(ptr):
        raise ExtractError("offset expression %r does not start with %s" % (expr, ptr))
    e = e[len(ptr):]
    uses, const = False, 0
    for sign, tok in re.findall(r"([+-])([A-Za-z_]\w*|\d+)", e):
        if tok.isdigit():
            const += int(tok) if sign == "+" else -int(tok)
        elif var is not None and tok == var and sign == "+" and not uses:
            uses = True
        else:
            raise ExtractError("unexpected term %s%s in offset expression %r" % (sign, tok, expr))
    if "".join(s + t for s, t in re.findall(r"([+-])([A-Za-z_]\w*|\d+)", e)) != e:
        raise ExtractError("cannot parse offset expression %r" % expr)
    return uses, const


def scan_region(text, ptr, var, what):
    """-> (guard or None, guard_uses_var, max_read, reads_use_var).  `text` = one region of straight-line code (in textual
    order).  Reads before the first MARSH_EOS of the region count too (they are unguarded: guard None is reported when a
    read precedes every test)."""
    events = []
    for m in EOS_RE.finditer(text):
        events.append((m.start(), "eos", m.group(1)))
    p = re.escape(ptr)
    for m in re.finditer(r"(?<![\w>.])%s\s*\+\+|\+\+\s*%s\b" % (p, p), text):
        events.append((m.start(), "adv", 1))
    for m in re.finditer(r"(?<![\w>.])%s\s*\+=\s*([^;]+);" % p, text):
        events.append((m.start(), "advx", m.group(1).strip()))
    for m in re.finditer(r"\*\s*\(?\s*%s\b" % p, text):
        # `*data`, `*data++`, `*(ctx->data++)` read at the current position; `uint8_t *data` (declaration) does not
        before = text[:m.start()].rstrip()
        w = re.search(r"(\w+)$", before)
        if w and w.group(1) != "return":
            continue
        events.append((m.start(), "read", (False, 0)))
    for m in re.finditer(r"(?<![\w>.])%s\s*\[\s*(\w+)\s*\]" % p, text):
        k = m.group(1)
        if k.isdigit():
            events.append((m.start(), "read", (False, int(k))))
        elif var is not None and re.search(r"for\s*\(\s*int\s+%s\s*=\s*%s\s*;\s*%s\s*>\s*0\s*;\s*%s--\s*\)" % (k, var, k, k), text):
            events.append((m.start(), "read", (True, 0)))     # data[i], i = var .. 1
        else:
            raise ExtractError("%s: index %s[%s] not understood" % (what, ptr, k))
    # block copies: memcpy / safe_memcpy(dst, data [+ a], n), janet_string/symbol/keyword/symbolv(data, n)
    for m in re.finditer(r"\b(memcpy|safe_memcpy)\s*\(\s*[^,]+,\s*(%s(?:\s*\+\s*\d+)?)\s*,\s*(.*?)\)\s*;" % p, text):
        a = parse_offset(m.group(2), ptr, None)[1]
        n = m.group(3).strip().replace(" ", "")
        n = {"sizeof(double)": 8, "sizeof(void*)": 8, "sizeof(JanetCFunction)": 8}.get(n, n)
        if isinstance(n, int):
            events.append((m.start(), "read", (False, a + n - 1)))
        elif var is not None and n == var:
            events.append((m.start(), "read", (True, a - 1)))
        else:
            raise ExtractError("%s: copy length %r not understood" % (what, n))
    for m in re.finditer(r"\bjanet_(string|symbol|keyword|symbolv)\s*\(\s*%s\s*,\s*(\w+)\s*\)" % p, text):
        if var is None or m.group(2) != var:
            raise ExtractError("%s: janet_%s(%s, %s) not understood" % (what, m.group(1), ptr, m.group(2)))
        events.append((m.start(), "read", (True, -1)))
    events.sort(key=lambda e: e[0])
    mu = re.search(r"if\s*\(\s*!\s*\(\s*(?:ctx->)?flags\s*&\s*JANET_MARSHAL_UNSAFE\s*\)\s*\)\s*\{?\s*janet_panicf?\s*\(", text)
    unsafe_at = mu.start() if mu else None
    guard, guard_var, base = None, False, 0     # base = pointer shift at the time of the test
    shift = 0
    reads, unsafe_reads, unguarded = [], [], False
    for pos, kind, val in events:
        if kind == "eos":
            if guard is not None:
                raise ExtractError("%s: more than one MARSH_EOS in the region" % what)
            guard_var, guard = parse_offset(val, ptr, var)
            base = shift
        elif kind == "adv":
            shift += val
        elif kind == "advx":
            v = str(val).replace("sizeof(void *)", "8").replace("sizeof(JanetCFunction)", "8")
            if v.isdigit():
                shift += int(v)
        else:
            uses, k = val
            if unsafe_at is not None and pos > unsafe_at:
                unsafe_reads.append(shift - base + k)       # only reachable with JANET_MARSHAL_UNSAFE
                continue
            if guard is None:
                unguarded = True
            reads.append((uses, shift - base + k))
    if unguarded:
        guard, guard_var = None, False
    if guard is not None and unsafe_reads and max(unsafe_reads) > guard:
        raise ExtractError("%s: unsafe-mode copy reaches offset %d beyond the tested offset %d" % (what, max(unsafe_reads), guard))
    read_var = any(u for u, _ in reads)
    sel = [k for u, k in reads if u == read_var]
    max_read = max(sel) if sel else -1
    return guard, guard_var, max_read, read_var


def between(src, start_re, end_re, what, after=0):
    m = re.compile(start_re, re.S).search(src, after)
    if not m:
        raise ExtractError("%s: start anchor %r not found" % (what, start_re))
    e = re.compile(end_re, re.S).search(src, m.end())
    if not e:
        raise ExtractError("%s: end anchor %r not found" % (what, end_re))
    return src[m.end():e.start()], m.end(), e.start()


# name, function, region start, region end, pointer, variable part, expected (guard uses var, reads use var)
SITES = [
    ("intLead", "readint", r"\{", r"else\s+if\s*\(\s*\*data\s*<\s*192\s*\)\s*\{", "data", None),
    ("int2", "readint", r"else\s+if\s*\(\s*\*data\s*<\s*192\s*\)\s*\{", r"\}\s*else\s+if\s*\(\s*\*data\s*==\s*LB_INTEGER\s*\)", "data", None),
    ("int5", "readint", r"else\s+if\s*\(\s*\*data\s*==\s*LB_INTEGER\s*\)\s*\{", r"\}\s*else\s*\{", "data", None),
    ("r64Lead", "read64", r"\{", r"int\s+nbytes\s*=", "data", None),
    ("r64Multi", "read64", r"int\s+nbytes\s*=[^;]*;", r"\*atdata\s*=\s*data\s*\+\s*nbytes\s*\+\s*1\s*;", "data", "nbytes"),
    ("envLead", "unmarshal_one_env", r"\{", r"data\+\+", "data", None),
    ("u32", "janet_unmarshal_u32s", r"for\s*\([^)]*\)\s*\{", r"data\s*\+=\s*4\s*;", "data", None),
    ("defLead", "unmarshal_one_def", r"\{", r"data\+\+", "data", None),
    ("oneLead", "unmarshal_one", r"\{", r"if\s*\(\s*lead\s*<\s*LB_REAL\s*\)", "data", None),
    ("oneInt", "unmarshal_one", r"case\s+LB_INTEGER\s*:", r"return\s+data\s*\+\s*5\s*;", "data", None),
    ("oneReal", "unmarshal_one", r"case\s+LB_REAL\s*:", r"return\s+data\s*\+\s*9\s*;", "data", None),
    ("oneBytes", "unmarshal_one", r"case\s+LB_REGISTRY\s*:\s*\{\s*data\+\+\s*;\s*int32_t\s+len\s*=\s*readnat\s*\(\s*st\s*,\s*&data\s*\)\s*;", r"return\s+data\s*\+\s*len\s*;", "data", "len"),
    ("oneDos", "unmarshal_one", r"case\s+LB_TABLE_WEAKKV_PROTO\s*:\s*\{\s*data\+\+\s*;\s*int32_t\s+len\s*=\s*readnat\s*\(\s*st\s*,\s*&data\s*\)\s*;", r"if\s*\(\s*lead\s*==\s*LB_ARRAY\b", "data", "len"),
    ("unsafePtr", "unmarshal_one", r"case\s+LB_UNSAFE_POINTER\s*:\s*\{", r"\*out\s*=", "data", None),
    ("ptrBuf", "unmarshal_one", r"case\s+LB_POINTER_BUFFER\s*:\s*\{\s*data\+\+\s*;\s*int32_t\s+count\s*=\s*readnat\s*\(\s*st\s*,\s*&data\s*\)\s*;\s*int32_t\s+capacity\s*=\s*readnat\s*\(\s*st\s*,\s*&data\s*\)\s*;", r"JanetBuffer\s*\*buffer", "data", None),
    ("unsafeCfun", "unmarshal_one", r"case\s+LB_UNSAFE_CFUNCTION\s*:\s*\{", r"\*out\s*=", "data", None),
    ("thrAbs", "unmarshal_one", r"case\s+LB_THREADED_ABSTRACT\s*:\s*\{", r"if\s*\(\s*flags\s*&\s*JANET_MARSHAL_DECREF\s*\)", "data", None),
    ("ubyte", "janet_unmarshal_byte", r"\{", r"\}\s*$", "ctx->data", None),
    ("ubytes", "janet_unmarshal_bytes", r"\{", r"ctx->data\s*\+=\s*len\s*;", "ctx->data", "len"),
    ("ensure", "janet_unmarshal_ensure", r"\{", r"\}\s*$", "ctx->data", "size"),
]
# sites whose offsets carry the variable part (asserted: both the test and the reads must use it)
USES_VAR = {"r64Multi": (True, True), "oneBytes": (True, True), "oneDos": (True, False), "ubytes": (True, True), "ensure": (True, False)}


def extract_sites(tree):
    src = strip_comments(read(tree, "src/core/marsh.c"))
    if not re.search(r"#define\s+MARSH_EOS\s*\(\s*st\s*,\s*data\s*\)\s*do\s*\{\s*\\\s*if\s*\(\s*\(data\)\s*>=\s*\(st\)->end\s*\)\s*janet_panic\(", src):
        raise ExtractError("MARSH_EOS no longer has the shape `if ((data) >= (st)->end) janet_panic(...)`")
    out = {}
    for name, fn, sre, ere, ptr, var in SITES:
        body = func_body(src, fn)
        region, _, _ = between(body, sre, ere, "site %s in %s" % (name, fn))
        guard, gvar, mx, rvar = scan_region(region, ptr, var, "site %s in %s" % (name, fn))
        exp_g, exp_r = USES_VAR.get(name, (False, False))
        if guard is not None and gvar != exp_g:
            raise ExtractError("site %s: test offset %s the variable part %s" % (name, "lacks" if exp_g else "has", var))
        if rvar != exp_r and mx >= 0:
            raise ExtractError("site %s: reads %s the variable part %s" % (name, "lack" if exp_r else "use", var))
        out[name] = (guard, mx)
    # janet_unmarshal_ptr: unsafe mode only (panics first otherwise); not part of the safe-mode model, checked here
    body = func_body(src, "janet_unmarshal_ptr")
    if not re.search(r"^\{\s*if\s*\(\s*!\s*\(\s*ctx->flags\s*&\s*JANET_MARSHAL_UNSAFE\s*\)\s*\)\s*\{\s*janet_panic\s*\(", body):
        raise ExtractError("janet_unmarshal_ptr no longer refuses safe mode first")
    g, gv, mx, rv = scan_region(body[body.index("UnmarshalState"):], "ctx->data", None, "janet_unmarshal_ptr")
    if g is None or mx > g:
        raise ExtractError("janet_unmarshal_ptr: copy reaches offset %s beyond the tested offset %s" % (mx, g))
    # every MARSH_EOS of the unmarshal half must belong to a site above (the #define itself matches the pattern once)
    half = src[src.index("#define MARSH_EOS"):]
    total = len(EOS_RE.findall(half)) - 1
    if total > len(SITES) + 1:
        raise ExtractError("marsh.c has %d MARSH_EOS tests, the site table knows %d: new read site to classify" % (total, len(SITES) + 1))
    return out


# ---------------------------------------------------------------------------------------------- recursion depth per call site
# Every recursive edge of the unmarshaller: (function, callees in textual order -> field of `Incs`).  The last argument of
# each call must be `flags`, `flags + k` or `ctx->flags + k`; `k` is what the Lean model adds to its depth counter at that
# call (Unmarsh/Bytes.lean), and `Incs.ok` (BytesObligations.depths_ok) demands that every path from one MARSH_STACKCHECK
# to the next adds at least 1.
CALLEES = ("unmarshal_one", "unmarshal_one_def", "unmarshal_one_env", "unmarshal_one_fiber", "unmarshal_one_abstract")
INC_SITES = [
    ("unmarshal_one_env", [("unmarshal_one", "envFiber"), ("unmarshal_one", "envValue")]),
    ("unmarshal_one_def", [("unmarshal_one", "defName"), ("unmarshal_one", "defSource"), ("unmarshal_one", "defConst"),
                           ("unmarshal_one", "defSym"), ("unmarshal_one_def", "defSub")]),
    ("unmarshal_one_fiber", [("unmarshal_one", "fbFrameFn"), ("unmarshal_one_env", "fbFrameEnv"), ("unmarshal_one", "fbSlot"),
                             ("unmarshal_one", "fbEnv"), ("unmarshal_one", "fbChild"), ("unmarshal_one", "fbLast")]),
    ("janet_unmarshal_janet", [("unmarshal_one", "hookJanet")]),
    ("unmarshal_one_abstract", [("unmarshal_one", "absKey")]),
    ("unmarshal_one", [("unmarshal_one_fiber", "oneFiber"), ("unmarshal_one_def", "oneDef"), ("unmarshal_one_env", "oneEnv"),
                       ("unmarshal_one_abstract", "oneAbstract"), ("unmarshal_one", "arrElem"), ("unmarshal_one", "tupElem"),
                       ("unmarshal_one", "structProto"), ("unmarshal_one", "structKey"), ("unmarshal_one", "structVal"),
                       ("unmarshal_one", "tabProto"), ("unmarshal_one", "tabKey"), ("unmarshal_one", "tabVal")]),
]
INC_FIELDS = [f for _, seq in INC_SITES for _, f in seq] + ["absCtx"]


def split_args(s):
    out, depth, cur = [], 0, ""
    for ch in s:
        if ch in "([{":
            depth += 1
        elif ch in ")]}":
            depth -= 1
        if ch == "," and depth == 0:
            out.append(cur.strip())
            cur = ""
        else:
            cur += ch
    out.append(cur.strip())
    return out


def parse_depth_arg(arg, what):
    """`flags` | `flags + k` | `k + flags` | `ctx->flags + k` (parentheses / spaces ignored) -> k"""
    a = re.sub(r"[\s()]", "", arg)
    m = re.fullmatch(r"(?:ctx->)?flags(?:\+(\d+))?", a) or re.fullmatch(r"(\d+)\+(?:ctx->)?flags", a)
    if not m:
        raise ExtractError("%s: depth argument %r is not `flags [+ k]`" % (what, arg))
    return int(m.group(1) or 0)


def calls_in(body):
    """[(callee, [args])] of the five recursive entry points, in textual order"""
    out = []
    for m in re.finditer(r"\b(%s)\s*\(" % "|".join(CALLEES), body):
        if body[:m.start()].rstrip().endswith("*"):
            continue            # `static const uint8_t *unmarshal_one(`: declaration / definition header
        i, depth = m.end() - 1, 0
        while True:
            if body[i] == "(":
                depth += 1
            elif body[i] == ")":
                depth -= 1
                if depth == 0:
                    break
            i += 1
        out.append((m.group(1), split_args(body[m.end():i])))
    return out


def extract_incs(tree):
    src = strip_comments(read(tree, "src/core/marsh.c"))
    out = {}
    total = 0
    for fn, seq in INC_SITES:
        body = func_body(src, fn)
        got = calls_in(body[1:])
        if [c for c, _ in got] != [c for c, _ in seq]:
            raise ExtractError("%s: recursive calls %s, the model knows %s" % (fn, [c for c, _ in got], [c for c, _ in seq]))
        for (callee, args), (_, field) in zip(got, seq):
            if len(args) != 4:
                raise ExtractError("%s: call of %s has %d arguments" % (fn, callee, len(args)))
            out[field] = parse_depth_arg(args[3], "%s -> %s (%s)" % (fn, callee, field))
        total += len(got)
    # the marshal context handed to the abstract type's hook: {NULL, st, flags + k, data, at}
    ab = func_body(src, "unmarshal_one_abstract")
    m = re.search(r"JanetMarshalContext\s+context\s*=\s*\{([^}]*)\}\s*;", ab)
    if not m:
        raise ExtractError("unmarshal_one_abstract: marshal context initialiser not found")
    ca = split_args(m.group(1))
    if len(ca) != 5 or ca[1] != "st":
        raise ExtractError("unmarshal_one_abstract: marshal context initialiser changed shape: %r" % ca)
    out["absCtx"] = parse_depth_arg(ca[2], "unmarshal_one_abstract marshal context")
    # the order of JanetMarshalContext's fields (flags third)
    h = strip_comments(read(tree, "src/include/janet.h"))
    if not re.search(r"typedef\s+struct\s*\{\s*void\s*\*m_state\s*;\s*void\s*\*u_state\s*;\s*int\s+flags\s*;\s*const\s+uint8_t\s*\*data\s*;\s*const\s+JanetAbstractType\s*\*at\s*;\s*\}\s*JanetMarshalContext\s*;", h):
        raise ExtractError("JanetMarshalContext field order changed")
    # nobody else re-enters the unmarshaller (the entry point janet_unmarshal itself calls unmarshal_one once)
    half = src[src.index("#define MARSH_EOS"):]
    allcalls = calls_in(half)
    if len(allcalls) != total + 1:
        raise ExtractError("marsh.c has %d calls of the recursive unmarshal functions, the model knows %d" % (len(allcalls), total + 1))
    top = func_body(src, "janet_unmarshal")
    tc = calls_in(top[1:])
    if len(tc) != 1 or tc[0][0] != "unmarshal_one" or re.sub(r"\s", "", tc[0][1][3]) != "flags":
        raise ExtractError("janet_unmarshal no longer enters unmarshal_one with its own flags")
    # checked entry points: MARSH_STACKCHECK is the first statement of unmarshal_one and unmarshal_one_def
    for fn in ("unmarshal_one", "unmarshal_one_def"):
        b = func_body(src, fn)
        first = b.index("MARSH_STACKCHECK") if "MARSH_STACKCHECK" in b else -1
        if first < 0 or calls_in(b[1:first]) or "data" in re.sub(r"\b(uint8_t|int32_t|JanetFuncDef|Janet)\b[^;]*;", "", b[1:first]):
            raise ExtractError("%s: MARSH_STACKCHECK is no longer the first statement" % fn)
    return out


# ---------------------------------------------------------------------------------------------- abstract hooks
HOOK_KINDS = {
    # kind -> sequence of janet_unmarshal_* calls (in textual order) of the hook
    1: ["abstract", "int64"],
    2: ["abstract", "int", "int", "int", "int", "int"],
    3: ["abstract", "int", "int"],                         # file: only with JANET_MARSHAL_UNSAFE
    4: ["abstract", "int", "ptr", "int64", "int"],         # stream: panics first without JANET_MARSHAL_UNSAFE (both #if arms listed)
    5: ["byte", "abstract_threaded", "abstract", "byte", "int", "int", "janet"],
    6: ["size", "int", "ensure?", "abstract", "int", "janet"],
}


def extract_abstracts(tree):
    """[(name, kind)] for every registered abstract type of the core"""
    import glob
    import os
    regs, types = [], {}
    for f in sorted(glob.glob(os.path.join(tree, "src/core/*.c"))):
        s = strip_comments(open(f, encoding="utf-8", errors="replace").read())
        for m in re.finditer(r"janet_register_abstract_type\s*\(\s*&\s*(\w+)\s*\)", s):
            regs.append(m.group(1))
        for m in re.finditer(r"const\s+JanetAbstractType\s+(\w+)\s*=\s*\{", s):
            i = s.index("{", m.start())
            depth, j = 0, i
            while True:
                if s[j] == "{":
                    depth += 1
                elif s[j] == "}":
                    depth -= 1
                    if depth == 0:
                        break
                j += 1
            fields = [x.strip() for x in s[i + 1:j].split(",")]
            types[m.group(1)] = (fields, s)
    out = []
    for var in regs:
        if var not in types:
            raise ExtractError("registered abstract type %s: initialiser not found" % var)
        fields, s = types[var]
        nm = re.match(r'^"([^"]*)"$', fields[0])
        if not nm:
            raise ExtractError("abstract type %s: name is not a string literal" % var)
        hook = fields[6] if len(fields) > 6 else "NULL"
        m2 = re.search(r"JANET_ATEND_(\w+)", ",".join(fields))
        if m2 and len(fields) <= 6:
            hook = "NULL"
        if hook.startswith("JANET_ATEND") or hook == "NULL" or hook == "0":
            out.append((nm.group(1), 0, None))
            continue
        body = func_body(s, hook)
        calls = re.findall(r"janet_unmarshal_(\w+)\s*\(", body)
        kind = None
        for k, seq in HOOK_KINDS.items():
            want = [c for c in seq if not c.endswith("?")]
            opt = [c[:-1] for c in seq if c.endswith("?")]
            got = [c for c in calls if c not in opt]
            if got == want:
                kind = k
        if kind is None:
            raise ExtractError("unmarshal hook %s of %s calls %s: not one of the modelled sequences" % (hook, nm.group(1), calls))
        safe_panics = bool(re.search(r"JANET_MARSHAL_UNSAFE", body))
        if kind in (3, 4) and not safe_panics:
            raise ExtractError("hook %s no longer refuses safe mode" % hook)
        if kind not in (3, 4) and safe_panics:
            raise ExtractError("hook %s tests JANET_MARSHAL_UNSAFE: not modelled" % hook)
        out.append((nm.group(1), kind, hook))
    return out


def peg_size_checked(tree):
    src = strip_comments(read(tree, "src/core/peg.c"))
    body = func_body(src, "peg_unmarshal")
    head = body[:body.index("janet_unmarshal_abstract")]
    bound = re.search(r"if\s*\(\s*bytecode_len\s*>\s*INT32_MAX\s*\|\|\s*num_constants\s*>\s*INT32_MAX\s*\)\s*janet_panic\s*\(", head)
    ens = re.search(r"if\s*\(\s*bytecode_len\s*\+\s*num_constants\s*>\s*0\s*\)\s*janet_unmarshal_ensure\s*\(\s*ctx\s*,\s*bytecode_len\s*\+\s*num_constants\s*-\s*1\s*\)", head)
    if bool(bound) != bool(ens):
        raise ExtractError("peg_unmarshal: count check has an unrecognised shape")
    if not re.search(r"size_t\s+bytecode_len\s*=\s*janet_unmarshal_size\s*\(ctx\)\s*;\s*uint32_t\s+num_constants\s*=\s*\(uint32_t\)\s*janet_unmarshal_int\s*\(ctx\)", head):
        raise ExtractError("peg_unmarshal: header reads changed")
    return bool(bound)


def assert_constants(tree):
    h = strip_comments(read(tree, "src/include/janet.h"))
    m = strip_comments(read(tree, "src/core/marsh.c"))
    fh = strip_comments(read(tree, "src/core/fiber.h"))
    want = {"JANET_FUNCDEF_FLAG_VARARG": 0x10000, "JANET_FUNCDEF_FLAG_HASSYMBOLMAP": 0x40000, "JANET_FUNCDEF_FLAG_HASNAME": 0x80000,
            "JANET_FUNCDEF_FLAG_HASSOURCE": 0x100000, "JANET_FUNCDEF_FLAG_HASDEFS": 0x200000, "JANET_FUNCDEF_FLAG_HASENVS": 0x400000,
            "JANET_FUNCDEF_FLAG_HASSOURCEMAP": 0x800000, "JANET_FUNCDEF_FLAG_HASCLOBITSET": 0x2000000, "JANET_STACKFRAME_ENTRANCE": 2,
            "JANET_FRAME_SIZE": 4, "JANET_RECURSION_GUARD": 1024}
    for k, v in want.items():
        mm = re.search(r"#define\s+%s\s+(\S+)" % k, h)
        if not mm or int(mm.group(1), 0) != v:
            raise ExtractError("constant %s is not %#x" % (k, v))
    for k, v in {"JANET_FIBER_STATUS_MASK": 0x3F0000, "JANET_FIBER_STATUS_OFFSET": 16, "JANET_FIBER_RESUME_NO_USEVAL": 0x2000000,
                 "JANET_FIBER_RESUME_NO_SKIP": 0x4000000}.items():
        mm = re.search(r"#define\s+%s\s+(\S+)" % k, fh)
        if not mm or int(mm.group(1), 0) != v:
            raise ExtractError("constant %s is not %#x" % (k, v))
    for k, v in {"JANET_FIBER_FLAG_HASCHILD": "(1 << 29)", "JANET_FIBER_FLAG_HASENV": "(1 << 30)", "JANET_STACKFRAME_HASENV": "(INT32_MIN)"}.items():
        if not re.search(r"#define\s+%s\s+%s" % (k, re.escape(v)), m):
            raise ExtractError("constant %s is not %s" % (k, v))
    if not re.search(r"#define\s+MARSH_STACKCHECK\s+if\s*\(\s*\(flags\s*&\s*0xFFFF\)\s*>\s*JANET_RECURSION_GUARD\s*\)", m):
        raise ExtractError("MARSH_STACKCHECK changed shape")
    st = enum_values(h, "JANET_STATUS_DEAD")
    if [st.get(k) for k in ("JANET_STATUS_DEAD", "JANET_STATUS_ERROR", "JANET_STATUS_USER0", "JANET_STATUS_USER4", "JANET_STATUS_ALIVE")] != [0, 1, 4, 8, 15]:
        raise ExtractError("fiber status enum changed")



# ---------------------------------------------------------------------------------------------- asm -> janet_verify
def asm_returns(tree):
    """every `return` of janet_asm1 (asm.c): (status is JANET_ASSEMBLE_OK, the returned def passed `janet_verify` on the
    way: test with a no-return error branch, nothing but the whitelisted statements between the test and the return)."""
    src = strip_comments(read(tree, "src/core/asm.c"))
    # keep the non-BSD arm of `#if defined(JANET_BSD) || defined(JANET_APPLE) … #else … #endif` (setjmp vs _setjmp)
    src = re.sub(r"#if\s+defined\(JANET_BSD\)\s*\|\|\s*defined\(JANET_APPLE\)[^\n]*\n.*?#else[^\n]*\n(.*?)#endif[^\n]*\n", r"\1", src, flags=re.S)
    body = func_body(src, "janet_asm1")
    if re.search(r"\bgoto\b", body):
        raise ExtractError("janet_asm1 uses goto: exit paths not understood")
    # the error helpers never return
    if not re.search(r"a->errmessage\s*=\s*m\s*;\s*janet_asm_longjmp\s*\(\s*a\s*\)\s*;\s*\}\s*$", func_body(src, "janet_asm_errorv")):
        raise ExtractError("janet_asm_errorv no longer ends in janet_asm_longjmp")
    lj = func_body(src, "janet_asm_longjmp")
    if not re.search(r"\blongjmp\s*\(\s*a->on_error\s*,\s*1\s*\)\s*;", lj):
        raise ExtractError("janet_asm_longjmp no longer calls longjmp")
    rets = [m for m in re.finditer(r"\breturn\b\s*([^;]*);", body)]
    out = []
    for m in rets:
        if m.group(1).strip() != "result":
            raise ExtractError("janet_asm1: return of %r not understood" % m.group(1))
        before = body[:m.start()]
        st = list(re.finditer(r"result\.status\s*=\s*(\w+)\s*;", before))
        if not st:
            raise ExtractError("janet_asm1: return without a status assignment")
        ok = st[-1].group(1) == "JANET_ASSEMBLE_OK"
        verified = False
        if ok:
            v = re.search(r"int\s+verify_status\s*=\s*janet_verify\s*\(\s*def\s*\)\s*;\s*if\s*\(\s*verify_status\s*\)\s*\{\s*janet_asm_errorv\s*\([^;]*\)\s*;\s*\}", before)
            if v:
                tail = re.sub(r"\s+", " ", before[v.end():]).strip()
                verified = tail == "janet_def_addflags(def); janet_asm_deinit(&a); result.error = NULL; result.funcdef = def; result.status = JANET_ASSEMBLE_OK;"
        else:
            if not re.search(r"result\.funcdef\s*=\s*NULL\s*;", before[-300:]):
                raise ExtractError("janet_asm1: error return does not clear result.funcdef")
        out.append((ok, verified))
    # janet_def_addflags only toggles the HAS* presence flags (none of them is read by janet_verify)
    cs = strip_comments(read(tree, "src/core/compile.c"))
    af = func_body(cs, "janet_def_addflags")
    flags = set(re.findall(r"JANET_FUNCDEF_FLAG_(\w+)", af))
    if not flags <= {"HASNAME", "HASSOURCE", "HASDEFS", "HASENVS", "HASSOURCEMAP", "HASCLOBITSET", "HASSYMBOLMAP"}:
        raise ExtractError("janet_def_addflags touches flags %s" % sorted(flags))
    if re.search(r"def->(?!flags\b|name\b|source\b|defs\b|environments\b|sourcemap\b|closure_bitset\b|symbolmap\b)\w+", af) or \
            len(re.findall(r"def->\w+\s*(?:\|=|&=|=)[^=]", af)) != 2:
        raise ExtractError("janet_def_addflags writes something else than def->flags")
    # the only caller in core that hands an assembled def to the VM: cfun_asm -> janet_asm -> janet_asm1
    if not re.search(r"return\s+janet_asm1\s*\(\s*NULL\s*,\s*source\s*,\s*flags\s*\)\s*;", func_body(src, "janet_asm")):
        raise ExtractError("janet_asm is no longer a plain call of janet_asm1")
    return out


# ---------------------------------------------------------------------------------------------- reference tables
def ref_checks(tree):
    """is each index into st->lookup / st->lookup_envs / st->lookup_defs preceded by its bounds test?"""
    src = strip_comments(read(tree, "src/core/marsh.c"))
    half = src[src.index("#define MARSH_EOS"):]
    out = {}
    env = func_body(src, "unmarshal_one_env")
    d = env.find("st->lookup_envs[index]")
    t = re.search(r"if\s*\(\s*index\s*<\s*0\s*\|\|\s*index\s*>=\s*janet_v_count\s*\(\s*st->lookup_envs\s*\)\s*\)\s*janet_panicf\s*\(", env)
    if d < 0:
        raise ExtractError("unmarshal_one_env: st->lookup_envs[index] not found")
    out["envRefChecked"] = bool(t and t.start() < d)
    df = func_body(src, "unmarshal_one_def")
    d1, d2 = df.find("st->lookup_defs_done[index]"), df.find("st->lookup_defs[index]")
    t = re.search(r"if\s*\(\s*index\s*<\s*0\s*\|\|\s*index\s*>=\s*janet_v_count\s*\(\s*st->lookup_defs\s*\)\s*\)\s*janet_panicf\s*\(", df)
    if d1 < 0 or d2 < 0:
        raise ExtractError("unmarshal_one_def: st->lookup_defs[index] / lookup_defs_done[index] not found")
    out["defRefChecked"] = bool(t and t.start() < min(d1, d2))
    if not re.search(r"int32_t\s+defindex\s*=\s*janet_v_count\s*\(\s*st->lookup_defs\s*\)\s*-\s*1\s*;", df) or \
            not re.search(r"janet_v_push\s*\(\s*st->lookup_defs_done\s*,\s*0\s*\)\s*;", df):
        raise ExtractError("unmarshal_one_def: defindex / lookup_defs_done push changed shape")
    one = func_body(src, "unmarshal_one")
    d = one.find("st->lookup[len]")
    t = re.search(r"if\s*\(\s*len\s*>=\s*janet_v_count\s*\(\s*st->lookup\s*\)\s*\)\s*janet_panicf\s*\(", one)
    if d < 0:
        raise ExtractError("unmarshal_one: st->lookup[len] not found")
    out["refChecked"] = bool(t and t.start() < d)
    # no other index expression into the tables
    idx = re.findall(r"st->lookup(?:_envs|_defs|_defs_done)?\s*\[\s*([^\]]*)\]", half)
    known = sorted(["index", "index", "index", "defindex", "len"])
    if sorted(i.strip() for i in idx if i.strip() != "i") != known:
        raise ExtractError("marsh.c indexes the reference tables with %s: not classified" % idx)
    return out


def extract(tree):
    assert_constants(tree)
    from . import bytecode as gen_bytecode
    opl, _types, _jint = gen_bytecode.extract(tree)
    jop_call = None
    for i, nm in enumerate(opl):
        n = nm if isinstance(nm, str) else nm[0]
        if n == "JOP_CALL":
            jop_call = i
    if jop_call is None:
        raise ExtractError("JOP_CALL not found")
    threads = False
    for rel in ("src/include/janet.h", "src/conf/janetconf.h"):
        if re.search(r"^\s*#\s*define\s+JANET_THREADS\b", strip_comments(read(tree, rel)), re.M):
            threads = True
    mm = strip_comments(read(tree, "src/core/marsh.c"))
    if not re.search(r"#ifdef\s+JANET_THREADS\s+void\s*\*p\s*=\s*janet_abstract_threaded", func_body(mm, "janet_unmarshal_abstract_threaded")):
        raise ExtractError("janet_unmarshal_abstract_threaded changed shape")
    return {"incs": extract_incs(tree), "refs": ref_checks(tree), "asmReturns": asm_returns(tree), "threads": threads, "sites": extract_sites(tree), "abstracts": extract_abstracts(tree), "pegSizeChecked": peg_size_checked(tree), "jopCall": jop_call}


def render(tree):
    x = extract(tree)
    L = [lean_header("src/core/marsh.c, peg.c, abstract type tables") + "import JanetModel.Unmarsh.Bytes", "namespace JanetModel.Gen.UnmarshSites",
         "open JanetModel.Unmarsh.Bytes", "",
         "/-- per read site: offset of the `MARSH_EOS` test (none = no test in the source), largest offset dereferenced under it -/"]

    def lint(v):
        return "(%d)" % v if v < 0 else str(v)
    fields = []
    for name, *_ in SITES:
        g, mx = x["sites"][name]
        fields.append("%s := { guard := %s, maxRead := %s }" % (name, "none" if g is None else "some %s" % lint(g), lint(mx)))
    L.append("abbrev sites : Sites := {\n  " + ",\n  ".join(fields) + " }")
    L.append("")
    L.append("/-- registered abstract types: name bytes, hook kind -/")
    L.append("abbrev abstracts : List (List Nat × Nat) := [" + ", ".join("([%s], %d)" % (", ".join(str(c) for c in n.encode()), k) for n, k, _ in x["abstracts"]) + "]")
    L.append("def abstractNames : List (String × Nat) := [" + ", ".join('("%s", %d)' % (n, k) for n, k, _ in x["abstracts"]) + "]")
    L.append("abbrev pegSizeChecked : Bool := %s" % ("true" if x["pegSizeChecked"] else "false"))
    L.append("abbrev jopCall : Nat := %d" % x["jopCall"])
    L.append("abbrev threads : Bool := %s" % ("true" if x["threads"] else "false"))
    for k in ("refChecked", "envRefChecked", "defRefChecked"):
        L.append("abbrev %s : Bool := %s" % (k, "true" if x["refs"][k] else "false"))
    L.append("")
    L.append("/-- `flags + k` passed at each recursive call site of the unmarshaller (k per site) -/")
    L.append("abbrev incs : Incs := {\n  " + ",\n  ".join("%s := %d" % (f, x["incs"][f]) for f in INC_FIELDS) + " }")
    L.append("")
    L.append("/-- every `return` of janet_asm1 (asm.c): (status is JANET_ASSEMBLE_OK, `janet_verify(def)` was tested on the way with a")
    L.append("    no-return error branch and only flag bookkeeping follows) -/")
    L.append("abbrev asmReturns : List (Bool × Bool) := [" + ", ".join("(%s, %s)" % (str(a).lower(), str(b).lower()) for a, b in x["asmReturns"]) + "]")
    L.append("")
    L.append("end JanetModel.Gen.UnmarshSites")
    return "\n".join(L) + "\n"
