"""C10 translator: the shape of `janet_env_valid` (fiber.c) -> lean/JanetModel/Gen/EnvValid.lean.

Which conjuncts the loop body tests, where the walk starts and how it advances, what happens on failure.  Each boolean is
the presence of one anchored pattern in the (comment-stripped, whitespace-normalised) body; a body that contains statements
the patterns do not account for raises ExtractError."""
import re

from .csrc import ExtractError, read, strip_comments, func_body, lean_header


def extract(tree):
    src = strip_comments(read(tree, "src/core/fiber.c"))
    body = re.sub(r"\s+", " ", func_body(src, "janet_env_valid")).strip()
    out = {}
    m = re.fullmatch(r"\{ if \(env->offset < 0\) \{ (.*) \} else \{ return 1; \} \}", body)
    out["onlyNegative"] = bool(m)
    if not m:
        raise ExtractError("janet_env_valid: outer `if (env->offset < 0) {...} else { return 1; }` not recognised: %s" % body[:200])
    inner = m.group(1)
    # local names are free (captured and referred back to): real offset, fiber, index, frame pointer
    m = re.fullmatch(r"int32_t (?P<ro>\w+) = -\(?env->offset\)?; JanetFiber \*(?P<fb>\w+) = env->as\.fiber; int32_t (?P<i>\w+) = (?P=fb)->frame; "
                     r"while \((?P=i) > 0\) \{ JanetStackFrame \*(?P<fr>\w+) = \(JanetStackFrame \*\) ?\((?P=fb)->data \+ (?P=i) - JANET_FRAME_SIZE\); "
                     r"if \((?P<cond>.*?)\) \{ env->offset = (?P=ro); return 1; \} (?P=i) = (?P=fr)->prevframe; \} (?P<tail>.*)", inner)
    if not m:
        raise ExtractError("janet_env_valid: frame walk not recognised: %s" % inner[:300])
    out["startsAtFrame"] = True
    names = {m.group("ro"): "real_offset", m.group("i"): "i", m.group("fr"): "frame", m.group("fb"): "fiber"}
    if len(names) != 4 or "env" in names:
        raise ExtractError("janet_env_valid: local names clash")

    def canon(c):
        c = re.sub(r"\b(\w+)\b", lambda mm: names.get(mm.group(1), mm.group(1)), c.strip())
        c = re.sub(r"^\((.*)\)$", r"\1", c).strip()
        c = re.sub(r"^(frame->func) != NULL$", r"\1", c)
        mm = re.fullmatch(r"(\S+) == (\S+)", c)
        if mm and mm.group(1) in ("i", "env", "env->length"):       # `a == b` written the other way round
            c = "%s == %s" % (mm.group(2), mm.group(1))
        return c
    conj = [canon(c) for c in m.group("cond").split("&&")]
    known = {"real_offset == i": "offsetEq", "frame->env == env": "envPtrEq", "frame->func": "funcNonNull",
             "frame->func->def->slotcount == env->length": "slotcountEq"}
    for k in known.values():
        out[k] = False
    for c in conj:
        if c not in known:
            raise ExtractError("janet_env_valid: unknown conjunct %r" % c)
        out[known[c]] = True
    # the slot-count test dereferences frame->func: it must come after the NULL test
    if out["slotcountEq"] and out["funcNonNull"] and conj.index("frame->func") > conj.index("frame->func->def->slotcount == env->length"):
        raise ExtractError("janet_env_valid: frame->func is dereferenced before it is tested")
    tail = m.group("tail").strip()
    out["resetsOnFailure"] = bool(re.fullmatch(r"env->offset = 0; env->length = 0; env->as\.values = NULL; return 0;", tail))
    if not out["resetsOnFailure"] and tail != "return 0;":
        raise ExtractError("janet_env_valid: failure path not recognised: %s" % tail)
    # the upvalue handlers call it before the dereference (vm.c): part of Gen/VmGuards (vm_value_guards)
    return out


FIELDS = ["onlyNegative", "startsAtFrame", "offsetEq", "envPtrEq", "funcNonNull", "slotcountEq", "resetsOnFailure"]


def render(tree):
    x = extract(tree)
    L = [lean_header("src/core/fiber.c janet_env_valid") + "import JanetModel.Unmarsh.EnvValid", "namespace JanetModel.Gen.EnvValid",
         "open JanetModel.Unmarsh.EnvValid", "",
         "abbrev shape : Shape := { " + ", ".join("%s := %s" % (f, "true" if x[f] else "false") for f in FIELDS) + " }",
         "", "end JanetModel.Gen.EnvValid"]
    return "\n".join(L) + "\n"
