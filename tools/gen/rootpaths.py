"""Translator for C20: path-level gcroot / gcunroot balance of the event-loop operations  ->  Gen/RootPaths.lean

Same walker as tools/gen/fdpaths.py (every control-flow path of the preprocessed function body; loops unrolled twice; calls that can
raise fork), with janet_gcroot / janet_gcunroot as the events and, for the conditions that decide WHETHER an operation pins or
releases (e.g. `if (NULL != proc)` in janet_proc_wait_cb, `if (return_value.fiber == NULL) return;` in the default threaded
callback), an `assume` event carrying a tag and the branch taken.  The tag is only given to a condition whose normal form (operand order of == / !=, null tests,
redundant parentheses) is the expected one (ExtractError otherwise), so that its polarity means what the Lean specification says.

Lean (`Loop/RootPaths.lean`, `Props/C20.lean`) checks every extracted path against the pins / releases the event-loop model's
transition for that operation performs (`root_paths_ok`): the function that starts an operation pins exactly the objects the
model counts on every path that does not raise, and the function that completes it releases exactly those, once, on EVERY path
(early returns, stale waiter, cancelled waiter, error results included).
"""
import re
from .csrc import ExtractError, lean_header
from .loop import preprocess, functions, _ws, _lstr
from .fds import RAISE_RX
from . import fdpaths
from .fdpaths import Walker, State, _paren, _parse_nodes, _uniq, _strip_parens, PANIC_RX

# (file, function, [(tag, the condition in the normal form of norm_cond)])
FUNCS = [
    ("ev.c", "janet_async_start_fiber", []),
    ("ev.c", "janet_async_end", [("listening", "fiber->ev_callback")]),
    ("ev.c", "janet_ev_threaded_await", []),
    ("ev.c", "janet_ev_default_threaded_callback", [("no-fiber", "!return_value.fiber")]),
    ("ev.c", "janet_thread_chan_cb", []),
    ("os.c", "os_proc_wait_impl", []),
    ("os.c", "janet_proc_wait_cb", [("have-proc", "proc")]),
    ("filewatch.c", "janet_watcher_listen", []),
    ("filewatch.c", "janet_watcher_unlisten", [("not-watching", "!watcher->is_watching")]),
]


NULLP = "((void*)0)"


def norm_cond(c):
    """normal form of a condition for tag matching: redundant parentheses removed; `a == b` / `a != b` with the operands in a fixed
    order; comparison with the null pointer written as truth test (`x != NULL` -> `x`, `NULL == x` -> `!x`)"""
    c = _strip_parens(c)
    for op in ("==", "!="):
        parts = fdpaths._split_top(c, op)
        if len(parts) == 2 and not any(p.endswith(("<", ">", "!", "=")) or p.startswith("=") for p in parts):
            a, b = _strip_parens(parts[0]), _strip_parens(parts[1])
            nulls = (NULLP, "(void*)0", "0")
            if a in nulls or b in nulls:
                x = b if a in nulls else a
                return ("!" if op == "==" else "") + x
            return op.join(sorted([a, b]))
    return c


def _root_arg(arg):
    arg = _ws(arg)
    mm = re.match(r"^janet_nanbox_from_pointer\(\(\((.*)\)\),\(\(\(uint64_t\)\(JANET_(\w+)\)\|0x1FFF0\)<<47\)\)$", arg)
    return (mm.group(2) + ":" + mm.group(1)) if mm else arg


class RootWalker(Walker):
    def __init__(self, fn, top, tags):
        Walker.__init__(self, fn, top)
        self.tags = tags
        self.seen_tags = set()
        self.rx = re.compile(r"(?<![\w.>])(janet_gcroot|janet_gcunroot|" + PANIC_RX + "|" + RAISE_RX + r")(@\d+)?\s*\(")

    def classify(self, cond, st):
        return None

    def expr(self, text, states):
        pos = 0
        while True:
            m = self.rx.search(text, pos)
            if not m:
                return states
            callee = m.group(1)
            inside, end = _paren(text, m.end() - 1)
            states = self.expr(inside, states)
            if re.fullmatch(PANIC_RX, callee):
                for s in states:
                    self.exits.append(("raise", callee, s.events))
                return []
            if callee in ("janet_gcroot", "janet_gcunroot"):
                k = "root" if callee == "janet_gcroot" else "unroot"
                states = _uniq([s.with_event((k, _root_arg(inside))) for s in states])
            else:
                for s in states:
                    self.exits.append(("raise", callee, s.events))
            pos = end

    def branch(self, cond, states):
        states = self.expr(cond, states)
        c = norm_cond(cond)
        for tag, text in self.tags:
            if c == text:
                self.seen_tags.add(tag)
                return ([s.with_event(("assume:" + tag, "true")) for s in states],
                        [s.with_event(("assume:" + tag, "false")) for s in states])
            if c == "!" + text or "!" + c == text or (c.startswith("!(") and _strip_parens(c[1:]) == text):
                # the same test spelled the other way round (`if (!x) return; …` for `if (x) { … }`): the branches swap
                self.seen_tags.add(tag)
                return ([s.with_event(("assume:" + tag, "false")) for s in states],
                        [s.with_event(("assume:" + tag, "true")) for s in states])
        return list(states), list(states)


def extract(tree):
    pre, paths = {}, []
    for f, fn, tags in FUNCS:
        if f not in pre:
            pre[f] = dict(functions(preprocess(tree, "src/core/" + f)))
        body = pre[f].get(fn)
        if body is None:
            raise ExtractError("root path walk: function %s not found in %s" % (fn, f))
        top = _parse_nodes(body.strip()[1:-1])
        w = RootWalker(fn, top, tags)
        fall, b, c = w.nodes(top, [State()])
        for s in fall:
            w.exits.append(("end", "", s.events))
        missing = [t for t, _ in tags if t not in w.seen_tags]
        if missing:
            raise ExtractError("root path walk: %s no longer has the condition(s) %s" % (fn, [x for t, x in tags if t in missing]))
        ex = sorted(set(w.exits))
        if not any(e[0] in ("root", "unroot") for _, _, evs in ex for e in evs):
            raise ExtractError("root path walk: no path of %s pins or releases anything any more" % fn)
        for kind, label, evs in ex:
            paths.append((fn, kind, label, list(evs)))
    return {"paths": paths, "functions": [fn for _, fn, _ in FUNCS]}


def render(tree):
    r = extract(tree)
    o = [lean_header("src/core/ev.c, os.c, filewatch.c (preprocessed for this platform)"), "", "namespace JanetModel.Gen.RootPaths", ""]
    o.append("abbrev functions : List String := [" + ", ".join(_lstr(f) for f in r["functions"]) + "]")
    o.append("")
    o.append("/-- every distinct path: (function, exit kind, exit label, events (\"root\" | \"unroot\" | \"assume:<tag>\", argument | branch)) -/")
    o.append("abbrev paths : List (String × String × String × List (String × String)) := [")
    o.append(",\n".join("  (%s, %s, %s, [%s])" % (_lstr(fn), _lstr(k), _lstr(lab), ", ".join("(%s, %s)" % (_lstr(a), _lstr(b)) for a, b in evs))
                        for fn, k, lab, evs in r["paths"]))
    o.append("]")
    o.append("")
    o.append("end JanetModel.Gen.RootPaths")
    return "\n".join(o) + "\n"


if __name__ == "__main__":
    import sys
    print(render(sys.argv[1] if len(sys.argv) > 1 else "/repo"))
