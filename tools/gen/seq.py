"""Translator: array.c / buffer.c / value.c / capi.c  ->  Gen/Seq.lean

Growth factors, minimum capacities and the *shape of the guards* that the sequence theorems depend on.  Where the
source can have one of two recognised shapes (one of which is unsafe), a Bool is generated and the theorems in
Props/C04.lean only go through for the safe shape."""
import re
from . import csrc
from .csrc import ExtractError


def norm(s):
    return re.sub(r"\s+", " ", s).strip()


def core_fn_body(src, name):
    """body of `JANET_CORE_FN(name, "usage", "doc") { ... }`"""
    m = re.search(r"JANET_CORE_FN\(\s*%s\s*," % re.escape(name), src)
    if not m:
        raise ExtractError("JANET_CORE_FN(%s, ...) not found" % name)
    i, depth = m.end() - 1 - len(name) - 1, 0
    i = src.index("(", m.start())
    n = len(src)
    while i < n:
        c = src[i]
        if c == '"':
            j = i + 1
            while j < n and src[j] != '"':
                j += 2 if src[j] == "\\" else 1
            i = j + 1
            continue
        if c == "(":
            depth += 1
        elif c == ")":
            depth -= 1
            if depth == 0:
                break
        i += 1
    j = src.index("{", i)
    return src[j:csrc.match_brace(src, j)]


def extract(tree):
    o = {}
    arr = csrc.strip_comments(csrc.read(tree, "src/core/array.c"))
    buf = csrc.strip_comments(csrc.read(tree, "src/core/buffer.c"))
    val = csrc.strip_comments(csrc.read(tree, "src/core/value.c"))
    capi = csrc.strip_comments(csrc.read(tree, "src/core/capi.c"))
    # ---- array growth
    b = norm(csrc.func_body(arr, "janet_array_push"))
    m = re.search(r"if \(array->count == INT32_MAX\) \{ janet_panic\(\"array overflow\"\); \} int32_t newcount = array->count \+ 1; janet_array_ensure\(array, newcount, (\d+)\);", b)
    if not m:
        raise ExtractError("janet_array_push: overflow guard / ensure(newcount, g) not recognised")
    o["arrayPushGrowth"] = int(m.group(1))
    b = norm(csrc.func_body(arr, "janet_array_setcount"))
    m = re.search(r"if \(count < 0\) return; if \(count > array->count\) \{ int32_t i; janet_array_ensure\(array, count, (\d+)\); for \(i = array->count; i < count; i\+\+\) \{ array->data\[i\] = janet_wrap_nil\(\); \} \} array->count = count;", b)
    if not m:
        raise ExtractError("janet_array_setcount: shape not recognised (nil fill of the new cells?)")
    o["arraySetcountGrowth"] = int(m.group(1))
    b = norm(csrc.func_body(arr, "janet_array_ensure"))
    if not re.search(r"if \(capacity <= array->capacity\) return; int64_t new_capacity = \(\(int64_t\) capacity\) \* growth; if \(new_capacity > INT32_MAX\) new_capacity = INT32_MAX; capacity = \(int32_t\) new_capacity;", b):
        raise ExtractError("janet_array_ensure: 64-bit capacity computation / clamp not recognised")
    # ---- array/remove clamp
    b = norm(core_fn_body(arr, "cfun_array_remove"))
    if re.search(r"if \(at \+ n > array->count\) \{ n = array->count - at; \}", b):
        o["removeClampNoOverflow"] = False
    elif re.search(r"if \(n > array->count - at\) \{ n = array->count - at; \}", b):
        o["removeClampNoOverflow"] = True
    else:
        raise ExtractError("cfun_array_remove: clamp of n not recognised")
    if not re.search(r"if \(at < 0\) \{ at = array->count \+ at; \} if \(at < 0 \|\| at > array->count\) janet_panicf", b):
        raise ExtractError("cfun_array_remove: index decoding / range check not recognised")
    b = norm(core_fn_body(arr, "cfun_array_insert"))
    if not re.search(r"if \(at < 0\) \{ at = array->count \+ at \+ 1; \} if \(at < 0 \|\| at > array->count\) janet_panicf", b):
        raise ExtractError("cfun_array_insert: index decoding / range check not recognised")
    m = re.search(r"if \(INT32_MAX - \(argc - 2\) < array->count\) \{ janet_panic\(\"array overflow\"\); \} janet_array_ensure\(array, array->count \+ argc - 2, (\d+)\);", b)
    if not m:
        raise ExtractError("cfun_array_insert: overflow guard not recognised")
    o["arrayInsertGrowth"] = int(m.group(1))
    b = norm(core_fn_body(arr, "cfun_array_push"))
    m = re.search(r"if \(INT32_MAX - argc \+ 1 <= array->count\) \{ janet_panic\(\"array overflow\"\); \} int32_t newcount = array->count - 1 \+ argc; janet_array_ensure\(array, newcount, (\d+)\);", b)
    if not m:
        raise ExtractError("cfun_array_push: overflow guard not recognised")
    o["arrayCfunPushGrowth"] = int(m.group(1))
    # ---- array/ensure argument validation
    b = norm(core_fn_body(arr, "cfun_array_ensure"))
    m = re.search(r"int32_t newcount = janet_getinteger\(argv, 1\); int32_t growth = janet_getinteger\(argv, 2\); "
                  r"if \(newcount < 1\) janet_panic\(\"expected positive integer\"\); (.*?)janet_array_ensure\(array, newcount, growth\);", b)
    if not m:
        raise ExtractError("cfun_array_ensure: argument decoding not recognised")
    chk = m.group(1).strip()
    if chk == "":
        o["ensureChecksGrowth"] = False
    elif re.fullmatch(r"if \(growth < 1\) janet_panicf?\(\"[^\"]*\"(, [^)]*)?\);", chk):
        o["ensureChecksGrowth"] = True
    else:
        raise ExtractError("cfun_array_ensure: unrecognised statements before janet_array_ensure: %r" % chk)
    # ---- janet_putindex
    b = norm(csrc.func_body(val, "janet_putindex"))
    m = re.search(r"case JANET_ARRAY: \{ JanetArray \*array = janet_unwrap_array\(ds\); if \(index >= array->count\) \{ janet_array_ensure\(array, index \+ 1, (\d+)\); (.*?)array->count = index \+ 1; \} array->data\[index\] = value; break; \}", b)
    if not m:
        raise ExtractError("janet_putindex: array case not recognised")
    o["putindexGrowth"] = int(m.group(1))
    fill = m.group(2).strip()
    if fill == "":
        o["putindexFillsArrayGap"] = False
    elif re.fullmatch(r"for \(int32_t i = array->count; i < index; i\+\+\) \{ array->data\[i\] = janet_wrap_nil\(\); \}", fill):
        o["putindexFillsArrayGap"] = True
    else:
        raise ExtractError("janet_putindex: unrecognised statements before `array->count = index + 1`: %r" % fill)
    m = re.search(r"if \(index >= buffer->count\) \{ janet_buffer_ensure\(buffer, index \+ 1, (\d+)\); (.*?)buffer->count = index \+ 1; \} buffer->data\[index\] =", b)
    if not m:
        raise ExtractError("janet_putindex: buffer case not recognised")
    if int(m.group(1)) != o["putindexGrowth"]:
        raise ExtractError("janet_putindex: array and buffer growth factors differ")
    fill = m.group(2).strip()
    if fill == "":
        o["putindexFillsBufferGap"] = False
    elif re.fullmatch(r"memset\(buffer->data \+ buffer->count, 0, index - buffer->count\);", fill):
        o["putindexFillsBufferGap"] = True
    else:
        raise ExtractError("janet_putindex: unrecognised statements before `buffer->count = index + 1`: %r" % fill)
    # ---- getter_checkint / janet_put bound
    b = norm(csrc.func_body(val, "getter_checkint"))
    if not re.search(r"if \(!janet_checkint\(key\)\) goto bad; int32_t ret = janet_unwrap_integer\(key\); if \(ret < 0\) goto bad; if \(ret >= max\) goto bad; return ret;", b):
        raise ExtractError("getter_checkint: checks not recognised")
    b = norm(csrc.func_body(val, "janet_put"))
    if len(re.findall(r"int32_t index = getter_checkint\(type, key, INT32_MAX - 1\);", b)) != 2:
        raise ExtractError("janet_put: index bound INT32_MAX - 1 not recognised for array and buffer")
    b = norm(csrc.func_body(val, "janet_in"))
    if not (re.search(r"int32_t index = getter_checkint\(type, key, array->count\); value = array->data\[index\];", b)
            and re.search(r"int32_t index = getter_checkint\(type, key, buffer->count\); value = janet_wrap_integer\(buffer->data\[index\]\);", b)):
        raise ExtractError("janet_in: bounds check against count not recognised")
    # ---- capi range decoding
    b = norm(csrc.func_body(capi, "janet_gethalfrange"))
    if not re.search(r"int32_t raw = janet_getinteger\(argv, n\); int32_t not_raw = raw; if \(not_raw < 0\) not_raw \+= length \+ 1; if \(not_raw < 0 \|\| not_raw > length\) janet_panicf", b):
        raise ExtractError("janet_gethalfrange: decoding not recognised")
    b = norm(csrc.func_body(capi, "janet_getslice"))
    if not re.search(r"range\.start = janet_getstartrange\(argv, argc, 1, length\); range\.end = janet_getendrange\(argv, argc, 2, length\); if \(range\.end < range\.start\) range\.end = range\.start;", b):
        raise ExtractError("janet_getslice: decoding not recognised")
    # ---- buffers
    b = norm(csrc.func_body(buf, "janet_buffer_init_impl"))
    m = re.search(r"if \(capacity < (\d+)\) capacity = (\d+);", b)
    if not m or m.group(1) != m.group(2):
        raise ExtractError("janet_buffer_init_impl: minimum capacity not recognised")
    o["bufferMinCap"] = int(m.group(1))
    b = norm(csrc.func_body(buf, "janet_buffer_extra"))
    m = re.search(r"if \(\(int64_t\)n \+ buffer->count > INT32_MAX\) \{ janet_panic\(\"buffer overflow\"\); \} int32_t new_size = buffer->count \+ n; if \(new_size > buffer->capacity\) \{ janet_buffer_can_realloc\(buffer\); "
                  r"int32_t new_capacity = \(new_size > \(INT32_MAX / (\d+)\)\) \? INT32_MAX : \(new_size \* (\d+)\);", b)
    if not m or m.group(1) != m.group(2):
        raise ExtractError("janet_buffer_extra: overflow guard / doubling not recognised")
    o["bufferExtraGrowth"] = int(m.group(1))
    b = norm(csrc.func_body(buf, "janet_buffer_setcount"))
    m = re.search(r"if \(count < 0\) return; if \(count > buffer->count\) \{ int32_t oldcount = buffer->count; janet_buffer_ensure\(buffer, count, (\d+)\); memset\(buffer->data \+ oldcount, 0, count - oldcount\); \} buffer->count = count;", b)
    if not m:
        raise ExtractError("janet_buffer_setcount: shape not recognised (zero fill?)")
    o["bufferSetcountGrowth"] = int(m.group(1))
    b = norm(core_fn_body(buf, "cfun_buffer_blit"))
    if not re.search(r"int64_t last = \(int64_t\) offset_dest \+ length_src; if \(last > INT32_MAX\) janet_panic\(\"buffer blit out of range\"\); int32_t last32 = \(int32_t\) last; janet_buffer_ensure\(dest, last32, (\d+)\); if \(last32 > dest->count\) dest->count = last32;", b):
        raise ExtractError("cfun_buffer_blit: range guard not recognised")
    return o


def render(tree):
    c = extract(tree)
    out = [csrc.lean_header("src/core/array.c, buffer.c, value.c, capi.c"), "namespace JanetModel.Gen.Seq\n"]
    for k, v in c.items():
        if isinstance(v, bool):
            out.append("abbrev %s : Bool := %s" % (k, "true" if v else "false"))
        else:
            out.append("abbrev %s : Int := %d" % (k, v))
    out.append("\nend JanetModel.Gen.Seq\n")
    return "\n".join(out)


if __name__ == "__main__":
    import sys
    print(render(sys.argv[1] if len(sys.argv) > 1 else "/repo"))
