"""Translator: array.c / buffer.c / value.c / capi.c  ->  Gen/Seq.lean

Growth factors, minimum capacities and the *shape of the guards* that the sequence theorems depend on.  Where the
source can have one of two recognised shapes (one of which is unsafe), a Bool is generated and the theorems in
Props/C04.lean only go through for the safe shape."""
import re
from . import csrc
from .csrc import ExtractError


_SIMPLE = r"(?:(?!\{|\}|;|\bif \(|\bfor \(|\bwhile \(|\bdo\b|\bswitch \(|\bcase\b).)*;"


def norm(s):
    """whitespace-normalised text in a canonical statement form: `(void) x;` statements dropped, braces around a single
    simple statement dropped (`if (c) { x; }` = `if (c) x;`; never around a nested if / loop, so no dangling-else change),
    `(size_t)(e)` spacing.  Comments are stripped by the caller.  The same canonical form is applied to the patterns
    (`S`, `F`, `FA` below), so a brace / whitespace / comment / `(void)` difference in the source is not a shape change."""
    s = re.sub(r"\s+", " ", s).strip()
    s = re.sub(r"(?<=[;{}]) \(void\) ?[A-Za-z_][A-Za-z_0-9]*;", "", s)
    prev = None
    while prev != s:
        prev = s
        s = re.sub(r"\{ (" + _SIMPLE + r") \}(?! while)", r"\1", s)
    return s


def _rx(pat):
    """the canonical statement form, applied to a regex written with braces: `\\{ stmt; \\}` -> `stmt;`"""
    simple = r"(?:\[\^[^\]]*\]\*|(?!\\\{|\\\}|;|if \\\(|for \\\(|while \\\(|\(\.\*\?\)).)*;"
    prev = None
    while prev != pat:
        prev = pat
        pat = re.sub(r"\\\{ (" + simple + r") \\\}", r"\1", pat)
    return pat


def S(pat, body):
    return re.search(_rx(pat), body)


def F(pat, body):
    return re.fullmatch(_rx(pat), body)


def FA(pat, body):
    return re.findall(_rx(pat), body)


_LOCAL = r"(?:const )?(?:int32_t|int64_t|uint32_t|size_t|int|double|Janet|JanetArray \*|JanetBuffer \*|JanetByteView|JanetRange|uint8_t \*)"


def alpha(body, names):
    """rename the locals of a function body, in order of declaration, to `names` (the names the patterns use): a renamed
    local is not a shape change.  Raises when the number of locals differs (then the shape did change)."""
    decl = []
    for m in re.finditer(r"(?<=[;{(] )" + _LOCAL + r" ?([A-Za-z_][A-Za-z_0-9]*)(?= ?[=;])", body):
        if m.group(1) not in decl:
            decl.append(m.group(1))
    if len(decl) < len(names):
        raise ExtractError("expected at least %d local declarations (%s), found %r" % (len(names), ", ".join(names), decl))
    tmp = {d: "\0%d\0" % i for i, d in enumerate(decl[:len(names)])}
    for d, t in tmp.items():
        body = re.sub(r"(?<![A-Za-z_0-9>.])%s\b" % re.escape(d), t, body)
    for i, nm in enumerate(names):
        body = body.replace("\0%d\0" % i, nm)
    return body


def core_fn_body(src, name):
    """body of `JANET_CORE_FN(name, "usage", "doc") { ... }`"""
    m = re.search(r"JANET_CORE_FN\(\s*%s\s*," % re.escape(name), src)
    if not m:
        raise ExtractError("JANET_CORE_FN(%s, ...) not found" % name)
    i, depth = m.end() - 1 - len(name) - 1, 0
    i = src.index("(", m.start())
    n = len(src)
    while i < n:
        c = src[i]
        if c == '"':
            j = i + 1
            while j < n and src[j] != '"':
                j += 2 if src[j] == "\\" else 1
            i = j + 1
            continue
        if c == "(":
            depth += 1
        elif c == ")":
            depth -= 1
            if depth == 0:
                break
        i += 1
    j = src.index("{", i)
    return src[j:csrc.match_brace(src, j)]


def extract(tree):
    o = {}
    arr = csrc.strip_comments(csrc.read(tree, "src/core/array.c"))
    buf = csrc.strip_comments(csrc.read(tree, "src/core/buffer.c"))
    val = csrc.strip_comments(csrc.read(tree, "src/core/value.c"))
    capi = csrc.strip_comments(csrc.read(tree, "src/core/capi.c"))
    # ---- array growth
    b = norm(csrc.func_body(arr, "janet_array_push"))
    m = S(r"if \(array->count == INT32_MAX\) \{ janet_panic\(\"array overflow\"\); \} int32_t newcount = array->count \+ 1; janet_array_ensure\(array, newcount, (\d+)\);", b)
    if not m:
        raise ExtractError("janet_array_push: overflow guard / ensure(newcount, g) not recognised")
    o["arrayPushGrowth"] = int(m.group(1))
    b = norm(csrc.func_body(arr, "janet_array_setcount"))
    m = S(r"if \(count < 0\) return; if \(count > array->count\) \{ int32_t i; janet_array_ensure\(array, count, (\d+)\); for \(i = array->count; i < count; i\+\+\) \{ array->data\[i\] = janet_wrap_nil\(\); \} \} array->count = count;", b)
    if not m:
        raise ExtractError("janet_array_setcount: shape not recognised (nil fill of the new cells?)")
    o["arraySetcountGrowth"] = int(m.group(1))
    b = norm(csrc.func_body(arr, "janet_array_ensure"))
    if not S(r"if \(capacity <= array->capacity\) return; int64_t new_capacity = \(\(int64_t\) capacity\) \* growth; if \(new_capacity > INT32_MAX\) new_capacity = INT32_MAX; capacity = \(int32_t\) new_capacity;", b):
        raise ExtractError("janet_array_ensure: 64-bit capacity computation / clamp not recognised")
    # ---- array/remove clamp (locals renamed to array / at / n in order of declaration)
    b = alpha(norm(core_fn_body(arr, "cfun_array_remove")), ["array", "at", "n"])
    if not S(r"JanetArray \*array = janet_getarray\(argv, 0\); int32_t at = janet_getinteger\(argv, 1\); int32_t n = 1;", b):
        raise ExtractError("cfun_array_remove: argument decoding not recognised")
    m = S(r"if \(argc == 3\) \{ n = janet_getinteger\(argv, 2\); if \(n < 0\) janet_panicf\([^;]*\); \} (.*?)if \(n > 0\) \{ memmove\(array->data \+ at, array->data \+ at \+ n, "
          r"\(size_t\) ?\(array->count - at - n\) \* sizeof\(Janet\)\); array->count -= n; \}", b)
    if m:
        clamp = m.group(1).strip()
        if F(r"if \((?:n > array->count - at|array->count - at < n)\) \{ n = array->count - at; \}", clamp):
            o["removeClampNoOverflow"] = True          # the clamp is computed from `count - at` (0 <= at <= count): no overflow
        elif F(r"if \((?:at \+ n|n \+ at) > array->count\) \{ n = array->count - at; \}", clamp):
            o["removeClampNoOverflow"] = False         # `at + n` in int32_t: overflows for n near INT32_MAX  (obligation aremove_no_ub)
        else:
            raise ExtractError("cfun_array_remove: clamp of n not recognised: %r (obligation aremove_no_ub is stated for the clamp `n > array->count - at`)" % clamp)
    elif S(r"int32_t [A-Za-z_0-9]+ = (?:at \+ n|n \+ at);", b) or S(r"(?<!data \+ )\bat \+ n\b(?! ?\))", b):
        # an end index `at + n` computed in int32_t and clipped afterwards: the same overflow as the unsafe clamp
        o["removeClampNoOverflow"] = False
    else:
        raise ExtractError("cfun_array_remove: clamp / memmove not recognised (obligation aremove_no_ub is stated for the clamp `n > array->count - at`)")
    if not S(r"if \(at < 0\) \{ at = array->count \+ at; \} if \(at < 0 \|\| at > array->count\) janet_panicf", b):
        raise ExtractError("cfun_array_remove: index decoding / range check not recognised")
    b = norm(core_fn_body(arr, "cfun_array_insert"))
    if not S(r"if \(at < 0\) \{ at = array->count \+ at \+ 1; \} if \(at < 0 \|\| at > array->count\) janet_panicf", b):
        raise ExtractError("cfun_array_insert: index decoding / range check not recognised")
    m = S(r"if \(INT32_MAX - \(argc - 2\) < array->count\) \{ janet_panic\(\"array overflow\"\); \} janet_array_ensure\(array, array->count \+ argc - 2, (\d+)\);", b)
    if not m:
        raise ExtractError("cfun_array_insert: overflow guard not recognised")
    o["arrayInsertGrowth"] = int(m.group(1))
    b = norm(core_fn_body(arr, "cfun_array_push"))
    m = S(r"if \(INT32_MAX - argc \+ 1 <= array->count\) \{ janet_panic\(\"array overflow\"\); \} int32_t newcount = array->count - 1 \+ argc; janet_array_ensure\(array, newcount, (\d+)\);", b)
    if not m:
        raise ExtractError("cfun_array_push: overflow guard not recognised")
    o["arrayCfunPushGrowth"] = int(m.group(1))
    # ---- array/ensure argument validation
    b = norm(core_fn_body(arr, "cfun_array_ensure"))
    m = S(r"int32_t newcount = janet_getinteger\(argv, 1\); int32_t growth = janet_getinteger\(argv, 2\); "
                  r"if \(newcount < 1\) janet_panic\(\"expected positive integer\"\); (.*?)janet_array_ensure\(array, newcount, growth\);", b)
    if not m:
        raise ExtractError("cfun_array_ensure: argument decoding not recognised")
    chk = m.group(1).strip()
    if chk == "":
        o["ensureChecksGrowth"] = False
    elif F(r"if \(growth < 1\) janet_panicf?\(\"[^\"]*\"(, [^)]*)?\);", chk):
        o["ensureChecksGrowth"] = True
    else:
        raise ExtractError("cfun_array_ensure: unrecognised statements before janet_array_ensure: %r" % chk)
    # ---- janet_putindex
    b = norm(csrc.func_body(val, "janet_putindex"))
    m = S(r"case JANET_ARRAY: \{ JanetArray \*array = janet_unwrap_array\(ds\); if \(index >= array->count\) \{ janet_array_ensure\(array, index \+ 1, (\d+)\); (.*?)array->count = index \+ 1; \} array->data\[index\] = value; break; \}", b)
    if not m:
        raise ExtractError("janet_putindex: array case not recognised")
    o["putindexGrowth"] = int(m.group(1))
    fill = m.group(2).strip()
    if fill == "":
        o["putindexFillsArrayGap"] = False
    elif F(r"for \(int32_t i = array->count; i < index; i\+\+\) \{ array->data\[i\] = janet_wrap_nil\(\); \}", fill):
        o["putindexFillsArrayGap"] = True
    else:
        raise ExtractError("janet_putindex: unrecognised statements before `array->count = index + 1`: %r" % fill)
    m = S(r"if \(index >= buffer->count\) \{ janet_buffer_ensure\(buffer, index \+ 1, (\d+)\); (.*?)buffer->count = index \+ 1; \} buffer->data\[index\] =", b)
    if not m:
        raise ExtractError("janet_putindex: buffer case not recognised")
    if int(m.group(1)) != o["putindexGrowth"]:
        raise ExtractError("janet_putindex: array and buffer growth factors differ")
    fill = m.group(2).strip()
    if fill == "":
        o["putindexFillsBufferGap"] = False
    elif F(r"memset\(buffer->data \+ buffer->count, 0, index - buffer->count\);", fill):
        o["putindexFillsBufferGap"] = True
    else:
        raise ExtractError("janet_putindex: unrecognised statements before `buffer->count = index + 1`: %r" % fill)
    # ---- getter_checkint / janet_put bound
    b = norm(csrc.func_body(val, "getter_checkint"))
    if not S(r"if \(!janet_checkint\(key\)\) goto bad; int32_t ret = janet_unwrap_integer\(key\); if \(ret < 0\) goto bad; if \(ret >= max\) goto bad; return ret;", b):
        raise ExtractError("getter_checkint: checks not recognised")
    b = norm(csrc.func_body(val, "janet_put"))
    if len(FA(r"int32_t index = getter_checkint\(type, key, INT32_MAX - 1\);", b)) != 2:
        raise ExtractError("janet_put: index bound INT32_MAX - 1 not recognised for array and buffer")
    b = norm(csrc.func_body(val, "janet_in"))
    if not (S(r"int32_t index = getter_checkint\(type, key, array->count\); value = array->data\[index\];", b)
            and S(r"int32_t index = getter_checkint\(type, key, buffer->count\); value = janet_wrap_integer\(buffer->data\[index\]\);", b)):
        raise ExtractError("janet_in: bounds check against count not recognised")
    # ---- capi range decoding
    b = norm(csrc.func_body(capi, "janet_gethalfrange"))
    if not S(r"int32_t raw = janet_getinteger\(argv, n\); int32_t not_raw = raw; if \(not_raw < 0\) not_raw \+= length \+ 1; if \(not_raw < 0 \|\| not_raw > length\) janet_panicf", b):
        raise ExtractError("janet_gethalfrange: decoding not recognised")
    b = norm(csrc.func_body(capi, "janet_getslice"))
    if not S(r"range\.start = janet_getstartrange\(argv, argc, 1, length\); range\.end = janet_getendrange\(argv, argc, 2, length\); if \(range\.end < range\.start\) range\.end = range\.start;", b):
        raise ExtractError("janet_getslice: decoding not recognised")
    # ---- buffers
    b = norm(csrc.func_body(buf, "janet_buffer_init_impl"))
    m = S(r"if \(capacity < (\d+)\) capacity = (\d+);", b)
    if not m or m.group(1) != m.group(2):
        raise ExtractError("janet_buffer_init_impl: minimum capacity not recognised")
    o["bufferMinCap"] = int(m.group(1))
    b = norm(csrc.func_body(buf, "janet_buffer_extra"))
    m = S(r"if \(\(int64_t\)n \+ buffer->count > INT32_MAX\) \{ janet_panic\(\"buffer overflow\"\); \} int32_t new_size = buffer->count \+ n; if \(new_size > buffer->capacity\) \{ janet_buffer_can_realloc\(buffer\); "
                  r"int32_t new_capacity = \(new_size > \(INT32_MAX / (\d+)\)\) \? INT32_MAX : \(new_size \* (\d+)\);", b)
    if not m or m.group(1) != m.group(2):
        raise ExtractError("janet_buffer_extra: overflow guard / doubling not recognised")
    o["bufferExtraGrowth"] = int(m.group(1))
    b = norm(csrc.func_body(buf, "janet_buffer_setcount"))
    m = S(r"if \(count < 0\) return; if \(count > buffer->count\) \{ int32_t oldcount = buffer->count; janet_buffer_ensure\(buffer, count, (\d+)\); memset\(buffer->data \+ oldcount, 0, count - oldcount\); \} buffer->count = count;", b)
    if not m:
        raise ExtractError("janet_buffer_setcount: shape not recognised (zero fill?)")
    o["bufferSetcountGrowth"] = int(m.group(1))
    b = norm(core_fn_body(buf, "cfun_buffer_blit"))
    if not S(r"int64_t last = \(int64_t\) offset_dest \+ length_src; if \(last > INT32_MAX\) janet_panic\(\"buffer blit out of range\"\); int32_t last32 = \(int32_t\) last; janet_buffer_ensure\(dest, last32, (\d+)\); if \(last32 > dest->count\) dest->count = last32;", b):
        raise ExtractError("cfun_buffer_blit: range guard not recognised")
    # ---- session 3: shapes the buffer theorems (Props/C04 `abs_buf_*`, `no_oob_*`) are about
    def self_shape(body, who):
        """the `view.bytes == buffer->data` branch: overflow-safe `janet_buffer_extra(buffer, view.len)` or the
        int32 sum `janet_buffer_ensure(buffer, buffer->count + view.len, 2)`"""
        m = S(r"JanetByteView view = janet_getbytes\(argv, i\); if \(view\.bytes == buffer->data\) \{ (.*?) view\.bytes = buffer->data; \} janet_buffer_push_bytes\(buffer, view\.bytes, view\.len\);", body)
        if not m:
            raise ExtractError("%s: self-alias branch / push_bytes not recognised" % who)
        st = m.group(1).strip()
        if st == "janet_buffer_extra(buffer, view.len);":
            return True
        if st == "janet_buffer_ensure(buffer, buffer->count + view.len, 2);":
            return False
        raise ExtractError("%s: unrecognised statement in the self-alias branch: %r" % (who, st))
    b = norm(csrc.func_body(buf, "buffer_push_impl"))
    if not S(r"for \(int32_t i = argc_offset; i < argc; i\+\+\) \{ if \(janet_checktype\(argv\[i\], JANET_NUMBER\)\) \{ janet_buffer_push_u8\(buffer, \(uint8_t\)\(janet_getinteger\(argv, i\) & 0xFF\)\); \} else \{", b):
        raise ExtractError("buffer_push_impl: number / byte-sequence dispatch not recognised")
    s1 = self_shape(b, "buffer_push_impl")
    b = norm(core_fn_body(buf, "cfun_buffer_chars"))
    s2 = self_shape(b, "cfun_buffer_chars")
    o["pushSelfNoOverflow"] = s1 and s2
    b = norm(csrc.func_body(buf, "janet_buffer_push_bytes"))
    if not S(r"if \(0 == length\) return; janet_buffer_extra\(buffer, length\); memcpy\(buffer->data \+ buffer->count, string, length\); buffer->count \+= length;", b):
        raise ExtractError("janet_buffer_push_bytes: shape not recognised")
    b = norm(csrc.func_body(buf, "janet_buffer_push_u8"))
    if not S(r"janet_buffer_extra\(buffer, 1\); buffer->data\[buffer->count\] = byte; buffer->count\+\+;", b):
        raise ExtractError("janet_buffer_push_u8: shape not recognised")
    b = norm(csrc.func_body(buf, "janet_buffer_push_u32"))
    if not S(r"janet_buffer_extra\(buffer, 4\); buffer->data\[buffer->count\] = x & 0xFF; buffer->data\[buffer->count \+ 1\] = \(x >> 8\) & 0xFF; buffer->data\[buffer->count \+ 2\] = \(x >> 16\) & 0xFF; buffer->data\[buffer->count \+ 3\] = \(x >> 24\) & 0xFF; buffer->count \+= 4;", b):
        raise ExtractError("janet_buffer_push_u32: shape not recognised")
    b = norm(core_fn_body(buf, "cfun_buffer_word"))
    if not S(r"double number = janet_getnumber\(argv, i\); uint32_t word = \(uint32_t\) number; if \(word != number\) janet_panicf\([^;]*\); janet_buffer_push_u32\(buffer, word\);", b):
        raise ExtractError("cfun_buffer_word: conversion check not recognised")
    b = norm(core_fn_body(buf, "cfun_buffer_u8"))
    if not S(r"for \(i = 1; i < argc; i\+\+\) \{ janet_buffer_push_u8\(buffer, \(uint8_t\)\(janet_getinteger\(argv, i\) & 0xFF\)\); \}", b):
        raise ExtractError("cfun_buffer_u8: loop not recognised")
    b = norm(core_fn_body(buf, "cfun_buffer_push_at"))
    if not S(r"int32_t index = janet_getinteger\(argv, 1\); int32_t old_count = buffer->count; if \(index < 0 \|\| index > old_count\) \{ janet_panicf\([^;]*\); \} buffer->count = index; buffer_push_impl\(buffer, argv, 2, argc\); if \(buffer->count < old_count\) \{ buffer->count = old_count; \}", b):
        raise ExtractError("cfun_buffer_push_at: index check / count restore not recognised")
    b = norm(core_fn_body(buf, "cfun_buffer_push"))
    if not S(r"JanetBuffer \*buffer = janet_getbuffer\(argv, 0\); buffer_push_impl\(buffer, argv, 1, argc\);", b):
        raise ExtractError("cfun_buffer_push: shape not recognised")
    b = norm(core_fn_body(buf, "cfun_buffer_trim"))
    m = S(r"if \(buffer->count < buffer->capacity\) \{ int32_t newcap = buffer->count > (\d+) \? buffer->count : (\d+); uint8_t \*newData = janet_realloc\(buffer->data, newcap\);", b)
    if not m or m.group(1) != m.group(2):
        raise ExtractError("cfun_buffer_trim: shape not recognised")
    o["bufferTrimMin"] = int(m.group(1))
    b = norm(core_fn_body(buf, "cfun_buffer_popn"))
    if not S(r"int32_t n = janet_getinteger\(argv, 1\); if \(n < 0\) janet_panic\([^;]*\); if \(buffer->count < n\) \{ buffer->count = 0; \} else \{ buffer->count -= n; \}", b):
        raise ExtractError("cfun_buffer_popn: shape not recognised")
    b = norm(core_fn_body(buf, "cfun_buffer_clear"))
    if not S(r"JanetBuffer \*buffer = janet_getbuffer\(argv, 0\); buffer->count = 0;", b):
        raise ExtractError("cfun_buffer_clear: shape not recognised")
    b = norm(core_fn_body(buf, "cfun_buffer_new_filled"))
    if not S(r"int32_t count = janet_getinteger\(argv, 0\); if \(count < 0\) count = 0; int32_t byte = 0; if \(argc == 2\) \{ byte = janet_getinteger\(argv, 1\) & 0xFF; \} JanetBuffer \*buffer = janet_buffer\(count\); if \(buffer->data && count > 0\) memset\(buffer->data, byte, count\); buffer->count = count;", b):
        raise ExtractError("cfun_buffer_new_filled: shape not recognised")
    b = norm(core_fn_body(buf, "cfun_buffer_frombytes"))
    if not S(r"JanetBuffer \*buffer = janet_buffer\(argc\); for \(i = 0; i < argc; i\+\+\) \{ int32_t c = janet_getinteger\(argv, i\); buffer->data\[i\] = c & 0xFF; \} buffer->count = argc;", b):
        raise ExtractError("cfun_buffer_frombytes: shape not recognised")
    b = norm(core_fn_body(buf, "cfun_buffer_fill"))
    if not S(r"if \(argc == 2\) \{ byte = janet_getinteger\(argv, 1\) & 0xFF; \} if \(buffer->count\) \{ memset\(buffer->data, byte, buffer->count\); \}", b):
        raise ExtractError("cfun_buffer_fill: shape not recognised")
    b = norm(core_fn_body(buf, "cfun_buffer_slice"))
    if not S(r"JanetByteView view = janet_getbytes\(argv, 0\); JanetRange range = janet_getslice\(argc, argv\); JanetBuffer \*buffer = janet_buffer\(range\.end - range\.start\); if \(buffer->data\) memcpy\(buffer->data, view\.bytes \+ range\.start, range\.end - range\.start\); buffer->count = range\.end - range\.start;", b):
        raise ExtractError("cfun_buffer_slice: shape not recognised")
    b = norm(csrc.func_body(buf, "bitloc"))
    if not S(r"double x = janet_getnumber\(argv, 1\); int64_t bitindex = \(int64_t\) x; int64_t byteindex = bitindex >> 3; int which_bit = bitindex & 7; if \(bitindex != x \|\| bitindex < 0 \|\| byteindex >= buffer->count\) janet_panicf", b):
        raise ExtractError("bitloc: bit index decoding / range check not recognised")
    for fn, stmt in (("cfun_buffer_bitset", r"buffer->data\[index\] \|= 1 << bit;"), ("cfun_buffer_bitclear", r"buffer->data\[index\] &= ~\(1 << bit\);"),
                     ("cfun_buffer_bittoggle", r"buffer->data\[index\] \^= \(1 << bit\);"), ("cfun_buffer_bitget", r"return janet_wrap_boolean\(buffer->data\[index\] & \(1 << bit\)\);")):
        b = norm(core_fn_body(buf, fn))
        if not S(r"bitloc\(argc, argv, &buffer, &index, &bit\); " + stmt, b):
            raise ExtractError("%s: shape not recognised" % fn)
    b = norm(core_fn_body(buf, "cfun_buffer_blit"))
    if not S(r"int same_buf = src\.bytes == dest->data; int32_t offset_dest = 0; int32_t offset_src = 0; "
                     r"if \(argc > 2 && !janet_checktype\(argv\[2\], JANET_NIL\)\) offset_dest = janet_gethalfrange\(argv, 2, dest->count, \"dest-start\"\); "
                     r"if \(argc > 3 && !janet_checktype\(argv\[3\], JANET_NIL\)\) offset_src = janet_gethalfrange\(argv, 3, src\.len, \"src-start\"\); "
                     r"int32_t length_src; if \(argc > 4\) \{ int32_t src_end = src\.len; if \(!janet_checktype\(argv\[4\], JANET_NIL\)\) src_end = janet_gethalfrange\(argv, 4, src\.len, \"src-end\"\); "
                     r"length_src = src_end - offset_src; if \(length_src < 0\) length_src = 0; \} else \{ length_src = src\.len - offset_src; \}", b):
        raise ExtractError("cfun_buffer_blit: argument decoding not recognised")
    if not S(r"if \(length_src\) \{ if \(same_buf\) \{ src\.bytes = dest->data; memmove\(dest->data \+ offset_dest, src\.bytes \+ offset_src, length_src\); \} else \{ memcpy\(dest->data \+ offset_dest, src\.bytes \+ offset_src, length_src\); \} \}", b):
        raise ExtractError("cfun_buffer_blit: alias guard (memmove for the same buffer, source re-read after ensure) not recognised")
    b = norm(csrc.func_body(val, "janet_put"))
    if not S(r"case JANET_BUFFER: \{ JanetBuffer \*buffer = janet_unwrap_buffer\(ds\); int32_t index = getter_checkint\(type, key, INT32_MAX - 1\); if \(!janet_checkint\(value\)\) janet_panicf\([^;]*\); "
                     r"if \(index >= buffer->count\) \{ janet_buffer_setcount\(buffer, index \+ 1\); \} buffer->data\[index\] = \(uint8_t\)\(janet_unwrap_integer\(value\) & 0xFF\); break; \}", b):
        raise ExtractError("janet_put: buffer case not recognised")
    # ---- arrays: new-filled / peek / clear / trim / join
    b = norm(core_fn_body(arr, "cfun_array_new_filled"))
    if not S(r"int32_t count = janet_getnat\(argv, 0\); Janet x = \(argc == 2\) \? argv\[1\] : janet_wrap_nil\(\); JanetArray \*array = janet_array\(count\); for \(int32_t i = 0; i < count; i\+\+\) \{ array->data\[i\] = x; \} array->count = count;", b):
        raise ExtractError("cfun_array_new_filled: shape not recognised")
    b = norm(csrc.func_body(arr, "janet_array_peek"))
    if not S(r"if \(array->count\) \{ return array->data\[array->count - 1\]; \} else \{ return janet_wrap_nil\(\); \}", b):
        raise ExtractError("janet_array_peek: shape not recognised")
    b = norm(core_fn_body(arr, "cfun_array_clear"))
    if not S(r"JanetArray \*array = janet_getarray\(argv, 0\); array->count = 0;", b):
        raise ExtractError("cfun_array_clear: shape not recognised")
    return o


def render(tree):
    c = extract(tree)
    out = [csrc.lean_header("src/core/array.c, buffer.c, value.c, capi.c"), "namespace JanetModel.Gen.Seq\n"]
    for k, v in c.items():
        if isinstance(v, bool):
            out.append("abbrev %s : Bool := %s" % (k, "true" if v else "false"))
        else:
            out.append("abbrev %s : Int := %d" % (k, v))
    out.append("\nend JanetModel.Gen.Seq\n")
    return "\n".join(out)


if __name__ == "__main__":
    import sys
    print(render(sys.argv[1] if len(sys.argv) > 1 else "/repo"))
