"""Translator for C16: facts about the stream state machines of src/core/ev.c -> lean/JanetModel/Gen/Stream.lean.

Extracted (and re-extracted on every run):
  * whether janet_async_start_fiber refuses to take over a read / write slot that another fiber is still waiting in
    (guardsReadSlot / guardsWriteSlot) -- the hypothesis of `every_op_completes_or_errors`;
  * the per-syscall limit of a chunked read (chunkReadLimit);
  * whether datagram server sockets are registered for write readiness in the epoll backend (dgramRegisteredForWrite).
Shape assertions (ExtractError when the statement the Lean model mirrors is no longer there): the write offset
update, the write completion test, the read exit condition, the end-of-stream rule, the close notifications.
"""
import re
from .csrc import ExtractError, read, strip_comments, match_brace


def _body(src, sig_rx, name):
    m = re.search(sig_rx, src)
    if not m:
        raise ExtractError("ev.c: definition of %s not found" % name)
    i = src.index("{", m.end() - 1)
    return src[i:match_brace(src, i)]


def _need(body, rx, what):
    if not re.search(rx, body, re.S):
        raise ExtractError("ev.c: expected statement not found (%s): /%s/" % (what, rx))


def extract(tree):
    src = strip_comments(read(tree, "src/core/ev.c"))
    facts = {}
    # --- janet_async_start_fiber: slot guard
    b = _body(src, r"void\s+janet_async_start_fiber\s*\([^)]*\)\s*\{", "janet_async_start_fiber")
    mr = re.search(r"stream->read_fiber\s*=\s*fiber\s*;", b)
    mw = re.search(r"stream->write_fiber\s*=\s*fiber\s*;", b)
    if not mr or not mw:
        raise ExtractError("janet_async_start_fiber: slot assignments not found")
    first = min(mr.start(), mw.start())
    head = b
    # a guard = an `if` before the first slot assignment whose condition reads the slot and whose body panics
    guards = {"read": False, "write": False}
    for m in re.finditer(r"\bif\s*\(", head):
        if m.start() >= first:
            break
        j = m.end() - 1
        depth, k = 0, j
        while k < len(head):
            if head[k] == "(":
                depth += 1
            elif head[k] == ")":
                depth -= 1
                if depth == 0:
                    break
            k += 1
        cond = head[j:k + 1]
        rest = head[k + 1:].lstrip()
        blk = rest[:match_brace(rest, 0)] if rest.startswith("{") else rest.split(";")[0]
        if "janet_panic" in blk:
            if re.search(r"stream->read_fiber", cond) and "JANET_ASYNC_LISTEN_READ" in cond:
                guards["read"] = True
            if re.search(r"stream->write_fiber", cond) and "JANET_ASYNC_LISTEN_WRITE" in cond:
                guards["write"] = True
    facts["guardsReadSlot"] = guards["read"]
    facts["guardsWriteSlot"] = guards["write"]
    _need(b, r"callback\s*\(\s*fiber\s*,\s*JANET_ASYNC_EVENT_INIT\s*\)", "INIT event delivered by async_start")
    # --- janet_async_end clears the slots
    e = _body(src, r"void\s+janet_async_end\s*\([^)]*\)\s*\{", "janet_async_end")
    _need(e, r"ev_stream->read_fiber\s*==\s*fiber\s*\)\s*\{\s*fiber->ev_stream->read_fiber\s*=\s*NULL", "async_end clears read slot")
    _need(e, r"ev_stream->write_fiber\s*==\s*fiber\s*\)\s*\{\s*fiber->ev_stream->write_fiber\s*=\s*NULL", "async_end clears write slot")
    # --- janet_stream_close notifies both slots
    c = _body(src, r"void\s+janet_stream_close\s*\(\s*JanetStream\s*\*\s*stream\s*\)\s*\{", "janet_stream_close")
    _need(c, r"rf->ev_callback\s*\(\s*rf\s*,\s*JANET_ASYNC_EVENT_CLOSE\s*\)", "close notifies reader")
    _need(c, r"wf->ev_callback\s*\(\s*wf\s*,\s*JANET_ASYNC_EVENT_CLOSE\s*\)", "close notifies writer")
    # --- read state machine (posix branch)
    r = _body(src, r"void\s+ev_callback_read\s*\([^)]*\)\s*\{", "ev_callback_read")
    posix = r[r.index("#else"):] if "#else" in r else r
    m = re.search(r"read_limit\s*=\s*state->is_chunk\s*\?\s*\(\s*bytes_left\s*>\s*(\d+)\s*\?\s*(\d+)\s*:\s*bytes_left\s*\)\s*:\s*bytes_left\s*;", posix)
    if not m or m.group(1) != m.group(2):
        raise ExtractError("ev_callback_read: read_limit expression not recognised")
    facts["chunkReadLimit"] = int(m.group(1))
    _need(posix, r"state->bytes_read\s*\+=\s*nread\s*;", "bytes_read accumulation")
    _need(posix, r"if\s*\(\s*state->bytes_read\s*==\s*0\s*&&\s*\(\s*state->mode\s*!=\s*JANET_ASYNC_READMODE_RECVFROM\s*\)\s*\)\s*\{\s*janet_schedule\s*\(\s*fiber\s*,\s*janet_wrap_nil\s*\(\s*\)\s*\)",
          "end-of-stream rule: nothing read and not recv-from -> nil")
    _need(posix, r"buffer->count\s*\+=\s*nread\s*;\s*bytes_left\s*-=\s*nread\s*;\s*state->bytes_left\s*=\s*bytes_left\s*;", "count / bytes_left update")
    _need(posix, r"if\s*\(\s*!state->is_chunk\s*\|\|\s*bytes_left\s*==\s*0\s*\|\|\s*nread\s*==\s*0\s*\)", "read exit condition")
    _need(posix, r"goto\s+read_more\s*;", "chunk loop")
    _need(posix, r"errno\s*==\s*EAGAIN\s*\|\|\s*errno\s*==\s*EWOULDBLOCK\s*\)\s*\{\s*break\s*;", "would-block keeps the read pending")
    _need(r, r"case\s+JANET_ASYNC_EVENT_CLOSE\s*:\s*janet_schedule\s*\(\s*fiber\s*,\s*janet_wrap_nil\s*\(\s*\)\s*\)\s*;\s*janet_async_end\s*\(\s*fiber\s*\)", "read CLOSE -> nil")
    # --- write state machine (posix branch)
    w = _body(src, r"void\s+ev_callback_write\s*\([^)]*\)\s*\{", "ev_callback_write")
    wposix = w[w.rindex("#else"):]
    _need(wposix, r"start\s*=\s*state->start\s*;", "resume offset read")
    _need(wposix, r"if\s*\(\s*start\s*<\s*len\s*\)\s*\{\s*int32_t\s+nbytes\s*=\s*len\s*-\s*start\s*;", "remaining length")
    _need(wposix, r"write\s*\(\s*stream->handle\s*,\s*bytes\s*\+\s*start\s*,\s*nbytes\s*\)", "write from offset")
    _need(wposix, r"send\s*\(\s*stream->handle\s*,\s*bytes\s*\+\s*start\s*,\s*nbytes\s*,", "send from offset")
    _need(wposix, r"if\s*\(\s*nwrote\s*>\s*0\s*\)\s*\{\s*start\s*\+=\s*nwrote\s*;\s*\}\s*else\s*\{\s*start\s*=\s*len\s*;", "offset advance")
    _need(wposix, r"state->start\s*=\s*start\s*;\s*if\s*\(\s*start\s*>=\s*len\s*\)\s*\{\s*janet_schedule\s*\(\s*fiber\s*,\s*janet_wrap_nil", "completion test")
    _need(wposix, r"if\s*\(\s*nwrote\s*==\s*0\s*&&\s*!dest_abst\s*\)\s*\{\s*janet_cancel", "zero-length write is a disconnect")
    _need(w, r"case\s+JANET_ASYNC_EVENT_CLOSE\s*:\s*janet_cancel\s*\(\s*fiber\s*,\s*janet_cstringv\s*\(\s*\"stream closed\"\s*\)\s*\)\s*;\s*janet_async_end", "write CLOSE -> error")
    wg = _body(src, r"void\s+janet_ev_write_generic\s*\([^)]*\)\s*\{", "janet_ev_write_generic")
    _need(wg, r"state->start\s*=\s*0\s*;", "initial offset 0")
    # --- epoll registration of datagram servers
    if "JANET_EV_EPOLL" in src:
        m = re.search(r"if\s*\(\s*stream->flags\s*&\s*\(?([A-Z_|\s]+)\)?\s*\)\s*ev\.events\s*\|=\s*EPOLLOUT\s*;", src)
        if not m:
            raise ExtractError("epoll registration: EPOLLOUT condition not recognised")
        facts["dgramRegisteredForWrite"] = "JANET_STREAM_UDPSERVER" in m.group(1) and "JANET_STREAM_WRITABLE" in m.group(1)
    else:
        facts["dgramRegisteredForWrite"] = True
    return facts


def render(tree):
    f = extract(tree)
    b = lambda v: "true" if v else "false"
    return """-- GENERATED by tools/gen/stream.py from src/core/ev.c on every run of ./check C16.  Do not edit.
namespace JanetModel.Gen.Stream

/-- `janet_async_start_fiber` refuses (panics) when another fiber is still waiting in the read slot. -/
abbrev guardsReadSlot : Bool := %s
/-- `janet_async_start_fiber` refuses (panics) when another fiber is still waiting in the write slot. -/
abbrev guardsWriteSlot : Bool := %s
/-- per-syscall limit of a chunked read (`read_limit` in ev_callback_read) -/
abbrev chunkReadLimit : Nat := %d
/-- epoll backend: datagram server sockets are registered for EPOLLOUT -/
abbrev dgramRegisteredForWrite : Bool := %s

end JanetModel.Gen.Stream
""" % (b(f["guardsReadSlot"]), b(f["guardsWriteSlot"]), f["chunkReadLimit"], b(f["dgramRegisteredForWrite"]))


if __name__ == "__main__":
    import sys
    print(render(sys.argv[1] if len(sys.argv) > 1 else "/repo"))
