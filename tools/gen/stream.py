"""Translator for C16: facts about the stream state machines of src/core/ev.c -> lean/JanetModel/Gen/Stream.lean.

Extracted (and re-extracted on every run):
  * whether janet_async_start_fiber refuses to take over a read / write slot that another fiber is still waiting in
    (guardsReadSlot / guardsWriteSlot) -- the hypothesis of `every_op_completes_or_errors`;
  * the per-syscall limit of a chunked read (chunkReadLimit);
  * whether datagram server sockets are registered for write readiness in the epoll backend (dgramRegisteredForWrite).
  * the case groups of `switch (event)` in ev_callback_read / ev_callback_write (posix branch): which events run the read loop /
    the error arm / schedule nil on close, which events try the write / raise "stream err" / "stream hup" / "stream closed"
    (readLoopEvents ... writeCloseEvents; structural split at the case labels as tools/gen/net.py does).
Shape assertions (ExtractError when the statement the Lean model mirrors is no longer there): the write offset
update, the write completion test, the read exit condition, the end-of-stream rule, the close notifications.

Tolerance: the statements are matched on a NORMALISED text of each function -- comments stripped, `(void) x;` statements dropped,
and every parameter / local that plays a role in the mirrored statements ALPHA-RENAMED to a canonical name by its role (the
variable initialised from state->bytes_left is `bytes_left`, the one assigned from read() is `nread`, the one initialised from
stream->read_fiber is `rf`, ...; occurrences after `->` / `.` are member names and are left alone).  A renamed local, an added
comment or cast, or braces around a single statement do not change the result; a changed statement does.
"""
import re
from .csrc import ExtractError, read, strip_comments, match_brace


def _body(src, sig_rx, name):
    m = re.search(sig_rx, src)
    if not m:
        raise ExtractError("ev.c: definition of %s not found" % name)
    i = src.index("{", m.end() - 1)
    return src[i:match_brace(src, i)]


def _canon(body, roles, fname):
    """alpha-rename by role: roles = [(regex whose group 1 captures the identifier playing the role, canonical name)]"""
    for rx, canon in roles:
        m = re.search(rx, body, re.S)
        if not m:
            raise ExtractError("ev.c: %s: the variable playing the role `%s` was not found: /%s/" % (fname, canon, rx))
        name = m.group(1)
        if name == canon:
            continue
        if re.search(r"(?<![>.\w])%s\b(?!\s*\()" % re.escape(canon), body):
            raise ExtractError("ev.c: %s: `%s` plays the role of `%s` but `%s` is also in use" % (fname, name, canon, canon))
        body = re.sub(r"(?<![>.\w])%s\b" % re.escape(name), canon, body)
    return body


def _normalise(body):
    """drop `(void) x;` statements and braces around a single simple statement after if / else"""
    body = re.sub(r"\(\s*void\s*\)\s*\w+\s*;", "", body)
    return body


PARAMS = r"\(\s*JanetFiber\s*\*\s*%s\s*,\s*JanetAsyncEvent\s+%s\s*\)"


def _need(body, rx, what):
    if not re.search(rx, body, re.S):
        raise ExtractError("ev.c: expected statement not found (%s): /%s/" % (what, rx))


EVENTS = ["INIT", "MARK", "DEINIT", "CLOSE", "ERR", "HUP", "READ", "WRITE", "COMPLETE", "FAILED"]


def _groups(posix, fname):
    """case groups of the posix branch (text from `#else` to the end of the function): [(labels, normalised statements)]"""
    from .net import _norm
    t = re.sub(r"^#else", "", posix)
    t = re.sub(r"#endif\s*\}\s*\}\s*$", "", t)          # end of the posix branch, of the switch and of the function
    t = re.sub(r"#\s*(?:ifdef|ifndef|if|else|elif|endif)[^\n]*", "", t)
    for lab in set(re.findall(r"\bgoto\s+(\w+)\s*;", t)):
        t = re.sub(r"(?<![>.\w])%s\s*:" % re.escape(lab), "", t)
    lab_rx = re.compile(r"\s*(?:case\s+JANET_ASYNC_EVENT_(\w+)|(default))\s*:")
    depth, k, labels_at = 0, 0, []
    while k < len(t):
        c = t[k]
        if c == "{":
            depth += 1
        elif c == "}":
            depth -= 1
        elif depth == 0 and (t.startswith("case", k) or t.startswith("default", k)) and (k == 0 or not (t[k - 1].isalnum() or t[k - 1] == "_")):
            mm = lab_rx.match(t, k)
            if mm:
                labels_at.append((k, mm.end(), mm.group(1) or "default"))
                k = mm.end()
                continue
        k += 1
    if not labels_at:
        raise ExtractError("%s: no case labels in the posix branch" % fname)
    groups, cur = [], []
    for n, (a, b, lab) in enumerate(labels_at):
        end = labels_at[n + 1][0] if n + 1 < len(labels_at) else len(t)
        text = _norm(t[b:end])
        cur.append(lab)
        if text:
            while text.startswith("{") and match_brace(text, 0) == len(text):
                text = _norm(text[1:-1])
            text = re.sub(r"(\bbreak\s*;\s*)+$", "break;", _norm(re.sub(r"\}\s*break\s*;\s*$", "} break;", text)))
            groups.append((cur, text))
            cur = []
    if cur:
        raise ExtractError("%s: trailing labels %s without statements" % (fname, cur))
    for g, _ in groups:
        for l in g:
            if l != "default" and l not in EVENTS:
                raise ExtractError("%s: unknown event %s" % (fname, l))
    return groups


def _case_groups_read(posix):
    out = {"readLoopEvents": [], "readErrEvents": []}
    for labs, text in _groups(posix, "ev_callback_read"):
        if re.search(r"\bread\s*\(\s*stream->handle", text) and "goto read_more" in text:
            out["readLoopEvents"] += labs
        elif re.fullmatch(r"if\s*\(\s*state->bytes_read\s*\)\s*\{?\s*janet_schedule\s*\(\s*fiber\s*,\s*janet_wrap_buffer\s*\(\s*state->buf\s*\)\s*\)\s*;\s*\}?\s*else\s*\{?\s*"
                          r"janet_schedule\s*\(\s*fiber\s*,\s*janet_wrap_nil\s*\(\s*\)\s*\)\s*;\s*\}?\s*(?:stream->read_fiber\s*=\s*NULL\s*;\s*)?janet_async_end\s*\(\s*fiber\s*\)\s*;\s*\}?\s*break\s*;", text):
            out["readErrEvents"] += labs
        else:
            raise ExtractError("ev_callback_read: statements of the posix case group %s not recognised: %s" % (labs, text[:200]))
    if "default" in out["readLoopEvents"] + out["readErrEvents"]:
        raise ExtractError("ev_callback_read: `default:` inside the posix branch")
    return out


def _case_groups_write(wposix):
    out = {"writeTryEvents": [], "writeErrEvents": [], "writeHupEvents": []}
    cancel = r"janet_cancel\s*\(\s*fiber\s*,\s*janet_cstringv\s*\(\s*\"%s\"\s*\)\s*\)\s*;\s*janet_async_end\s*\(\s*fiber\s*\)\s*;\s*break\s*;"
    for labs, text in _groups(wposix, "ev_callback_write"):
        if re.search(r"\bwrite\s*\(\s*stream->handle", text):
            out["writeTryEvents"] += labs
        elif re.fullmatch(cancel % "stream err", text):
            out["writeErrEvents"] += labs
        elif re.fullmatch(cancel % "stream hup", text):
            out["writeHupEvents"] += labs
        else:
            raise ExtractError("ev_callback_write: statements of the posix case group %s not recognised: %s" % (labs, text[:200]))
    return out


def extract(tree):
    src = strip_comments(read(tree, "src/core/ev.c"))
    facts = {}
    # --- janet_async_start_fiber: slot guard
    sig = re.search(r"void\s+janet_async_start_fiber\s*\(\s*JanetFiber\s*\*\s*(\w+)\s*,\s*JanetStream\s*\*\s*(\w+)\s*,\s*JanetAsyncMode\s+(\w+)\s*,"
                    r"\s*JanetEVCallback\s+(\w+)\s*,\s*void\s*\*\s*(\w+)\s*\)\s*\{", src)
    if not sig:
        raise ExtractError("ev.c: signature of janet_async_start_fiber not recognised")
    b = _body(src, r"void\s+janet_async_start_fiber\s*\([^)]*\)\s*\{", "janet_async_start_fiber")
    for name, canon in zip(sig.groups(), ("fiber", "stream", "mode", "callback", "state")):
        if name != canon:
            b = re.sub(r"(?<![>.\w])%s\b" % re.escape(name), canon, b)
    b = _normalise(b)
    mr = re.search(r"stream->read_fiber\s*=\s*fiber\s*;", b)
    mw = re.search(r"stream->write_fiber\s*=\s*fiber\s*;", b)
    if not mr or not mw:
        raise ExtractError("janet_async_start_fiber: slot assignments not found")
    first = min(mr.start(), mw.start())
    head = b
    # a guard = an `if` before the first slot assignment whose condition reads the slot and whose body panics
    guards = {"read": False, "write": False}
    for m in re.finditer(r"\bif\s*\(", head):
        if m.start() >= first:
            break
        j = m.end() - 1
        depth, k = 0, j
        while k < len(head):
            if head[k] == "(":
                depth += 1
            elif head[k] == ")":
                depth -= 1
                if depth == 0:
                    break
            k += 1
        cond = head[j:k + 1]
        rest = head[k + 1:].lstrip()
        blk = rest[:match_brace(rest, 0)] if rest.startswith("{") else rest.split(";")[0]
        if "janet_panic" in blk:
            # each disjunct that tests a mode bit must also test that direction's slot for another, still waiting fiber
            for dj in re.split(r"\|\|", cond):
                if "JANET_ASYNC_LISTEN_READ" in dj and re.search(r"stream->read_fiber\s*!=\s*fiber", dj) and "stream->read_fiber->ev_callback" in dj:
                    guards["read"] = True
                if "JANET_ASYNC_LISTEN_WRITE" in dj and re.search(r"stream->write_fiber\s*!=\s*fiber", dj) and "stream->write_fiber->ev_callback" in dj:
                    guards["write"] = True
    facts["guardsReadSlot"] = guards["read"]
    facts["guardsWriteSlot"] = guards["write"]
    _need(b, r"callback\s*\(\s*fiber\s*,\s*JANET_ASYNC_EVENT_INIT\s*\)", "INIT event delivered by async_start")
    # --- janet_async_end clears the slots
    e = _body(src, r"void\s+janet_async_end\s*\([^)]*\)\s*\{", "janet_async_end")
    me = re.search(r"void\s+janet_async_end\s*\(\s*JanetFiber\s*\*\s*(\w+)\s*\)", src)
    if not me:
        raise ExtractError("ev.c: signature of janet_async_end not recognised")
    e = _normalise(re.sub(r"(?<![>.\w])%s\b" % re.escape(me.group(1)), "fiber", e))
    _need(e, r"ev_stream->read_fiber\s*==\s*fiber\s*\)\s*\{?\s*fiber->ev_stream->read_fiber\s*=\s*NULL", "async_end clears read slot")
    _need(e, r"ev_stream->write_fiber\s*==\s*fiber\s*\)\s*\{?\s*fiber->ev_stream->write_fiber\s*=\s*NULL", "async_end clears write slot")
    # --- janet_stream_close notifies both slots
    mc = re.search(r"void\s+janet_stream_close\s*\(\s*JanetStream\s*\*\s*(\w+)\s*\)\s*\{", src)
    if not mc:
        raise ExtractError("ev.c: definition of janet_stream_close not found")
    c = _body(src, r"void\s+janet_stream_close\s*\(\s*JanetStream\s*\*\s*\w+\s*\)\s*\{", "janet_stream_close")
    c = re.sub(r"(?<![>.\w])%s\b" % re.escape(mc.group(1)), "stream", c)
    c = _normalise(_canon(c, [(r"JanetFiber\s*\*\s*(\w+)\s*=\s*stream->read_fiber\s*;", "rf"),
                              (r"JanetFiber\s*\*\s*(\w+)\s*=\s*stream->write_fiber\s*;", "wf")], "janet_stream_close"))
    _need(c, r"rf->ev_callback\s*\(\s*rf\s*,\s*JANET_ASYNC_EVENT_CLOSE\s*\)", "close notifies reader")
    _need(c, r"wf->ev_callback\s*\(\s*wf\s*,\s*JANET_ASYNC_EVENT_CLOSE\s*\)", "close notifies writer")
    # --- read state machine (posix branch)
    r = _body(src, r"void\s+ev_callback_read\s*\([^)]*\)\s*\{", "ev_callback_read")
    mr = re.search(r"void\s+ev_callback_read\s*" + PARAMS % (r"(\w+)", r"(\w+)"), src)
    if not mr:
        raise ExtractError("ev.c: signature of ev_callback_read not recognised")
    for name, canon in zip(mr.groups(), ("fiber", "event")):
        if name != canon:
            r = re.sub(r"(?<![>.\w])%s\b" % re.escape(name), canon, r)
    r = _canon(r, [(r"JanetStream\s*\*\s*(\w+)\s*=\s*fiber->ev_stream\s*;", "stream"),
                   (r"StateRead\s*\*\s*(\w+)\s*=\s*\(\s*StateRead\s*\*\s*\)\s*fiber->ev_state\s*;", "state")], "ev_callback_read")
    posix = r[r.index("#else"):] if "#else" in r else r
    head = r[:len(r) - len(posix)]
    posix = _normalise(_canon(posix, [
        (r"JanetBuffer\s*\*\s*(\w+)\s*=\s*state->buf\s*;", "buffer"),
        (r"int32_t\s+(\w+)\s*=\s*state->bytes_left\s*;", "bytes_left"),
        (r"int32_t\s+(\w+)\s*=\s*state->is_chunk\s*\?", "read_limit"),
        (r"(?<![>.\w])(\w+)\s*=\s*read\s*\(\s*stream->handle", "nread"),
        (r"goto\s+(\w+)\s*;", "read_more")], "ev_callback_read"))
    r = _normalise(head) + posix
    facts.update(_case_groups_read(posix))
    m = re.search(r"read_limit\s*=\s*state->is_chunk\s*\?\s*\(\s*bytes_left\s*>\s*(\d+)\s*\?\s*(\d+)\s*:\s*bytes_left\s*\)\s*:\s*bytes_left\s*;", posix)
    if not m or m.group(1) != m.group(2):
        raise ExtractError("ev_callback_read: read_limit expression not recognised")
    facts["chunkReadLimit"] = int(m.group(1))
    _need(posix, r"state->bytes_read\s*\+=\s*nread\s*;", "bytes_read accumulation")
    _need(posix, r"if\s*\(\s*state->bytes_read\s*==\s*0\s*&&\s*\(\s*state->mode\s*!=\s*JANET_ASYNC_READMODE_RECVFROM\s*\)\s*\)\s*\{\s*janet_schedule\s*\(\s*fiber\s*,\s*janet_wrap_nil\s*\(\s*\)\s*\)",
          "end-of-stream rule: nothing read and not recv-from -> nil")
    _need(posix, r"buffer->count\s*\+=\s*nread\s*;\s*bytes_left\s*-=\s*nread\s*;\s*state->bytes_left\s*=\s*bytes_left\s*;", "count / bytes_left update")
    _need(posix, r"if\s*\(\s*!state->is_chunk\s*\|\|\s*bytes_left\s*==\s*0\s*\|\|\s*nread\s*==\s*0\s*\)", "read exit condition")
    _need(posix, r"goto\s+read_more\s*;", "chunk loop")
    _need(posix, r"errno\s*==\s*EAGAIN\s*\|\|\s*errno\s*==\s*EWOULDBLOCK\s*\)\s*\{?\s*break\s*;", "would-block keeps the read pending")
    _need(r, r"case\s+JANET_ASYNC_EVENT_CLOSE\s*:\s*janet_schedule\s*\(\s*fiber\s*,\s*janet_wrap_nil\s*\(\s*\)\s*\)\s*;\s*janet_async_end\s*\(\s*fiber\s*\)", "read CLOSE -> nil")
    # --- write state machine (posix branch)
    w = _body(src, r"void\s+ev_callback_write\s*\([^)]*\)\s*\{", "ev_callback_write")
    mw2 = re.search(r"void\s+ev_callback_write\s*" + PARAMS % (r"(\w+)", r"(\w+)"), src)
    if not mw2:
        raise ExtractError("ev.c: signature of ev_callback_write not recognised")
    for name, canon in zip(mw2.groups(), ("fiber", "event")):
        if name != canon:
            w = re.sub(r"(?<![>.\w])%s\b" % re.escape(name), canon, w)
    w = _canon(w, [(r"JanetStream\s*\*\s*(\w+)\s*=\s*fiber->ev_stream\s*;", "stream"),
                   (r"StateWrite\s*\*\s*(\w+)\s*=\s*\(\s*StateWrite\s*\*\s*\)\s*fiber->ev_state\s*;", "state")], "ev_callback_write")
    wposix = w[w.rindex("#else"):]
    whead = w[:len(w) - len(wposix)]
    wposix = _normalise(_canon(wposix, [
        (r"(?<![>.\w])(\w+)\s*=\s*state->start\s*;", "start"),
        (r"JanetBuffer\s*\*\s*(\w+)\s*=\s*state->src\.buf\s*;", "buffer"),
        (r"(?<![>.\w])(\w+)\s*=\s*buffer->data\s*;", "bytes"),
        (r"(?<![>.\w])(\w+)\s*=\s*buffer->count\s*;", "len"),
        (r"(?<![>.\w])(\w+)\s*=\s*write\s*\(\s*stream->handle", "nwrote"),
        (r"int32_t\s+(\w+)\s*=\s*len\s*-\s*start\s*;", "nbytes"),
        (r"void\s*\*\s*(\w+)\s*=\s*state->dest_abst\s*;", "dest_abst")], "ev_callback_write"))
    w = _normalise(whead) + wposix
    facts.update(_case_groups_write(wposix))
    _need(wposix, r"start\s*=\s*state->start\s*;", "resume offset read")
    _need(wposix, r"if\s*\(\s*start\s*<\s*len\s*\)\s*\{\s*int32_t\s+nbytes\s*=\s*len\s*-\s*start\s*;", "remaining length")
    _need(wposix, r"write\s*\(\s*stream->handle\s*,\s*bytes\s*\+\s*start\s*,\s*nbytes\s*\)", "write from offset")
    _need(wposix, r"send\s*\(\s*stream->handle\s*,\s*bytes\s*\+\s*start\s*,\s*nbytes\s*,", "send from offset")
    _need(wposix, r"if\s*\(\s*nwrote\s*>\s*0\s*\)\s*\{?\s*start\s*\+=\s*nwrote\s*;\s*\}?\s*else\s*\{?\s*start\s*=\s*len\s*;", "offset advance")
    _need(wposix, r"state->start\s*=\s*start\s*;\s*if\s*\(\s*start\s*>=\s*len\s*\)\s*\{\s*janet_schedule\s*\(\s*fiber\s*,\s*janet_wrap_nil", "completion test")
    _need(wposix, r"if\s*\(\s*nwrote\s*==\s*0\s*&&\s*!dest_abst\s*\)\s*\{\s*janet_cancel", "zero-length write is a disconnect")
    _need(w, r"case\s+JANET_ASYNC_EVENT_CLOSE\s*:\s*janet_cancel\s*\(\s*fiber\s*,\s*janet_cstringv\s*\(\s*\"stream closed\"\s*\)\s*\)\s*;\s*janet_async_end", "write CLOSE -> error")
    wg = _body(src, r"void\s+janet_ev_write_generic\s*\([^)]*\)\s*\{", "janet_ev_write_generic")
    wg = _canon(wg, [(r"StateWrite\s*\*\s*(\w+)\s*=\s*janet_malloc", "state")], "janet_ev_write_generic")
    _need(wg, r"state->start\s*=\s*0\s*;", "initial offset 0")
    # --- epoll registration of datagram servers
    if "JANET_EV_EPOLL" in src:
        m = re.search(r"if\s*\(\s*stream->flags\s*&\s*\(?([A-Z_|\s]+)\)?\s*\)\s*ev\.events\s*\|=\s*EPOLLOUT\s*;", src)
        if not m:
            raise ExtractError("epoll registration: EPOLLOUT condition not recognised")
        facts["dgramRegisteredForWrite"] = "JANET_STREAM_UDPSERVER" in m.group(1) and "JANET_STREAM_WRITABLE" in m.group(1)
    else:
        facts["dgramRegisteredForWrite"] = True
    return facts


def render(tree):
    f = extract(tree)
    b = lambda v: "true" if v else "false"
    return """-- GENERATED by tools/gen/stream.py from src/core/ev.c on every run of ./check C16.  Do not edit.
namespace JanetModel.Gen.Stream

/-- `janet_async_start_fiber` refuses (panics) when another fiber is still waiting in the read slot. -/
abbrev guardsReadSlot : Bool := %s
/-- `janet_async_start_fiber` refuses (panics) when another fiber is still waiting in the write slot. -/
abbrev guardsWriteSlot : Bool := %s
/-- per-syscall limit of a chunked read (`read_limit` in ev_callback_read) -/
abbrev chunkReadLimit : Nat := %d
/-- epoll backend: datagram server sockets are registered for EPOLLOUT -/
abbrev dgramRegisteredForWrite : Bool := %s
/-- ev_callback_read (posix): events whose case group is the `read_more` loop -- %s   (numbers: position in INIT MARK DEINIT CLOSE ERR HUP READ WRITE COMPLETE FAILED) -/
abbrev readLoopEvents : List Nat := %s
/-- ev_callback_read (posix): events whose case group is the error arm (buffer if something was read, else nil) -- %s -/
abbrev readErrEvents : List Nat := %s
/-- ev_callback_write (posix): events whose case group tries the write -- %s -/
abbrev writeTryEvents : List Nat := %s
/-- ev_callback_write (posix): events that raise "stream err" -- %s -/
abbrev writeErrEvents : List Nat := %s
/-- ev_callback_write (posix): events that raise "stream hup" -- %s -/
abbrev writeHupEvents : List Nat := %s

end JanetModel.Gen.Stream
""" % ((b(f["guardsReadSlot"]), b(f["guardsWriteSlot"]), f["chunkReadLimit"], b(f["dgramRegisteredForWrite"])) +
       tuple(x for k in ("readLoopEvents", "readErrEvents", "writeTryEvents", "writeErrEvents", "writeHupEvents")
             for x in (" ".join(sorted(f[k], key=EVENTS.index)), "[" + ", ".join(str(EVENTS.index(e)) for e in sorted(f[k], key=EVENTS.index)) + "]")))


if __name__ == "__main__":
    import sys
    print(render(sys.argv[1] if len(sys.argv) > 1 else "/repo"))
