"""Translator: ev.c  ->  Gen/Ev.lean.

What is read off the current source (everything else about ev.c is hand-modelled in lean/JanetModel/Ev and tied by
the correspondence harness):
  * the comparison operator of the capacity test in janet_channel_push_with_lock (`count > limit`) and in the first
    loop of cfun_channel_choice (`count < limit`);
  * whether the first loop of cfun_channel_choice also treats a waiting reader as "give is ready";
  * whether janet_channel_pop_with_lock skips pending writers with a stale sched_id;
  * whether cfun_channel_close compares sched_ids before waking a local waiter;
  * JANET_MAX_Q_CAPACITY.
Every other piece of the modelled functions is shape-checked (reader skip loop, FIFO enqueue, both close loops, the
stale-task filter of janet_loop1, `++fiber->sched_id`, the ring-buffer arithmetic): if it no longer looks like what
the model mirrors, ExtractError -> the check reports a broken tie and searches for a failing input.
"""
import re
from . import csrc
from .csrc import ExtractError


def _need(pat, text, what, flags=re.S):
    m = re.search(pat, text, flags)
    if not m:
        raise ExtractError("ev.c: %s not recognised" % what)
    return m


def _ws(s):
    """regex from a C fragment: any whitespace run matches any whitespace (or none around punctuation)"""
    out = []
    for tok in re.findall(r"[A-Za-z_0-9]+|\s+|.", s):
        if tok.isspace():
            out.append(r"\s*")
        else:
            out.append(re.escape(tok) + r"\s*")
    return "".join(out)


def corefn_body(src, name):
    """body of  JANET_CORE_FN(name, "usage", "doc") { ... }"""
    m = re.search(r"JANET_CORE_FN\s*\(\s*%s\s*," % re.escape(name), src)
    if not m:
        raise ExtractError("ev.c: JANET_CORE_FN(%s) not found" % name)
    i, depth = src.index("(", m.start()), 0
    while i < len(src):
        ch = src[i]
        if ch == '"':
            j = i + 1
            while src[j] != '"':
                j += 2 if src[j] == "\\" else 1
            i = j
        elif ch == "(":
            depth += 1
        elif ch == ")":
            depth -= 1
            if depth == 0:
                break
        i += 1
    j = src.index("{", i)
    if src[i + 1:j].strip():
        raise ExtractError("ev.c: JANET_CORE_FN(%s): body not found" % name)
    return src[j:csrc.match_brace(src, j)]


def extract(tree):
    raw = csrc.read(tree, "src/core/ev.c")
    src = csrc.strip_comments(raw)
    c = {}
    m = _need(r"#define\s+JANET_MAX_Q_CAPACITY\s+(\w+)", raw, "JANET_MAX_Q_CAPACITY")
    c["maxQCapacity"] = csrc.cint(m.group(1))

    # ---- ring buffers
    cnt = csrc.func_body(src, "janet_q_count")
    _need(_ws("return (q->head > q->tail) ? (q->tail + q->capacity - q->head) : (q->tail - q->head);"), cnt, "janet_q_count")
    rs = csrc.func_body(src, "janet_q_maybe_resize")
    for frag, what in [
        ("if (count + 1 >= q->capacity) {", "resize trigger"),
        ("if (count + 1 >= JANET_MAX_Q_CAPACITY) return 1;", "resize overflow test"),
        ("int32_t newcap = (count + 2) * 2;", "resize growth"),
        ("if (newcap > JANET_MAX_Q_CAPACITY) newcap = JANET_MAX_Q_CAPACITY;", "resize clamp"),
        ("if (q->head > q->tail) {", "resize wrapped test"),
        ("int32_t newhead = q->head + (newcap - q->capacity);", "resize new head"),
        ("size_t seg1 = (size_t)(q->capacity - q->head);", "resize segment length"),
        ("memmove((char *) q->data + (newhead * itemsize), (char *) q->data + (q->head * itemsize), seg1 * itemsize);", "resize memmove"),
        ("q->head = newhead;", "resize head update"),
        ("q->capacity = newcap;", "resize capacity update"),
    ]:
        _need(_ws(frag), rs, "janet_q_maybe_resize: " + what)
    pu = csrc.func_body(src, "janet_q_push")
    _need(_ws("if (janet_q_maybe_resize(q, itemsize)) return 1; memcpy((char *) q->data + itemsize * q->tail, item, itemsize); "
              "q->tail = q->tail + 1 < q->capacity ? q->tail + 1 : 0;"), pu, "janet_q_push")
    ph = csrc.func_body(src, "janet_q_push_head")
    _need(_ws("int32_t newhead = q->head - 1; if (newhead < 0) { newhead += q->capacity; } "
              "memcpy((char *) q->data + itemsize * newhead, item, itemsize); q->head = newhead;"), ph, "janet_q_push_head")
    po = csrc.func_body(src, "janet_q_pop")
    _need(_ws("if (q->head == q->tail) return 1; memcpy(out, (char *) q->data + itemsize * q->head, itemsize); "
              "q->head = q->head + 1 < q->capacity ? q->head + 1 : 0;"), po, "janet_q_pop")

    # ---- scheduling
    sg = csrc.func_body(src, "janet_schedule_general")
    _need(_ws("if (fiber->gc.flags & JANET_FIBER_EV_FLAG_CANCELED) return;"), sg, "schedule_general: canceled test")
    _need(_ws("JanetTask t = { fiber, value, sig, ++fiber->sched_id };"), sg, "schedule_general: sched_id increment")
    _need(_ws("if (soon) { janet_q_push_head(&janet_vm.spawn, &t, sizeof(t)); } else { janet_q_push(&janet_vm.spawn, &t, sizeof(t)); }"),
          sg, "schedule_general: enqueue")
    l1 = csrc.func_body(src, "janet_loop1")
    m = _need(_ws("janet_q_pop(&janet_vm.spawn, &task, sizeof(task)); "
                  "if (task.fiber->gc.flags & JANET_FIBER_EV_FLAG_SUSPENDED) janet_ev_dec_refcount(); "
                  "task.fiber->gc.flags &= ~(JANET_FIBER_EV_FLAG_CANCELED | JANET_FIBER_EV_FLAG_SUSPENDED); "
                  "if (task.expected_sched_id != task.fiber->sched_id) continue;") + r"\s*(" + _ws("task.fiber->sched_id++;") + r"\s*)?"
              + _ws("Janet res; JanetSignal sig = janet_continue_signal(task.fiber, task.value, &res, task.sig);"),
              l1, "janet_loop1: run phase / stale-task filter / resume")
    # the fiber's generation also advances when its task is resumed (between the filter and janet_continue_signal)
    c["resumeBumps"] = m.group(1) is not None
    if len(re.findall(r"sched_id\s*\+\+|\+\+\s*\w+(?:->|\.)sched_id|sched_id\s*[-+]?=[^=]", l1)) != (1 if c["resumeBumps"] else 0):
        raise ExtractError("ev.c: janet_loop1: unexpected write to a sched_id")
    _need(_ws("while (janet_vm.spawn.head != janet_vm.spawn.tail) {"), l1, "janet_loop1: run phase loop")
    # supervisor event of a finished / signalling fiber: pushed from the run phase with mode 2 (no root fiber)
    sup_head = _ws("void *sv = task.fiber->supervisor_channel;")
    sup_cond = _ws("} else if (sig == JANET_SIGNAL_OK || (task.fiber->flags & (1 << sig))) { JanetChannel *chan = janet_channel_unwrap(sv);")
    sup_plain = sup_cond + r"\s*" + _ws("janet_channel_push(chan, make_supervisor_event(janet_signal_names[sig], task.fiber, chan->is_threaded), 2); } else if (!is_suspended) {")
    sup_guard = sup_cond + r"\s*" + _ws("janet_chan_lock(chan); if (chan->closed) { janet_chan_unlock(chan); if (!is_suspended) { janet_stacktrace_ext(task.fiber, res, \"\"); } } else { "
                                        "janet_channel_push_with_lock(chan, make_supervisor_event(janet_signal_names[sig], task.fiber, chan->is_threaded), 2); } "
                                        "} else if (!is_suspended) {")
    _need(sup_head, l1, "janet_loop1: supervisor channel of the task's fiber")
    plain, guard = re.search(sup_plain, l1, re.S), re.search(sup_guard, l1, re.S)
    if bool(plain) == bool(guard):
        raise ExtractError("ev.c: janet_loop1: push of the supervisor event not recognised")
    c["supervisorSkipsClosed"] = bool(guard)
    _need(_ws("static int janet_channel_push(JanetChannel *channel, Janet x, int mode) { janet_chan_lock(channel); "
              "return janet_channel_push_with_lock(channel, x, mode); }"), src, "janet_channel_push = lock + push_with_lock")
    ego = corefn_body(src, "cfun_ev_go")
    _need(_ws("void *supervisor = janet_optabstract(argv, argc, 2, &janet_channel_type, janet_vm.root_fiber->supervisor_channel);"), ego, "ev/go: supervisor argument")
    _need(_ws("fiber->flags |= JANET_FIBER_MASK_ERROR |"), ego, "ev/go: error signals of a task function go to the supervisor")
    _need(_ws("fiber->supervisor_channel = supervisor; janet_schedule(fiber, value);"), ego, "ev/go: supervisor stored, fiber scheduled")
    _need(_ws("if (to.fiber->sched_id == to.sched_id) {"), l1, "janet_loop1: timer sched_id test")

    # ---- push
    pw = csrc.func_body(src, "janet_channel_push_with_lock")
    _need(_ws("if (channel->closed) { janet_chan_unlock(channel); janet_panic("), pw, "push: closed test")
    _need(_ws("do { is_empty = janet_q_pop(&channel->read_pending, &reader, sizeof(reader)); } "
              "while (!is_empty && (reader.sched_id != reader.fiber->sched_id));"), pw, "push: skip of stale readers")
    m = _need(_ws("if (janet_q_push(&channel->items, &x, sizeof(Janet))) {") + r".*?" +
              r"else\s+if\s*\(\s*janet_q_count\s*\(\s*&channel->items\s*\)\s*(>=|>)\s*channel->limit\s*\)", pw, "push: capacity test")
    c["pushBlocksStrict"] = m.group(1) == ">"
    _need(_ws("if (mode == 2) { janet_chan_unlock(channel); return 1; }"), pw, "push: mode 2 (from the loop, no root fiber) never registers")
    _need(_ws("pending.fiber = janet_vm.root_fiber, pending.sched_id = janet_vm.root_fiber->sched_id, "
              "pending.mode = mode ? JANET_CP_MODE_CHOICE_WRITE : JANET_CP_MODE_WRITE; "
              "janet_q_push(&channel->write_pending, &pending, sizeof(pending));"), pw, "push: writer registration")
    _need(_ws("if (reader.mode == JANET_CP_MODE_CHOICE_READ) { janet_schedule(reader.fiber, make_read_result(channel, x)); } "
              "else { janet_schedule(reader.fiber, x); }"), pw, "push: hand-over to reader")

    # ---- pop
    pp = csrc.func_body(src, "janet_channel_pop_with_lock")
    _need(_ws("if (channel->closed) { janet_chan_unlock(channel); *item = janet_wrap_nil(); return 1; }"), pp, "pop: closed test")
    _need(_ws("if (janet_q_pop(&channel->items, item, sizeof(Janet))) {"), pp, "pop: dequeue")
    _need(_ws("pending.sched_id = janet_vm.root_fiber->sched_id; pending.mode = is_choice ? JANET_CP_MODE_CHOICE_READ : JANET_CP_MODE_READ; "
              "janet_q_push(&channel->read_pending, &pending, sizeof(pending));"), pp, "pop: reader registration")
    unfixed = re.search(_ws("if (!janet_q_pop(&channel->write_pending, &writer, sizeof(writer))) {"), pp)
    fixed = re.search(_ws("do { is_empty = janet_q_pop(&channel->write_pending, &writer, sizeof(writer)); } "
                          "while (!is_empty && (writer.sched_id != writer.fiber->sched_id));") + r"\s*\}\s*" + _ws("if (!is_empty) {"), pp)
    if bool(unfixed) == bool(fixed):
        raise ExtractError("ev.c: pop: wake of a pending writer not recognised")
    c["popSkipsStaleWriter"] = bool(fixed)
    _need(_ws("if (writer.mode == JANET_CP_MODE_CHOICE_WRITE) { janet_schedule(writer.fiber, make_write_result(channel)); } "
              "else { janet_schedule(writer.fiber, janet_wrap_abstract(channel)); }"), pp, "pop: wake of writer")

    # ---- give / take entry points
    cg = corefn_body(src, "cfun_channel_push")
    _need(_ws("if (janet_channel_push(channel, argv[1], 0)) { janet_await(); } return argv[0];"), cg, "ev/give")
    ct = corefn_body(src, "cfun_channel_pop")
    _need(_ws("if (janet_channel_pop(channel, &item, 0)) { janet_schedule(janet_vm.root_fiber, item); } janet_await();"), ct, "ev/take")

    # ---- ev/count, ev/full, ev/capacity
    _need(_ws("Janet ret = janet_wrap_integer(janet_q_count(&channel->items));"), corefn_body(src, "cfun_channel_count"), "ev/count")
    _need(_ws("Janet ret = janet_wrap_boolean(janet_q_count(&channel->items) >= channel->limit);"), corefn_body(src, "cfun_channel_full"), "ev/full")
    _need(_ws("Janet ret = janet_wrap_integer(channel->limit);"), corefn_body(src, "cfun_channel_capacity"), "ev/capacity")

    # ---- select
    ch = corefn_body(src, "cfun_channel_choice")
    loops = [m.start() for m in re.finditer(r"for\s*\(\s*int32_t\s+i\s*=\s*0\s*;\s*i\s*<\s*argc\s*;\s*i\+\+\s*\)", ch)]
    # an optional validation pass (one more loop over the clauses, before the first lock): it may only type-check the
    # clauses - janet_getchannel on the channel of each clause, raising on an ill-typed one - and touch no channel state
    c["choiceValidatesFirst"] = False
    if len(loops) == 3:
        val = ch[loops[0]:loops[1]]
        m = re.match(r"for\s*\([^)]*\)\s*", val)
        if not m or val[m.end()] != "{":
            raise ExtractError("ev.c: cfun_channel_choice: validation pass: loop body not found")
        end = csrc.match_brace(val, m.end())
        body = val[m.end():end]
        # structural purity: it calls only type checks / the pack probe (no-ops on an unthreaded channel, checked below),
        # takes no lock, touches no queue, writes no field, never returns and never suspends
        called = set(re.findall(r"\b([A-Za-z_]\w*)\s*\(", body)) - {"if", "for", "while", "switch", "sizeof"}
        allowed = {"janet_indexed_view", "janet_getchannel", "janet_chan_pack", "janet_chan_unpack", "janet_panicf", "janet_panic"}
        if not called <= allowed or "janet_getchannel" not in called:
            raise ExtractError("ev.c: cfun_channel_choice: the loop before the immediate pass is not a pure validation pass (calls %s)"
                               % ", ".join(sorted(called - allowed)))
        if re.search(r"->\s*\w+\s*(=[^=]|\+\+|--|[-+|&]=)|\breturn\b|\bgoto\b", body) or val[end:].strip():
            raise ExtractError("ev.c: cfun_channel_choice: the loop before the immediate pass is not a pure validation pass")
        for fn in sorted(called & {"janet_chan_pack", "janet_chan_unpack"}):
            _need(r"^\{\s*" + _ws("if (!janet_chan_is_threaded(chan)) return 0;"), csrc.func_body(src, fn), fn + ": no-op on an unthreaded channel")
        c["choiceValidatesFirst"] = True
        loops = loops[1:]
    if len(loops) != 2:
        raise ExtractError("ev.c: cfun_channel_choice: expected [validation pass,] immediate pass and registration pass over the clauses, found %d loops" % len(loops))
    first, second = ch[loops[0]:loops[1]], ch[loops[1]:]
    m = _need(r"if\s*\(\s*janet_q_count\s*\(\s*&chan->items\s*\)\s*(<=|<)\s*chan->limit\s*(\|\|\s*janet_channel_has_reader\s*\(\s*chan\s*\)\s*)?\)\s*\{\s*"
              + _ws("janet_channel_push_with_lock(chan, data[1], 1); chan_unlock_args(argv, i); return make_write_result(chan);"),
              first, "select: immediate give test")
    c["choiceReadyStrict"] = m.group(1) == "<"
    c["choiceGiveSeesReader"] = m.group(2) is not None
    if c["choiceGiveSeesReader"]:
        hr = csrc.func_body(src, "janet_channel_has_reader")
        _need(_ws("JanetQueue *q = &channel->read_pending;"), hr, "janet_channel_has_reader: queue")
        _need(_ws("for (int32_t i = q->head; i != q->tail; i = (i + 1 < q->capacity) ? i + 1 : 0) { "
                  "if (pending[i].sched_id == pending[i].fiber->sched_id) return 1; } return 0;"), hr, "janet_channel_has_reader: scan")
    if len(re.findall(_ws("if (chan->closed) { janet_chan_unlock(chan); chan_unlock_args(argv, i); return make_close_result(chan); }"), first)) != 2:
        raise ExtractError("ev.c: select: closed tests of the first loop not recognised")
    _need(_ws("if (chan->items.head != chan->items.tail) { Janet item; janet_channel_pop_with_lock(chan, &item, 1); "
              "chan_unlock_args(argv, i); return make_read_result(chan, item); }"), first, "select: immediate take")
    _need(_ws("janet_channel_push_with_lock(chan, data[1], 1); } else {") + r".*?" + _ws("janet_channel_pop_with_lock(chan, &item, 1); } }")
          + r"\s*" + _ws("janet_await();"), second, "select: registration loop")

    # ---- close
    cl = corefn_body(src, "cfun_channel_close")
    _need(_ws("if (!channel->closed) { channel->closed = 1;"), cl, "close: closed flag")
    res = {}
    for who, q, mode in (("writer", "write_pending", "JANET_CP_MODE_CHOICE_WRITE"), ("reader", "read_pending", "JANET_CP_MODE_CHOICE_READ")):
        head = _ws("while (!janet_q_pop(&channel->%s, &%s, sizeof(%s))) {" % (q, who, who))
        body = _ws("if (%s.mode == %s) { janet_schedule(%s.fiber, make_close_result(channel)); } else { janet_schedule(%s.fiber, janet_wrap_nil()); }"
                   % (who, mode, who, who))
        plain = re.search(head + r".*?" + _ws("if (janet_fiber_can_resume(%s.fiber)) {" % who) + body, cl, re.S)
        chk = re.search(head + r".*?" + _ws("if (%s.sched_id == %s.fiber->sched_id && janet_fiber_can_resume(%s.fiber)) {" % (who, who, who)) + body, cl, re.S)
        if bool(plain) == bool(chk):
            raise ExtractError("ev.c: close: wake loop over %s not recognised" % q)
        res[who] = bool(chk)
    if cl.find("write_pending") > cl.find("read_pending"):
        raise ExtractError("ev.c: close: order of the wake loops changed")
    if res["writer"] != res["reader"]:
        raise ExtractError("ev.c: close: sched_id test present in only one of the two wake loops")
    c["closeChecksSched"] = res["writer"]
    return c


# ---------------------------------------------------------------------------------------------- mark functions
_BOUND = {"0": 0, "head": 1, "tail": 2, "capacity": 3}


def _mark_walk(body, qname, what, marked):
    """Structure of the walk a mark function makes over one JanetQueue `qname` (a pointer variable):
         if (q->head <= q->tail) { for (int32_t i = LO; i < HI; i++) MARK; ... } else { for ...; for ...; }
       or an unconditional run of such loops whose bounds may be `(q->head <= q->tail) ? A : B` (through a local).
       -> (straight, wrapped): lists of (lo, hi) bound codes 0 = constant 0, 1 = head, 2 = tail, 3 = capacity.
       Every loop must mark `marked` (a regex over the loop body with the index `i`), step by `i++` and test `i < HI`."""
    q = re.escape(qname)
    fld = r"(?:%s\s*->\s*)(head|tail|capacity)" % q

    def bound(txt, locals_):
        txt = txt.strip()
        while txt.startswith("(") and txt.endswith(")") and csrc_balanced(txt[1:-1]):
            txt = txt[1:-1].strip()
        if txt == "0":
            return (0, 0)
        m = re.fullmatch(fld, txt)
        if m:
            return (_BOUND[m.group(1)],) * 2
        if txt in locals_:
            return locals_[txt]
        m = re.fullmatch(r"\(?\s*%s\s*->\s*head\s*<=\s*%s\s*->\s*tail\s*\)?\s*\?\s*(.+?)\s*:\s*(.+)" % (q, q), txt, re.S)
        if m:
            return (bound(m.group(1), locals_)[0], bound(m.group(2), locals_)[1])
        raise ExtractError("ev.c: %s: loop bound %r not recognised" % (what, txt))

    def loops(block, locals_, branch):
        out, pos = [], 0
        for m in re.finditer(r"for\s*\(\s*int32_t\s+(\w+)\s*=\s*([^;]+);\s*(\w+)\s*<\s*([^;]+);\s*(\w+)\s*\+\+\s*\)\s*", block):
            if block[pos:m.start()].strip(" \t\n;{}"):
                raise ExtractError("ev.c: %s: statement %r between the mark loops not recognised" % (what, block[pos:m.start()].strip()[:60]))
            i = m.group(1)
            if m.group(3) != i or m.group(5) != i:
                raise ExtractError("ev.c: %s: mark loop does not step its own index" % what)
            rest = block[m.end():]
            stmt_end = csrc.match_brace(rest, 0) if rest.startswith("{") else rest.index(";") + 1
            stmt = rest[:stmt_end]
            if not re.fullmatch(r"\{?\s*" + marked.replace("IDX", re.escape(i)) + r"\s*;\s*\}?", stmt.strip(), re.S):
                raise ExtractError("ev.c: %s: body of a mark loop not recognised: %r" % (what, stmt.strip()[:80]))
            out.append((bound(m.group(2), locals_)[branch], bound(m.group(4), locals_)[branch]))
            pos = m.end() + stmt_end
        if block[pos:].strip(" \t\n;{}"):
            raise ExtractError("ev.c: %s: statement %r after the mark loops not recognised" % (what, block[pos:].strip()[:60]))
        return out

    # locals that name a bound:  int32_t end = <bound expr>;
    locals_ = {}
    for m in re.finditer(r"int32_t\s+(\w+)\s*=\s*([^;]*(?:%s)[^;]*);" % fld, body):
        if body[:m.start()].rstrip().endswith("("):
            continue      # the index declaration of a for loop
        locals_[m.group(1)] = bound(m.group(2), locals_)
        body = body[:m.start()] + " " * (m.end() - m.start()) + body[m.end():]
    m = re.search(r"if\s*\(\s*%s\s*->\s*head\s*<=\s*%s\s*->\s*tail\s*\)\s*\{" % (q, q), body)
    if m:
        if body[:m.start()].strip(" \t\n;{"):
            raise ExtractError("ev.c: %s: statement %r before the walk not recognised" % (what, body[:m.start()].strip()[:60]))
        e1 = csrc.match_brace(body, m.end() - 1)
        m2 = re.match(r"\s*else\s*\{", body[e1:])
        if not m2:
            raise ExtractError("ev.c: %s: `if (head <= tail)` without else branch" % what)
        e2 = csrc.match_brace(body, e1 + m2.end() - 1)
        if body[e2:].strip(" \t\n;}") not in ("", "return 0"):
            raise ExtractError("ev.c: %s: statements after the walk not recognised" % what)
        return loops(body[m.end():e1 - 1], locals_, 0), loops(body[e1 + m2.end():e2 - 1], locals_, 1)
    k = body.find("for")
    if k < 0:
        raise ExtractError("ev.c: %s: no mark loop found" % what)
    tail = re.sub(r"return\s+0\s*;\s*\}\s*$", "", body[k:].rstrip())
    tail = re.sub(r"\}\s*$", "", tail) if tail.count("}") > tail.count("{") else tail
    return loops(tail, locals_, 0), loops(tail, locals_, 1)


def csrc_balanced(txt):
    d = 0
    for ch in txt:
        d += ch == "("
        d -= ch == ")"
        if d < 0:
            return False
    return d == 0


def extract_marks(src):
    """janet_chanat_mark_fq (fibers of a pending queue) and the item walk of janet_chanat_mark"""
    fq = csrc.func_body(src, "janet_chanat_mark_fq")
    sig = _need(r"janet_chanat_mark_fq\s*\(\s*JanetQueue\s*\*\s*(\w+)\s*\)\s*\{", src, "janet_chanat_mark_fq: parameter")
    fqn = sig.group(1)
    m = _need(r"^\{\s*JanetChannelPending\s*\*\s*(\w+)\s*=\s*(?:\(\s*JanetChannelPending\s*\*\s*\)\s*)?%s\s*->\s*data\s*;" % re.escape(fqn), fq,
              "janet_chanat_mark_fq: view of the pending entries")
    pend = _mark_walk(fq[m.end():], fqn, "janet_chanat_mark_fq",
                      r"janet_mark\s*\(\s*janet_wrap_fiber\s*\(\s*%s\s*\[\s*IDX\s*\]\s*\.\s*fiber\s*\)\s*\)" % re.escape(m.group(1)))
    mk = csrc.func_body(src, "janet_chanat_mark")
    # preamble, names free, statement order free: the channel pointer, both pending queues handed to janet_chanat_mark_fq,
    # a view of the items ring and of its slots; then the walk
    m = _need(r"JanetChannel\s*\*\s*(\w+)\s*=\s*(?:\(\s*JanetChannel\s*\*\s*\)\s*)?p\s*;", mk, "janet_chanat_mark: channel pointer")
    ch = re.escape(m.group(1))
    cands = [x.start() for x in (re.search(r"\bfor\s*\(", mk), re.search(r"\bif\s*\(", mk)) if x]
    if not cands:
        raise ExtractError("ev.c: janet_chanat_mark: no walk over the items ring found")
    start = min(cands)
    pre, walk = mk[:start], mk[start:]
    for q in ("read_pending", "write_pending"):
        if len(re.findall(r"janet_chanat_mark_fq\s*\(\s*&\s*%s\s*->\s*%s\s*\)\s*;" % (ch, q), mk)) != 1:
            raise ExtractError("ev.c: janet_chanat_mark: %s is not handed to janet_chanat_mark_fq exactly once" % q)
    mq = _need(r"JanetQueue\s*\*\s*(\w+)\s*=\s*&\s*%s\s*->\s*items\s*;" % ch, pre, "janet_chanat_mark: view of the items ring")
    qn = mq.group(1)
    md = _need(r"Janet\s*\*\s*(\w+)\s*=\s*(?:\(\s*Janet\s*\*\s*\)\s*)?(?:%s\s*->\s*items\s*\.|%s\s*->\s*)data\s*;" % (ch, re.escape(qn)), pre,
               "janet_chanat_mark: view of the item slots")
    walk = re.sub(r"janet_chanat_mark_fq\s*\([^;]*;", "", walk)     # (the fq calls may also follow the walk)
    left = re.sub(r"janet_chanat_mark_fq\s*\([^;]*;|\(\s*void\s*\)\s*\w+\s*;", "", pre)
    left = left.replace(m.group(0), "").replace(mq.group(0), "").replace(md.group(0), "")
    # anything else before the first loop (a local naming a bound, ...) belongs to the walk: _mark_walk accepts or rejects it
    items = _mark_walk(left.strip(" \t\n{") + "\n" + walk, qn, "janet_chanat_mark", r"janet_mark\s*\(\s*%s\s*\[\s*IDX\s*\]\s*\)" % re.escape(md.group(1)))
    if not re.search(r"janet_chanat_mark\s*,", src):
        raise ExtractError("ev.c: janet_chanat_mark is not the gcmark callback of janet_channel_type")
    return {"chanMarkPending": pend, "chanMarkItems": items}


ORDER = ["pushBlocksStrict", "choiceReadyStrict", "choiceGiveSeesReader", "popSkipsStaleWriter", "closeChecksSched", "resumeBumps",
         "supervisorSkipsClosed"]


def render(tree):
    c = extract(tree)
    out = [csrc.lean_header("src/core/ev.c"), "namespace JanetModel.Gen.Ev\n"]
    doc = {
        "pushBlocksStrict": "janet_channel_push_with_lock blocks when `count > limit` (false: `>=`)",
        "choiceReadyStrict": "first loop of cfun_channel_choice: give is ready when `count < limit` (false: `<=`)",
        "choiceGiveSeesReader": "first loop of cfun_channel_choice: `|| janet_channel_has_reader(chan)`",
        "popSkipsStaleWriter": "janet_channel_pop_with_lock skips pending writers whose sched_id is stale",
        "closeChecksSched": "cfun_channel_close compares sched_ids before waking a local waiter",
        "resumeBumps": "run phase of janet_loop1: `task.fiber->sched_id++` between the stale-task filter and janet_continue_signal",
        "supervisorSkipsClosed": "run phase of janet_loop1: the supervisor event is not pushed into a closed supervisor channel",
    }
    for k in ORDER:
        out.append("/-- %s -/" % doc[k])
        out.append("abbrev %s : Bool := %s" % (k, "true" if c[k] else "false"))
    marks = extract_marks(csrc.strip_comments(csrc.read(tree, "src/core/ev.c")))
    out.append("/-! walks of the channel's gcmark callback over a JanetQueue: `if (head <= tail) {straight} else {wrapped}`, each a list of\n"
               "    loops `for (i = lo; i < hi; i++) janet_mark(slot i)`; bound codes 0 = constant 0, 1 = head, 2 = tail, 3 = capacity -/")
    for name, doc in (("chanMarkItems", "janet_chanat_mark: the items ring"), ("chanMarkPending", "janet_chanat_mark_fq: the fibers of a pending queue")):
        st, wr = marks[name]
        out.append("/-- %s, branch head <= tail -/" % doc)
        out.append("abbrev %sStraight : List (Nat × Nat) := [%s]" % (name, ", ".join("(%d, %d)" % x for x in st)))
        out.append("/-- %s, branch head > tail -/" % doc)
        out.append("abbrev %sWrapped : List (Nat × Nat) := [%s]" % (name, ", ".join("(%d, %d)" % x for x in wr)))
    out.append("/-- JANET_MAX_Q_CAPACITY -/")
    out.append("abbrev maxQCapacity : Nat := %d" % c["maxQCapacity"])
    out.append("\nend JanetModel.Gen.Ev\n")
    return "\n".join(out)


def cfg_bits(tree):
    c = extract(tree)
    return "".join("1" if c[k] else "0" for k in ORDER)
