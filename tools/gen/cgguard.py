"""C19 translator, guard-recognition part (session 4): depth guards recognised on the LLVM IR, not on the source text.

`tools/gen/callgraph.py` PROPOSES guard functions by source idiom (regex).  This module justifies each proposal on the
control-flow graph of the function in the -O0 IR of the amalgamation and emits a certificate that Lean checks
(`Depth/GuardCert.lean: certOK`, obligation `cg_guards_certified`): a proposed guard without a valid certificate is not a
guard any more (callgraph.extract is re-run without it, so its cycle is reported as unguarded).

What is read from the IR of one function (clang-14 -O0: every C variable is an alloca, every use a load):

  blocks, CFG      basic blocks in textual order (block 0 = entry); successors from br / switch / ret / unreachable
  check            a block that ends in `br i1 %c, T, F` with `%c = icmp PRED ty A, B`, one operand an integer constant K,
                   the other traced (through load / and / add / sext / zext / trunc and single-store locals) to a COUNTER
                   LOCATION: a field of a global (`janet_vm.stackn`), a global (`depth` of gc.c), a struct field reached
                   through a pointer (`c->recursion_guard`, `s->depth`, `b->depth`, `S->depth`, `a.depth`), or a
                   parameter (`depth`, `recur`, `flags`); or to the result of a call of a CHECKER helper
                   (janet_check_can_resume) - kind `via`
  charge           the same location is changed by +-1 in this function (store of load +- 1) or handed to a callee of the
                   same SCC as `parameter +- 1` (print_jdn_one(S, x, depth - 1), marshal_one(st, x, flags + 1)), or - for
                   a struct field - initialised from the same field of another object + 1 (janet_asm1: a.depth =
                   parent->depth + 1).  A location that is compared but never charged is not a depth counter.
  refuse side      decided IN LEAN from (PRED, K) (`refuseOnTrue`): `>= / > K` with K >= 2 and `== / <= / < K` with K <= 1
                   refuse on true; `!= / > K` with K <= 1 and `< / <= K` with K >= 2 pass on true
  targets          blocks that contain a call (direct, or indirect by type as in callgraph.py) of a function of the same
                   recursive SCC - the recursive calls.  For a checker helper: the blocks that store a value to the
                   return slot that is not a non-zero constant (i.e. may return "ok").
  safe             UNTRUSTED: blocks reachable from the entry without taking a pass edge of a check

Lean checks per certificate: the CFG is well formed, every check's branch edges are CFG edges, `safe` contains the entry
and is closed under every CFG edge that is not a pass edge, no target is in `safe`, the compare constant is within the
limit (count-up: K <= JANET_RECURSION_GUARD + 1; count-down: every constant the counter is initialised with anywhere in
the module <= JANET_RECURSION_GUARD).  `guard_dominates` (proved once): then every CFG path from the entry to a target
takes a pass edge, i.e. every recursive call is dominated by "the counter was compared against the limit and the limit
was not reached".

Exemptions (callgraph.EXEMPT_BOUNDED) get the same treatment where the written reason is a domination fact:
  janet_continue_no_check   in EVERY function that calls it, the call is dominated by the pass edge of a check of
                            janet_check_can_resume's result (one certificate per caller; run_vm: JOP_RESUME / JOP_CANCEL)
  doarg_1                   the self call is dominated by `argtype == T` and passes the constant S != T as argtype
  janet_mark_funcdef / janet_disasm_defs   the functions that store to the `defs` field of a JanetFuncDef (IR: store
                            through getelementptr %struct.JanetFuncDef field k) are all guards or not on a cycle
"""
import re

from .csrc import ExtractError, lean_header
from . import callgraph as cgm

CHECKERS = ("janet_check_can_resume",)
_LABEL = re.compile(r"^([\w.$-]+):")
_SSA = re.compile(r"^\s*(%[\w.$-]+)\s*=\s*(.*)$")
_INT = re.compile(r"^-?\d+$")
_CONST_GEP = re.compile(r"getelementptr inbounds \(%([\w.]+), %[\w.]+\* @([\w.$]+), i32 0, i32 (\d+)\)")


class Fn:
    pass


def split_functions(path):
    """name -> list of body lines (between `define` and `}`), plus the define line"""
    out, cur, name = {}, None, None
    globals_, types = [], {}
    with open(path) as f:
        for line in f:
            line = line.rstrip("\n")
            if cur is None:
                if line.startswith("define "):
                    m = cgm._DEFINE.match(line)
                    if not m:
                        raise ExtractError("unparsed define line: " + line[:160])
                    name = m.group(2)
                    cur = [line]
                elif line.startswith("@"):
                    globals_.append(line)
                elif line.startswith("%") and " = type {" in line:
                    types[line[1:line.index(" = ")]] = line[line.index("{") + 1:line.rindex("}")]
            elif line == "}":
                out[name] = cur
                cur = None
            else:
                cur.append(line)
    return out, globals_, types


def parse_function(name, lines):
    """-> Fn with .nparams, .blocks [(label, [instr])], .succ {i: [j]}, .defs {ssa: rhs}, .term {i: text}"""
    fn = Fn()
    fn.name = name
    m = cgm._DEFINE.match(lines[0])
    fn.nparams = len([a for a in cgm._split_top(m.group(3)) if a.strip() and a.strip() != "..."])
    fn.param_ty = [cgm._arg_type(a) for a in cgm._split_top(m.group(3))]
    blocks = [("entry", [])]
    i = 1
    while i < len(lines):
        s = lines[i]
        lm = _LABEL.match(s)
        if lm:
            blocks.append((lm.group(1), []))
        elif s.strip():
            t = s.strip()
            if t.startswith("switch ") and t.endswith("["):
                while not lines[i].strip().startswith("]"):
                    i += 1
                    t += " " + lines[i].strip()
            blocks[-1][1].append(t)
        i += 1
    fn.blocks = blocks
    idx = {lab: k for k, (lab, _) in enumerate(blocks)}
    idx[str(fn.nparams)] = 0
    fn.defs, fn.where = {}, {}
    fn.succ, fn.term = {}, {}
    for k, (lab, ins) in enumerate(blocks):
        if not ins:
            raise ExtractError("%s: empty basic block %s" % (name, lab))
        for t in ins:
            sm = _SSA.match(t)
            if sm:
                fn.defs[sm.group(1)] = sm.group(2)
                fn.where[sm.group(1)] = k
        t = ins[-1]
        fn.term[k] = t
        if t.startswith("br ") or t.startswith("switch ") or t.startswith("indirectbr "):
            labs = re.findall(r"label %([\w.$-]+)", t)
            try:
                fn.succ[k] = [idx[l] for l in labs]
            except KeyError as e:
                raise ExtractError("%s: branch to unknown label %s" % (name, e))
        elif t.startswith("ret ") or t == "unreachable" or t.startswith("resume "):
            fn.succ[k] = []
        else:
            raise ExtractError("%s: unknown terminator: %s" % (name, t[:80]))
    return fn


def _alloca_stores(fn, a):
    """stored values into alloca `a` (direct stores only), in textual order"""
    out = []
    pat = re.compile(r"^store \S.*? (\S+), [^,]*\* %s(?:,|$)" % re.escape(a))
    for k, (_, ins) in enumerate(fn.blocks):
        for t in ins:
            if t.startswith("store ") and (" " + a + ",") in t + ",":
                m = pat.match(t)
                if m:
                    out.append((k, m.group(1)))
    return out


def trace(fn, v, depth=0):
    """provenance of an integer SSA value / operand -> tuple"""
    v = v.strip()
    if _INT.match(v):
        return ("const", int(v))
    if v in ("null", "false"):
        return ("const", 0)
    if v == "true":
        return ("const", 1)
    if depth > 12 or not v.startswith("%"):
        return ("other", v[:40])
    if re.match(r"^%\d+$", v) and int(v[1:]) < fn.nparams:
        return ("param", int(v[1:]))
    rhs = fn.defs.get(v)
    if rhs is None:
        return ("other", v)
    if rhs.startswith("load "):
        parts = cgm._split_top(rhs[5:])
        if len(parts) >= 2:
            return trace_loc(fn, _operand(parts[1]), depth + 1)
    m = re.match(r"(add|sub)(?: nsw| nuw)* \w+ (\S+), (\S+)$", rhs)
    if m:
        a, b = trace(fn, m.group(2), depth + 1), trace(fn, m.group(3), depth + 1)
        if b[0] == "const":
            return ("add", b[1] if m.group(1) == "add" else -b[1], a)
        if a[0] == "const" and m.group(1) == "add":
            return ("add", a[1], b)
        return ("other", rhs[:40])
    m = re.match(r"and \w+ (\S+), (\S+)$", rhs)
    if m:
        a, b = trace(fn, m.group(1), depth + 1), trace(fn, m.group(2), depth + 1)
        # a low-bit mask 2^k - 1 keeps a counter that is below 2^k (marshal: flags & 0xFFFF); other masks test flag bits
        if b[0] == "const" and b[1] > 0 and (b[1] & (b[1] + 1)) == 0 and a[0] != "const":
            return ("mask", b[1], a)
        return ("other", rhs[:40])
    m = re.match(r"(?:sext|zext|trunc) \w+ (\S+) to \w+$", rhs)
    if m:
        return trace(fn, m.group(1), depth + 1)
    if " call " in " " + rhs:
        k = cgm._find_callee(rhs[rhs.index("call ") + 5:])
        if k and k[2].startswith("@"):
            return ("call", k[2][1:])
    return ("other", rhs[:40])


def trace_loc(fn, p, depth=0):
    """a pointer operand -> location tuple, or the provenance of the single value stored there (locals)"""
    p = p.strip()
    m = _CONST_GEP.match(p)
    if m:
        return ("gfield", m.group(2), int(m.group(3)))
    if p.startswith("@"):
        return ("global", p[1:])
    rhs = fn.defs.get(p)
    if rhs is None:
        return ("other", p[:40])
    if rhs.startswith("alloca "):
        st = _alloca_stores(fn, p)
        if st and re.match(r"^%\d+$", st[0][1]) and int(st[0][1][1:]) < fn.nparams and st[0][0] == 0:
            return ("param", int(st[0][1][1:]))
        if len(st) == 1:
            return trace(fn, st[0][1], depth + 1)
        return ("local", p)
    m = re.match(r"getelementptr inbounds %([\w.]+), %[\w.]+\* (\S+), i32 0, i32 (\d+)$", rhs)
    if m:
        return ("field", m.group(1), int(m.group(3)))
    m = re.match(r"bitcast \S+ (\S+) to ", rhs)
    if m:
        return trace_loc(fn, m.group(1), depth + 1)
    return ("other", rhs[:40])


def trace_loc_addr(fn, p):
    """location written by a store through pointer operand p (a parameter's spill slot counts as the parameter)"""
    rhs = fn.defs.get(p.strip(), "")
    if rhs.startswith("alloca "):
        st = _alloca_stores(fn, p.strip())
        if st and re.match(r"^%\d+$", st[0][1]) and int(st[0][1][1:]) < fn.nparams and st[0][0] == 0:
            return ("param", int(st[0][1][1:]))
        return ("local", p.strip())
    return trace_loc(fn, p)


def _is_loc(t):
    return t[0] in ("gfield", "global", "field", "param")


def _strip_add(t):
    while t[0] in ("add", "mask"):
        t = t[2]
    return t


def loc_str(t):
    if t[0] == "gfield":
        return "%s.%d" % (t[1], t[2])
    if t[0] == "global":
        return "@" + t[1]
    if t[0] == "field":
        return "%s.%d" % (t[1], t[2])
    if t[0] == "param":
        return "param%d" % t[1]
    if t[0] == "call":
        return "call:" + t[1]
    return "?"


def _operand(txt):
    """`ty V` -> V, where V is an SSA name, a global, a constant or a constant getelementptr expression"""
    txt = txt.strip()
    k = txt.find("getelementptr inbounds (")
    if k >= 0 and not txt.startswith("%struct") or (k >= 0 and txt[:k].rstrip().endswith("*")):
        return txt[k:]
    k = txt.find("bitcast (")
    if k >= 0:
        return txt[k:]
    return txt.split()[-1]


def store_target(fn, t):
    """`store ty V, ty* P[, align n]` -> (V, P) or None"""
    if not t.startswith("store "):
        return None
    parts = cgm._split_top(t[6:].replace("volatile ", "", 1) if t.startswith("store volatile ") else t[6:])
    if len(parts) < 2:
        return None
    return _operand(parts[0]), _operand(parts[1])


def calls_in(fn, t):
    """call instruction text -> ('direct', name, [arg texts]) | ('indirect', sig, [args]) | None"""
    if " call " not in " " + t:
        return None
    rest = t[t.index("call ") + 5:]
    k = cgm._find_callee(rest)
    if k is None:
        return None
    cstart, cend, callee = k
    argtxt, _ = cgm._paren_args(rest, cend)
    args = cgm._split_top(argtxt)
    if callee.startswith("@"):
        return ("direct", callee[1:], args)
    if callee.startswith("%"):
        ret = cgm._canon_type(rest[:cstart])
        ret = re.sub(r"\s*\([^()]*\.\.\.\)\s*$", "", ret).strip()
        return ("indirect", ret + " (" + ", ".join(cgm._arg_type(a) for a in args) + ")", args)
    return None


def charges(fn, loc, scc, by_sig_scc):
    """is location `loc` changed by +-1 here, or handed on as parameter +-1 to a function of the SCC?"""
    for k, (_, ins) in enumerate(fn.blocks):
        for t in ins:
            if t.startswith("store "):
                st = store_target(fn, t)
                if not st:
                    continue
                dst = trace_loc_addr(fn, st[1])
                if loc[0] == "param":
                    # `depth--` on a parameter: store into its spill slot
                    if dst == loc:
                        v = trace(fn, st[0])
                        if v[0] == "add" and abs(v[1]) == 1 and _strip_add(v) == loc:
                            return "store%+d" % v[1]
                    continue
                if dst == loc or (loc[0] == "field" and dst[0] == "field" and dst[1:] == loc[1:]):
                    v = trace(fn, st[0])
                    if v[0] == "add" and abs(v[1]) == 1 and _strip_add(v) == loc:
                        return "store%+d" % v[1]
                    # a.depth = parent ? parent->depth + 1 : 0  (select / phi at -O0 is a branch + local): accept a
                    # stored value that is a local holding field+1 of the same struct type
                    if v[0] == "local" or v[0] == "other":
                        for _, sv in _alloca_stores(fn, v[1]) if v[0] == "local" else []:
                            w = trace(fn, sv)
                            if w[0] == "add" and abs(w[1]) == 1 and _strip_add(w)[0] == "field" and _strip_add(w)[1:] == loc[1:]:
                                return "init%+d" % w[1]
                        pm = re.match(r"phi \w+ (.*)$", fn.defs.get(st[0], ""))
                        if pm:
                            for inc in re.findall(r"\[\s*(\S+),", pm.group(1)):
                                w = trace(fn, inc)
                                if w[0] == "add" and abs(w[1]) == 1 and _strip_add(w)[0] == "field" and _strip_add(w)[1:] == loc[1:]:
                                    return "init%+d" % w[1]
            c = calls_in(fn, t)
            if c and loc[0] == "param":
                tgt = [c[1]] if c[0] == "direct" else by_sig_scc.get(c[1], [])
                if any(x in scc for x in tgt):
                    for a in c[2]:
                        v = trace(fn, a.split()[-1])
                        if v[0] == "add" and abs(v[1]) == 1 and _strip_add(v) == loc:
                            return "arg%+d" % v[1]
    return None


PASS_ON_TRUE = {"ne", "sgt", "ugt"}


def refuse_on_true(pred, k, via=False):
    """mirror of Depth/GuardCert.lean refuseOnTrue (only used to compute the untrusted `safe` set)"""
    if via:                               # result of a checker helper: 0 = may go on, anything else = refused
        return True if (pred == "ne" and k == 0) else False if (pred == "eq" and k == 0) else None
    if pred in ("sge", "sgt", "uge", "ugt") and k >= 2:
        return True
    if pred in ("eq", "sle", "slt", "ule", "ult") and k <= 1:
        return True
    if pred in ("ne", "sgt", "ugt") and k <= 1:
        return False
    if pred in ("slt", "sle", "ult", "ule") and k >= 2:
        return False
    return None


def find_checks(fn, want, via=False):
    """blocks ending in a conditional branch on `icmp PRED x, const` where x traces to a location with want(loc) true
    -> list of dict(block, pred, k (normalised: compare of the location itself), loc, t, f)"""
    out = []
    for k, (_, ins) in enumerate(fn.blocks):
        t = ins[-1]
        m = re.match(r"br i1 (%[\w.$-]+), label %([\w.$-]+), label %([\w.$-]+)$", t)
        if not m:
            continue
        rhs = fn.defs.get(m.group(1), "")
        im = re.match(r"icmp (\w+) \S+ (\S+), (\S+)$", rhs)
        if not im or fn.where.get(m.group(1)) != k:
            continue
        pred = im.group(1)
        a, b = trace(fn, im.group(2)), trace(fn, im.group(3))
        if a[0] == "const" and b[0] != "const":
            a, b = b, a
            pred = {"sgt": "slt", "slt": "sgt", "sge": "sle", "sle": "sge", "ugt": "ult", "ult": "ugt", "uge": "ule", "ule": "uge"}.get(pred, pred)
        if b[0] != "const":
            continue
        kk = b[1]
        base = _strip_add(a)
        d = 0
        aa = a
        while aa[0] in ("add", "mask"):
            if aa[0] == "mask":
                if aa[1] < kk:          # the mask must not hide the limit
                    d = None
                    break
            else:
                d += aa[1]
            aa = aa[2]
        if d is None or not want(base):
            continue
        if refuse_on_true(pred, kk - d, via) is None:
            continue
        ts, fs = fn.succ[k]
        out.append(dict(block=k, pred=pred, k=kk - d, loc=base, t=ts, f=fs, via=via))
    return out


def stop_blocks(fn, nonret):
    """blocks that contain a call of a function that never returns (execution does not go on past them)"""
    out = {}
    for k, (_, ins) in enumerate(fn.blocks):
        for t in ins:
            c = calls_in(fn, t)
            if c and c[0] == "direct" and c[1] in nonret:
                out[k] = c[1]
                break
    return out


def safe_set(fn, checks, stops=()):
    pass_edges = set()
    for c in checks:
        pass_edges.add((c["block"], c["f"] if refuse_on_true(c["pred"], c["k"], c.get("via", False)) else c["t"]))
    seen, todo = {0}, [0]
    while todo:
        v = todo.pop()
        if v in stops:
            continue
        for w in fn.succ[v]:
            if (v, w) in pass_edges:
                continue
            if w not in seen:
                seen.add(w)
                todo.append(w)
    return sorted(seen)


def cfg_edges(fn):
    return sorted(set((a, b) for a, bs in fn.succ.items() for b in bs))


def target_blocks(fn, callees, by_sig):
    """blocks with a call (direct or by type) of a function in `callees`"""
    out = []
    for k, (_, ins) in enumerate(fn.blocks):
        for t in ins:
            c = calls_in(fn, t)
            if not c:
                continue
            tg = [c[1]] if c[0] == "direct" else by_sig.get(c[1], [])
            if any(x in callees for x in tg):
                out.append(k)
                break
    return out


def never_return(P, fl, ir):
    """functions defined in the module WITHOUT the noreturn attribute that still never return: no `ret` is reachable from
    the entry when execution stops at calls of non-returning functions (greatest fixpoint would also be sound; this is
    the least one, by iteration).  -> (base set = noreturn by attribute/declaration, {fn: certificate dict})"""
    base = set(nm for nm, f in ir.funcs.items() if f["noreturn"])
    base |= {"longjmp", "_longjmp", "siglongjmp", "__longjmp_chk", "abort", "exit", "_exit", "__assert_fail"} & (ir.declared | set(ir.funcs))
    # candidates: functions that contain a call of a known non-returning function and whose text has few blocks
    found = {}
    changed = True
    callers_of = {}
    for nm, f in ir.funcs.items():
        for c in set(f["calls"]):
            callers_of.setdefault(c, set()).add(nm)
    work = set()
    for b in base:
        work |= callers_of.get(b, set())
    while work:
        nm = sorted(work)[0]
        work.discard(nm)
        if nm in base or nm in found or nm not in fl:
            continue
        fn = P(nm)
        stops = stop_blocks(fn, base | set(found))
        safe = safe_set(fn, [], stops)
        rets = [k for k, t in fn.term.items() if t.startswith("ret")]
        if any(k in safe and k not in stops for k in rets):
            continue
        found[nm] = dict(fn=nm, kind="noreturn", counter="-", charge="-", n=len(fn.blocks), cfg=cfg_edges(fn), checks=[],
                         targets=sorted(k for k in rets if k not in stops), safe=safe, stops=sorted(stops), stopcallees=sorted(set(stops.values())),
                         inits=[], countdown=False)
        work |= callers_of.get(nm, set())
    return base, found


class Certs:
    pass


def ir_tag(nm, loc):
    """idiom tag (callgraph.GUARD_IDIOMS / cgstack.CLASS_OF_TAG) of a guard recognised from the IR alone, by its counter"""
    s = loc_str(loc)
    for pre, tag in (("janet_vm.", "vm-stackn"), ("struct.JanetCompiler.", "compile-recursion-guard"), ("@depth", "gc-depth"),
                     ("struct.PegState.", "peg-down1"), ("struct.Builder.", "peg-builder-depth"), ("struct.pretty.", "pp-depth"),
                     ("struct.JanetAssembler.", "depth-param")):
        if s.startswith(pre):
            return tag
    return "marsh-stackcheck" if "marshal" in nm else "depth-param"


def extract(build, g):
    """g: callgraph.Graph of the same tree -> Certs(.certs list of dict, .uncertified [(fn, reason)], .exempt [...])"""
    irp = cgm.emit_ir(build)
    fl, globals_, types = split_functions(irp)
    ir = g.ir
    by_sig = {}
    for nm in ir.addr_taken:
        by_sig.setdefault(ir.funcs[nm]["sig"], []).append(nm)
    parsed = {}

    def P(nm):
        if nm not in parsed:
            if nm not in fl:
                raise ExtractError("guard certificate: %s has no IR body" % nm)
            parsed[nm] = parse_function(nm, fl[nm])
        return parsed[nm]

    out = Certs()
    out.certs, out.uncertified = [], []
    base_nr, nr = never_return(P, fl, ir)
    out.noreturn_attr = sorted(base_nr)
    out.noreturn = nr
    nonret = base_nr | set(nr)
    used_nr = set()
    succ_of = {}
    for (a, b) in g.edges:
        succ_of.setdefault(a, set()).add(b)
    proposals = [nm for nm in g.nodes if nm in g.guard and g.guard[nm][0] != "bounded"]
    counter_locs = set()
    # (1) functions that compare and charge a counter
    for nm in proposals:
        if g.guard[nm][0].startswith("vm-stackn-via-"):
            continue
        fn = P(nm)
        scc = set(g.comps[g.comp_of[nm]])
        callees = set(b for b in succ_of.get(nm, ()) if b in scc)
        tg = target_blocks(fn, callees, by_sig)
        by_sig_scc = {s: [x for x in v if x in callees] for s, v in by_sig.items()}
        cert, tried = None, []
        cands = find_checks(fn, _is_loc)
        locs = []
        for c in cands:
            if c["loc"] not in locs:
                locs.append(c["loc"])
        stops = stop_blocks(fn, set(nr))
        for loc in locs:
            ch = charges(fn, loc, scc, by_sig_scc)
            if not ch:
                tried.append("%s compared but not charged" % loc_str(loc))
                continue
            cert = _mk(fn, "counter", [c for c in cands if c["loc"] == loc], tg, tried, ch, stops)
            if cert:
                cert["_loc"] = loc
                counter_locs.add(loc)
                break
        if cert:
            out.certs.append(cert)
        else:
            out.uncertified.append((nm, "; ".join(tried[-4:]) or "no conditional branch on a compare of a counter location with a constant"))
    # (1b) functions on a cycle that the source idioms did NOT propose (a harmless respelling of the test defeats a regex)
    # are accepted from the IR alone under a strict rule: a count-up compare `counter >= / > JANET_RECURSION_GUARD` of a
    # charged location, or a compare of a MEMORY location that a proposed, certified guard already uses as its counter
    out.ir_proposed = {}
    L = g.limits["JANET_RECURSION_GUARD"]
    for nm in g.nodes:
        if nm in g.guard or nm in proposals or nm not in fl or nm in getattr(g, "denied", ()):
            continue
        fn = P(nm)
        scc = set(g.comps[g.comp_of[nm]])
        callees = set(b for b in succ_of.get(nm, ()) if b in scc)
        tg = target_blocks(fn, callees, by_sig)
        if not tg:
            continue
        cands = find_checks(fn, _is_loc)
        by_sig_scc = {s: [x for x in v if x in callees] for s, v in by_sig.items()}
        for loc in dict.fromkeys(c["loc"] for c in cands):
            mine = [c for c in cands if c["loc"] == loc]
            strict = all(c["pred"] in ("sge", "sgt", "uge", "ugt") and c["k"] == L for c in mine) or (loc[0] != "param" and loc in counter_locs)
            if not strict:
                continue
            ch = charges(fn, loc, scc, by_sig_scc)
            if not ch:
                continue
            cert = _mk(fn, "counter", mine, tg, [], ch, stop_blocks(fn, set(nr)))
            if cert:
                out.ir_proposed[nm] = ir_tag(nm, loc)
                break
    # (2) checker helpers: the counter compared must be one that a certified guard charges; "may return ok" is the target
    helper_ok = {}
    for h in CHECKERS:
        if h not in fl:
            continue
        fn = P(h)
        checks = find_checks(fn, lambda l: l in counter_locs)
        tg = []
        for k, (_, ins) in enumerate(fn.blocks):
            for t in ins:
                if t.startswith("ret ") and not t.startswith("ret void"):
                    v = trace(fn, t.split()[-1])
                    if v[0] == "const" and v[1] != 0:
                        continue
                    if v[0] == "local":
                        for bk, sv in _alloca_stores(fn, v[1]):
                            w = trace(fn, sv)
                            if not (w[0] == "const" and w[1] != 0):
                                tg.append(bk)
                    else:
                        tg.append(k)
        tried = []
        c = _mk(fn, "helper", checks, sorted(set(tg)), tried, "returns-ok", stop_blocks(fn, set(nr)))
        if c and tg:
            out.certs.append(c)
            helper_ok[h] = True
        else:
            out.uncertified.append((h, "checker helper: " + ("; ".join(tried) or "no store of 0 to the return slot found")))
    out.helper_ok = helper_ok
    # (3) functions that branch on a checker helper's result
    for nm in proposals:
        if not g.guard[nm][0].startswith("vm-stackn-via-"):
            continue
        fn = P(nm)
        scc = set(g.comps[g.comp_of[nm]])
        callees = set(b for b in succ_of.get(nm, ()) if b in scc)
        tg = target_blocks(fn, callees, by_sig)
        h = g.guard[nm][0].split("-via-")[1]
        tried = []
        cert = None
        if not helper_ok.get(h):
            tried.append("helper %s not certified" % h)
        else:
            checks = find_checks(fn, lambda l: l == ("call", h), via=True)
            cert = _mk(fn, "via", checks, tg, tried, "via:" + h, stop_blocks(fn, set(nr)))
        if cert:
            out.certs.append(cert)
        else:
            out.uncertified.append((nm, "; ".join(tried)))
    # module-wide initialisers of count-down memory counters (one pass over all functions, only for the locations found)
    need = sorted(set(c["_loc"] for c in out.certs if c.get("_loc") and c["_loc"][0] != "param" and c["pred"] in ("eq", "sle", "slt", "ule", "ult", "ne") and c["k"] <= 1))
    inits = {loc: set() for loc in need}
    if need:
        for nm in fl:
            txt = "\n".join(fl[nm])
            if not re.search(r"store i\d+ \d{2,},", txt):
                continue
            fn = P(nm)
            for _, ins in fn.blocks:
                for t in ins:
                    if re.match(r"store i\d+ \d{2,},", t):
                        st = store_target(fn, t)
                        if st and _INT.match(st[0]):
                            dst = trace_loc_addr(fn, st[1])
                            if dst in inits:
                                inits[dst].add(int(st[0]))
        for loc in need:
            if loc[0] == "global":
                for gl in globals_:
                    m = re.match(r"@%s = .*?global i\d+ (-?\d+)" % re.escape(loc[1]), gl)
                    if m:
                        inits[loc].add(int(m.group(1)))
    for c in out.certs:
        loc = c.pop("_loc", None)
        c["inits"] = sorted(inits.get(loc, ())) if loc in inits else []
        c["countdown"] = loc in inits
    out.exempt = exemption_certs(g, P, fl, by_sig, helper_ok, types, set(nr))
    for c in out.certs + [x for e in out.exempt for x in e["certs"]]:
        used_nr |= set(c.get("stopcallees", ()))
    # close the set of non-returning certificates that are used under "their own stops"
    todo = sorted(used_nr)
    keep = {}
    while todo:
        nm = todo.pop()
        if nm in keep or nm not in nr:
            continue
        keep[nm] = nr[nm]
        todo += [x for x in nr[nm]["stopcallees"] if x in nr]
    out.noreturn_used = [keep[k] for k in sorted(keep)]
    out.nfuncs = len(fl)
    return out


def _mk(fn, kind, checks, targets, tried, charge, stops=None):
    stops = stops or {}
    if not checks:
        tried.append("no check found (%s)" % kind)
        return None
    safe = safe_set(fn, checks, stops)
    bad = [t for t in targets if t in safe]
    if bad:
        tried.append("%s: %d recursive call block(s) reachable from the entry without passing the check of %s (first: block %d)"
                     % (fn.name, len(bad), loc_str(checks[0]["loc"]), bad[0]))
        return None
    c0 = checks[0]
    # only the stops that matter (reachable ones) are emitted
    st = {k: v for k, v in stops.items() if k in safe}
    return dict(fn=fn.name, kind=kind, counter=loc_str(c0["loc"]), charge=charge, pred=c0["pred"], k=c0["k"],
                n=len(fn.blocks), cfg=cfg_edges(fn), checks=[(c["block"], c["pred"], c["k"], c["t"], c["f"]) for c in checks],
                targets=sorted(set(targets)), safe=safe, stops=sorted(st), stopcallees=sorted(set(st.values())), inits=[], countdown=False)


def exemption_certs(g, P, fl, by_sig, helper_ok, types, nr):
    """domination facts behind three of the written exemptions -> list of dict(name, ok, detail, certs=[...])"""
    ex = []
    ir = g.ir
    # (1) janet_continue_no_check: in every caller the call is dominated by the pass edge of a check of the helper's result
    if "janet_continue_no_check" in ir.funcs:
        callers = sorted(nm for nm, f in ir.funcs.items() if "janet_continue_no_check" in f["calls"])
        certs, fails = [], []
        for nm in callers:
            fn = P(nm)
            checks = find_checks(fn, lambda l: l == ("call", "janet_check_can_resume"), via=True)
            tg = target_blocks(fn, {"janet_continue_no_check"}, {})
            tried = []
            c = _mk(fn, "via", checks, tg, tried, "via:janet_check_can_resume", stop_blocks(fn, nr)) if checks else None
            if c and helper_ok.get("janet_check_can_resume"):
                certs.append(c)
            else:
                fails.append("%s: %s" % (nm, "; ".join(tried) or "no check of janet_check_can_resume's result"))
        ex.append(dict(name="janet_continue_no_check", callers=callers, certs=certs, fails=fails))
    # (2) doarg_1: self call dominated by `argtype == T`, passing constant S != T in the same parameter position
    if "doarg_1" in fl:
        fn = P("doarg_1")
        info = dict(name="doarg_1", certs=[], fails=[], callers=[])
        selfcalls = []
        for k, (_, ins) in enumerate(fn.blocks):
            for t in ins:
                c = calls_in(fn, t)
                if c and c[0] == "direct" and c[1] == "doarg_1":
                    selfcalls.append((k, c[2]))
        cands = [c for c in find_checks_eq(fn) if c["loc"][0] == "param"]
        done = False
        for c in cands:
            pos = c["loc"][1]
            consts = []
            for k, args in selfcalls:
                v = trace(fn, args[pos].split()[-1]) if pos < len(args) else ("other", "")
                consts.append(v[1] if v[0] == "const" else None)
            if not selfcalls or any(x is None for x in consts):
                continue
            # pass edge = the `== T` side
            pass_edges = {(c["block"], c["t"] if c["pred"] == "eq" else c["f"])}
            seen, todo = {0}, [0]
            while todo:
                v = todo.pop()
                for w in fn.succ[v]:
                    if (v, w) not in pass_edges and w not in seen:
                        seen.add(w)
                        todo.append(w)
            if any(k in seen for k, _ in selfcalls):
                continue
            info["certs"].append(dict(fn="doarg_1", kind="argconst", counter="param%d" % pos, charge="self:" + ",".join(str(x) for x in consts),
                                      pred=c["pred"], k=c["k"], n=len(fn.blocks), cfg=cfg_edges(fn),
                                      checks=[(c["block"], c["pred"], c["k"], c["t"], c["f"])],
                                      targets=sorted(set(k for k, _ in selfcalls)), safe=sorted(seen), inits=[], countdown=False,
                                      stops=[], stopcallees=[], selfconsts=consts))
            done = True
            break
        if not done:
            info["fails"].append("doarg_1: no `param == T` compare dominating the self call with a constant S != T passed")
        ex.append(info)
    # (3) writers of JanetFuncDef.defs
    defs_idx = funcdef_defs_index(types)
    writers = []
    if defs_idx is not None:
        pat = r"getelementptr inbounds %%struct\.JanetFuncDef, %%struct\.JanetFuncDef\* \S+, i32 0, i32 %d$" % defs_idx
        for nm in fl:
            txt = "\n".join(fl[nm])
            if "%struct.JanetFuncDef* " not in txt:
                continue
            fn = P(nm)
            hit = False
            for _, ins in fn.blocks:
                for t in ins:
                    if t.startswith("store "):
                        st = store_target(fn, t)
                        if st and re.search(pat, fn.defs.get(st[1], "")):
                            hit = True
            if hit:
                writers.append(nm)
    ex.append(dict(name="funcdef.defs writers", certs=[], fails=[] if defs_idx is not None else ["field index of JanetFuncDef.defs not found"],
                   writers=sorted(writers), field=defs_idx, callers=[]))
    return ex


def find_checks_eq(fn):
    """conditional branches on `icmp eq/ne param, const` (any constant)"""
    out = []
    for k, (_, ins) in enumerate(fn.blocks):
        m = re.match(r"br i1 (%[\w.$-]+), label %([\w.$-]+), label %([\w.$-]+)$", ins[-1])
        if not m:
            continue
        im = re.match(r"icmp (eq|ne) \S+ (\S+), (\S+)$", fn.defs.get(m.group(1), ""))
        if not im:
            continue
        a, b = trace(fn, im.group(2)), trace(fn, im.group(3))
        if a[0] == "const":
            a, b = b, a
        if b[0] != "const" or a[0] != "param":
            continue
        # the parameter must not be reassigned: its spill slot has exactly one store
        slots = [v for v, r in fn.defs.items() if r.startswith("alloca ") and _alloca_stores(fn, v)[:1] and _alloca_stores(fn, v)[0][1] == "%%%d" % a[1]]
        if len(slots) != 1 or len(_alloca_stores(fn, slots[0])) != 1:
            continue
        out.append(dict(block=k, pred=im.group(1), k=b[1], loc=a, t=fn.succ[k][0], f=fn.succ[k][1]))
    return out


def funcdef_defs_index(globals_types):
    """index of the field `defs` of struct JanetFuncDef: the IR has no field names, but `defs` is the only field whose
    type is %struct.JanetFuncDef** (array of sub-definitions)"""
    t = globals_types.get("struct.JanetFuncDef")
    if not t:
        return None
    fields = cgm._split_top(t)
    hits = [i for i, f in enumerate(fields) if f.strip() == "%struct.JanetFuncDef**"]
    return hits[0] if len(hits) == 1 else None


# ------------------------------------------------------------------------------------------------------- Lean

def _cert_lean(c):
    return ('  { fn := "%s", kind := "%s", counter := "%s", charge := "%s", countdown := %s, inits := [%s], n := %d,\n'
            '    cfg := [%s],\n    checks := [%s],\n    targets := [%s], stops := %d, stopCallees := [%s],\n    safe := %d }'
            % (c["fn"], c["kind"], c["counter"], c["charge"], "true" if c.get("countdown") else "false",
               ", ".join(str(x) for x in c["inits"]), c["n"],
               ", ".join("(%d, %d)" % e for e in c["cfg"]),
               ", ".join('⟨%d, "%s", %d, %d, %d⟩' % ch for ch in c["checks"]),
               ", ".join(str(x) for x in c["targets"]), sum(1 << x for x in c["stops"]),
               ", ".join('"%s"' % x for x in c["stopcallees"]), sum(1 << x for x in c["safe"])))


def _certs(L, name, doc, certs):
    L.append("/-- %s -/" % doc)
    L.append("abbrev %s : List JanetModel.Depth.GuardCert := [" % name)
    L.append(",\n".join(_cert_lean(c) for c in certs))
    L.append("]\n")


def render(cs, g):
    L = ["import JanetModel.Depth.GuardCert",
         lean_header("tools/gen/cgguard.py; control-flow graphs of the guard functions in the -O0 LLVM IR of the amalgamation"),
         "namespace JanetModel.Gen.DepthGuard\n"]
    _certs(L, "certs", "one certificate per guard function of Gen/Depth.lean that is not a written exemption: its CFG, the blocks that\n"
           "    branch on a compare of the depth counter with a constant, the blocks with recursive calls, and the UNTRUSTED set\n"
           "    of blocks reachable without passing a check", cs.certs)
    L.append("/-- functions with the `noreturn` attribute / declaration in the IR -/")
    L.append("abbrev noreturnAttr : List String := [%s]\n" % ", ".join('"%s"' % n for n in cs.noreturn_attr))
    _certs(L, "noreturnCerts", "functions without the attribute that never return (used as `stops` above): no `ret` block reachable", cs.noreturn_used)
    L.append("/-- guard marks of Gen/Depth.lean that rest on a written, re-validated argument instead of a depth counter -/")
    L.append("abbrev bounded : List String := [%s]\n" % ", ".join('"%s"' % n for n in sorted(g.bounded)))
    for e in cs.exempt:
        if e["name"] == "janet_continue_no_check":
            L.append("/-- every function that calls janet_continue_no_check (IR call sites) -/")
            L.append("abbrev noCheckCallers : List String := [%s]" % ", ".join('"%s"' % n for n in e["callers"]))
            _certs(L, "noCheckCerts", "per caller: the call of janet_continue_no_check is dominated by the pass edge of a check of\n"
                   "    janet_check_can_resume's result", e["certs"])
        elif e["name"] == "doarg_1":
            _certs(L, "doargCerts", "doarg_1: the self call is dominated by the pass edge of `argtype == T`", e["certs"])
            L.append("/-- the constants the self call passes as argtype -/")
            L.append("abbrev doargSelfConsts : List Int := [%s]\n" % ", ".join(str(x) for c in e["certs"] for x in c["selfconsts"]))
        else:
            L.append("/-- functions with a store to field %s (`defs`, the only field of type JanetFuncDef**) of a JanetFuncDef in the IR -/" % e["field"])
            L.append("abbrev defsWriters : List String := [%s]\n" % ", ".join('"%s"' % n for n in e["writers"]))
    L.append("abbrev recursionGuard : Nat := %d\n" % g.limits["JANET_RECURSION_GUARD"])
    L.append("/- not certified (the source idiom matched, the IR does not bear it out): %s -/" % ("; ".join("%s: %s" % u for u in cs.uncertified) or "none").replace("-/", "- /"))
    L.append("\nend JanetModel.Gen.DepthGuard\n")
    return "\n".join(L)


# ------------------------------------------------------------------------------------------------- counter balance on the IR
# For a guard whose counter is a MEMORY location changed by +-1 stores, every block gets its net number of charges
# (`delta`) and an UNTRUSTED label `level` = charges outstanding when the block is entered.  Lean (`balOK`) checks that the
# labels are consistent along EVERY CFG edge between live blocks (so the level at a block does not depend on the path -
# loops included), 0 at the entry, never negative, 0 again at every `ret`, and >= 1 at every recursive call.
# `bal_path_level` (proved once): on every live path from the entry the level at its end is the sum of the deltas on it;
# so every complete path through the function releases exactly what it charged (seeded C19-4 has no consistent labelling).

def balance_cert(fn, cert, loc, targets_calls, nonret, by_sig, callees):
    """-> (dict, None) or (None, reason)"""
    countdown = cert["pred"] in ("eq", "sle", "slt", "ule", "ult", "ne") and cert["k"] <= 1
    sign = -1 if countdown else 1            # a charge is a store of load-1 (count-down) / load+1 (count-up)
    stops = stop_blocks(fn, nonret)
    saved = {}                               # alloca that holds a copy of the counter -> level when the copy was taken
    restores = []

    def walk(k, lv):
        """level after block k entered at level lv, lowest level at a recursive call in it (or None)"""
        low = None
        for t in fn.blocks[k][1]:
            if t.startswith("store "):
                st = store_target(fn, t)
                if st:
                    dst = trace_loc_addr(fn, st[1])
                    if dst == loc:
                        v = trace(fn, st[0])
                        if v[0] == "add" and abs(v[1]) == 1 and _strip_add(v) == loc:
                            lv += sign * v[1]
                        else:
                            # `counter = saved copy`: back to the level at which the copy was taken
                            src = fn.defs.get(st[0], "")
                            m = re.match(r"load [^,]+, [^,]*\* (%[\w.$-]+)", src)
                            if m and m.group(1) in saved:
                                lv = saved[m.group(1)]
                                restores.append(k)
                            else:
                                raise ExtractError("store to the counter that is neither +-1 nor a saved copy: block %d `%s`" % (k, t[:70]))
                    elif dst[0] == "local" and fn.defs.get(dst[1], "").startswith("alloca "):
                        v = trace(fn, st[0])
                        # `int32_t oldn = janet_vm.stackn++`: the copy is the value BEFORE the increment in the same statement
                        if v == loc:
                            saved[dst[1]] = lv - (sign if _stored_after_charge(fn, k, t, loc) else 0)
            c = calls_in(fn, t)
            if c:
                tg = [c[1]] if c[0] == "direct" else by_sig.get(c[1], [])
                if any(x in callees for x in tg):
                    low = lv if low is None else min(low, lv)
        return lv, low

    level, out_level, calllev, todo = {0: 0}, {}, {}, [0]
    order = []
    conflict = None
    try:
        while todo:
            a = todo.pop(0)
            order.append(a)
            out_level[a], low = walk(a, level[a])
            if low is not None:
                calllev[a] = low
            if a in stops:
                continue
            for b in fn.succ[a]:
                if b not in level:
                    level[b] = out_level[a]
                    todo.append(b)
    except ExtractError as e:
        return None, str(e)
    n = len(fn.blocks)
    retb = set(k for k, t in fn.term.items() if t.startswith("ret"))
    # a pure return block may be entered with charges still outstanding (early error returns): its level is the LOWEST
    for b in retb:
        ins = [out_level[a] for a in level if a not in stops and b in fn.succ[a]]
        if b in level and ins:
            level[b] = min(ins)
            out_level[b] = level[b] + (out_level[b] - level[b]) if False else walk(b, level[b])[0]
    delta = {k: (out_level[k] - level[k]) if k in level else 0 for k in range(n)}
    return dict(fn=fn.name, counter=cert["counter"], n=n, cfg=cfg_edges(fn),
                level=[level.get(k, 0) for k in range(n)], delta=[delta[k] for k in range(n)],
                live=sum(1 << k for k in level), stops=sum(1 << k for k in stops if k in level),
                rets=sorted(k for k in retb if k in level and k not in stops),
                calls=sorted((k, v) for k, v in calllev.items()), restores=sorted(set(restores))), None


def _stored_after_charge(fn, k, store_text, loc):
    """in `oldn = counter++` clang stores the incremented value to the counter BEFORE it stores the old value to oldn:
    is there a +-1 store to `loc` earlier in block k than `store_text`, using the same load?"""
    st0 = store_target(fn, store_text)
    for t in fn.blocks[k][1]:
        if t == store_text:
            return False
        if t.startswith("store "):
            st = store_target(fn, t)
            if st and trace_loc_addr(fn, st[1]) == loc:
                v = fn.defs.get(st[0], "")
                if st0 and st0[0] in v:            # add nsw i32 %old, 1   with %old the value saved
                    return True
    return False


def balance_certs(build, g, cs):
    """one balance certificate per certified guard with a +-1 memory counter -> (list, [(fn, why not)])"""
    irp = cgm.emit_ir(build)
    fl, globals_, types = split_functions(irp)
    by_sig = {}
    for nm in g.ir.addr_taken:
        by_sig.setdefault(g.ir.funcs[nm]["sig"], []).append(nm)
    succ_of = {}
    for (a, b) in g.edges:
        succ_of.setdefault(a, set()).add(b)
    nonret = set(cs.noreturn)
    out, skipped = [], []
    for c in cs.certs:
        if c["kind"] != "counter" or c["counter"].startswith("param") or not c["charge"].startswith("store"):
            continue
        fn = parse_function(c["fn"], fl[c["fn"]])
        cands = find_checks(fn, _is_loc)
        locs = [x["loc"] for x in cands if loc_str(x["loc"]) == c["counter"]]
        if not locs:
            skipped.append((c["fn"], "counter location not found again"))
            continue
        scc = set(g.comps[g.comp_of[c["fn"]]])
        callees = set(b for b in succ_of.get(c["fn"], ()) if b in scc)
        b, why = balance_cert(fn, c, locs[0], None, nonret, by_sig, callees)
        if b is None:
            skipped.append((c["fn"], why))
        else:
            out.append(b)
    return out, skipped


def render_balance(bals):
    L = ["import JanetModel.Depth.GuardCert",
         lean_header("tools/gen/cgguard.py; net charges of the depth counter per basic block of the guard functions (-O0 LLVM IR)"),
         "namespace JanetModel.Gen.DepthBalance\n",
         "/-- per guard with a +-1 memory counter: CFG, net charges per block, UNTRUSTED level per block, live blocks, returns, recursive calls with the level there -/",
         "def certs : List JanetModel.Depth.BalCert := ["]
    L.append(",\n".join(
        '  { fn := "%s", counter := "%s", n := %d,\n    cfg := [%s],\n    level := [%s],\n    delta := [%s],\n    live := %d, stops := %d, rets := [%s], calls := [%s] }'
        % (b["fn"], b["counter"], b["n"], ", ".join("(%d, %d)" % e for e in b["cfg"]), ", ".join(str(x) for x in b["level"]),
           ", ".join(str(x) for x in b["delta"]), b["live"], b["stops"], ", ".join(str(x) for x in b["rets"]),
           ", ".join("(%d, %d)" % x for x in b["calls"])) for b in bals))
    L.append("]\n\nend JanetModel.Gen.DepthBalance\n")
    return "\n".join(L)
