"""Translator for C16 (socket part): src/core/net.c (+ janet.h, ev.c) -> lean/JanetModel/Gen/Net.lean.

Regenerated on every run of ./check C16, from the PREPROCESSED posix branch (`cc -E -P`, so #ifdef JANET_WINDOWS variants,
comments and layout do not matter):
  * eventCodes: the numeric values of JanetAsyncEvent (janet.h);
  * the case groups of `switch (event)` in net_callback_connect: which events just `return;` (connectQuiet), which cancel with
    "stream closed" (connectClose); every other event reaches the getsockopt(SO_ERROR) after the switch (connectCheck is
    listed for the evidence);
  * the case groups of net_callback_accept: which events call accept4 (acceptTry), which schedule nil (acceptClose);
  * janet_sched_accept switches the listener to level-triggered for an accept loop (acceptLoopLevelTriggered), streams are
    registered edge-triggered by default (defaultEdgeTriggered).
Shape assertions (ExtractError): the statements after the connect switch (getsockopt -> schedule stream / cancel + TOCLOSE ->
janet_async_end), the body of the accept group (valid descriptor -> handler fiber scheduled and the loop stays, or the fiber
is scheduled with the stream and the operation ends; invalid -> break), the listen modes, cfun_net_connect's EINPROGRESS test.
"""
import re

from .csrc import ExtractError, read, strip_comments, match_brace, enum_values
from .procstat import preprocess

EVENTS = ["INIT", "MARK", "DEINIT", "CLOSE", "ERR", "HUP", "READ", "WRITE", "COMPLETE", "FAILED"]


def _norm(s):
    return re.sub(r"\s+", " ", s).strip()


def _fbody(src, name, what="net.c"):
    m = re.search(r"\b%s\s*\([^;{]*\)\s*\{" % re.escape(name), src)
    if not m:
        raise ExtractError("%s: definition of %s not found" % (what, name))
    i = src.index("{", m.end() - 1)
    return src[i:match_brace(src, i)]


def switch_groups(body, fname):
    """-> (list of (labels, statement text) in source order, text after the switch).  A label is 'default' or an event name."""
    m = re.search(r"\bswitch\s*\(\s*event\s*\)\s*\{", body)
    if not m:
        raise ExtractError("%s: `switch (event)` not found" % fname)
    i = body.index("{", m.start())
    j = match_brace(body, i)
    sw, after = body[i + 1:j - 1], body[j:]
    # split at labels that are at brace depth 0 of the switch body
    parts, depth, k, last = [], 0, 0, 0
    lab_rx = re.compile(r"\s*(?:case\s+JANET_ASYNC_EVENT_(\w+)|(default))\s*:")
    labels_at = []
    while k < len(sw):
        c = sw[k]
        if c == "{":
            depth += 1
        elif c == "}":
            depth -= 1
        elif depth == 0 and (sw.startswith("case", k) or sw.startswith("default", k)) and (k == 0 or not (sw[k - 1].isalnum() or sw[k - 1] == "_")):
            mm = lab_rx.match(sw, k)
            if mm:
                labels_at.append((k, mm.end(), mm.group(1) or "default"))
                k = mm.end()
                continue
        k += 1
    if not labels_at:
        raise ExtractError("%s: no case labels" % fname)
    groups, cur = [], []
    for n, (a, b, lab) in enumerate(labels_at):
        end = labels_at[n + 1][0] if n + 1 < len(labels_at) else len(sw)
        text = _norm(sw[b:end])
        cur.append(lab)
        if text:
            # strip one pair of braces around the whole group body
            if text.startswith("{") and text.endswith("}") and match_brace(text, 0) == len(text):
                text = _norm(text[1:-1])
            if not re.search(r"(break|return)\s*;\s*$", text):
                raise ExtractError("%s: case group %s falls through with a non-empty body" % (fname, cur))
            groups.append((cur, text))
            cur = []
    if cur:
        raise ExtractError("%s: trailing labels %s without statements" % (fname, cur))
    seen = [l for g, _ in groups for l in g]
    if len(seen) != len(set(seen)):
        raise ExtractError("%s: duplicate case label" % fname)
    for l in seen:
        if l != "default" and l not in EVENTS:
            raise ExtractError("%s: unknown event %s" % (fname, l))
    if "default" not in seen:
        raise ExtractError("%s: switch without default" % fname)
    return groups, after


def _classify(groups, fname, kinds):
    """kinds: list of (name, predicate on the group's statement text).  -> {kind: [event names]}, default's kind"""
    out = {k: [] for k, _ in kinds}
    dkind = None
    for labs, text in groups:
        for k, pred in kinds:
            if pred(text):
                for l in labs:
                    if l == "default":
                        dkind = k
                    else:
                        out[k].append(l)
                break
        else:
            raise ExtractError("%s: statements of case group %s not recognised: %s" % (fname, labs, text[:160]))
    return out, dkind


def extract(tree):
    hdr = strip_comments(read(tree, "src/include/janet.h"))
    enum = enum_values(hdr, "JANET_ASYNC_EVENT_INIT")
    codes = {}
    for e in EVENTS:
        if "JANET_ASYNC_EVENT_" + e not in enum:
            raise ExtractError("janet.h: JANET_ASYNC_EVENT_%s missing" % e)
        codes[e] = enum["JANET_ASYNC_EVENT_" + e]
    if len(enum) != len(EVENTS):
        raise ExtractError("janet.h: JanetAsyncEvent has members the model does not know: %s" % sorted(set(enum) - {"JANET_ASYNC_EVENT_" + e for e in EVENTS}))
    pp = preprocess(tree, "src/core/net.c")
    facts = {"eventCodes": codes}

    # ---- net_callback_connect
    b = _fbody(pp, "net_callback_connect")
    groups, after = switch_groups(b, "net_callback_connect")
    kinds = [
        ("quiet", lambda t: re.fullmatch(r"return\s*;", t) is not None),
        ("check", lambda t: re.fullmatch(r"break\s*;", t) is not None),
        ("close", lambda t: re.fullmatch(r"janet_cancel\s*\(\s*fiber\s*,.*\"stream closed\".*\)\s*;\s*janet_async_end\s*\(\s*fiber\s*\)\s*;\s*return\s*;", t) is not None),
    ]
    cls, dkind = _classify(groups, "net_callback_connect", kinds)
    if dkind != "check":
        raise ExtractError("net_callback_connect: `default:` is expected to fall to the SO_ERROR check, found %s" % dkind)
    listed = set(cls["quiet"]) | set(cls["close"]) | set(cls["check"])
    facts["connectQuiet"] = cls["quiet"]
    facts["connectClose"] = cls["close"]
    facts["connectCheck"] = [e for e in EVENTS if e not in set(cls["quiet"]) | set(cls["close"])]
    a = _norm(after)
    m = re.search(r"getsockopt\s*\(\s*stream->handle\s*,\s*(\w+)\s*,\s*(\w+)\s*,\s*&\s*(\w+)\s*,\s*&\s*\w+\s*\)", a)
    if not m:
        raise ExtractError("net_callback_connect: getsockopt(SO_ERROR) after the switch not recognised")
    resv = m.group(3)
    rm = re.search(r"int\s+(\w+)\s*=\s*getsockopt", a)
    if not rm:
        raise ExtractError("net_callback_connect: result variable of getsockopt not found")
    rv = rm.group(1)
    shape = (r"if\s*\(\s*%s\s*==\s*0\s*\)\s*\{\s*if\s*\(\s*%s\s*==\s*0\s*\)\s*\{\s*janet_schedule\s*\(\s*fiber\s*,[^;]*stream[^;]*\)\s*;\s*\}\s*else\s*\{\s*"
             r"janet_cancel\s*\(\s*fiber\s*,[^;]*janet_strerror\s*\(\s*%s\s*\)[^;]*\)\s*;\s*stream->flags\s*\|=\s*(\w+)\s*;\s*\}\s*\}\s*else\s*\{\s*"
             r"janet_cancel\s*\(\s*fiber\s*,\s*janet_ev_lasterr\s*\(\s*\)\s*\)\s*;\s*stream->flags\s*\|=\s*(\w+)\s*;\s*\}\s*janet_async_end\s*\(\s*fiber\s*\)\s*;\s*\}?\s*$"
             % (rv, resv, resv))
    mm = re.search(shape, a)
    if not mm:
        raise ExtractError("net_callback_connect: statements after getsockopt not recognised (schedule stream / cancel + TOCLOSE / async_end)")
    toclose = None
    mt = re.search(r"#define\s+JANET_STREAM_TOCLOSE\s+(\w+)", hdr)
    if mt:
        toclose = int(mt.group(1), 0)
    if toclose is None or int(mm.group(1), 0) != toclose or int(mm.group(2), 0) != toclose:
        raise ExtractError("net_callback_connect: failure paths do not set JANET_STREAM_TOCLOSE")
    sc = _fbody(pp, "net_sched_connect")
    if not re.search(r"janet_async_start\s*\(\s*stream\s*,\s*JANET_ASYNC_LISTEN_WRITE\s*,\s*net_callback_connect\s*,", sc):
        raise ExtractError("net_sched_connect: janet_async_start(stream, JANET_ASYNC_LISTEN_WRITE, net_callback_connect, …) not found")
    cc = _norm(_fbody(pp, "cfun_net_connect"))
    if not re.search(r"\}\s*while\s*\(\s*status\s*==\s*-\s*1\s*&&\s*\(?\*?[\w() ]*\)?\s*==\s*4\s*\)\s*;", cc) and \
            not re.search(r"while\s*\(\s*status\s*==\s*-1\s*&&[^;]*==\s*(EINTR|4)\s*\)", cc):
        raise ExtractError("cfun_net_connect: EINTR retry loop around connect() not recognised")
    if not re.search(r"if\s*\(\s*status\s*\)\s*\{\s*if\s*\(\s*err\s*!=\s*(EINPROGRESS|115)\s*\)\s*\{\s*janet_stream_close\s*\(\s*stream\s*\)\s*;.*janet_panicf\s*\([^;]*\)\s*;\s*\}\s*\}\s*net_sched_connect\s*\(\s*stream\s*\)\s*;", cc):
        raise ExtractError("cfun_net_connect: `if (status) { if (err != EINPROGRESS) { close + panic } } net_sched_connect(stream)` not recognised")

    # ---- net_callback_accept
    b = _fbody(pp, "net_callback_accept")
    groups, after = switch_groups(b, "net_callback_accept")
    if _norm(after).strip("} ") != "":
        raise ExtractError("net_callback_accept: statements after the switch: %s" % _norm(after)[:120])
    acc_rx = (r"(?:int|JSock)\s+(\w+)\s*=\s*accept4?\s*\(\s*stream->handle\s*,[^;]*\)\s*;\s*if\s*\(\s*\(*\s*\1\s*\)*\s*>=\s*0\s*\)*\s*\{\s*"
              r"janet_net_socknoblock\s*\(\s*\1\s*\)\s*;\s*JanetStream\s*\*\s*(\w+)\s*=\s*make_stream\s*\(\s*\1\s*,[^;]*\)\s*;\s*"
              r"Janet\s+(\w+)\s*=[^;]*\2[^;]*;\s*if\s*\(\s*state->function\s*\)\s*\{\s*JanetFiber\s*\*\s*(\w+)\s*=\s*janet_fiber\s*\(\s*state->function\s*,\s*\d+\s*,\s*1\s*,\s*&\s*\3\s*\)\s*;\s*"
              r"\4->supervisor_channel\s*=\s*fiber->supervisor_channel\s*;\s*janet_schedule\s*\(\s*\4\s*,[^;]*\)\s*;\s*\}\s*else\s*\{\s*"
              r"janet_schedule\s*\(\s*fiber\s*,\s*\3\s*\)\s*;\s*janet_async_end\s*\(\s*fiber\s*\)\s*;\s*return\s*;\s*\}\s*\}\s*break\s*;")
    kinds = [
        ("noop", lambda t: re.fullmatch(r"break\s*;", t) is not None),
        ("mark", lambda t: re.fullmatch(r"if\s*\(\s*state->function\s*\)\s*janet_mark\s*\([^;]*state->function[^;]*\)\s*;\s*break\s*;", t) is not None),
        ("close", lambda t: re.fullmatch(r"janet_schedule\s*\(\s*fiber\s*,[^;]*\)\s*;\s*janet_async_end\s*\(\s*fiber\s*\)\s*;\s*return\s*;", t) is not None and "stream" not in t),
        ("try", lambda t: re.fullmatch(acc_rx, t) is not None),
    ]
    cls, dkind = _classify(groups, "net_callback_accept", kinds)
    if dkind != "noop":
        raise ExtractError("net_callback_accept: `default:` is expected to do nothing, found %s" % dkind)
    if not cls["try"]:
        raise ExtractError("net_callback_accept: no case group calls accept")
    facts["acceptTry"] = cls["try"]
    facts["acceptClose"] = cls["close"]
    facts["acceptMarkOnly"] = cls["mark"]
    sa = _norm(_fbody(pp, "janet_sched_accept"))
    m1 = re.search(r"state->function\s*=\s*fun\s*;", sa)
    m2 = re.search(r"if\s*\(\s*fun(?:\s*!=\s*(?:NULL|\(\(void\s*\*\)0\)|0))?\s*\)\s*(?:\{\s*)?janet_stream_level_triggered\s*\(\s*stream\s*\)\s*;(?:\s*\})?", sa)
    m3 = re.search(r"janet_async_start\s*\(\s*stream\s*,\s*JANET_ASYNC_LISTEN_READ\s*,\s*net_callback_accept\s*,\s*state\s*\)\s*;", sa)
    if not m1 or not m3:
        raise ExtractError("janet_sched_accept: state->function = fun / janet_async_start(stream, JANET_ASYNC_LISTEN_READ, net_callback_accept, state) not found")
    facts["acceptLoopLevelTriggered"] = bool(m2 and m2.start() < m3.start())
    if "janet_stream_edge_triggered" in sa or ("janet_stream_level_triggered" in sa and not m2):
        raise ExtractError("janet_sched_accept: trigger mode changes not recognised")

    # ---- ev.c: default registration is edge-triggered; level_triggered re-registers without EPOLLET
    ev = strip_comments(read(tree, "src/core/ev.c"))
    if "JANET_EV_EPOLL" in ev:
        i = ev.index("#elif defined(JANET_EV_EPOLL)")
        j = ev.index("#elif defined(JANET_EV_KQUEUE)", i) if "#elif defined(JANET_EV_KQUEUE)" in ev[i:] else len(ev)
        ep = ev[i:j]
        impl = _norm(_fbody(ep, "janet_register_stream_impl", "ev.c"))
        mi = re.search(r"\(\s*JanetStream\s*\*\s*stream\s*,\s*int\s+(\w+)\s*,\s*int\s+(\w+)\s*\)", ep[ep.index("janet_register_stream_impl"):][:200])
        if not mi or not re.search(r"ev\.events\s*=\s*%s\s*\?\s*EPOLLET\s*:\s*0\s*;" % mi.group(2), impl):
            raise ExtractError("ev.c: janet_register_stream_impl: `ev.events = edge_trigger ? EPOLLET : 0` not recognised")
        if not re.search(r"\(\s*JANET_STREAM_READABLE\s*\|\s*JANET_STREAM_ACCEPTABLE\s*\)\s*\)\s*ev\.events\s*\|=\s*EPOLLIN\s*;", impl):
            raise ExtractError("ev.c: listening sockets are not registered for EPOLLIN")
        reg = _norm(_fbody(ep, "janet_register_stream", "ev.c"))
        md = re.search(r"janet_register_stream_impl\s*\(\s*stream\s*,\s*0\s*,\s*(\d+)\s*\)", reg)
        lv = re.search(r"janet_register_stream_impl\s*\(\s*stream\s*,\s*1\s*,\s*(\d+)\s*\)", _norm(_fbody(ep, "janet_stream_level_triggered", "ev.c")))
        if not md or not lv:
            raise ExtractError("ev.c: janet_register_stream / janet_stream_level_triggered not recognised")
        facts["defaultEdgeTriggered"] = md.group(1) != "0"
        if lv.group(1) != "0":
            facts["acceptLoopLevelTriggered"] = False   # level_triggered() does not clear EPOLLET
    else:
        facts["defaultEdgeTriggered"] = False
    return facts


def render(tree):
    f = extract(tree)
    c = f["eventCodes"]
    lst = lambda names: "[" + ", ".join(str(c[n]) for n in names) + "]"
    b = lambda v: "true" if v else "false"
    return """-- GENERATED by tools/gen/net.py from src/core/net.c (cc -E), janet.h and ev.c on every run of ./check C16.  Do not edit.
namespace JanetModel.Gen.Net

/-- values of JanetAsyncEvent in the order INIT MARK DEINIT CLOSE ERR HUP READ WRITE COMPLETE FAILED -/
abbrev eventCodes : List Nat := %s
/-- net_callback_connect: events whose case group is `return;` -- %s -/
abbrev connectQuiet : List Nat := %s
/-- net_callback_connect: events whose case group cancels with "stream closed" -- %s -/
abbrev connectClose : List Nat := %s
/-- net_callback_connect: events that reach getsockopt(SO_ERROR) (listed for reference; = all others) -- %s -/
abbrev connectCheck : List Nat := %s
/-- net_callback_accept: events whose case group calls accept4 -- %s -/
abbrev acceptTry : List Nat := %s
/-- net_callback_accept: events whose case group schedules nil and ends -- %s -/
abbrev acceptClose : List Nat := %s
/-- janet_sched_accept: `if (fun) janet_stream_level_triggered(stream)` before janet_async_start -/
abbrev acceptLoopLevelTriggered : Bool := %s
/-- janet_register_stream registers with EPOLLET -/
abbrev defaultEdgeTriggered : Bool := %s

end JanetModel.Gen.Net
""" % (lst(EVENTS), " ".join(f["connectQuiet"]), lst(f["connectQuiet"]), " ".join(f["connectClose"]), lst(f["connectClose"]),
       " ".join(f["connectCheck"]), lst(f["connectCheck"]), " ".join(f["acceptTry"]), lst(f["acceptTry"]),
       " ".join(f["acceptClose"]), lst(f["acceptClose"]), b(f["acceptLoopLevelTriggered"]), b(f["defaultEdgeTriggered"]))


if __name__ == "__main__":
    import sys
    print(render(sys.argv[1] if len(sys.argv) > 1 else "/repo"))
