"""C17 translator, part 2: the *source text* of every C function / boot.janet definition that has a Lean mirror
(Lib/StrC.lean, Lib/Kmp.lean, Lib/BufC.lean, Lib/ArrC.lean, Lib/Boot.lean, Lib/Sort.lean) is regenerated, normalised
(comments and docstrings removed, whitespace collapsed, parameters and locals renamed to v1, v2, … in order of
declaration, `(void) x;` statements dropped), into lean/JanetModel/Gen/LibSrc.lean on every run.
lean/JanetModel/Lib/SrcTie.lean holds, per function, the text the mirror was transcribed from and a kernel-checked
theorem `Gen.LibSrc.<fn> = "<that text>"`; so any edit of a mirrored function makes exactly that theorem fail until the
mirror has been re-examined (then `python3 -m tools.gen.libsrc --tie` rewrites SrcTie.lean).

Raises ExtractError when a function can no longer be located."""
import re
import sys
from .csrc import ExtractError, read, strip_comments, func_body
from .lib import core_fn_body

# (file, kind, C name)   kind: "fn" plain C function, "core" JANET_CORE_FN
C_FUNCS = [
    ("src/core/capi.c", "fn", "janet_gethalfrange"),
    ("src/core/capi.c", "fn", "janet_getargindex"),
    ("src/core/capi.c", "fn", "janet_getstartrange"),
    ("src/core/capi.c", "fn", "janet_getendrange"),
    ("src/core/capi.c", "fn", "janet_getslice"),
    ("src/core/string.c", "fn", "kmp_init"),
    ("src/core/string.c", "fn", "kmp_seti"),
    ("src/core/string.c", "fn", "kmp_next"),
    ("src/core/string.c", "fn", "findsetup"),
    ("src/core/string.c", "fn", "replacesetup"),
    ("src/core/string.c", "core", "cfun_string_find"),
    ("src/core/string.c", "core", "cfun_string_findall"),
    ("src/core/string.c", "core", "cfun_string_replace"),
    ("src/core/string.c", "core", "cfun_string_replaceall"),
    ("src/core/string.c", "core", "cfun_string_split"),
    ("src/core/string.c", "core", "cfun_string_join"),
    ("src/core/string.c", "core", "cfun_string_slice"),
    ("src/core/string.c", "core", "cfun_string_repeat"),
    ("src/core/string.c", "core", "cfun_string_bytes"),
    ("src/core/string.c", "core", "cfun_string_frombytes"),
    ("src/core/string.c", "core", "cfun_string_asciilower"),
    ("src/core/string.c", "core", "cfun_string_asciiupper"),
    ("src/core/string.c", "core", "cfun_string_reverse"),
    ("src/core/string.c", "core", "cfun_string_hasprefix"),
    ("src/core/string.c", "core", "cfun_string_hassuffix"),
    ("src/core/string.c", "core", "cfun_string_checkset"),
    ("src/core/string.c", "fn", "trim_help_checkset"),
    ("src/core/string.c", "fn", "trim_help_leftedge"),
    ("src/core/string.c", "fn", "trim_help_rightedge"),
    ("src/core/string.c", "fn", "trim_help_args"),
    ("src/core/string.c", "core", "cfun_string_trim"),
    ("src/core/string.c", "core", "cfun_string_triml"),
    ("src/core/string.c", "core", "cfun_string_trimr"),
    ("src/core/buffer.c", "fn", "janet_buffer_extra"),
    ("src/core/buffer.c", "fn", "janet_buffer_push_bytes"),
    ("src/core/buffer.c", "fn", "janet_buffer_push_u8"),
    ("src/core/buffer.c", "fn", "janet_buffer_push_u32"),
    ("src/core/buffer.c", "fn", "buffer_push_impl"),
    ("src/core/buffer.c", "core", "cfun_buffer_push"),
    ("src/core/buffer.c", "core", "cfun_buffer_push_at"),
    ("src/core/buffer.c", "core", "cfun_buffer_u8"),
    ("src/core/buffer.c", "core", "cfun_buffer_word"),
    ("src/core/buffer.c", "core", "cfun_buffer_chars"),
    ("src/core/buffer.c", "core", "cfun_buffer_popn"),
    ("src/core/buffer.c", "core", "cfun_buffer_fill"),
    ("src/core/buffer.c", "fn", "bitloc"),
    ("src/core/buffer.c", "core", "cfun_buffer_bitset"),
    ("src/core/buffer.c", "core", "cfun_buffer_bitclear"),
    ("src/core/buffer.c", "core", "cfun_buffer_bitget"),
    ("src/core/buffer.c", "core", "cfun_buffer_bittoggle"),
    ("src/core/buffer.c", "core", "cfun_buffer_blit"),
    ("src/core/array.c", "fn", "janet_array_push"),
    ("src/core/array.c", "core", "cfun_array_fill"),
    ("src/core/array.c", "core", "cfun_array_slice"),
    ("src/core/array.c", "core", "cfun_array_concat"),
    ("src/core/array.c", "core", "cfun_array_insert"),
    ("src/core/array.c", "core", "cfun_array_remove"),
    ("src/core/tuple.c", "core", "cfun_tuple_slice"),
    ("src/core/tuple.c", "core", "cfun_tuple_join"),
    ("src/core/corelib.c", "core", "janet_core_range"),
    # session 4
    ("src/core/buffer.c", "fn", "should_reverse_bytes"),
    ("src/core/buffer.c", "fn", "reverse_u32"),
    ("src/core/buffer.c", "fn", "reverse_u64"),
    ("src/core/buffer.c", "core", "cfun_buffer_push_uint16"),
    ("src/core/buffer.c", "core", "cfun_buffer_push_uint32"),
    ("src/core/buffer.c", "core", "cfun_buffer_push_uint64"),
    ("src/core/buffer.c", "core", "cfun_buffer_new_filled"),
    ("src/core/array.c", "fn", "janet_array_pop"),
    ("src/core/array.c", "fn", "janet_array_peek"),
    ("src/core/array.c", "core", "cfun_array_new_filled"),
    ("src/core/array.c", "core", "cfun_array_pop"),
    ("src/core/array.c", "core", "cfun_array_peek"),
    ("src/core/array.c", "core", "cfun_array_push"),
    ("src/core/buffer.c", "core", "cfun_buffer_slice"),
    ("src/core/pp.c", "fn", "scanformat"),
    ("src/core/pp.c", "fn", "get_fmt_mapping"),
]

# object-like macros whose value a mirror depends on (Lib/FormatC.lean): rendered as `define_<NAME>`
C_DEFINES = [
    ("src/core/pp.c", "FMT_FLAGS"),
    ("src/core/pp.c", "FMT_REPLACE_INTTYPES"),
    ("src/core/pp.c", "MAX_FORMAT"),
    ("src/core/pp.c", "MAX_ITEM"),
]

# boot.janet definitions (defn / defn- / defmacro / defmacro-)
JANET_DEFS = [
    "each-template", "median-of-three", "sort-partition-template", "sort-help", "sort", "sort-by", "sorted", "sorted-by",
    "reduce", "reduce2", "map-aggregator", "map-n", "map-template", "map", "filter", "count", "find-index", "find",
    "index-of", "take-n-slice", "take", "take-until-slice", "take-until", "take-while", "drop-n-slice", "drop",
    "drop-until-slice", "drop-until", "drop-while", "do-extreme", "extreme", "max", "min", "max-of", "min-of",
    "sum", "product", "reverse", "reverse!", "zipcoll", "distinct", "frequencies", "merge", "merge-into", "interleave",
    "interpose", "partition-slice", "partition", "flatten-into", "flatten", "complement",
    "keep", "mapcat", "group-by", "some", "all",
]


def _ws(s):
    return re.sub(r"\s+", " ", s).strip()


def lean_ident(name):
    out = re.sub(r"[^A-Za-z0-9_]", "_", name)
    if name.endswith("!"):
        out = out[:-1] + "_bang"
    if name.endswith("?"):
        out = out[:-1] + "_p"
    return out


def janet_tokens_span(src, i):
    """src[i] == '(' -> index just past the matching ')'; skips strings, long strings and comments"""
    depth, n = 0, len(src)
    while i < n:
        c = src[i]
        if c == "#":
            while i < n and src[i] != "\n":
                i += 1
            continue
        if c == '"':
            j = i + 1
            while j < n and src[j] != '"':
                j += 2 if src[j] == "\\" else 1
            i = j + 1
            continue
        if c == "`":
            k = i
            while k < n and src[k] == "`":
                k += 1
            fence = src[i:k]
            j = src.find(fence, k)
            if j < 0:
                raise ExtractError("boot.janet: unterminated long string")
            i = j + len(fence)
            continue
        if c in "([{":
            depth += 1
        elif c in ")]}":
            depth -= 1
            if depth == 0:
                return i + 1
        i += 1
    raise ExtractError("boot.janet: unbalanced form")


def janet_strip(form):
    """remove comments and (doc)strings-as-third-element, collapse whitespace; string literals elsewhere are kept"""
    out, i, n = [], 0, len(form)
    toks = []      # (kind, text) at depth 1 to find the docstring
    depth = 0
    elems_at_1 = 0
    while i < n:
        c = form[i]
        if c == "#":
            while i < n and form[i] != "\n":
                i += 1
            continue
        if c == '"' or c == "`":
            if c == '"':
                j = i + 1
                while j < n and form[j] != '"':
                    j += 2 if form[j] == "\\" else 1
                j += 1
            else:
                k = i
                while k < n and form[k] == "`":
                    k += 1
                fence = form[i:k]
                j = form.find(fence, k) + len(fence)
            lit = form[i:j]
            if depth == 1:
                elems_at_1 += 1
                if elems_at_1 == 3:      # (defn name "doc" …)
                    i = j
                    continue
            out.append(lit)
            i = j
            continue
        if c in "([{":
            if depth == 1:
                elems_at_1 += 1
            depth += 1
            out.append(c)
            i += 1
            continue
        if c in ")]}":
            depth -= 1
            out.append(c)
            i += 1
            continue
        if c.isspace():
            out.append(" ")
            i += 1
            continue
        # symbol / number token
        j = i
        while j < n and not form[j].isspace() and form[j] not in "()[]{}\"`":
            j += 1
        if depth == 1:
            elems_at_1 += 1
        out.append(form[i:j])
        i = j
    return _ws("".join(out))


def janet_def(src, name):
    m = re.search(r"^\((?:defn-?|defmacro-?)\s+%s(?=[\s\)])" % re.escape(name), src, re.M)
    if not m:
        raise ExtractError("boot.janet: definition of `%s` not found" % name)
    return janet_strip(src[m.start():janet_tokens_span(src, m.start())])


# ---------------------------------------------------------------------------------------------------------------------
# Normalisation beyond whitespace / comments (session 4): the tie must not break on a behaviour-preserving rename of a
# local variable or parameter, nor on an added `(void) x;` statement.  Every identifier that the function itself declares
# (parameters and locals) is replaced by `v1, v2, …` in order of declaration; everything else (called functions, struct
# fields, macros, constants, types, literals, operators, statement order) is kept verbatim, so an edit that changes which
# variable is used where, or anything about the computation, still changes the text.

_C_TYPE = (r"(?:(?:const|unsigned|signed|volatile|static|register)\s+)*"
           r"(?:struct\s+\w+|union\s+\w+|enum\s+\w+|u?int(?:8|16|32|64)?_t|size_t|ssize_t|intptr_t|uintptr_t|int|long|short|char|"
           r"double|float|void|Janet\w*|kmp_state)"
           r"(?:\s+(?:const|long|int|unsigned))*")
_C_DECL = re.compile(r"(?<![\w>.])" + _C_TYPE + r"(?=[\s\*])[\s\*]*(?:const\s+)?([A-Za-z_]\w*)\s*(?=[=;,\[\)])")
_C_TOKEN = re.compile(r'"(?:[^"\\]|\\.)*"|\'(?:[^\'\\]|\\.)*\'|[A-Za-z_]\w*|->|\.|\s+|.', re.S)
_C_KEYWORDS = set("if else for while do switch case default break continue return goto sizeof struct union enum const "
                  "unsigned signed static void int long short char double float".split())


def c_params(src, name):
    """(parameter list text including parentheses, body) of the definition of plain C function `name`"""
    body = func_body(src, name)
    for m in re.finditer(r"\b%s\s*\(" % re.escape(name), src):
        i, depth = m.end() - 1, 0
        while i < len(src):
            if src[i] == "(":
                depth += 1
            elif src[i] == ")":
                depth -= 1
                if depth == 0:
                    break
            i += 1
        j = i + 1
        while j < len(src) and src[j] in " \t\r\n":
            j += 1
        if src.startswith(body, j):
            return src[m.end() - 1:i + 1], body
    raise ExtractError("C17: parameter list of %s not found" % name)


def _top_level_pieces(text, sep=","):
    out, depth, cur = [], 0, []
    for ch in text:
        if ch in "([{":
            depth += 1
        elif ch in ")]}":
            depth -= 1
        if ch == sep and depth == 0:
            out.append("".join(cur))
            cur = []
        else:
            cur.append(ch)
    out.append("".join(cur))
    return out


def c_declared(text):
    """identifiers declared by the function text `(params) { body }`, in order of declaration"""
    names = []

    def add(n):
        if n not in names and n not in _C_KEYWORDS:
            names.append(n)
    for m in _C_DECL.finditer(text):
        add(m.group(1))
        # further declarators of the same declaration:  int32_t i, j, len = 0;
        k = m.end()
        if text[k:k + 1] in "=,[" and not _in_parens_at(text, m.start()):
            end = _stmt_end(text, k)
            for piece in _top_level_pieces(text[k:end])[1:]:
                mm = re.match(r"[\s\*]*([A-Za-z_]\w*)\s*(?:$|=|\[)", piece)
                if mm:
                    add(mm.group(1))
    return names


def _in_parens_at(text, pos):
    """is position `pos` inside a parenthesis group (parameter list, `for (…)` header)?  Only the innermost statement matters:
    scan back to the previous `;`, `{` or `}` at depth 0."""
    depth = 0
    i = pos - 1
    while i >= 0:
        c = text[i]
        if c == ")":
            depth += 1
        elif c == "(":
            if depth == 0:
                return True
            depth -= 1
        elif c in ";{}" and depth == 0:
            return False
        i -= 1
    return False


def _stmt_end(text, k):
    depth = 0
    while k < len(text):
        c = text[k]
        if c in "([{":
            depth += 1
        elif c in ")]}":
            if depth == 0:
                return k
            depth -= 1
        elif c == ";" and depth == 0:
            return k
        k += 1
    return k


def c_alpha(text):
    """rename declared identifiers to v1, v2, …; drop `(void) x;` statements"""
    text = re.sub(r"\(\s*void\s*\)\s*[A-Za-z_]\w*\s*;", "", text)
    names = c_declared(text)
    ren = {n: "v%d" % (i + 1) for i, n in enumerate(names)}
    out, prev = [], ""
    for m in _C_TOKEN.finditer(text):
        t = m.group(0)
        if t in ren and prev not in (".", "->"):
            out.append(ren[t])
        else:
            out.append(t)
        if not t.isspace():
            prev = t
    return _ws("".join(out))


_J_TOKEN = re.compile(r'"(?:[^"\\]|\\.)*"|`+|[()\[\]{}]|[^\s()\[\]{}"`]+|\s+', re.S)
_J_NOT_NAMES = {"&", "&opt", "&keys", "&named", "_"}
_J_BINDERS1 = {"def", "def-", "var", "var-", "each", "eachk", "eachp", "forv", "for", "repeat-var"}
_J_BINDERSV = {"let", "if-let", "when-let", "when-with", "if-with", "with-syms"}


def janet_alpha(text):
    """`defn` / `defn-` only: rename the symbols bound by the parameter vector, def / var (also destructuring), each / eachk /
    eachp / forv / for, let / if-let / when-let (binding positions) and inner `fn` parameter vectors to v1, v2, … in order
    of binding.  Macros (`defmacro`) are left verbatim: the symbols in their templates are part of what they emit."""
    if not re.match(r"\(defn-?\s", text):
        return text
    toks = [t for t in _J_TOKEN.findall(text) if not t.isspace()]
    names = []

    def add(t):
        if re.match(r"^[^\d:'~,;|@\"`()\[\]{}][^()\[\]{}\"`]*$", t) and t not in _J_NOT_NAMES and t not in names:
            names.append(t)

    def group(i):
        """toks[i] opens a bracket: -> index just past its close"""
        depth = 0
        while i < len(toks):
            if toks[i] in "([{":
                depth += 1
            elif toks[i] in ")]}":
                depth -= 1
                if depth == 0:
                    return i + 1
            i += 1
        return i

    def add_pattern(i):
        """a binding pattern starting at toks[i] (symbol or destructuring form) -> index past it"""
        if toks[i] in "([{":
            j = group(i)
            for t in toks[i + 1:j - 1]:
                if t not in "()[]{}":
                    add(t)
            return j
        add(toks[i])
        return i + 1
    # parameter vector of the defn: first `[` at depth 1
    i, n = 0, len(toks)
    while i < n:
        t = toks[i]
        if t == "(" and i + 1 < n:
            h = toks[i + 1]
            if h in ("defn", "defn-", "fn") :
                j = i + 2
                while j < n and toks[j] != "[" and toks[j] not in "()":
                    j += 1                      # skip the name / keyword name / flags
                if j < n and toks[j] == "[":
                    add_pattern(j)
            elif h in _J_BINDERS1 and i + 2 < n:
                add_pattern(i + 2)
            elif h in _J_BINDERSV and i + 2 < n and toks[i + 2] == "[":
                j, end = i + 3, group(i + 2) - 1
                while j < end:
                    j = add_pattern(j)          # binding
                    if j < end:                 # value expression
                        j = group(j) if toks[j] in "([{" else j + 1
        i += 1
    ren = {nm: "v%d" % (k + 1) for k, nm in enumerate(names)}
    # the name of the definition itself stays (recursive calls): it is toks[2]
    defname = toks[2] if len(toks) > 2 else None
    ren.pop(defname, None)
    out = []
    for t in _J_TOKEN.findall(text):
        out.append(ren.get(t, t) if not t.isspace() else t)
    return _ws("".join(out))


def extract(tree):
    """-> ordered list of (lean identifier, human name, normalised text)"""
    out, cache = [], {}
    for rel, kind, name in C_FUNCS:
        if rel not in cache:
            cache[rel] = strip_comments(read(tree, rel))
        src = cache[rel]
        try:
            if kind == "core":
                text = "(int32_t argc, Janet *argv) " + core_fn_body(src, name)
            else:
                params, body = c_params(src, name)
                text = params + " " + body
        except ExtractError:
            raise
        except Exception as e:
            raise ExtractError("C17: cannot locate %s in %s (%s)" % (name, rel, e))
        if not text:
            raise ExtractError("C17: cannot locate %s in %s" % (name, rel))
        out.append((name, "%s %s" % (rel, name), c_alpha(_ws(text))))
    for rel, name in C_DEFINES:
        if rel not in cache:
            cache[rel] = strip_comments(read(tree, rel))
        m = re.search(r"^[ \t]*#[ \t]*define[ \t]+%s[ \t]+(.+?)[ \t]*$" % re.escape(name), cache[rel], re.M)
        if not m:
            raise ExtractError("C17: #define %s not found in %s" % (name, rel))
        out.append(("define_" + name, "%s #define %s" % (rel, name), _ws(m.group(1))))
    boot = read(tree, "src/boot/boot.janet")
    for name in JANET_DEFS:
        out.append(("boot_" + lean_ident(name), "boot.janet %s" % name, janet_alpha(janet_def(boot, name))))
    return out


def lean_str(s):
    return '"' + s.replace("\\", "\\\\").replace('"', '\\"') + '"'


def render(tree):
    L = ["-- GENERATED by /verif/tools/gen/libsrc.py from the current janet source tree; regenerated on every check run; do not edit.",
         "-- Normalised source text (comments / docstrings removed, whitespace collapsed, declared identifiers renamed v1, v2, …) of every function that has a Lean mirror.",
         "", "namespace JanetModel.Gen.LibSrc", ""]
    for ident, human, text in extract(tree):
        L.append("/-- %s -/" % human)
        L.append("abbrev %s : String := %s" % (ident, lean_str(text)))
    L += ["", "end JanetModel.Gen.LibSrc", ""]
    return "\n".join(L)


def render_tie(tree):
    L = ["import JanetModel.Gen.LibSrc",
         "/- C17: the source text each mirror (Lib/StrC, Lib/Kmp, Lib/BufC, Lib/ArrC, Lib/Boot, Lib/Sort, Lib/Range, Lib/Spec range",
         "   decoding) was transcribed from.  Written by `python3 -m tools.gen.libsrc --tie` when a mirror is (re)examined; the",
         "   theorems compare it with the text regenerated from the current tree (Gen/LibSrc.lean) on every run. -/",
         "namespace JanetModel.Lib.SrcTie", "open JanetModel.Gen", ""]
    for ident, human, text in extract(tree):
        L.append("/-- %s -/" % human)
        L.append("theorem %s : LibSrc.%s = %s := rfl" % (ident, ident, lean_str(text)))
    L += ["", "end JanetModel.Lib.SrcTie", ""]
    return "\n".join(L)


def tie_theorems():
    return ["JanetModel.Lib.SrcTie." + n for _, _, n in C_FUNCS] + ["JanetModel.Lib.SrcTie.define_" + n for _, n in C_DEFINES] + \
           ["JanetModel.Lib.SrcTie.boot_" + lean_ident(n) for n in JANET_DEFS]


if __name__ == "__main__":
    args = [a for a in sys.argv[1:] if not a.startswith("--")]
    tree = args[0] if args else "/repo"
    print(render_tie(tree) if "--tie" in sys.argv else render(tree))
