"""C17 translator, part 2: the *source text* of every C function / boot.janet definition that has a Lean mirror
(Lib/StrC.lean, Lib/Kmp.lean, Lib/BufC.lean, Lib/ArrC.lean, Lib/Boot.lean, Lib/Sort.lean) is regenerated, normalised
(comments and docstrings removed, whitespace collapsed), into lean/JanetModel/Gen/LibSrc.lean on every run.
lean/JanetModel/Lib/SrcTie.lean holds, per function, the text the mirror was transcribed from and a kernel-checked
theorem `Gen.LibSrc.<fn> = "<that text>"`; so any edit of a mirrored function makes exactly that theorem fail until the
mirror has been re-examined (then `python3 -m tools.gen.libsrc --tie` rewrites SrcTie.lean).

Raises ExtractError when a function can no longer be located."""
import re
import sys
from .csrc import ExtractError, read, strip_comments, func_body
from .lib import core_fn_body

# (file, kind, C name)   kind: "fn" plain C function, "core" JANET_CORE_FN
C_FUNCS = [
    ("src/core/capi.c", "fn", "janet_gethalfrange"),
    ("src/core/capi.c", "fn", "janet_getargindex"),
    ("src/core/capi.c", "fn", "janet_getstartrange"),
    ("src/core/capi.c", "fn", "janet_getendrange"),
    ("src/core/capi.c", "fn", "janet_getslice"),
    ("src/core/string.c", "fn", "kmp_init"),
    ("src/core/string.c", "fn", "kmp_seti"),
    ("src/core/string.c", "fn", "kmp_next"),
    ("src/core/string.c", "fn", "findsetup"),
    ("src/core/string.c", "fn", "replacesetup"),
    ("src/core/string.c", "core", "cfun_string_find"),
    ("src/core/string.c", "core", "cfun_string_findall"),
    ("src/core/string.c", "core", "cfun_string_replace"),
    ("src/core/string.c", "core", "cfun_string_replaceall"),
    ("src/core/string.c", "core", "cfun_string_split"),
    ("src/core/string.c", "core", "cfun_string_join"),
    ("src/core/string.c", "core", "cfun_string_slice"),
    ("src/core/string.c", "core", "cfun_string_repeat"),
    ("src/core/string.c", "core", "cfun_string_bytes"),
    ("src/core/string.c", "core", "cfun_string_frombytes"),
    ("src/core/string.c", "core", "cfun_string_asciilower"),
    ("src/core/string.c", "core", "cfun_string_asciiupper"),
    ("src/core/string.c", "core", "cfun_string_reverse"),
    ("src/core/string.c", "core", "cfun_string_hasprefix"),
    ("src/core/string.c", "core", "cfun_string_hassuffix"),
    ("src/core/string.c", "core", "cfun_string_checkset"),
    ("src/core/string.c", "fn", "trim_help_checkset"),
    ("src/core/string.c", "fn", "trim_help_leftedge"),
    ("src/core/string.c", "fn", "trim_help_rightedge"),
    ("src/core/string.c", "fn", "trim_help_args"),
    ("src/core/string.c", "core", "cfun_string_trim"),
    ("src/core/string.c", "core", "cfun_string_triml"),
    ("src/core/string.c", "core", "cfun_string_trimr"),
    ("src/core/buffer.c", "fn", "janet_buffer_extra"),
    ("src/core/buffer.c", "fn", "janet_buffer_push_bytes"),
    ("src/core/buffer.c", "fn", "janet_buffer_push_u8"),
    ("src/core/buffer.c", "fn", "janet_buffer_push_u32"),
    ("src/core/buffer.c", "fn", "buffer_push_impl"),
    ("src/core/buffer.c", "core", "cfun_buffer_push"),
    ("src/core/buffer.c", "core", "cfun_buffer_push_at"),
    ("src/core/buffer.c", "core", "cfun_buffer_u8"),
    ("src/core/buffer.c", "core", "cfun_buffer_word"),
    ("src/core/buffer.c", "core", "cfun_buffer_chars"),
    ("src/core/buffer.c", "core", "cfun_buffer_popn"),
    ("src/core/buffer.c", "core", "cfun_buffer_fill"),
    ("src/core/buffer.c", "fn", "bitloc"),
    ("src/core/buffer.c", "core", "cfun_buffer_bitset"),
    ("src/core/buffer.c", "core", "cfun_buffer_bitclear"),
    ("src/core/buffer.c", "core", "cfun_buffer_bitget"),
    ("src/core/buffer.c", "core", "cfun_buffer_bittoggle"),
    ("src/core/buffer.c", "core", "cfun_buffer_blit"),
    ("src/core/array.c", "fn", "janet_array_push"),
    ("src/core/array.c", "core", "cfun_array_fill"),
    ("src/core/array.c", "core", "cfun_array_slice"),
    ("src/core/array.c", "core", "cfun_array_concat"),
    ("src/core/array.c", "core", "cfun_array_insert"),
    ("src/core/array.c", "core", "cfun_array_remove"),
    ("src/core/tuple.c", "core", "cfun_tuple_slice"),
    ("src/core/tuple.c", "core", "cfun_tuple_join"),
    ("src/core/corelib.c", "core", "janet_core_range"),
    # session 4
    ("src/core/buffer.c", "fn", "should_reverse_bytes"),
    ("src/core/buffer.c", "fn", "reverse_u32"),
    ("src/core/buffer.c", "fn", "reverse_u64"),
    ("src/core/buffer.c", "core", "cfun_buffer_push_uint16"),
    ("src/core/buffer.c", "core", "cfun_buffer_push_uint32"),
    ("src/core/buffer.c", "core", "cfun_buffer_push_uint64"),
    ("src/core/buffer.c", "core", "cfun_buffer_new_filled"),
    ("src/core/array.c", "fn", "janet_array_pop"),
    ("src/core/array.c", "fn", "janet_array_peek"),
    ("src/core/array.c", "core", "cfun_array_new_filled"),
    ("src/core/array.c", "core", "cfun_array_pop"),
    ("src/core/array.c", "core", "cfun_array_peek"),
    ("src/core/array.c", "core", "cfun_array_push"),
]

# boot.janet definitions (defn / defn- / defmacro / defmacro-)
JANET_DEFS = [
    "each-template", "median-of-three", "sort-partition-template", "sort-help", "sort", "sort-by", "sorted", "sorted-by",
    "reduce", "reduce2", "map-aggregator", "map-n", "map-template", "map", "filter", "count", "find-index", "find",
    "index-of", "take-n-slice", "take", "take-until-slice", "take-until", "take-while", "drop-n-slice", "drop",
    "drop-until-slice", "drop-until", "drop-while", "do-extreme", "extreme", "max", "min", "max-of", "min-of",
    "sum", "product", "reverse", "reverse!", "zipcoll", "distinct", "frequencies", "merge", "merge-into", "interleave",
    "interpose", "partition-slice", "partition", "flatten-into", "flatten", "complement",
    "keep", "mapcat", "group-by",
]


def _ws(s):
    return re.sub(r"\s+", " ", s).strip()


def lean_ident(name):
    out = re.sub(r"[^A-Za-z0-9_]", "_", name)
    if name.endswith("!"):
        out = out[:-1] + "_bang"
    if name.endswith("?"):
        out = out[:-1] + "_p"
    return out


def janet_tokens_span(src, i):
    """src[i] == '(' -> index just past the matching ')'; skips strings, long strings and comments"""
    depth, n = 0, len(src)
    while i < n:
        c = src[i]
        if c == "#":
            while i < n and src[i] != "\n":
                i += 1
            continue
        if c == '"':
            j = i + 1
            while j < n and src[j] != '"':
                j += 2 if src[j] == "\\" else 1
            i = j + 1
            continue
        if c == "`":
            k = i
            while k < n and src[k] == "`":
                k += 1
            fence = src[i:k]
            j = src.find(fence, k)
            if j < 0:
                raise ExtractError("boot.janet: unterminated long string")
            i = j + len(fence)
            continue
        if c in "([{":
            depth += 1
        elif c in ")]}":
            depth -= 1
            if depth == 0:
                return i + 1
        i += 1
    raise ExtractError("boot.janet: unbalanced form")


def janet_strip(form):
    """remove comments and (doc)strings-as-third-element, collapse whitespace; string literals elsewhere are kept"""
    out, i, n = [], 0, len(form)
    toks = []      # (kind, text) at depth 1 to find the docstring
    depth = 0
    elems_at_1 = 0
    while i < n:
        c = form[i]
        if c == "#":
            while i < n and form[i] != "\n":
                i += 1
            continue
        if c == '"' or c == "`":
            if c == '"':
                j = i + 1
                while j < n and form[j] != '"':
                    j += 2 if form[j] == "\\" else 1
                j += 1
            else:
                k = i
                while k < n and form[k] == "`":
                    k += 1
                fence = form[i:k]
                j = form.find(fence, k) + len(fence)
            lit = form[i:j]
            if depth == 1:
                elems_at_1 += 1
                if elems_at_1 == 3:      # (defn name "doc" …)
                    i = j
                    continue
            out.append(lit)
            i = j
            continue
        if c in "([{":
            if depth == 1:
                elems_at_1 += 1
            depth += 1
            out.append(c)
            i += 1
            continue
        if c in ")]}":
            depth -= 1
            out.append(c)
            i += 1
            continue
        if c.isspace():
            out.append(" ")
            i += 1
            continue
        # symbol / number token
        j = i
        while j < n and not form[j].isspace() and form[j] not in "()[]{}\"`":
            j += 1
        if depth == 1:
            elems_at_1 += 1
        out.append(form[i:j])
        i = j
    return _ws("".join(out))


def janet_def(src, name):
    m = re.search(r"^\((?:defn-?|defmacro-?)\s+%s(?=[\s\)])" % re.escape(name), src, re.M)
    if not m:
        raise ExtractError("boot.janet: definition of `%s` not found" % name)
    return janet_strip(src[m.start():janet_tokens_span(src, m.start())])


def extract(tree):
    """-> ordered list of (lean identifier, human name, normalised text)"""
    out, cache = [], {}
    for rel, kind, name in C_FUNCS:
        if rel not in cache:
            cache[rel] = strip_comments(read(tree, rel))
        src = cache[rel]
        try:
            body = core_fn_body(src, name) if kind == "core" else func_body(src, name)
        except ExtractError:
            raise
        except Exception as e:
            raise ExtractError("C17: cannot locate %s in %s (%s)" % (name, rel, e))
        if not body:
            raise ExtractError("C17: cannot locate %s in %s" % (name, rel))
        out.append((name, "%s %s" % (rel, name), _ws(body)))
    boot = read(tree, "src/boot/boot.janet")
    for name in JANET_DEFS:
        out.append(("boot_" + lean_ident(name), "boot.janet %s" % name, janet_def(boot, name)))
    return out


def lean_str(s):
    return '"' + s.replace("\\", "\\\\").replace('"', '\\"') + '"'


def render(tree):
    L = ["-- GENERATED by /verif/tools/gen/libsrc.py from the current janet source tree; regenerated on every check run; do not edit.",
         "-- Normalised source text (comments / docstrings removed, whitespace collapsed) of every function that has a Lean mirror.",
         "", "namespace JanetModel.Gen.LibSrc", ""]
    for ident, human, text in extract(tree):
        L.append("/-- %s -/" % human)
        L.append("abbrev %s : String := %s" % (ident, lean_str(text)))
    L += ["", "end JanetModel.Gen.LibSrc", ""]
    return "\n".join(L)


def render_tie(tree):
    L = ["import JanetModel.Gen.LibSrc",
         "/- C17: the source text each mirror (Lib/StrC, Lib/Kmp, Lib/BufC, Lib/ArrC, Lib/Boot, Lib/Sort, Lib/Range, Lib/Spec range",
         "   decoding) was transcribed from.  Written by `python3 -m tools.gen.libsrc --tie` when a mirror is (re)examined; the",
         "   theorems compare it with the text regenerated from the current tree (Gen/LibSrc.lean) on every run. -/",
         "namespace JanetModel.Lib.SrcTie", "open JanetModel.Gen", ""]
    for ident, human, text in extract(tree):
        L.append("/-- %s -/" % human)
        L.append("theorem %s : LibSrc.%s = %s := rfl" % (ident, ident, lean_str(text)))
    L += ["", "end JanetModel.Lib.SrcTie", ""]
    return "\n".join(L)


def tie_theorems():
    return ["JanetModel.Lib.SrcTie." + n for _, _, n in C_FUNCS] + \
           ["JanetModel.Lib.SrcTie.boot_" + lean_ident(n) for n in JANET_DEFS]


if __name__ == "__main__":
    args = [a for a in sys.argv[1:] if not a.startswith("--")]
    tree = args[0] if args else "/repo"
    print(render_tie(tree) if "--tie" in sys.argv else render(tree))
