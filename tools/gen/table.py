"""Translator: table.c / util.c / util.h / struct.c / janet.h  ->  Gen/Table.lean

Carries into Lean (regenerated on every run, so that the theorems in Table/*.lean and Props/C04.lean are re-checked
against what the source says *now*):
  * janet_maphash            the macro body, as a Nat expression on (cap, hash)
  * janet_tablen             the bit-smearing statements, in order, and the final `n + 1`
  * janet_table_put          the rehash test and the new size expression (must be the same in put_no_overwrite)
  * janet_table_remove       what is written into the freed bucket (key, value) = the tombstone representation,
                             and janet_dict_find's test for "empty" vs "tombstone", put's test for "was a tombstone"
  * JANET_MAX_PROTO_DEPTH
  * janet_struct_begin       capacity expression
Every extractor asserts the shape it expects and raises ExtractError otherwise."""
import re
from . import csrc
from .csrc import ExtractError

TOK = re.compile(r"\s*(?:(\d+[uUlL]*|0x[0-9a-fA-F]+)|([A-Za-z_][\w]*(?:->\w+)*)|(>>|<<|>=|<=|==|!=|\|\||&&|[-+*/%()<>|&^~!]))")


class ExprParser:
    """Tiny precedence-climbing parser for the C integer expressions met here; renders a Lean Nat expression."""
    PREC = {"|": 1, "^": 2, "&": 3, ">": 5, "<": 5, ">=": 5, "<=": 5, "<<": 6, ">>": 6, "+": 7, "-": 7, "*": 8}
    LEAN = {"|": "|||", "^": "^^^", "&": "&&&", "<<": "<<<", ">>": ">>>"}

    def __init__(self, text, names):
        self.toks, pos = [], 0
        text = text.strip()
        while pos < len(text):
            m = TOK.match(text, pos)
            if not m:
                raise ExtractError("cannot tokenise expression %r at %d" % (text, pos))
            self.toks.append(m.group(1) or m.group(2) or m.group(3))
            pos = m.end()
        self.i = 0
        self.names = names

    def peek(self):
        return self.toks[self.i] if self.i < len(self.toks) else None

    def eat(self):
        t = self.peek()
        self.i += 1
        return t

    def primary(self):
        t = self.eat()
        if t is None:
            raise ExtractError("unexpected end of expression")
        if t == "(":
            # a cast such as (uint32_t)(hash) is dropped (the model works on the unsigned value)
            if self.peek() in ("uint32_t", "int32_t", "size_t") and self.toks[self.i + 1] == ")":
                self.i += 2
                return self.primary()
            e = self.expr(0)
            if self.eat() != ")":
                raise ExtractError("expected )")
            return "(" + e + ")"
        if re.match(r"\d|0x", t):
            return str(csrc.cint(t))
        if t in self.names:
            return self.names[t]
        raise ExtractError("unknown identifier %r in expression" % t)

    def expr(self, minp):
        lhs = self.primary()
        while True:
            op = self.peek()
            if op not in self.PREC or self.PREC[op] < minp:
                return lhs
            self.eat()
            rhs = self.expr(self.PREC[op] + 1)
            lhs = "%s %s %s" % (lhs, self.LEAN.get(op, op), rhs)

    def parse(self):
        e = self.expr(0)
        if self.peek() is not None:
            raise ExtractError("trailing tokens in expression: %r" % self.toks[self.i:])
        return e


def lean_expr(text, names):
    return ExprParser(text, names).parse()


def extract(tree):
    out = {}
    utilh = csrc.strip_comments(csrc.read(tree, "src/core/util.h"))
    m = re.search(r"#define\s+janet_maphash\s*\(\s*cap\s*,\s*hash\s*\)\s*(.+)", utilh)
    if not m:
        raise ExtractError("janet_maphash macro not found in util.h")
    out["maphash"] = lean_expr(m.group(1), {"cap": "cap", "hash": "hash"})
    util = csrc.strip_comments(csrc.read(tree, "src/core/util.c"))
    tl = csrc.func_body(util, "janet_tablen")
    m = re.match(r"\{\s*if\s*\(\s*n\s*<\s*0\s*\)\s*return\s+0\s*;((?:\s*n\s*\|=\s*n\s*>>\s*\d+\s*;)+)\s*return\s+(n\s*\+\s*1)\s*;\s*\}$", tl.strip())
    if not m:
        raise ExtractError("janet_tablen: body is not `if (n<0) return 0; n |= n >> k; ... return n + 1;`")
    out["tablen_shifts"] = [int(x) for x in re.findall(r">>\s*(\d+)", m.group(1))]
    out["tablen_ret"] = lean_expr(m.group(2), {"n": "n"})
    # dict_find: empty / tombstone tests
    df = csrc.func_body(util, "janet_dict_find")
    loops = re.findall(r"for\s*\(([^)]*)\)\s*\{(.*?)\n    \}", df, re.S)
    if len(loops) != 2:
        raise ExtractError("janet_dict_find: expected two probe loops, found %d" % len(loops))
    heads = [re.sub(r"\s+", "", h) for h, _ in loops]
    if heads != ["i=index;i<cap;i++", "i=0;i<index;i++"]:
        raise ExtractError("janet_dict_find: probe loops are %r, expected index..cap then 0..index" % heads)
    body_re = re.escape("const JanetKV * kv = buckets + i ; if ( janet_checktype ( kv -> key , JANET_NIL ) ) { "
                        "if ( janet_checktype ( kv -> value , JANET_NIL ) ) { return kv ; } "
                        "else if ( NULL == first_bucket ) { first_bucket = kv ; } } "
                        "else if ( janet_equals ( kv -> key , key ) ) { return buckets + i ; }")
    for _, b in loops:
        norm = " ".join(re.findall(r"->|==|[A-Za-z_]\w*|\d+|\S", b))
        if not re.fullmatch(body_re, norm):
            raise ExtractError("janet_dict_find: probe loop body changed: %r" % norm)
    if not re.search(r"return\s+first_bucket\s*;\s*\}$", df.strip()):
        raise ExtractError("janet_dict_find: does not end with `return first_bucket;`")
    if not re.search(r"int32_t\s+index\s*=\s*janet_maphash\s*\(\s*cap\s*,\s*janet_hash\s*\(\s*key\s*\)\s*\)\s*;", df):
        raise ExtractError("janet_dict_find: start index is not janet_maphash(cap, janet_hash(key))")
    tab = csrc.strip_comments(csrc.read(tree, "src/core/table.c"))
    put = csrc.func_body(tab, "janet_table_put")
    pno = csrc.func_body(tab, "janet_table_put_no_overwrite")
    names = {"t->count": "count", "t->deleted": "deleted", "t->capacity": "cap"}
    tests = []
    for body, who in ((put, "janet_table_put"), (pno, "janet_table_put_no_overwrite")):
        m = re.search(r"if\s*\(\s*NULL\s*==\s*bucket\s*\|\|\s*(.+?)\)\s*\{\s*janet_table_rehash\s*\(\s*t\s*,\s*janet_tablen\s*\((.+?)\)\s*\)\s*;", body, re.S)
        if not m:
            raise ExtractError("%s: rehash test `if (NULL == bucket || <test>) { janet_table_rehash(t, janet_tablen(<size>)); ...` not recognised" % who)
        tests.append((lean_expr(m.group(1), names), lean_expr(m.group(2), names)))
        if not re.search(r"if\s*\(\s*janet_checktype\s*\(\s*bucket->value\s*,\s*JANET_BOOLEAN\s*\)\s*\)\s*--t->deleted\s*;\s*bucket->key\s*=\s*key\s*;\s*bucket->value\s*=\s*value\s*;\s*\+\+t->count\s*;", body):
            raise ExtractError("%s: insertion tail (tombstone test on bucket->value being a boolean, ++count) not recognised" % who)
    if tests[0] != tests[1]:
        raise ExtractError("janet_table_put and put_no_overwrite disagree on the rehash rule: %r vs %r" % tuple(tests))
    out["rehash_test"], out["rehash_size"] = tests[0]
    rem = csrc.func_body(tab, "janet_table_remove")
    # the four statements of the removal are independent of each other: accepted in any order (key / value writes are
    # identified by their left-hand side), each exactly once, nothing else between them
    blk = re.search(r"((?:\s*(?:t->count--|--t->count|t->count\s*-=\s*1|t->deleted\+\+|\+\+t->deleted|t->deleted\s*\+=\s*1|bucket->key\s*=\s*janet_wrap_\w+\s*\(\s*\)|bucket->value\s*=\s*janet_wrap_\w+\s*\(\s*\))\s*;){4})", rem)
    m = None
    if blk:
        stmts = [re.sub(r"\s+", "", x) for x in blk.group(1).split(";") if x.strip()]
        cnt = [x for x in stmts if x in ("t->count--", "--t->count", "t->count-=1")]
        dele = [x for x in stmts if x in ("t->deleted++", "++t->deleted", "t->deleted+=1")]
        kw = [re.fullmatch(r"bucket->key=janet_wrap_(\w+)\(\)", x) for x in stmts]
        vw = [re.fullmatch(r"bucket->value=janet_wrap_(\w+)\(\)", x) for x in stmts]
        kw, vw = [x for x in kw if x], [x for x in vw if x]
        if len(cnt) == 1 and len(dele) == 1 and len(kw) == 1 and len(vw) == 1:
            m = (kw[0].group(1), vw[0].group(1))
    if not m:
        raise ExtractError("janet_table_remove: tombstone write not recognised (expected count--, deleted++, bucket->key = janet_wrap_X(), bucket->value = janet_wrap_Y())")

    class _M:
        def __init__(self, g):
            self.g = g

        def group(self, i):
            return self.g[i - 1]

        def groups(self):
            return self.g
    m = _M(m)
    vals = {"nil": 0, "false": 1, "true": 2}
    if m.group(1) not in vals or m.group(2) not in vals:
        raise ExtractError("janet_table_remove: unexpected tombstone constants %r" % (m.groups(),))
    out["tomb_key_is_nil"] = m.group(1) == "nil"
    out["tomb_val"] = vals[m.group(2)]
    if not out["tomb_key_is_nil"]:
        raise ExtractError("janet_table_remove: freed bucket keeps a non-nil key")
    hdr = csrc.strip_comments(csrc.read(tree, "src/include/janet.h"))
    m = re.search(r"#define\s+JANET_MAX_PROTO_DEPTH\s+(\d+)", hdr)
    if not m:
        raise ExtractError("JANET_MAX_PROTO_DEPTH not found")
    out["max_proto_depth"] = int(m.group(1))
    for fn in ("janet_table_get", "janet_table_get_ex"):
        g = csrc.func_body(tab, fn)
        if not re.search(r"for\s*\(\s*int\s+i\s*=\s*JANET_MAX_PROTO_DEPTH\s*;\s*t\s*&&\s*i\s*;\s*t\s*=\s*t->proto\s*,\s*--i\s*\)", g):
            raise ExtractError("%s: prototype loop header changed" % fn)
    pf = re.sub(r"\s+", " ", csrc.func_body(tab, "janet_table_proto_flatten"))
    if re.search(r"JanetTable \*newTable = janet_table\(0\); while \(t\) \{", pf):
        out["flatten_bounded"] = False
    elif re.search(r"JanetTable \*newTable = janet_table\(0\); for \(int i = JANET_MAX_PROTO_DEPTH; t && i; --i\) \{", pf):
        out["flatten_bounded"] = True
    else:
        raise ExtractError("janet_table_proto_flatten: prototype loop header not recognised")
    if not re.search(r"janet_table_put_no_overwrite\(newTable, kv->key, kv->value\); kv\+\+; \} t = t->proto; \} return newTable;", pf):
        raise ExtractError("janet_table_proto_flatten: loop body not recognised")
    st = csrc.strip_comments(csrc.read(tree, "src/core/struct.c"))
    sb = csrc.func_body(st, "janet_struct_begin")
    m = re.search(r"int32_t\s+capacity\s*=\s*janet_tablen\s*\((.+?)\)\s*;", sb)
    if not m:
        raise ExtractError("janet_struct_begin: capacity expression not recognised")
    out["struct_cap"] = lean_expr(m.group(1), {"count": "count"})
    # ---- boot.janet: the constructor-like functions start from a fresh `@{}` and only `put` into it
    boot = csrc.read(tree, "src/boot/boot.janet")

    def defn_text(name):
        m = re.search(r"^\(defn %s\n" % re.escape(name), boot, re.M)
        if not m:
            raise ExtractError("boot.janet: (defn %s ...) not found" % name)
        e = boot.find("\n(", m.end())
        while e >= 0 and not re.match(r"\n\((defn|defmacro|def|var|defn-|defmacro-|defdyn|setdyn|put|each|do)\b", boot[e:e + 12]):
            e = boot.find("\n(", e + 1)
        txt = boot[m.start():e if e >= 0 else len(boot)]
        txt = re.sub(r"``.*?``", "", txt, flags=re.S)       # long-string doc
        txt = re.sub(r"`[^`]*`", "", txt, flags=re.S)
        txt = re.sub(r'"(?:[^"\\]|\\.)*"', "", txt, flags=re.S)
        txt = re.sub(r"#[^\n]*", "", txt)
        return re.sub(r"\s+", " ", txt).strip()
    shapes = {
        "merge": "(defn merge [& colls] (def container @{}) (loop [c :in colls key :keys c] (put container key (in c key))) container)",
        "merge-into": "(defn merge-into [tab & colls] (loop [c :in colls key :keys c] (put tab key (in c key))) tab)",
        "from-pairs": "(defn from-pairs [ps] (def ret @{}) (each [k v] ps (put ret k v)) ret)",
        "zipcoll": "(defn zipcoll [ks vs] (def res @{}) (var kk nil) (var vk nil) (while true (set kk (next ks kk)) (if (= nil kk) (break)) "
                   "(set vk (next vs vk)) (if (= nil vk) (break)) (put res (in ks kk) (in vs vk))) res)",
        "update": "(defn update [ds key func & args] (def old (get ds key)) (put ds key (func old ;args)))",
    }
    # session 3: freeze / thaw / invert (+ the private walk-dict) and the tabseq macro
    shapes.update({
        "invert": "(defn invert [ds] (def ret @{}) (loop [k :keys ds] (put ret (in ds k) k)) ret)",
        "freeze": "(defn freeze [x] (def tx (type x)) (cond (or (= tx :array) (= tx :tuple)) (tuple/slice (map freeze x)) "
                  "(or (= tx :table) (= tx :struct)) (let [temp-tab @{}] (eachp [k v] x (def kk (freeze k)) (def vv (freeze v)) "
                  "(def old (get temp-tab kk)) (def new (if (= nil old) vv (max vv old))) (put temp-tab kk new)) "
                  "(table/to-struct temp-tab (freeze (getproto x)))) (= tx :buffer) (string x) x))",
        "thaw": "(defn thaw [ds] (case (type ds) :array (walk-ind thaw ds) :tuple (walk-ind thaw ds) :table (walk-dict thaw (table/proto-flatten ds)) "
                ":struct (walk-dict thaw (struct/proto-flatten ds)) :string (buffer ds) ds))",
    })
    for name, want in shapes.items():
        got = defn_text(name)
        if got != want:
            raise ExtractError("boot.janet `%s` no longer has the modelled shape (fresh @{} filled by put): %r" % (name, got[:300]))
    m = re.search(r"\(defn- walk-dict \[f form\]\s+\(def ret @\{\}\)\s+\(loop \[k :keys form\]\s+\(put ret \(f k\) \(f \(in form k\)\)\)\)\s+ret\)", boot)
    if not m:
        raise ExtractError("boot.janet `walk-dict` no longer has the modelled shape (fresh @{} filled by put)")
    m = re.search(r"\(defmacro tabseq\b.*?\[head key-body & value-body\]\s+\(def \$accum \(gensym\)\)\s+~\(do \(def ,\$accum @\{\}\) \(loop ,head \(,put ,\$accum ,key-body \(do ,;value-body\)\)\) ,\$accum\)\)", boot, re.S)
    if not m:
        raise ExtractError("boot.janet `tabseq` no longer expands to a fresh @{} filled by put")
    out["boot_shapes"] = sorted(list(shapes) + ["walk-dict", "tabseq"])
    # ---- table.c / struct.c: constructors and prototype accessors (session 3)
    flat = lambda b: re.sub(r"\s+", " ", b)
    for fn in ("janet_table", "janet_table_weakk", "janet_table_weakv", "janet_table_weakkv"):
        b = flat(csrc.func_body(tab, fn))
        if not re.search(r"JanetTable \*table = janet_gcalloc\(JANET_MEMORY_TABLE\w*, sizeof\(JanetTable\)\); return janet_table_init_impl\(table, capacity, 0\);", b):
            raise ExtractError("%s: no longer `janet_table_init_impl(table, capacity, 0)` on a fresh object" % fn)
    b = flat(csrc.func_body(tab, "janet_table_init_impl"))
    if not re.search(r"capacity = janet_tablen\(capacity\);.*table->count = 0; table->deleted = 0; table->proto = NULL; return table;", b):
        raise ExtractError("janet_table_init_impl: shape not recognised")
    b = flat(csrc.func_body(tab, "janet_table_rawget"))
    if not re.search(r"JanetKV \*bucket = janet_table_find\(t, key\); if \(NULL != bucket && !janet_checktype\(bucket->key, JANET_NIL\)\) return bucket->value; else return janet_wrap_nil\(\);", b):
        raise ExtractError("janet_table_rawget: shape not recognised (must not follow t->proto)")
    b = flat(csrc.func_body(st, "janet_struct_get_ex"))
    if not re.search(r"for \(int i = JANET_MAX_PROTO_DEPTH; st && i; --i, st = janet_struct_proto\(st\)\) \{ const JanetKV \*kv = janet_struct_find\(st, key\); if \(NULL != kv && !janet_checktype\(kv->key, JANET_NIL\)\) \{ \*which = st; return kv->value; \} \} return janet_wrap_nil\(\);", b):
        raise ExtractError("janet_struct_get_ex: prototype walk not recognised")
    b = flat(csrc.func_body(st, "janet_struct_rawget"))
    if "janet_struct_proto" in b or not re.search(r"const JanetKV \*kv = janet_struct_find\(st, key\); return kv \? kv->value : janet_wrap_nil\(\);", b):
        raise ExtractError("janet_struct_rawget: shape not recognised (must not follow the prototype)")
    b = flat(csrc.func_body(st, "janet_struct_to_table"))
    if not re.search(r"JanetTable \*table = janet_table\(janet_struct_capacity\(st\)\);.*janet_table_put\(table, kv->key, kv->value\);", b):
        raise ExtractError("janet_struct_to_table: shape not recognised")
    return out


def render(tree):
    c = extract(tree)
    o = [csrc.lean_header("src/core/table.c, util.c, util.h, struct.c, include/janet.h"), "namespace JanetModel.Gen.Table\n"]
    o.append("/-- `janet_maphash(cap, hash)` (util.h) -/")
    o.append("@[inline] def maphash (cap hash : Nat) : Nat := %s\n" % c["maphash"])
    o.append("/-- `janet_tablen` (util.c) for non-negative `n`: the smearing steps in source order, then the return expression -/")
    o.append("def tablenShifts : List Nat := [%s]" % ", ".join(map(str, c["tablen_shifts"])))
    o.append("def smear (n : Nat) : Nat := tablenShifts.foldl (fun n s => n ||| (n >>> s)) n")
    o.append("def tablen (n : Nat) : Nat := (fun n => %s) (smear n)\n" % c["tablen_ret"])
    o.append("/-- rehash rule of `janet_table_put` / `janet_table_put_no_overwrite` (table.c) -/")
    o.append("def rehashNeeded (count deleted cap : Nat) : Bool := decide (%s)" % c["rehash_test"])
    o.append("def rehashSize (count : Nat) : Nat := tablen (%s)\n" % c["rehash_size"])
    o.append("/-- value id written into a removed bucket by `janet_table_remove` (0 nil, 1 false, 2 true); the key becomes nil -/")
    o.append("abbrev tombVal : Nat := %d\n" % c["tomb_val"])
    o.append("abbrev maxProtoDepth : Nat := %d\n" % c["max_proto_depth"])
    o.append("/-- `janet_struct_begin`: capacity for `count` entries -/")
    o.append("def structCap (count : Nat) : Nat := tablen (%s)\n" % c["struct_cap"])
    o.append("/-- `janet_table_proto_flatten` walks at most `JANET_MAX_PROTO_DEPTH` prototypes (true) or until NULL (false: does\nnot terminate on a cyclic chain) -/")
    o.append("abbrev flattenBounded : Bool := %s\n" % ("true" if c["flatten_bounded"] else "false"))
    o.append("/-- boot.janet functions whose source text was checked against the modelled shape (a fresh `@{}` filled by `put`;\nmerge-into / update write into their first argument) -/")
    o.append("def bootShapesChecked : List String := [%s]\n" % ", ".join('"%s"' % n for n in c["boot_shapes"]))
    o.append("end JanetModel.Gen.Table\n")
    return "\n".join(o)


if __name__ == "__main__":
    import sys
    print(render(sys.argv[1] if len(sys.argv) > 1 else "/repo"))
