"""Translator for C20 (descriptor / child / thread lifecycles)  ->  Gen/Fds.lean

From the *preprocessed* (cc -E, this platform) ev.c, net.c, os.c, io.c, filewatch.c of the current tree, in source order:

  fdSites    every call that creates a descriptor (pipe, socket, accept4, open, dup, epoll_create1, timerfd_create,
             inotify_init1, fopen, tmpfile, fdopen, and the internal creators janet_make_pipe / make_pipes), closes one
             (close, fclose, and the internal closers close_handle, janet_stream_close[_impl], janet_file_close), hands one to
             an owning object (janet_stream[_ext], make_stream, janet_makefile / janet_makejfile / makef) - with file, enclosing
             function, callee, first argument and the chain of enclosing conditions -
             and, inside functions that create descriptors, every call that can raise a janet error (longjmp out of the
             function: janet_panic*, the janet_get* / janet_opt* argument checkers, janet_arity, janet_sandbox_assert, ...).
  childSites every kill / waitpid / posix_spawn[p] / fork in os.c with function and guards.
  threadSites every pthread_create / pthread_detach / pthread_join / janet_init / janet_deinit / janet_ev_inc|dec_refcount-free
             thread bookkeeping call in ev.c's thread entry points.

Props/C20.lean proves these tables equal to the ones the hand-written models mirror (`fd_sites_match`, `child_sites_match`,
`thread_sites_match`), and computes the model's tree-dependent switches from them *in Lean* (e.g. "is there a call that can
raise between the first make_pipes and posix_spawn"), so a new unmatched socket() or a deleted close() on an error path breaks
an obligation and names the site.
"""
import os
import re
from . import csrc
from .csrc import ExtractError
from .loop import preprocess, functions, sites, _balanced_arg, _ws, _lstr

FILES = ["ev.c", "net.c", "os.c", "io.c", "filewatch.c"]

CREATE = ["pipe", "pipe2", "socket", "socketpair", "accept", "accept4", "open", "openat", "creat", "dup", "dup2", "dup3",
          "epoll_create", "epoll_create1", "timerfd_create", "inotify_init", "inotify_init1", "eventfd", "signalfd", "memfd_create",
          "fopen", "freopen", "fdopen", "tmpfile", "popen", "kqueue",
          "janet_make_pipe", "make_pipes", "fcntl_dupfd"]
CLOSE = ["close", "fclose", "pclose", "close_handle", "janet_stream_close", "janet_stream_close_impl", "janet_file_close"]
WRAP = ["janet_stream", "janet_stream_ext", "make_stream", "janet_makefile", "janet_makejfile", "makef", "get_stdio_for_handle"]
RAISE_RX = (r"janet_panic\w*|janet_get(?!method\b|abstract_type\b)\w+|janet_opt\w+|janet_arity|janet_fixarity|janet_sandbox_assert|"
            r"janet_stream_flags|io_assert_writeable")

CHILD = ["kill", "waitpid", "wait", "wait4", "posix_spawn", "posix_spawnp", "fork", "vfork"]
THREAD = ["pthread_create", "pthread_detach", "pthread_join", "pthread_cancel", "pthread_attr_setdetachstate",
          "janet_init", "janet_deinit", "janet_vm_load", "janet_vm_save"]


def _call_rx(names):
    return r"(?<![\w.>])(" + "|".join(sorted(names, key=lambda x: -len(x))) + r")\s*\("


def _first_arg(body, m):
    a = _balanced_arg(body, m.end() - 1)
    # top-level split on commas
    d, cur = 0, ""
    for ch in a:
        if ch in "([{":
            d += 1
        elif ch in ")]}":
            d -= 1
        if ch == "," and d == 0:
            break
        cur += ch
    return _ws(cur)[:60]


# ---- site keys that do not depend on the NAMES of C locals ---------------------------------------------------------------
# key = callee(first argument) with every identifier of the argument that is not a called function, not a struct field (after
# `.` / `->`), not an ALL-CAPS constant, not `janet_vm` and not a word of a cast replaced by `$k`, k = order of first appearance
# among the function's create / close / wrap sites.  A renamed local gives the same keys; a different argument does not.
_KEEP = {"janet_vm", "const", "char", "void", "int", "unsigned", "signed", "struct", "long", "short", "int32_t", "uint32_t",
         "uint8_t", "int64_t", "uint64_t", "size_t", "constchar", "FILE", "NULL"}
_IDENT = re.compile(r"(?<![\w.>])([A-Za-z_]\w*)(?!\w*\()")


def _arg_idents(arg):
    out = []
    for m in _IDENT.finditer(arg):
        w = m.group(1)
        if w in _KEEP or w.upper() == w:
            continue
        if m.start() >= 2 and arg[m.start() - 2:m.start()] == "->":
            continue
        a, b = m.start(1), m.end(1)
        if a >= 1 and arg[a - 1] == "(" and b < len(arg) - 1 and arg[b] == ")" and (arg[b + 1].isalnum() or arg[b + 1] in "_(&*"):
            continue        # (Type)expr
        out.append((m.start(1), m.end(1), w))
    return out


def canon_arg(arg, idmap, grow=True):
    """arg: whitespace-free first argument; idmap: identifier -> number, extended in order of first appearance when grow"""
    res, last = "", 0
    for a, b, w in _arg_idents(arg):
        if w not in idmap:
            if not grow:
                continue
            idmap[w] = len(idmap) + 1
        res += arg[last:a] + "$%d" % idmap[w]
        last = b
    return res + arg[last:]


def site_key(callee, arg, idmap, grow=True):
    return "%s(%s)" % (callee, canon_arg(arg, idmap, grow)[:32])


def ident_map(name, body):
    """the identifier numbering of function `name`: its create / close / wrap sites in source order"""
    idmap = {}
    for m, _g in sites(body, _call_rx(CREATE + CLOSE + WRAP)):
        if m.group(1) != name:
            canon_arg(_first_arg(body, m), idmap)
    return idmap


def _kind(callee):
    if callee in CREATE:
        return "create"
    if callee in CLOSE:
        return "close"
    if callee in WRAP:
        return "wrap"
    return "raise"


def extract(tree):
    res = {"fd": [], "child": [], "thread": []}
    rx_fd = _call_rx(CREATE + CLOSE + WRAP)
    rx_all = r"(?<![\w.>])(" + "|".join(sorted(CREATE + CLOSE + WRAP, key=lambda x: -len(x))) + "|" + RAISE_RX + r")\s*\("
    defined = set()
    pres = {}
    for f in FILES:
        if not os.path.exists(os.path.join(tree, "src/core", f)):
            raise ExtractError("src/core/%s not found" % f)
        pres[f] = re.sub(r"(?<![\w.>])fcntl\s*\(([^,()]*(?:\[[^\]]*\])?[^,()]*),\s*(?:0|1030)\s*,", r"fcntl_dupfd(\1,", preprocess(tree, "src/core/" + f))
    for f in FILES:
        for name, body in functions(pres[f]):
            defined.add(name)
            has_create = any(m.group(1) in CREATE for m, _ in sites(body, rx_fd))
            seen = {}
            idmap = ident_map(name, body)
            for m, guards in sites(body, rx_all if has_create else rx_fd):
                callee = m.group(1)
                if callee == name:
                    continue
                kind = _kind(callee)
                key = callee if kind == "raise" else site_key(callee, _first_arg(body, m), idmap, grow=False)
                seen[key] = seen.get(key, 0) + 1
                if seen[key] > 1:
                    key += "#%d" % seen[key]
                res["fd"].append((f, name, kind, key, [] if kind == "raise" else [g[:44] for g in guards]))
            if f == "os.c":
                for m, guards in sites(body, _call_rx(CHILD)):
                    res["child"].append((f, name, m.group(1), _first_arg(body, m), [g[:44] for g in guards]))
            if f == "ev.c":
                for m, guards in sites(body, _call_rx(THREAD)):
                    res["thread"].append((f, name, m.group(1), _first_arg(body, m), [g[:44] for g in guards]))
    # shape assertions: the functions the model mirrors must exist, and the primitive sites must be there at all
    need = ["janet_stream_close_impl", "janet_stream_close", "janet_stream_gc", "janet_make_pipe", "janet_ev_init", "janet_ev_deinit",
            "get_file_for_stream", "janet_stream_marshal", "net_callback_accept", "cfun_net_connect", "cfun_net_listen",
            "make_pipes", "os_execute_impl", "get_stdio_for_handle", "os_proc_close", "os_open", "os_pipe",
            "cfun_io_fopen", "janet_file_close", "cfun_io_gc", "cfun_io_fclose", "janet_watcher_init",
            "janet_proc_gc", "os_proc_wait_impl", "janet_proc_wait_cb", "os_proc_kill", "janet_go_thread_subr", "janet_thread_body"]
    for n in need:
        if n not in defined:
            raise ExtractError("function %s (mirrored by the descriptor / child / thread model) not found" % n)
    kinds = set(k for _, _, k, _, _ in res["fd"])
    if kinds != {"create", "close", "wrap", "raise"}:
        raise ExtractError("descriptor site scan found only kinds %s" % sorted(kinds))
    if len(res["child"]) < 4 or len(res["thread"]) < 3:
        raise ExtractError("child / thread site scan found too little: %d / %d" % (len(res["child"]), len(res["thread"])))
    return res


def render(tree):
    r = extract(tree)
    o = [csrc.lean_header("src/core/ev.c, net.c, os.c, io.c, filewatch.c (preprocessed for this platform)"), "",
         "namespace JanetModel.Gen.Fds", ""]
    o.append("/-- every descriptor-creating / -closing / -wrapping call, and (in functions that create descriptors) every call that can")
    o.append("    raise: (file, function, kind, key = callee(first argument)#occurrence, enclosing conditions outermost first, each")
    o.append("    cut to 44 characters; none for `raise`), in source order.  Identifiers of the first argument that name C locals /")
    o.append("    parameters appear as `$k` (k-th distinct one among the function's sites): the keys do not change when a local is renamed -/")
    o.append("abbrev fdSites : List (String × String × String × String × List String) := [")
    o.append(",\n".join("  (%s, %s, %s, %s, [%s])" % (_lstr(f), _lstr(fn), _lstr(k), _lstr(c), ", ".join(_lstr(g) for g in gs))
                        for f, fn, k, c, gs in r["fd"]))
    o.append("]")
    o.append("")
    o.append("/-- every kill / waitpid / posix_spawn in os.c: (file, function, callee, first argument, enclosing conditions) -/")
    o.append("abbrev childSites : List (String × String × String × String × List String) := [")
    o.append(",\n".join("  (%s, %s, %s, %s, [%s])" % (_lstr(f), _lstr(fn), _lstr(c), _lstr(a), ", ".join(_lstr(g) for g in gs))
                        for f, fn, c, a, gs in r["child"]))
    o.append("]")
    o.append("")
    o.append("/-- thread start / finish bookkeeping calls in ev.c: (file, function, callee, first argument, enclosing conditions) -/")
    o.append("abbrev threadSites : List (String × String × String × String × List String) := [")
    o.append(",\n".join("  (%s, %s, %s, %s, [%s])" % (_lstr(f), _lstr(fn), _lstr(c), _lstr(a), ", ".join(_lstr(g) for g in gs))
                        for f, fn, c, a, gs in r["thread"]))
    o.append("]")
    o.append("")
    o.append("end JanetModel.Gen.Fds")
    return "\n".join(o) + "\n"


if __name__ == "__main__":
    import sys
    print(render(sys.argv[1] if len(sys.argv) > 1 else "/repo"))
