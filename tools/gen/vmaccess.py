"""Translator for C10: which operand fields every VM handler actually dereferences.

vm.c `run_vm`  ->  Gen/VmAccess.lean
    * field macros A B C D E CS DS ES (asserted to have exactly the expected definitions)
    * per `VM_OP(JOP_x)` block, after macro expansion: fields used as `stack[..]` index, as index of
      `func->def->constants[..]`, `func->def->defs[..]`, `func->envs[..]` (+ whether a run-time bound check precedes it),
      fields added to `pc`, whether `pc++` / a return occurs
    * the computed-goto lookup table (size, which entries go to `label_unknown_op`), dispatch masks
    * janet_verify: the mask used to pick the opcode and the terminal-opcode list
Also: asm mnemonics (asm.c `janet_ops[]`) for the asm-description generator, and the presence of the image
well-formedness checks in marsh.c / vm.c (Gen/ImageChecks.lean)."""
import os
import re
import subprocess
from . import csrc, bytecode
from .csrc import ExtractError

FIELD_DEFS = {
    "A": r"\(\(\*pc >> 8\)\s+& 0xFF\)",
    "B": r"\(\(\*pc >> 16\) & 0xFF\)",
    "C": r"\(\*pc >> 24\)",
    "D": r"\(\*pc >> 8\)",
    "E": r"\(\*pc >> 16\)",
    "CS": r"\(\*\(\(int32_t \*\)pc\) >> 24\)",
    "DS": r"\(\*\(\(int32_t \*\)pc\) >> 8\)",
    "ES": r"\(\*\(\(int32_t \*\)pc\) >> 16\)",
}


def asm_mnemonics(tree):
    src = csrc.strip_comments(csrc.read(tree, "src/core/asm.c"))
    m = re.search(r"janet_ops\s*\[\s*\]\s*=\s*\{", src)
    if not m:
        raise ExtractError("asm.c: janet_ops[] not found")
    i = src.index("{", m.start())
    body = src[i + 1:csrc.match_brace(src, i) - 1]
    out = {}
    for name, op in re.findall(r'\{\s*"(\w+)"\s*,\s*(JOP_\w+)\s*\}', body):
        out[op] = name
    if len(out) < 70:
        raise ExtractError("asm.c: janet_ops[] has only %d entries" % len(out))
    return out


def _expanded_run_vm(tree):
    raw = csrc.read(tree, "src/core/vm.c")
    # 1. the field macros must be exactly what the Lean model of the fields assumes
    for name, pat in FIELD_DEFS.items():
        rx = re.compile(r"^#define %s %s\s*$" % (name, pat), re.M)
        if len(rx.findall(raw)) != 1:
            raise ExtractError("vm.c: operand field macro %s is not defined as expected" % name)
        raw = rx.sub("#define %s __F%s__" % (name, name), raw)
    # 2. dispatch: keep the labels visible
    if not re.search(r"^#define VM_OP\(op\) label_##op :\s*$", raw, re.M) or not re.search(r"^#define vm_next\(\) goto \*op_lookup\[\*pc & 0xFF\]\s*$", raw, re.M):
        raise ExtractError("vm.c: computed-goto dispatch macros not recognised")
    m = re.search(r"uint8_t first_opcode = \*pc & \(\(fiber->flags & JANET_FIBER_BREAKPOINT\) \? (0x[0-9A-Fa-f]+) : (0x[0-9A-Fa-f]+)\);", raw)
    if not m:
        raise ExtractError("vm.c: first_opcode mask not recognised")
    masks = (int(m.group(1), 16), int(m.group(2), 16))
    raw = raw.replace("#define vm_next() goto *op_lookup[*pc & 0xFF]", "#define vm_next() __NEXT__")
    cmd = ["gcc", "-E", "-P", "-x", "c", "-DJANET_VERIF", "-I" + os.path.join(tree, "src/include"), "-I" + os.path.join(tree, "src/conf"),
           "-iquote", os.path.join(tree, "src/core"), "-"]
    r = subprocess.run(cmd, input=raw.encode(), stdout=subprocess.PIPE, stderr=subprocess.PIPE)
    if r.returncode:
        raise ExtractError("preprocess vm.c failed: " + r.stderr.decode(errors="replace")[-300:])
    exp = r.stdout.decode(errors="replace")
    body = csrc.func_body(exp, "run_vm")
    return body, masks


def _split_blocks(body):
    """[(label, text)] in source order; text runs to the next label"""
    ms = list(re.finditer(r"\blabel_(\w+)\s*:", body))
    # skip the &&label_ references inside the lookup table
    ms = [m for m in ms if body[max(0, m.start() - 2):m.start()] != "&&"]
    blocks = []
    for k, m in enumerate(ms):
        end = ms[k + 1].start() if k + 1 < len(ms) else len(body)
        blocks.append((m.group(1), body[m.end():end]))
    return blocks


def _lookup_table(body):
    m = re.search(r"static void \*op_lookup\[(\d+)\]\s*=\s*\{", body)
    if not m:
        raise ExtractError("vm.c: op_lookup table not found")
    size = int(m.group(1))
    i = body.index("{", m.start())
    inner = body[i + 1:csrc.match_brace(body, i) - 1]
    ents = [e.strip() for e in inner.split(",") if e.strip()]
    labs = []
    for e in ents:
        mm = re.match(r"^&&label_(\w+)$", e)
        if not mm:
            raise ExtractError("vm.c: op_lookup entry not recognised: %r" % e)
        labs.append(mm.group(1))
    return size, labs


FIELD_RX = re.compile(r"__F(A|B|C|D|E|CS|DS|ES)__")


def _analyse(label, text):
    """access facts of one handler block"""
    # local aliases:  int32_t cindex = (int32_t)__FE__;   int32_t eindex = __FB__;
    alias = {}
    for mm in re.finditer(r"\bint32_t\s+(\w+)\s*=\s*(?:\(int32_t\)\s*)?__F(\w+?)__\s*;", text):
        alias[mm.group(1)] = mm.group(2)

    def field_of(expr):
        expr = expr.strip()
        mm = re.fullmatch(r"(?:\(int32_t\)\s*)?__F(\w+?)__", expr)
        if mm:
            return mm.group(1)
        if expr in alias:
            return alias[expr]
        return None
    slots, consts, defs, envs, jumps = [], [], [], [], []
    unknown = []
    for mm in re.finditer(r"\bstack\[([^\]]*)\]", text):
        f = field_of(mm.group(1))
        if f is None:
            unknown.append("stack[%s]" % mm.group(1))
        elif f not in slots:
            slots.append(f)
    for kind, rx, lenname, out in (("constants", r"func->def->constants\[([^\]]*)\]", "constants_length", consts),
                                   ("defs", r"func->def->defs\[([^\]]*)\]", "defs_length", defs),
                                   ("envs", r"func->envs\[([^\]]*)\]", "environments_length", envs)):
        for mm in re.finditer(rx, text):
            e = mm.group(1).strip()
            f = field_of(e)
            if f is None:
                if kind == "envs" and e == "inherit":
                    continue  # JOP_CLOSURE: index comes from the funcdef's environments[], covered by function_image_wf
                unknown.append("%s[%s]" % (kind, e))
                continue
            before = text[:mm.start()]
            guarded = bool(re.search(r"if\s*\(\s*!\s*\(\s*(?:%s\s*<\s*func->def->%s|func->def->%s\s*>\s*%s)\s*\)\s*\)" % (re.escape(e), lenname, lenname, re.escape(e)), before))
            if (f, guarded) not in out:
                out.append((f, guarded))
    for mm in re.finditer(r"(?<![>.\w])pc\s*\+=\s*([^;]+);", text):
        f = field_of(mm.group(1))
        if f is None:
            unknown.append("pc += %s" % mm.group(1))
        elif f not in jumps:
            jumps.append(f)
    nxt = bool(re.search(r"(?<![>.\w])pc\+\+", text))
    # other writes to pc: function entry (pc = func->def->bytecode) and vm_restore (pc = frame->pc) are frame switches
    for mm in re.finditer(r"(?<![>.\w])pc\s*=\s*([^;=][^;]*);", text):
        rhs = mm.group(1).strip()
        if rhs not in ("func->def->bytecode", "janet_stack_frame(stack)->pc", "(((JanetStackFrame *)((stack) - 4)))->pc") and "->pc" not in rhs:
            unknown.append("pc = %s" % rhs)
    # fields used in any other way than the recognised ones are immediates (no dereference) - but a field inside any
    # other subscript is reported
    for mm in re.finditer(r"\[([^\]]*__F\w+?__[^\]]*)\]", text):
        inner = mm.group(1)
        pre = text[max(0, mm.start() - 40):mm.start()]
        if re.search(r"(stack|constants|defs|envs)$", pre.rstrip()):
            continue
        unknown.append("subscript [%s]" % inner)
    for name, fld in alias.items():
        for mm in re.finditer(r"\[([^\]]*\b%s\b[^\]]*)\]" % re.escape(name), text):
            pre = text[max(0, mm.start() - 40):mm.start()].rstrip()
            if re.search(r"(stack|constants|defs|envs)$", pre):
                continue
            # data[env->offset + vindex] guarded by env->length > vindex: modelled separately (env_untrusted_checked)
            if re.search(r"env->length\s*>\s*%s" % re.escape(name), text[:mm.start()]):
                continue
            unknown.append("subscript [%s]" % mm.group(1))
    returns = bool(re.search(r"\breturn\b", text))
    frame_switch = bool(re.search(r"\bpc\s*=\s*func->def->bytecode", text))
    return dict(slots=slots, consts=consts, defs=defs, envs=envs, jumps=jumps, next=nxt, returns=returns, entry=frame_switch, unknown=unknown)


def extract(tree):
    ops, types, jint = bytecode.extract(tree)
    body, masks = _expanded_run_vm(tree)
    size, labs = _lookup_table(body)
    if len(labs) > size:
        raise ExtractError("vm.c: op_lookup has more initialisers than its declared size")
    preamble_facts(body)
    blocks = _split_blocks(body)
    acc = {}
    pending = []
    for label, text in blocks:
        if label == "unknown_op":
            a = _analyse(label, text)
            if a["slots"] or a["consts"] or a["defs"] or a["envs"] or a["jumps"] or a["next"]:
                raise ExtractError("vm.c: the unknown-opcode handler touches operands")
            continue
        stripped = text.strip()
        pending.append(label)
        if stripped == "":
            continue   # falls through into the next handler (JOP_MAKE_TUPLE)
        # `vm_restore()` switches to the frame that is returned into: accesses after it belong to that frame's instruction
        cut = re.search(r"(?<![>.\w])pc\s*=\s*[^;]*->pc\s*;", text)
        pre, post = (text[:cut.start()], text[cut.end():]) if cut else (text, "")
        a = _analyse(label, pre)
        b = _analyse(label, post)
        if a["unknown"] or b["unknown"]:
            raise ExtractError("vm.c handler %s: unrecognised operand use %s" % (label, (a["unknown"] + b["unknown"])[:3]))
        if b["consts"] or b["defs"] or b["envs"] or b["jumps"]:
            raise ExtractError("vm.c handler %s: indexed access after vm_restore()" % label)
        a["resume_slots"] = b["slots"]
        a["resume_next"] = b["next"]
        a["returns"] = a["returns"] or b["returns"]
        a["pushes"] = bool(re.search(r"\bjanet_fiber_funcframe\s*\(", text))
        for l in pending:
            if l in acc:
                raise ExtractError("vm.c: duplicate handler %s" % l)
            acc[l] = a
        pending = []
    names = [n for n, v in ops]
    missing = [n for n in names if n not in acc]
    if missing:
        raise ExtractError("vm.c: no handler found for %s" % missing[:5])
    # dispatch table: entry i must be handler of opcode i for i < count, unknown_op above
    disp = []
    for i, l in enumerate(labs):
        disp.append(l)
    # verifier side
    bsrc = csrc.strip_comments(csrc.read(tree, "src/core/bytecode.c"))
    vb = csrc.func_body(bsrc, "janet_verify")
    m = re.search(r"if\s*\(\(instr & (0x[0-9A-Fa-f]+)\) >= JOP_INSTRUCTION_COUNT\)\s*\{\s*return 3;\s*\}\s*enum JanetInstructionType type = janet_instructions\[instr & (0x[0-9A-Fa-f]+)\];", vb)
    if not m:
        raise ExtractError("janet_verify: opcode range check not recognised")
    vmask = (int(m.group(1), 16), int(m.group(2), 16))
    m = re.search(r"uint32_t lastop = def->bytecode\[def->bytecode_length - 1\] & (0x[0-9A-Fa-f]+);\s*switch \(lastop\) \{\s*default:\s*return 9;((?:\s*case JOP_\w+:)+)\s*break;", vb)
    if not m:
        raise ExtractError("janet_verify: terminal instruction check not recognised")
    lastmask = int(m.group(1), 16)
    terminals = re.findall(r"case (JOP_\w+):", m.group(2))
    return dict(ops=ops, types=types, access=acc, lookup_size=size, lookup=disp, first_masks=masks, verify_masks=vmask,
                last_mask=lastmask, terminals=terminals, verify_body=vb)


def _fld(f):
    return ".f" + f


def preamble_facts(body):
    """how run_vm resumes a suspended frame before dispatching: `stack[A] = in` unless NO_USEVAL, `pc++` unless NO_SKIP"""
    m = re.search(r"if\s*\(\s*!\s*\(fiber->flags & JANET_FIBER_RESUME_NO_USEVAL\)\s*\)\s*stack\[__FA__\]\s*=\s*in\s*;\s*"
                  r"if\s*\(\s*!\s*\(fiber->flags & JANET_FIBER_RESUME_NO_SKIP\)\s*\)\s*pc\+\+\s*;", body)
    if not m:
        # the flags are macros and are expanded to numbers by the preprocessor; accept the numeric form
        m = re.search(r"if\s*\(\s*!\s*\(fiber->flags & 0x2000000\)\s*\)\s*stack\[__FA__\]\s*=\s*in\s*;\s*"
                      r"if\s*\(\s*!\s*\(fiber->flags & 0x4000000\)\s*\)\s*pc\+\+\s*;", body)
    if not m:
        raise ExtractError("vm.c: resume preamble (stack[A] = in; pc++) not recognised")
    return True


def render(tree):
    x = extract(tree)
    ln = bytecode.lean_name
    o = [csrc.lean_header("src/core/vm.c (run_vm handlers after macro expansion), src/core/bytecode.c (janet_verify)"),
         "import JanetModel.Gen.Bytecode\nimport JanetModel.Bytecode.VerifyDefs\n", "namespace JanetModel.Gen.VmAccess\nopen JanetModel.Gen.Bytecode JanetModel.Bytecode\n"]
    o.append("/-- operand fields each `VM_OP(JOP_x)` block dereferences -/")
    o.append("def Op.access : Op → Access")
    for name, val in x["ops"]:
        a = x["access"][name]
        o.append("  | .%s => { slots := [%s], consts := [%s], defs := [%s], envs := [%s], jumps := [%s], next := %s, returns := %s, entry := %s, pushes := %s, resumeSlots := [%s], resumeNext := %s }" % (
            ln(name), ", ".join(_fld(f) for f in a["slots"]),
            ", ".join("(%s, %s)" % (_fld(f), str(g).lower()) for f, g in a["consts"]),
            ", ".join("(%s, %s)" % (_fld(f), str(g).lower()) for f, g in a["defs"]),
            ", ".join("(%s, %s)" % (_fld(f), str(g).lower()) for f, g in a["envs"]),
            ", ".join(_fld(f) for f in a["jumps"]), str(a["next"]).lower(), str(a["returns"]).lower(), str(a["entry"]).lower(),
            str(a["pushes"]).lower(), ", ".join(_fld(f) for f in a["resume_slots"]), str(a["resume_next"]).lower()))
    o.append("")
    nm = {n: v for n, v in x["ops"]}
    lk = []
    for l in x["lookup"]:
        key = "JOP_" + l[4:] if l.startswith("JOP_") else l
        lk.append("none" if l == "unknown_op" else ("some %d" % nm[l] if l in nm else "some 999"))
    o.append("/-- `op_lookup[]`: declared size and initialisers (`none` = label_unknown_op) -/")
    o.append("abbrev lookupSize : Nat := %d" % x["lookup_size"])
    o.append("def lookup : List (Option Nat) := [" + ", ".join(lk) + "]\n")
    o.append("def accessOfNat (n : Nat) : Access := match Op.ofNat? n with | some op => Op.access op | none => {}")
    o.append("def itypeOfNat (n : Nat) : IType := match Op.ofNat? n with | some op => Op.itype op | none => .none_\n")
    o.append("/-- all tables and masks read off the current source -/")
    o.append("def tables : Tables := {\n  count := instructionCount, itype := itypeOfNat, access := accessOfNat, lookup := lookup,\n"
             "  verifyRangeMod := %d, verifyTypeMod := %d, verifyLastMod := %d, dispatchMod := %d, breakMod := %d,\n  terminals := [%s] }\n" % (
                 x["verify_masks"][0] + 1, x["verify_masks"][1] + 1, x["last_mask"] + 1, x["first_masks"][1] + 1, x["first_masks"][0] + 1,
                 ", ".join(str(nm[t]) for t in x["terminals"])))
    o.append("end JanetModel.Gen.VmAccess\n")
    return "\n".join(o)


# ------------------------------------------------------------------------------------------------ image checks
def image_checks(tree):
    """Which validations the current marsh.c / vm.c perform on images (True/False each).  The functions themselves must be
    recognisable (ExtractError otherwise); an individual check that is absent is reported as False, which makes the
    full well-formedness theorems over Gen fail to check."""
    src = csrc.strip_comments(csrc.read(tree, "src/core/marsh.c"))
    fib = csrc.func_body(src, "unmarshal_one_fiber")
    dfn = csrc.func_body(src, "unmarshal_one_def")
    one = csrc.func_body(src, "unmarshal_one")
    env = csrc.func_body(src, "unmarshal_one_env")
    vm = csrc.strip_comments(csrc.read(tree, "src/core/vm.c"))
    if "while (stack > 0)" not in fib or "case LB_FUNCTION" not in one:
        raise ExtractError("marsh.c: fiber frame loop / function case not recognised")

    def has(text, rx):
        return bool(re.search(rx, text, re.S))
    panic = r"\s*\)\s*\{\s*janet_panicf?\s*\("
    c = {}
    c["stackSetup"] = has(fib, r"if\s*\(\s*\(int32_t\)\s*\(frame \+ JANET_FRAME_SIZE\) > fiber_stackstart\s*\|\|\s*fiber_stackstart > fiber_stacktop\s*\|\|\s*fiber_stacktop > fiber_maxstack" + panic)
    c["frameSize"] = has(fib, r"int32_t expected_framesize = def->slotcount;\s*if\s*\(\s*expected_framesize != stacktop - stack" + panic)
    c["pcRange"] = has(fib, r"if\s*\(\s*pcdiff >= def->bytecode_length" + panic)
    c["prevAlign"] = has(fib, r"if\s*\(\s*\(int32_t\)\s*\(prevframe \+ JANET_FRAME_SIZE\) > stack" + panic)
    c["statusRange"] = has(fib, r"if\s*\(\s*status < 0 \|\| status > JANET_STATUS_ALIVE" + panic)
    c["frame0"] = has(fib, r"if\s*\(\s*frame == 0 && status != JANET_STATUS_DEAD" + panic)
    c["entrance"] = has(fib, r"if\s*\(\s*prevframe == 0 && !\(frameflags & JANET_STACKFRAME_ENTRANCE\)" + panic)
    c["callPc"] = has(fib, r"if\s*\(\s*stack != frame && \(def->bytecode\[pcdiff\] & 0x7F\) != JOP_CALL" + panic)
    c["resumeOperand"] = has(fib, r"!\(fiber_flags & JANET_FIBER_RESUME_NO_USEVAL\)\s*&&\s*\(int32_t\)\s*\(\(\*top->pc >> 8\) & 0xFF\) >= topdef->slotcount" + panic) and \
        has(fib, r"!\(fiber_flags & JANET_FIBER_RESUME_NO_SKIP\)\s*&&\s*toppc \+ 1 >= topdef->bytecode_length" + panic)
    c["fnEnvCount"] = has(one, r"if\s*\(\s*def->environments_length != len" + panic)
    clo = re.search(r"VM_OP\(JOP_CLOSURE\)(.*?)(?=VM_OP\()", vm, re.S)
    if not clo:
        raise ExtractError("vm.c: JOP_CLOSURE handler not found")
    vm_negative_ok = has(clo.group(1), r"if\s*\(\s*inherit < 0\s*\|\|\s*inherit >= func->def->environments_length\s*\)")
    c["defEnvIndex"] = has(dfn, r"if\s*\(\s*inherit < -1" + panic) or vm_negative_ok
    c["envNegOffset"] = has(env, r"env->offset = -offset;")
    up = re.findall(r"VM_OP\(JOP_(?:LOAD|SET)_UPVALUE\)(.*?)(?=VM_OP\()", vm, re.S)
    if len(up) != 2:
        raise ExtractError("vm.c: upvalue handlers not found")
    c["envValidBeforeDeref"] = all(re.search(r"vm_assert\(janet_env_valid\(env\)[^;]*;\s*if \(env->offset > 0\)", u, re.S) is not None for u in up)
    return c


def render_image_checks(tree):
    c = image_checks(tree)
    o = [csrc.lean_header("src/core/marsh.c (unmarshal_one_fiber / _def / _env, function case), src/core/vm.c (upvalue handlers)"),
         "import JanetModel.Unmarsh.Image\n", "namespace JanetModel.Gen.ImageChecks\nopen JanetModel.Unmarsh\n",
         "/-- which image validations the current source performs -/", "def checks : Checks := {"]
    o.append(",\n".join("  %s := %s" % (k, str(v).lower()) for k, v in c.items()))
    o.append("}\n\nend JanetModel.Gen.ImageChecks\n")
    return "\n".join(o)


# ------------------------------------------------------------------------------------------------ abstract types
def abstract_types_with_unmarshal(tree):
    """[(type name, unmarshal function, needs_unsafe_flag)] for every `const JanetAbstractType x = { "name", gc, gcmark, get, put,
    marshal, unmarshal, ...}` initialiser in src/core with a non-NULL unmarshal hook.  The base corpus of checks/C10.py must
    contain an image of each of them."""
    out = []
    core = os.path.join(tree, "src/core")
    for f in sorted(os.listdir(core)):
        if not f.endswith(".c"):
            continue
        src = csrc.strip_comments(csrc.read(tree, "src/core/" + f))
        for m in re.finditer(r"const\s+JanetAbstractType\s+(\w+)\s*=\s*\{", src):
            i = src.index("{", m.start())
            body = src[i + 1:csrc.match_brace(src, i) - 1]
            fields = [x.strip() for x in body.split(",")]
            if len(fields) < 7 or not fields[0].startswith('"'):
                if re.search(r"\.unmarshal\s*=", body):
                    raise ExtractError("%s: designated initialiser of %s not supported by the extractor" % (f, m.group(1)))
                continue
            if fields[6] in ("NULL", "0", ""):
                continue
            name = fields[0].strip('"')
            try:
                fb = csrc.func_body(src, fields[6])
            except ExtractError:
                fb = ""
            unsafe = bool(re.search(r"JANET_MARSHAL_UNSAFE", fb))
            out.append((name, fields[6], unsafe))
    if not out:
        raise ExtractError("no abstract type with an unmarshal hook found")
    return out
