"""C19 translator: whole-program call graph of the bootstrapped amalgamation -> Gen/Depth.lean.

Route (DESIGN 1.4, IR level): `clang-14 -S -emit-llvm -O0` on <build>/boot/janet.c (1.2 s).  Only `define`, `call` and
address-taken occurrences of `@name` in the textual IR are used.

  nodes      functions that lie on a call cycle (non-trivial SCC or self loop), after cutting the edges listed below
  edges      direct calls  +  indirect calls over-approximated by "every address-taken function with the same LLVM
             function type as the call site"
  cut        edges into the non-returning error family (janet_panic*, janet_signalv, janet_exit ...): a frame that
             panics does not return into the recursion, the longjmp unwinds the whole chain (trusted base)
  exempt     indirect edges that are infeasible, each with a written reason (EXEMPT_INDIRECT below; trusted base,
             fixed on the clean tree)
  guard      functions whose SOURCE BODY (comment-stripped text of the amalgamation) contains one of the guard idioms
             (GUARD_IDIOMS below); the matched idiom and the limit are emitted too
  rank       UNTRUSTED certificate: a Nat per node such that every edge between two non-guard nodes strictly decreases
             it.  Computed here by longest-path layering of the non-guard subgraph; where that subgraph has a cycle no
             such rank exists - the offending functions get a best-effort rank and Lean's `rankOK` evaluates to false.

Lean (Depth/Model.lean) re-checks the certificate with `decide`; nothing computed here about cycles is trusted.
"""
import os
import re
import subprocess

from .csrc import ExtractError, strip_comments, match_brace, lean_header

# ---------------------------------------------------------------------------------------------- trusted lists

# non-returning error family: edges INTO these are cut (they longjmp / exit; they never return into the caller)
NORETURN = [
    "janet_panic", "janet_panicv", "janet_panicf", "janet_panics", "janet_panic_type", "janet_panic_abstract",
    "janet_signalv", "janet_exit", "janet_panic_errno", "janet_sandbox_assert", "janet_arity", "janet_fixarity",
]
# of those, only these are accepted when they are really declared noreturn in the IR or end in a noreturn call:
# (checked in extract(): each cut function that exists must have no `ret` reachable other than via unreachable,
#  approximated by: its IR body contains `unreachable` or it has the noreturn attribute)
NORETURN_SOFT = {"janet_sandbox_assert", "janet_arity", "janet_fixarity"}  # return normally on the good path: NOT cut

# guard idioms: (tag, regex on the comment-stripped source body of the function, limit macro)
GUARD_IDIOMS = [
    ("vm-stackn", r"janet_vm\s*\.\s*stackn\s*>=\s*JANET_RECURSION_GUARD", "JANET_RECURSION_GUARD"),
    ("marsh-stackcheck", r"\bMARSH_STACKCHECK\b", "JANET_RECURSION_GUARD"),
    ("gc-depth", r"\bif\s*\(\s*depth\s*\)\s*\{\s*depth\s*--", "JANET_RECURSION_GUARD"),
    ("compile-recursion-guard", r"c\s*->\s*recursion_guard\s*<=\s*0", "JANET_RECURSION_GUARD"),
    ("compile-recursion-guard", r"recursion_guard\s*--[^;]*;[^}]*recursion_guard\s*<=?\s*0", "JANET_RECURSION_GUARD"),
    ("peg-down1", r"\bdown1\s*\(\s*s\s*\)", "JANET_RECURSION_GUARD"),
    ("peg-builder-depth", r"b\s*->\s*depth\s*--\s*==\s*0", "JANET_RECURSION_GUARD"),
    ("quasiquote-depth", r"\bdepth\s*==\s*0\b[^;{]*\{?\s*janetc_cerror", "JANET_RECURSION_GUARD"),
    ("pp-depth", r"\bdepth\s*==\s*0\b", "JANET_RECURSION_GUARD"),
    ("pp-depth", r"\bdepth\s*<\s*0\b", "JANET_RECURSION_GUARD"),
    ("depth-param", r"\bdepth\s*(?:>|>=)\s*JANET_RECURSION_GUARD", "JANET_RECURSION_GUARD"),
    ("depth-param", r"--\s*depth\s*(?:<=|==|<)\s*0|\bdepth\s*--\s*(?:<=|==|<)\s*0|\bdepth\s*<=\s*0", "JANET_RECURSION_GUARD"),
    ("ffi-recur", r"\brecur\s*==\s*0\b", "JANET_FFI_MAX_RECUR"),
]
# the VM re-entry counter is global state (janet_vm.stackn), so a function that directly calls a helper whose body
# contains that check is guarded as well (janet_continue / janet_continue_signal -> janet_check_can_resume)
HELPER_IDIOM = GUARD_IDIOMS[0]

# indirect-call edges judged infeasible: (caller regex, callee regex, reason, checker name or None).
# Fixed on the clean tree; trusted base.  A checker re-validates the written reason against the current source.
EXEMPT_INDIRECT = [
    (r"janet_method_invoke|janet_text_substitution", r"cfun_\w*slice|cfun_\w*replace\w*|janet_core_slice",
     "C-function dispatch: a slice/replace C function re-enters method dispatch without janet_call only through janet_length "
     "on an abstract value without a length callback (no core abstract type maps :length to a slice function) or through the "
     "substitution argument of string/peg replace, which is called with the matched text only so that the re-entered replace "
     "fails its arity check: depth <= 3 (read, not mechanically validated)", None),
    (r"janet_description_b|janet_to_string_b", r".*", "abstract-type tostring callbacks only format scalars: their janet_formatb "
     "format strings contain no value conversion (%v %q %p %j %m %n %t ...), so they never re-enter the printer on a janet value",
     "check_tostring_scalar"),
    ("janet_async_end", r".*", "janet_async_end invokes fiber->ev_callback only with the constant JANET_ASYNC_EVENT_DEINIT; in every "
     "callback the DEINIT/default branch releases state and returns without calling janet_async_end again", "check_deinit_branch"),
]

# functions on a cycle whose recursion depth is bounded by a written argument instead of a guard idiom:
#   name -> (reason, checker name).  They are emitted with the mark `bounded` (treated like a guard by rankOK, limit
# given by the argument) and listed in the evidence; the checker re-validates the argument on the current source and the
# exemption is dropped (-> unguarded cycle) when it no longer applies.
EXEMPT_BOUNDED = {
    "janet_continue_no_check": ("every caller (janet_continue, janet_continue_signal, run_vm's JOP_RESUME/JOP_CANCEL blocks) calls "
                                "janet_check_can_resume (stackn >= JANET_RECURSION_GUARD) immediately before it", "check_no_check_callers"),
    "doarg_1": ("self call only for argtype == JANET_OAT_TYPE and passes JANET_OAT_SIMPLETYPE, for which a tuple is an error: depth <= 2",
                "check_doarg"),
    "dohead_destructure": ("self call only when opts.flags has JANET_FOPTS_DROP, and the callee gets subopts with DROP cleared: depth <= 2",
                           "check_dohead"),
    "janet_asm_addenv": ("walks a->parent: chain length = nesting depth of janet_asm1, which is guarded",
                         "check_addenv"),
    "janet_mark_funcdef": ("recursion over def->defs nesting; funcdefs with sub-defs are only built by the compiler (janetc_value guard), "
                           "unmarshal_one_def (MARSH_STACKCHECK) and janet_asm1 (depth guard): nesting <= JANET_RECURSION_GUARD", "check_defs_creators"),
    "janet_disasm_defs": ("recursion over def->defs nesting, bounded at creation like janet_mark_funcdef", "check_defs_creators"),
    # FFI (ffi.c is the unsafe-by-design foreign interface and not one of the consumers the property names): the type
    # walkers below recurse over the nesting of a type description / of struct types without any limit.  They are
    # OBSERVATIONS of the check (evidence: observations, notes/C19.md), not guarded and not proved bounded.
    "decode_ffi_type": ("OUT OF SCOPE (ffi): unguarded recursion over nested type tuples; reported as observation", None),
    "sysv64_classify_ext": ("OUT OF SCOPE (ffi): unguarded recursion over nested struct types; reported as observation", None),
}


def check_deinit_branch(g, bodies, ir):
    """every address-taken callback reachable from janet_async_end: the code run for DEINIT must not call janet_async_end"""
    for (a, b), k in g.raw_edges.items():
        if a != "janet_async_end" or k != "indirect":
            continue
        body = bodies.get(b) or ""
        if "janet_async_end" not in body:
            continue
        m = re.search(r"switch\s*\(\s*event\s*\)\s*\{", body)
        if not m:
            return "%s calls janet_async_end outside a switch (event)" % b
        sw = body[m.end() - 1:match_brace(body, m.end() - 1)]
        # split into label groups
        parts = re.split(r"(\bcase\s+\w+\s*:|\bdefault\s*:)", sw)
        labels, segs = [], []
        cur = []
        for p in parts[1:]:
            if re.match(r"\bcase\b|\bdefault\b", p):
                cur.append(p)
            else:
                if p.strip():
                    segs.append((cur, p))
                    cur = []
        has_deinit = any("JANET_ASYNC_EVENT_DEINIT" in l for ls, _ in segs for l in ls)
        for i, (ls, code) in enumerate(segs):
            hit = any("JANET_ASYNC_EVENT_DEINIT" in l for l in ls) or (not has_deinit and any("default" in l for l in ls))
            if not hit:
                continue
            # code executed from this label until the first break/return (fall-through into later segments otherwise)
            j = i
            while j < len(segs):
                c = segs[j][1]
                stop = re.search(r"\bbreak\s*;|\breturn\b", c)
                run = c[:stop.start()] if stop else c
                if "janet_async_end" in run:
                    return "%s reaches janet_async_end on JANET_ASYNC_EVENT_DEINIT" % b
                if stop:
                    break
                j += 1
    return None


def check_tostring_scalar(g, bodies, ir):
    for (a, b), k in g.raw_edges.items():
        if a not in ("janet_description_b", "janet_to_string_b") or k != "indirect":
            continue
        body = bodies.get(b) or ""
        for m in re.finditer(r"janet_formatb\w*\s*\(\s*\w+\s*,\s*\"((?:[^\"\\\\]|\\\\.)*)\"", body):
            for conv in re.findall(r"%[-+ #0-9.]*(?:ll|l|h)?([a-zA-Z])", m.group(1)):
                if conv not in "diuxXsfgGeEc":
                    return "%s formats with %%%s" % (b, conv)
        if re.search(r"janet_(description|to_string|pretty|formatbv|jdn)\w*\s*\(", body):
            return "%s calls the value printer" % b
    return None


def check_no_check_callers(g, bodies, ir):
    for nm, f in ir.funcs.items():
        if "janet_continue_no_check" not in f["calls"]:
            continue
        body = bodies.get(nm) or ""
        for m in re.finditer(r"\bjanet_continue_no_check\s*\(", body):
            start = max(body.rfind("VM_OP(", 0, m.start()), 0)
            if "janet_check_can_resume(" not in body[start:m.start()]:
                return "%s calls janet_continue_no_check without janet_check_can_resume before it" % nm
    hb = bodies.get("janet_check_can_resume") or ""
    if not re.search(HELPER_IDIOM[1], hb):
        return "janet_check_can_resume no longer tests stackn"
    return None


def check_doarg(g, bodies, ir):
    b = bodies.get("doarg_1") or ""
    calls = re.findall(r"doarg_1\s*\(([^;]*?)\)\s*;", b)
    if len(calls) != 1 or "JANET_OAT_SIMPLETYPE" not in calls[0]:
        return "doarg_1: recursive call no longer passes JANET_OAT_SIMPLETYPE"
    if not re.search(r"if\s*\(\s*argtype\s*==\s*JANET_OAT_TYPE\s*\)", b):
        return "doarg_1: recursion no longer restricted to JANET_OAT_TYPE"
    return None


def check_dohead(g, bodies, ir):
    b = bodies.get("dohead_destructure") or ""
    if not re.search(r"subopts\.flags\s*=\s*opts\.flags\s*&\s*~\s*\(\s*JANET_FOPTS_TAIL\s*\|\s*JANET_FOPTS_DROP\s*\)", b):
        return "dohead_destructure: subopts no longer clears JANET_FOPTS_DROP"
    if not re.search(r"if\s*\(\s*has_drop\s*&&", b) or not re.search(r"has_drop\s*=\s*opts\.flags\s*&\s*JANET_FOPTS_DROP", b):
        return "dohead_destructure: recursion no longer conditional on JANET_FOPTS_DROP"
    calls = re.findall(r"dohead_destructure\s*\(([^;]*?)\)\s*;", b)
    if len(calls) != 1 or "subopts" not in calls[0]:
        return "dohead_destructure: recursive call does not pass subopts"
    return None


def check_addenv(g, bodies, ir):
    b = bodies.get("janet_asm_addenv") or ""
    calls = re.findall(r"janet_asm_addenv\s*\(([^;]*?)\)\s*;", b)
    if len(calls) != 1 or not re.match(r"\s*a\s*->\s*parent\s*,", calls[0]):
        return "janet_asm_addenv: recursive call is not on a->parent"
    if "janet_asm1" not in g.guard:
        return "janet_asm_addenv: janet_asm1 (which builds the parent chain) has no depth guard"
    return None


def check_defs_creators(g, bodies, ir):
    need = {"janet_asm1": "janet_asm1", "unmarshal_one_def": "unmarshal_one_def", "janetc_value": "janetc_value"}
    for fn in need:
        if fn not in g.guard:
            return "funcdef nesting is not bounded at creation: %s has no depth guard" % fn
    creators = sorted(nm for nm, b in bodies.items() if b and re.search(r"->\s*defs\s*=[^=]", b))
    expected = {"janet_asm1", "unmarshal_one_def", "janetc_pop_funcdef", "janet_funcdef_alloc"}
    extra = [c for c in creators if c not in expected]
    if extra:
        return "unexpected function(s) assign def->defs: %s" % ", ".join(extra)
    return None


CHECKERS = {"check_no_check_callers": check_no_check_callers, "check_tostring_scalar": check_tostring_scalar, "check_deinit_branch": check_deinit_branch, "check_doarg": check_doarg, "check_dohead": check_dohead,
            "check_addenv": check_addenv, "check_defs_creators": check_defs_creators}


# ---------------------------------------------------------------------------------------------- IR

def emit_ir(build):
    """.ll of the amalgamation of the tree under test (cached per tree hash)."""
    build.boot()
    src = os.path.join(build.dir, "boot", "janet.c")
    out = os.path.join(build.dir, "boot", "janet.O0.ll")
    if os.path.exists(out) and os.path.getmtime(out) >= os.path.getmtime(src):
        return out
    cmd = ["clang-14", "-S", "-emit-llvm", "-O0", "-w", "-I" + os.path.join(build.tree, "src/include"),
           "-I" + os.path.join(build.tree, "src/conf"), src, "-o", out + ".tmp%d" % os.getpid()]
    r = subprocess.run(cmd, stdout=subprocess.PIPE, stderr=subprocess.STDOUT)
    if r.returncode:
        raise ExtractError("clang -emit-llvm failed: " + r.stdout.decode(errors="replace")[-500:])
    os.replace(out + ".tmp%d" % os.getpid(), out)
    return out


_DEFINE = re.compile(r"^define\s+(.*?)@([\w.$]+)\((.*)\)\s*(?:[^{]*)\{\s*$")
_CALL = re.compile(r"\b(?:tail\s+|musttail\s+|notail\s+)?call\s+(.*)$")


def _split_top(s):
    """split a comma separated list at nesting depth 0"""
    out, depth, cur = [], 0, []
    for ch in s:
        if ch in "([{<":
            depth += 1
        elif ch in ")]}>":
            depth -= 1
        if ch == "," and depth == 0:
            out.append("".join(cur).strip())
            cur = []
        else:
            cur.append(ch)
    if "".join(cur).strip():
        out.append("".join(cur).strip())
    return out


_ATTR_WORDS = {"noundef", "nonnull", "signext", "zeroext", "returned", "nocapture", "readonly", "readnone", "writeonly",
               "noalias", "immarg", "dso_local", "internal", "hidden", "nest", "inreg", "nofree", "swiftself"}


def _canon_type(t):
    """first type token sequence of an argument / return spec, attributes and value names removed"""
    # drop parameter attributes with parenthesised payloads first:  sret(%T) byval(%T) align 8 dereferenceable(8)
    t = re.sub(r"\b(sret|byval|byref|inalloca|preallocated|elementtype)\(([^()]|\([^()]*\))*\)", lambda m: m.group(1), t)
    t = re.sub(r"\b(dereferenceable|dereferenceable_or_null|align)\s*(\(\d+\)|\d+)", "", t)
    toks = []
    for w in t.split():
        if w in _ATTR_WORDS:
            continue
        toks.append(w)
    return " ".join(toks)


def _arg_type(a):
    """type of one actual/formal argument: strip the trailing value (%n, @g, constant)"""
    a = _canon_type(a)
    if a == "...":
        return a
    # a type never contains a space outside of braces/brackets/parens except the markers sret/byval kept above
    depth, cut = 0, None
    for i, ch in enumerate(a):
        if ch in "([{<":
            depth += 1
        elif ch in ")]}>":
            depth -= 1
        elif ch == " " and depth == 0:
            rest = a[i + 1:]
            if rest.startswith(("sret", "byval")):
                continue
            cut = i
            break
    ty = a if cut is None else a[:cut]
    marks = " ".join(w for w in a.split() if w in ("sret", "byval"))
    return (ty + (" " + marks if marks else "")).strip()


def _paren_args(s, i):
    """s[i]=='(' -> (inside text, index after ')')"""
    depth = 0
    j = i
    while j < len(s):
        if s[j] == "(":
            depth += 1
        elif s[j] == ")":
            depth -= 1
            if depth == 0:
                return s[i + 1:j], j + 1
        j += 1
    raise ExtractError("unbalanced call: " + s[:120])


class IR:
    def __init__(self):
        self.funcs = {}        # name -> dict(sig=, calls=[names], icalls=[sig], noreturn=bool, lines=int)
        self.order = []
        self.addr_taken = set()
        self.declared = set()


def parse_ir(path):
    ir = IR()
    cur = None
    noret_attrs = set()
    with open(path) as f:
        text = f.read()
    for m in re.finditer(r"^attributes (#\d+) = \{([^}]*)\}", text, re.M):
        if re.search(r"\bnoreturn\b", m.group(2)):
            noret_attrs.add(m.group(1))
    defined = set(re.findall(r"^define\s[^@]*@([\w.$]+)\(", text, re.M))
    for line in text.split("\n"):
        if cur is None:
            if line.startswith("define "):
                m = _DEFINE.match(line)
                if not m:
                    raise ExtractError("unparsed define line: " + line[:160])
                ret = _canon_type(m.group(1))
                ret = " ".join(w for w in ret.split() if w not in ("define", "dso_local", "internal", "hidden", "weak", "linkonce_odr"))
                args = [_arg_type(a) for a in _split_top(m.group(3))]
                attr = re.search(r"\)\s*(.*)\{\s*$", line)
                cur = dict(name=m.group(2), sig=ret + " (" + ", ".join(args) + ")", calls=[], icalls=[], n=0,
                           noreturn=any(a in noret_attrs for a in re.findall(r"#\d+", line[m.end(3):])), unreachable=False)
                ir.funcs[cur["name"]] = cur
                ir.order.append(cur["name"])
            else:
                # globals / initialisers: every @name of a defined function here is address-taken
                if line.startswith("@") or line.startswith("declare"):
                    if line.startswith("declare"):
                        mm = re.search(r"@([\w.$]+)\(", line)
                        if mm:
                            ir.declared.add(mm.group(1))
                        continue
                    for nm in re.findall(r"@([\w.$]+)", line.split("=", 1)[1] if "=" in line else line):
                        if nm in defined:
                            ir.addr_taken.add(nm)
            continue
        if line == "}":
            cur = None
            continue
        cur["n"] += 1
        s = line.strip()
        if s == "unreachable":
            cur["unreachable"] = True
        m = _CALL.search(s) if " call " in " " + s else None
        callee_span = None
        if m:
            rest = m.group(1)
            # find the callee: first '@name(' or '%n(' at depth 0 after the return type (which may itself contain parens
            # for function-pointer return types; at -O0 for C this is rare: handle by scanning for the LAST top-level
            # token before an argument list that closes the statement)
            k = _find_callee(rest)
            if k is None:
                raise ExtractError("unparsed call: " + s[:200])
            cstart, cend, callee = k
            argtxt, after = _paren_args(rest, cend)
            ret = _canon_type(rest[:cstart])
            # explicit function type in the call (varargs):  call i32 (i8*, ...) @printf(...)
            ret = re.sub(r"\s*\([^()]*\.\.\.\)\s*$", "", ret).strip()
            if callee.startswith("@"):
                nm = callee[1:]
                if nm.startswith("llvm."):
                    pass
                else:
                    cur["calls"].append(nm)
            elif callee.startswith("%"):
                args = [_arg_type(a) for a in _split_top(argtxt)]
                cur["icalls"].append(ret + " (" + ", ".join(args) + ")")
            elif callee == "asm":
                pass
            else:
                raise ExtractError("unknown callee form: " + s[:200])
            callee_span = (m.start(1) + cstart, m.start(1) + cend)
        # address-taken: any @fn in this instruction that is not the direct callee
        for mm in re.finditer(r"@([\w.$]+)", s):
            nm = mm.group(1)
            if nm in defined:
                if callee_span and callee_span[0] <= mm.start() < callee_span[1]:
                    continue
                ir.addr_taken.add(nm)
    return ir


def _find_callee(rest):
    """in the text after `call `, locate callee token immediately followed by '(' at top level.
    returns (start, index_of_open_paren, token)"""
    depth = 0
    i = 0
    n = len(rest)
    while i < n:
        ch = rest[i]
        if ch in "([{<":
            depth += 1
        elif ch in ")]}>":
            depth -= 1
        elif depth == 0 and ch in "@%":
            m = re.match(r"[@%][\w.$]+", rest[i:])
            if m:
                j = i + m.end()
                if j < n and rest[j] == "(":
                    tok = m.group(0)
                    # %struct.X( cannot happen; a type token %struct.Foo is followed by space or '*'
                    return i, j, tok
                i = j
                continue
        elif depth == 0 and rest.startswith("asm ", i) and (i == 0 or rest[i - 1] == " "):
            j = rest.find("(", i)
            # inline asm:  call void asm sideeffect "...", "..."()
            return i, rest.rfind("(", 0, len(rest) - 1) if j < 0 else _asm_paren(rest, i), "asm"
        elif depth == 0 and rest.startswith("bitcast (", i):
            # call through a constant bitcast of a function: treat as direct call to the inner function
            m = re.match(r"bitcast \(.*?@([\w.$]+) to [^)]*\)+", rest[i:])
            if m:
                j = i + m.end()
                if j < n and rest[j] == "(":
                    return i, j, "@" + m.group(1)
        i += 1
    return None


def _asm_paren(rest, i):
    # skip the two string literals of an inline asm, return index of the '(' of the argument list
    k = i
    for _ in range(2):
        a = rest.index('"', k)
        b = a + 1
        while rest[b] != '"':
            b += 2 if rest[b] == "\\" else 1
        k = b + 1
    return rest.index("(", k)


# ---------------------------------------------------------------------------------------------- graph

def sccs(nodes, succ):
    """Tarjan, iterative.  returns list of components (lists)"""
    index, low, onst, st, out = {}, {}, set(), [], []
    cnt = [0]
    for root in nodes:
        if root in index:
            continue
        work = [(root, iter(succ.get(root, ())))]
        index[root] = low[root] = cnt[0]
        cnt[0] += 1
        st.append(root)
        onst.add(root)
        while work:
            v, it = work[-1]
            adv = False
            for w in it:
                if w not in index:
                    index[w] = low[w] = cnt[0]
                    cnt[0] += 1
                    st.append(w)
                    onst.add(w)
                    work.append((w, iter(succ.get(w, ()))))
                    adv = True
                    break
                elif w in onst:
                    low[v] = min(low[v], index[w])
            if adv:
                continue
            work.pop()
            if work:
                u = work[-1][0]
                low[u] = min(low[u], low[v])
            if low[v] == index[v]:
                comp = []
                while True:
                    w = st.pop()
                    onst.discard(w)
                    comp.append(w)
                    if w == v:
                        break
                out.append(comp)
    return out


def directives_only(build):
    """the amalgamation with #if/#include resolved for this configuration but macros NOT expanded
    (`gcc -E -fdirectives-only`, 0.05 s), comments stripped: guard idioms are searched in this text."""
    src = os.path.join(build.dir, "boot", "janet.c")
    cmd = ["gcc", "-E", "-fdirectives-only", "-P", "-I" + os.path.join(build.tree, "src/include"),
           "-I" + os.path.join(build.tree, "src/conf"), src]
    r = subprocess.run(cmd, stdout=subprocess.PIPE, stderr=subprocess.PIPE)
    if r.returncode:
        raise ExtractError("gcc -E -fdirectives-only failed: " + r.stderr.decode(errors="replace")[-300:])
    return strip_comments(r.stdout.decode(errors="replace"))


_DEF_HEAD = re.compile(r"^(?:[A-Za-z_][\w \t\*]*?[ \t\*])?(\w+)[ \t]*\(", re.M)
_COREFN = re.compile(r"^[ \t]*JANET_(?:CORE_)?FN\w*[ \t]*\([ \t\n]*(\w+)[ \t]*,", re.M)
_KEYWORDS = {"if", "while", "for", "switch", "return", "sizeof", "else", "do"}


def _after_parens(src, i):
    """src[i]=='(' -> index after the matching ')' (string literals skipped)"""
    depth, n = 0, len(src)
    while i < n:
        c = src[i]
        if c == '"' or c == "'":
            j = i + 1
            while j < n and src[j] != c:
                j += 2 if src[j] == "\\" else 1
            i = j + 1
            continue
        if c == "(":
            depth += 1
        elif c == ")":
            depth -= 1
            if depth == 0:
                return i + 1
        i += 1
    return n


def function_sources(src, names):
    """body text of each function of `names` in the (directives-only preprocessed, comment-stripped) amalgamation.
    One pass indexes every definition head at line start (`type name(...) {` and `JANET_CORE_FN(name, ...) {`)."""
    want = set(names)
    out = {nm: None for nm in names}
    cands = []
    for m in _DEF_HEAD.finditer(src):
        if m.group(1) in want:
            cands.append((m.group(1), m.end() - 1))
    for m in _COREFN.finditer(src):
        if m.group(1) in want:
            cands.append((m.group(1), src.index("(", m.start())))
    for nm, i in cands:
        if out[nm] is not None or nm in _KEYWORDS:
            continue
        j = _after_parens(src, i)
        while j < len(src) and src[j] in " \t\r\n":
            j += 1
        if j < len(src) and src[j] == "{":
            out[nm] = src[j:match_brace(src, j)]
    return out


def macro_defs(src):
    out = {}
    for m in re.finditer(r"^[ \t]*#[ \t]*define[ \t]+(JANET_RECURSION_GUARD|JANET_MAX_PROTO_DEPTH|JANET_MAX_MACRO_EXPAND|JANET_FFI_MAX_RECUR)[ \t]+(\d+)", src, re.M):
        out.setdefault(m.group(1), int(m.group(2)))
    return out


class Graph:
    pass


def extract(build, exempt=None, deny=(), accept=None):
    """deny: functions whose source-idiom match is NOT accepted as a guard (tools/gen/cgguard.py found no control-flow
    certificate for it in the IR); they can still be covered by a written exemption.
    accept: {function: idiom tag} recognised as guards from the IR alone (cgguard.extract().ir_proposed).
    -> Graph with .nodes (sorted names on cycles), .edges {(a,b): kind}, .guard {name: (tag, limit)}, .rank {name:int},
    .bad (list of unguarded cycles as lists of names), plus bookkeeping for notes/evidence."""
    exempt = EXEMPT_INDIRECT if exempt is None else exempt
    irp = emit_ir(build)
    ir = parse_ir(irp)
    if len(ir.funcs) < 1000:
        raise ExtractError("only %d functions in the IR (expected ~1500)" % len(ir.funcs))
    g = Graph()
    g.ir = ir
    g.nfuncs = len(ir.funcs)
    g.ncalls = sum(len(f["calls"]) + len(f["icalls"]) for f in ir.funcs.values())
    # cut set: must exist and must be non-returning in the IR
    cut = set()
    for nm in NORETURN:
        if nm in NORETURN_SOFT:
            continue
        f = ir.funcs.get(nm)
        if f is None:
            continue
        if not (f["noreturn"] or f["unreachable"]):
            raise ExtractError("%s is on the cut list but is not non-returning in the IR" % nm)
        cut.add(nm)
    if "janet_panicv" not in cut or "janet_signalv" not in cut:
        raise ExtractError("janet_panicv / janet_signalv not found")
    g.cut = sorted(cut)
    by_sig = {}
    for nm in ir.addr_taken:
        by_sig.setdefault(ir.funcs[nm]["sig"], []).append(nm)
    edges = {}
    g.exempted = []
    g.raw_edges = {}
    for a, f in ir.funcs.items():
        for sig in f["icalls"]:
            for b in by_sig.get(sig, ()):
                g.raw_edges[(a, b)] = "indirect"
    for a, f in ir.funcs.items():
        for b in f["calls"]:
            if b in ir.funcs and b not in cut:
                edges.setdefault((a, b), "direct")
        for sig in f["icalls"]:
            for b in by_sig.get(sig, ()):
                if b in cut:
                    continue
                why = None
                for ra, rb, reason, _chk in exempt:
                    if re.fullmatch(ra, a) and re.fullmatch(rb, b):
                        why = reason
                        break
                if why:
                    g.exempted.append((a, b, why))
                    continue
                edges.setdefault((a, b), "indirect")
    succ = {}
    for (a, b) in edges:
        succ.setdefault(a, []).append(b)
    for a in succ:
        succ[a].sort()
    comps = sccs(sorted(ir.funcs), succ)
    cyc = set()
    comp_of = {}
    g.comps = []
    for c in comps:
        if len(c) > 1 or (c[0], c[0]) in edges:
            c = sorted(c)
            g.comps.append(c)
            for n in c:
                cyc.add(n)
                comp_of[n] = len(g.comps) - 1
    g.comps.sort()
    comp_of = {n: i for i, c in enumerate(g.comps) for n in c}
    g.comp_of = comp_of
    g.nodes = sorted(cyc)
    g.all_edges = edges            # every call edge of the module (cut and exempted edges removed), for cgstack's reachability certificate
    g.edges = {(a, b): k for (a, b), k in edges.items() if a in cyc and b in cyc and comp_of[a] == comp_of[b]}
    # guards from source
    src = directives_only(build)
    bodies = function_sources(src, sorted(ir.funcs))
    helpers = sorted(nm for nm, b in bodies.items() if b and re.search(HELPER_IDIOM[1], b))
    g.helpers = helpers
    g.limits = macro_defs(src)
    if "JANET_RECURSION_GUARD" not in g.limits:
        raise ExtractError("JANET_RECURSION_GUARD not found")
    g.guard = {}
    g.nobody = []
    g.denied = []
    g.ir_only = []
    for nm in g.nodes:
        body = bodies.get(nm)
        if body is None:
            g.nobody.append(nm)
            continue
        if nm in deny:
            g.denied.append(nm)
            continue
        if accept and nm in accept:
            g.guard[nm] = (accept[nm], g.limits["JANET_RECURSION_GUARD"])
            g.ir_only.append(nm)
            continue
        for tag, rx, lim in GUARD_IDIOMS:
            if re.search(rx, body):
                g.guard[nm] = (tag, g.limits.get(lim, 0))
                break
        else:
            # helper rule: the helper is a pure check (not itself on a cycle) and its call textually precedes the first
            # call of any function on a cycle (janet_continue: `tmp = janet_check_can_resume(..); if (tmp) return tmp;`)
            for h in helpers:
                if h in g.nodes or h not in ir.funcs[nm]["calls"]:
                    continue
                mh = re.search(r"\b%s\s*\(" % re.escape(h), body)
                firsts = [m.start() for c in set(ir.funcs[nm]["calls"]) if c in cyc and c != h
                          for m in [re.search(r"\b%s\s*\(" % re.escape(c), body)] if m]
                has_indirect = bool(ir.funcs[nm]["icalls"])
                if mh and not has_indirect and all(mh.start() < f for f in firsts):
                    g.guard[nm] = (HELPER_IDIOM[0] + "-via-" + h, g.limits.get(HELPER_IDIOM[2], 0))
                    break
    g.bodies = bodies
    g.balance = balance_paths(bodies)
    g.deptharg = depth_arg_graph(bodies)
    g.unbalanced = [p for p in g.balance if p[5] > p[4] or (p[3] != "error" and p[4] != p[5])]
    # exemptions with a written argument; each is re-validated on the current source
    g.bounded = {}
    g.exemption_failures = []
    for nm, (reason, chk) in sorted(EXEMPT_BOUNDED.items()):
        if nm not in g.nodes or nm in g.guard:
            continue
        err = CHECKERS[chk](g, bodies, ir) if chk else None
        if err:
            g.exemption_failures.append((nm, err))
        else:
            g.bounded[nm] = reason
    used_indirect = sorted(set(w for _, _, w in g.exempted))
    failed_ind = []
    for ra, rb, reason, chk in exempt:
        if chk and reason in used_indirect:
            err = CHECKERS[chk](g, bodies, ir)
            if err:
                g.exemption_failures.append((ra, err))
                failed_ind.append(ra)
    if failed_ind:
        # the exemption of those indirect edges no longer holds: redo with the edges kept
        g2 = extract(build, exempt=[e for e in exempt if e[0] not in failed_ind], deny=deny, accept=accept)
        g2.exemption_failures = g.exemption_failures + g2.exemption_failures
        return g2
    for nm in g.bounded:
        g.guard[nm] = ("bounded", 0)
    # rank certificate: longest path in the non-guard subgraph (per SCC); cycles -> leftover nodes
    ng = [n for n in g.nodes if n not in g.guard]
    nsucc = {n: [] for n in ng}
    indeg = {n: 0 for n in ng}
    for (a, b) in g.edges:
        if a in nsucc and b in nsucc:
            nsucc[a].append(b)
    # rank(n) = 1 + max rank(succ); compute by reverse topological order (Kahn on reversed graph)
    outdeg = {n: len(set(nsucc[n])) for n in ng}
    pred = {n: [] for n in ng}
    for a in ng:
        for b in set(nsucc[a]):
            pred[b].append(a)
    rank = {}
    ready = sorted(n for n in ng if outdeg[n] == 0)
    for n in ready:
        rank[n] = 0
    while ready:
        n = ready.pop()
        for p in pred[n]:
            rank[p] = max(rank.get(p, 0), rank[n] + 1)
            outdeg[p] -= 1
            if outdeg[p] == 0:
                ready.append(p)
    left = sorted(n for n in ng if outdeg[n] > 0)
    for n in left:
        rank[n] = rank.get(n, 0)
    g.rank = rank
    # unguarded cycles (for the witness search): SCCs of the leftover subgraph
    lsucc = {n: sorted(set(b for b in nsucc[n] if b in set(left))) for n in left}
    g.bad = [sorted(c) for c in sccs(left, lsucc) if len(c) > 1 or c[0] in lsucc.get(c[0], ())]
    g.bad.sort()
    return g


def peg_specials(tree):
    """names of the PEG combinators: first column of peg_specials[] in peg.c (the table peg_compile1 dispatches on)"""
    with open(os.path.join(tree, "src/core/peg.c"), encoding="utf-8", errors="replace") as f:
        src = strip_comments(f.read())
    m = re.search(r"peg_specials\s*\[\s*\]\s*=\s*\{", src)
    if not m:
        raise ExtractError("peg_specials[] not found in peg.c")
    body = src[m.end() - 1:match_brace(src, m.end() - 1)]
    pairs = re.findall(r'\{\s*"((?:[^"\\\\]|\\\\.)*)"\s*,\s*(\w+)\s*\}', body)
    if len(pairs) < 40:
        raise ExtractError("peg_specials[]: only %d entries recognised" % len(pairs))
    return pairs


# ---------------------------------------------------------------------------------------------- Lean

def find_cycle(nodes, edges):
    """a closed path inside `nodes` (a strongly connected set): [v0, v1, ..., v0]"""
    S = set(nodes)
    succ = {}
    for (a, b) in edges:
        if a in S and b in S:
            succ.setdefault(a, []).append(b)
    start = sorted(S)[0]
    # BFS back to start
    prev = {}
    todo = [start]
    seen = set()
    while todo:
        v = todo.pop(0)
        for w in sorted(succ.get(v, ())):
            if w == start:
                path = [start]
                x = v
                rev = []
                while x != start:
                    rev.append(x)
                    x = prev[x]
                return [start] + rev[::-1] + [start]
            if w not in seen:
                seen.add(w)
                prev[w] = v
                todo.append(w)
    return []


def render(g, tree_desc="current tree"):
    idx = {n: i for i, n in enumerate(g.nodes)}
    L = ["import JanetModel.Depth.Model",
         lean_header("tools/gen/callgraph.py; LLVM IR of the bootstrapped amalgamation, " + tree_desc)]
    L.append("namespace JanetModel.Gen.Depth\n")
    L.append("/-- functions that lie on a call cycle (index = position) -/")
    L.append("abbrev names : List String := [")
    L.append(",\n".join('  "%s"' % n for n in g.nodes))
    L.append("]\n")
    L.append("abbrev nV : Nat := %d\n" % len(g.nodes))
    L.append("/-- call edges inside recursive SCCs (direct + over-approximated indirect), caller index, callee index -/")
    L.append("abbrev edges : List (Nat × Nat) := [")
    es = sorted((idx[a], idx[b]) for (a, b) in g.edges)
    L.append(",\n".join("  " + ", ".join("(%d, %d)" % e for e in es[i:i + 12]) for i in range(0, len(es), 12)))
    L.append("]\n")
    L.append("/-- guard mark per function (true = body contains a depth-guard idiom, or recursion bounded by a written,\n"
             "    re-validated argument: see the table at the end of this file) -/")
    L.append("abbrev guard : List Bool := [")
    gs = ["true" if n in g.guard else "false" for n in g.nodes]
    L.append(",\n".join("  " + ", ".join(gs[i:i + 16]) for i in range(0, len(gs), 16)))
    L.append("]\n")
    L.append("/-- UNTRUSTED certificate: rank per function (ignored for guard functions) -/")
    L.append("abbrev rank : List Nat := [")
    rs = [str(g.rank.get(n, 0)) for n in g.nodes]
    L.append(",\n".join("  " + ", ".join(rs[i:i + 24]) for i in range(0, len(rs), 24)))
    L.append("]\n")
    L.append("abbrev cg : JanetModel.Depth.CG := { n := nV, edges := edges, guard := guard }\n")
    cyc = find_cycle(g.bad[0], g.edges) if g.bad else []
    L.append("/-- a closed chain of non-guard functions when the translator found one ([] on a tree where every cycle is guarded) -/")
    L.append("abbrev unguardedCycle : List Nat := [%s]\n" % ", ".join(str(idx[n]) for n in cyc))
    L.append("/-- depth counters with paired charge/release idioms: one entry per distinct path class through the listed\n"
             "    functions (counter, function, case label / position, error exit?, charges, releases) -/")
    L.append("abbrev balancePaths : List JanetModel.Depth.PathCount := [")
    L.append(",\n".join('  ⟨"%s", "%s", "%s", %s, %d, %d⟩' % (t, f, (lab + ":" + kind).replace('"', "'"), "true" if kind == "error" else "false", c, r)
                        for (t, f, lab, kind, c, r) in g.balance))
    L.append("]\n")
    da = g.deptharg
    di = {n: i for i, n in enumerate(da["fns"])}
    L.append("/-- marshal / unmarshal pass their depth as an argument (`flags`, charged by `flags + 1`): functions, and the\n"
             "    call edges that do NOT charge.  The depth is followed through `JanetMarshalContext.flags` on both sides\n"
             "    ((un)marshal_one_abstract initialiser -> hook -> janet_(un)marshal_janet reads `ctx->flags`); a call or\n"
             "    initialiser whose depth operand is not `<the caller's own depth> (+ k)` restarts the count and appears as a\n"
             "    self-loop of the caller.  Every cycle must charge, i.e. this graph must be acyclic (rank certificate). -/")
    L.append("abbrev depthArgNames : List String := [%s]" % ", ".join('"%s"' % n for n in da["fns"]))
    L.append("abbrev depthArgCg : JanetModel.Depth.CG := { n := %d, edges := [%s], guard := [] }"
             % (len(da["fns"]), ", ".join("(%d, %d)" % (di[a], di[b]) for a, b in da["zero"])))
    L.append("abbrev depthArgRank : List Nat := [%s]\n" % ", ".join(str(da["rank"].get(n, 0)) for n in da["fns"]))
    L.append("abbrev recursionGuard : Nat := %d" % g.limits["JANET_RECURSION_GUARD"])
    L.append("abbrev maxProtoDepth : Nat := %d" % g.limits.get("JANET_MAX_PROTO_DEPTH", 0))
    L.append("abbrev maxMacroExpand : Nat := %d" % g.limits.get("JANET_MAX_MACRO_EXPAND", 0))
    L.append("abbrev nFunctionsTotal : Nat := %d" % g.nfuncs)
    L.append("\n/- guard functions and the idiom matched in their source body (bounded = written argument, re-validated):")
    for n in g.nodes:
        if n in g.guard:
            L.append("   %3d %s: %s%s" % (idx[n], n, g.guard[n][0], (" -- " + g.bounded[n]) if n in g.bounded else ""))
    L.append("   cut (non-returning): " + ", ".join(g.cut))
    L.append("-/")
    L.append("\nend JanetModel.Gen.Depth\n")
    return "\n".join(L)


if __name__ == "__main__":
    import sys
    sys.path.insert(0, os.path.dirname(os.path.dirname(os.path.dirname(os.path.abspath(__file__)))))
    from vlib.build import Build
    b = Build(os.environ.get("VERIF_REPO", "/repo"))
    g = extract(b)
    print("functions", g.nfuncs, "calls", g.ncalls, "addr-taken", len(g.ir.addr_taken), "cycle nodes", len(g.nodes), "edges", len(g.edges))
    for i, c in enumerate(g.comps):
        print("SCC", i, len(c), " ".join(("*" if n in g.guard else "") + n for n in c)[:3000])
    print("no body:", g.nobody)
    print("UNGUARDED:", g.bad)


# ---------------------------------------------------------------------------------------------- counter balance
# Depth counters with paired charge/release idioms.  For the listed functions every path through the body (per `case`
# block of a switch, per branch, per loop iteration) is walked on the source text and the number of charges and releases
# on it is counted.  Emitted into Gen/Depth.lean; Lean obligation `balanced`: no path releases more than it charged, and
# every path that ends in a normal return / goto / end of function releases exactly what it charged.

COUNTERS = [
    # tag, functions, charge regex, release regex
    ("peg-down1-up1", ["peg_rule"], r"\bdown1\s*\(", r"\bup1\s*\("),
    ("peg-builder-depth", ["peg_compile1"], r"\bb\s*->\s*depth\s*--", r"\bb\s*->\s*depth\s*\+\+"),
    ("compile-recursion-guard", ["janetc_value", "destructure_nested"], r"recursion_guard\s*--", r"recursion_guard\s*\+\+"),
    ("gc-depth", ["janet_mark", "janet_mark_funcdef"], r"\bdepth\s*--", r"\bdepth\s*\+\+"),
    ("vm-stackn", ["janet_call", "janet_continue_no_check"], r"janet_vm\s*\.\s*stackn\s*\+\+",
     r"janet_vm\s*\.\s*stackn\s*--|janet_vm\s*\.\s*stackn\s*=\s*oldn\b"),
]
# functions that charge the counter only on some trees (janet_mark_funcdef: since the gc-funcdef-depth fix)
OPTIONAL_COUNTER_FNS = {"janet_mark_funcdef"}
ERROR_EXIT = re.compile(r"\bjanet_panic\w*\s*\(|\bpeg_panic\s*\(|\bjanetc_c?error\s*\(|JANET_COMPILE_ERROR|\bjanet_exit\s*\(")


def _skip_ws(t, i):
    while i < len(t) and t[i] in " \t\r\n":
        i += 1
    return i


def _paren(t, i):
    """t[i]=='(' -> (inside, index after ')')"""
    j = _after_parens(t, i)
    return t[i + 1:j - 1], j


def _parse_stmt(t, i):
    i = _skip_ws(t, i)
    if i >= len(t):
        return None, i
    if t[i] == "{":
        j = match_brace(t, i)
        return ("block", _parse_nodes(t[i + 1:j - 1])), j
    m = re.match(r"(if|for|while|switch)\b\s*\(", t[i:])
    if m:
        kw = m.group(1)
        head, j = _paren(t, i + m.end() - 1)
        body, j = _parse_stmt(t, j)
        if kw == "if":
            k = _skip_ws(t, j)
            if re.match(r"else\b", t[k:]):
                els, j = _parse_stmt(t, k + 4)
                return ("if", head, body, els), j
            return ("if", head, body, None), j
        if kw == "switch":
            return ("switch", head, body[1] if body and body[0] == "block" else [body]), j
        return ("loop", head, body), j
    if re.match(r"do\b", t[i:]):
        body, j = _parse_stmt(t, i + 2)
        k = _skip_ws(t, j)
        m2 = re.match(r"while\s*\(", t[k:])
        if not m2:
            raise ExtractError("do without while")
        head, j = _paren(t, k + m2.end() - 1)
        j = t.index(";", j) + 1
        return ("loop", head, body), j
    m = re.match(r"(case\b[^:;{}]*|default|[A-Za-z_]\w*)\s*:(?!:)", t[i:])
    if m and not re.match(r"(return|goto|break|continue)\b", t[i:]):
        return ("label", m.group(1).strip()), i + m.end()
    # simple statement: up to ';' at nesting depth 0
    j, depth = i, 0
    while j < len(t):
        c = t[j]
        if c == '"' or c == "'":
            k = j + 1
            while k < len(t) and t[k] != c:
                k += 2 if t[k] == "\\" else 1
            j = k + 1
            continue
        if c in "([{":
            depth += 1
        elif c in ")]}":
            depth -= 1
        elif c == ";" and depth == 0:
            return ("stmt", t[i:j + 1]), j + 1
        j += 1
    return ("stmt", t[i:]), len(t)


def _parse_nodes(t):
    nodes, i = [], 0
    while True:
        n, i = _parse_stmt(t, i)
        if n is None:
            break
        nodes.append(n)
    return nodes


class _Walk:
    def __init__(self, charge, release):
        self.c, self.r = re.compile(charge), re.compile(release)
        self.paths = []       # (label, kind, charges, releases)
        self.label = "entry"

    def cnt(self, text, st):
        return (st[0] + len(self.c.findall(text)), st[1] + len(self.r.findall(text)))

    def nodes(self, nodes, cur):
        brk, cont = set(), set()
        for n in nodes:
            if not cur:
                # unreachable tail (after return); labels make it reachable again only through the switch walker
                if n[0] != "label":
                    continue
            cur, b, c = self.node(n, cur)
            brk |= b
            cont |= c
        return cur, brk, cont

    def node(self, n, cur):
        k = n[0]
        if k == "label":
            return cur, set(), set()
        if k == "stmt":
            new = set(self.cnt(n[1], s) for s in cur)
            txt = n[1]
            if re.match(r"\s*break\s*;", txt):
                return set(), new, set()
            if re.match(r"\s*continue\s*;", txt):
                return set(), set(), new
            if ERROR_EXIT.search(txt) and not re.match(r"\s*(return|goto)\b", txt) and re.search(r"\b(janet_panic\w*|peg_panic|janet_exit)\s*\(", txt):
                for s in new:
                    self.paths.append((self.label, "error", s[0], s[1]))
                return set(), set(), set()
            m = re.match(r"\s*(return|goto)\b", txt)
            if m:
                for s in new:
                    self.paths.append((self.label, "error" if self.in_error else m.group(1), s[0], s[1]))
                return set(), set(), set()
            return new, set(), set()
        if k == "block":
            return self.nodes(n[1], cur)
        if k == "if":
            c1 = set(self.cnt(n[1], s) for s in cur)
            was = self.in_error
            # a branch taken on an error condition: exits inside are error exits (counter is re-initialised by the next
            # top-level entry; an early error can only make the guard fire sooner)
            errb = bool(ERROR_EXIT.search(n[1])) or (n[2] is not None and self._has_error_call(n[2]))
            self.in_error = was or errb
            f1, b1, k1 = self.node(n[2], c1) if n[2] else (c1, set(), set())
            self.in_error = was
            if n[3] is not None:
                f2, b2, k2 = self.node(n[3], c1)
            else:
                f2, b2, k2 = c1, set(), set()
            return f1 | f2, b1 | b2, k1 | k2
        if k == "loop":
            c1 = set(self.cnt(n[1], s) for s in cur)
            out = set(c1)
            for s in c1:
                f, b, c = self.node(n[2], {s}) if n[2] else ({s}, set(), set())
                for e in f | c:
                    if e != s:
                        self.paths.append((self.label, "loop-iteration", e[0] - s[0], e[1] - s[1]))
                out |= b
            return out, set(), set()
        if k == "switch":
            c1 = set(self.cnt(n[1], s) for s in cur)
            body = n[2]
            out = set()
            starts = [i for i, x in enumerate(body) if x[0] == "label" and (i == 0 or body[i - 1][0] != "label")]
            outer = self.label
            for i in starts:
                names = []
                j = i
                while j < len(body) and body[j][0] == "label":
                    names.append(body[j][1].replace("case ", ""))
                    j += 1
                if outer == "entry" or outer.endswith(":"):
                    self.label = "/".join(names)[:60]
                f, b, c = self.nodes(body[i:], set(c1))
                out |= f | b
                self.label = outer
            return out, set(), set()
        raise ExtractError("unknown node " + k)

    def _has_error_call(self, node):
        if node is None:
            return False
        if node[0] == "stmt":
            return bool(re.search(r"\b(janet_panic\w*|peg_panic|janetc_c?error|janet_exit)\s*\(", node[1]))
        if node[0] == "block":
            return any(self._has_error_call(x) for x in node[1][:3])
        return False

    in_error = False


def balance_paths(bodies):
    """-> list of (tag, function, label, kind, charges, releases), deduplicated and sorted"""
    out = []
    for tag, funcs, ch, rel in COUNTERS:
        for fn in funcs:
            body = bodies.get(fn)
            if body is None:
                if fn == funcs[0]:
                    raise ExtractError("balance check: function %s not found" % fn)
                continue
            if not re.search(ch, body):
                if fn in OPTIONAL_COUNTER_FNS:
                    continue
                raise ExtractError("balance check: %s no longer contains the charge idiom of %s" % (fn, tag))
            w = _Walk(ch, rel)
            nodes = _parse_nodes(body[1:-1])
            fall, _, _ = w.nodes(nodes, {(0, 0)})
            for s in fall:
                w.paths.append(("end", "return", s[0], s[1]))
            for p in sorted(set(w.paths)):
                out.append((tag, fn) + p)
    return out


# ---------------------------------------------------------------------------------------------- depth passed as argument
# marshal / unmarshal pass their depth as `flags`; a level is charged by passing `flags + 1`.  Every cycle of the
# (un)marshal functions must contain at least one charging call, i.e. the graph of NON-charging calls must be acyclic.
# Emitted as a second graph (no guards) with a rank certificate; Lean obligation `cg_depth_arg_charged`.

_MARSH_FN = re.compile(r"^(un)?marshal_one(_\w+)?$|^janet_(un)?marshal_janet$")
_LEAF_VALUE = re.compile(r"^\s*janet_wrap_(string|keyword|symbol|integer|number|nil|boolean)\s*\(|^\s*janet_c(string|keyword|symbol)v\s*\(")


def _split_c_args(t):
    out, depth, cur = [], 0, []
    for ch in t:
        if ch in "([{":
            depth += 1
        elif ch in ")]}":
            depth -= 1
        if ch == "," and depth == 0:
            out.append("".join(cur).strip())
            cur = []
        else:
            cur.append(ch)
    if "".join(cur).strip():
        out.append("".join(cur).strip())
    return out


_DEPTH_WRITE = r"(?:(?<![\w.>])%s\s*(?:=(?!=)|\+=|-=|\|=|&=|\^=|<<=|>>=|\+\+|--)|(?:\+\+|--)\s*%s\b)"


def _own_depth(fn):
    """the expression that holds the depth inside `fn`: the `flags` parameter of the (un)marshal_one* functions, the
    `flags` field of the context for the two functions an abstract type's hook calls back"""
    return "ctx->flags" if fn.startswith("janet_") else "flags"


def _depth_step(arg, own):
    """`own` or `own + k` (k >= 0, parentheses allowed) -> k; anything else (another variable, a field of the state, a
    constant, a mask, `own - 1`) -> None: the callee's depth is then not derived from the caller's, the count restarts"""
    t = re.sub(r"\s+", "", arg)
    while t.startswith("(") and t.endswith(")") and _paren(t, 0)[1] == len(t):
        t = t[1:-1]
    m = re.match(r"^\(?%s\)?(?:\+(\d+))?$" % re.escape(own), t)
    if not m:
        return None
    return int(m.group(1) or 0)


def depth_arg_graph(bodies):
    """graph over the (un)marshal functions whose edges are the calls that hand the depth on WITHOUT adding to it.  The
    depth travels `flags` -> (`JanetMarshalContext.flags` -> abstract type hook -> janet_(un)marshal_janet: `ctx->flags`)
    -> `flags`.  A call / context initialiser whose depth operand is not `<caller's own depth> (+ k)` restarts the
    count: it is recorded in `unknown` and emitted as a non-charging self-loop of the caller, so that the acyclicity
    obligation fails naming that function."""
    fns = sorted(n for n, b in bodies.items() if b and _MARSH_FN.match(n))
    if "marshal_one" not in fns or "unmarshal_one" not in fns:
        raise ExtractError("depth-argument check: marshal_one / unmarshal_one not found")
    for need in ("janet_marshal_janet", "janet_unmarshal_janet", "marshal_one_abstract", "unmarshal_one_abstract"):
        if need not in fns:
            raise ExtractError("depth-argument check: %s not found" % need)
    edges = {}      # (a, b) -> charged? (False wins: one non-charging call site makes the edge non-charging)
    sites = []
    unknown = []    # (caller, callee, operand text, why)
    nctx = {"marshal_one_abstract": 0, "unmarshal_one_abstract": 0, "janet_marshal_janet": 0, "janet_unmarshal_janet": 0}
    for a in fns:
        body = bodies[a]
        own = _own_depth(a)
        if a.startswith("janet_"):
            if not re.search(r"\bJanetMarshalContext\b|\bctx\s*->\s*(?:m_state|u_state)\b", body) or not re.search(r"\bctx\s*->\s*flags\b", body):
                raise ExtractError("depth-argument check: %s does not read ctx->flags" % a)
        own_rx = r"ctx\s*->\s*flags" if a.startswith("janet_") else "flags"
        w = re.search(_DEPTH_WRITE % (own_rx, own_rx), body)
        if w:
            unknown.append((a, a, body[w.start():w.end() + 24].split("\n")[0].strip(), "the depth variable %s is written inside the function" % own))
        for m in re.finditer(r"\b((?:un)?marshal_one(?:_\w+)?)\s*\(", body):
            b = m.group(1)
            if b not in fns:
                continue
            inside, _ = _paren(body, m.end() - 1)
            args = _split_c_args(inside)
            if len(args) < 3:
                continue
            if b == "marshal_one" and _LEAF_VALUE.match(args[1]):
                continue                      # a string / number is written without recursion
            k = _depth_step(args[-1], own)
            if a in nctx and a.startswith("janet_"):
                nctx[a] += 1
            if k is None:
                unknown.append((a, b, args[-1].strip(), "depth operand is not `%s (+ k)`" % own))
                sites.append((a, b, args[-1].strip(), False))
                edges[(a, b)] = False
                continue
            sites.append((a, b, args[-1].strip(), k > 0))
            edges[(a, b)] = edges.get((a, b), True) and k > 0
        for m in re.finditer(r"\bJanetMarshalContext\s+(\w+)\s*(=\s*\{([^}]*)\})?\s*;", body):
            b = "janet_unmarshal_janet" if a.startswith("un") else "janet_marshal_janet"
            if a not in nctx or a.startswith("janet_"):
                unknown.append((a, b, m.group(0).strip(), "a marshal context is built outside (un)marshal_one_abstract"))
                continue
            nctx[a] += 1
            parts = _split_c_args(m.group(3) or "")
            # positional initialiser {m_state, u_state, flags, data, at}; designated or partial ones are not understood
            if len(parts) != 5 or any(re.match(r"^\s*\.", q) for q in parts):
                unknown.append((a, b, m.group(0).strip(), "context initialiser is not the positional 5-field form"))
                edges[(a, b)] = False
                continue
            k = _depth_step(parts[2], own)
            var = m.group(1)
            wr = re.search(r"\b%s\s*\.\s*flags\s*(?:=(?!=)|\+=|-=|\|=|&=|\^=|\+\+|--)" % re.escape(var), body)
            if k is None or wr:
                unknown.append((a, b, parts[2].strip() if k is None else body[wr.start():wr.end() + 24].split("\n")[0].strip(),
                                "context depth field `flags` is not initialised from `%s (+ k)`" % own if k is None
                                else "context depth field is overwritten after initialisation"))
                sites.append((a, b, parts[2].strip(), False))
                edges[(a, b)] = False
                continue
            sites.append((a, b, parts[2].strip(), k > 0))
            edges[(a, b)] = edges.get((a, b), True) and k > 0
    for a, n in sorted(nctx.items()):
        if n == 0:
            raise ExtractError("depth-argument check: %s hands no depth on (%s) - shape changed" % (
                a, "no JanetMarshalContext initialiser" if not a.startswith("janet_") else "no (un)marshal_one call"))
    # the hooks of abstract types receive the context by pointer: none of them may write its depth field
    for nm, body in sorted(bodies.items()):
        if not body or nm in fns or "flags" not in body:
            continue
        if not re.search(r"\bjanet_(?:un)?marshal_\w+\s*\(\s*ctx\b", body):
            continue
        w = re.search(r"\bctx\s*->\s*flags\s*(?:=(?!=)|\+=|-=|\|=|&=|\^=|\+\+|--)|(?:\+\+|--)\s*ctx\s*->\s*flags\b", body)
        if w:
            for b in ("janet_marshal_janet", "janet_unmarshal_janet"):
                unknown.append((b, b, body[w.start():w.end() + 24].split("\n")[0].strip(), "marshal hook %s writes the context depth field" % nm))
    for a, b, _, _ in unknown:
        edges[(a, a)] = False                  # self-loop without charge: no rank certificate exists
    zero = sorted(e for e, ch in edges.items() if not ch)
    # rank by longest path over the zero edges
    succ = {n: [] for n in fns}
    for a, b in zero:
        succ[a].append(b)
    rank, state = {}, {}

    def visit(n):
        if state.get(n) == 1:
            return 0                           # on a cycle: no valid rank exists, Lean will reject
        if n in rank:
            return rank[n]
        state[n] = 1
        r = 0
        for w in succ[n]:
            r = max(r, visit(w) + 1)
        state[n] = 2
        rank[n] = r
        return r
    for n in fns:
        visit(n)
    cyc = [c for c in sccs(fns, succ) if len(c) > 1 or c[0] in succ[c[0]]]
    return dict(fns=fns, zero=zero, rank=rank, sites=sites, cycles=[sorted(c) for c in cyc], charged=sorted(e for e, ch in edges.items() if ch),
                unknown=unknown)
