"""C10 translator: VALUE-dependent dereferences of the interpreter (vm.c) and the run-time test that guards each.

`verify_sound` covers what depends on the instruction word alone.  What depends on run-time VALUES - unwrapping a Janet as a
function / cfunction / fiber / abstract, indexing `func->envs[...]` and an environment's slots by operands the verifier
cannot bound - must be preceded by a run-time test.  This extracts, from `run_vm`, `janet_method_invoke` and `call_nonfn`:

* every `janet_unwrap_<t>(e)` with the type test that dominates it: an enclosing `if (janet_checktype(e, JANET_T))`, a
  preceding `vm_assert_type(e, JANET_T)` in the same `VM_OP` block with no assignment to `e` in between, or the
  `case JANET_T:` of an enclosing `switch (janet_type(e))`;
* for the two upvalue instructions: the three bounds (`environments_length > eindex`, `env->length > vindex`,
  `janet_env_valid(env)`) and whether each precedes the dereference it protects;
* for JOP_CLOSURE: `func->envs[inherit]` only in the else-branch of `inherit == -1 || inherit >= environments_length`.

-> lean/JanetModel/Gen/VmGuards.lean; the obligation `vm_value_guards` (Unmarsh/BytesObligations) is `decide` over it.
An unwrap without a recognisable guard is emitted with guard `none` (the obligation then fails and names the handler)."""
import re

from .csrc import ExtractError, read, strip_comments, func_body, enum_values, lean_header, match_brace

UNWRAP_TYPES = {"function": "JANET_FUNCTION", "cfunction": "JANET_CFUNCTION", "fiber": "JANET_FIBER", "abstract": "JANET_ABSTRACT",
                "table": "JANET_TABLE", "struct": "JANET_STRUCT", "array": "JANET_ARRAY", "tuple": "JANET_TUPLE", "buffer": "JANET_BUFFER",
                "string": "JANET_STRING", "symbol": "JANET_SYMBOL", "keyword": "JANET_KEYWORD", "pointer": "JANET_POINTER"}


def enclosing_blocks(body, pos):
    """start indices of every `{` whose block contains pos, innermost last"""
    out, stack = [], []
    i, n = 0, len(body)
    while i < pos:
        c = body[i]
        if c in "\"'":
            j = i + 1
            while j < n and body[j] != c:
                j += 2 if body[j] == "\\" else 1
            i = j + 1
            continue
        if c == "{":
            stack.append(i)
        elif c == "}":
            if stack:
                stack.pop()
        i += 1
    return stack


def unwrap_rows(body, fname):
    rows = []
    ops = [(m.start(), m.group(1)) for m in re.finditer(r"VM_OP\s*\(\s*(JOP_\w+)\s*\)", body)]
    for m in re.finditer(r"janet_unwrap_(\w+)\s*\(\s*([^()]*(?:\([^()]*\))?[^()]*?)\s*\)", body):
        t, e = m.group(1), re.sub(r"\s+", "", m.group(2))
        if t not in UNWRAP_TYPES:
            if t in ("integer", "number", "boolean"):
                continue
            raise ExtractError("%s: janet_unwrap_%s not classified" % (fname, t))
        handler = fname
        hstart = 0
        for p, name in ops:
            if p < m.start():
                handler, hstart = name, p
        guard = None
        ee = re.escape(m.group(2).strip()).replace(r"\ ", r"\s*")
        # 1. enclosing if (janet_checktype(e, T)) {   /  case T: of switch (janet_type(e))
        for bstart in reversed(enclosing_blocks(body, m.start())):
            if bstart < hstart:
                break
            head = body[max(hstart, bstart - 200):bstart]
            mm = re.search(r"if\s*\(\s*janet_checktype\s*\(\s*%s\s*,\s*(JANET_\w+)\s*\)\s*\)\s*$" % ee, head)
            if mm:
                guard = mm.group(1)
                break
            ms = re.search(r"switch\s*\(\s*janet_type\s*\(\s*%s\s*\)\s*\)\s*$" % ee, head)
            if ms:
                cases = list(re.finditer(r"case\s+(JANET_\w+)\s*:", body[bstart:m.start()]))
                if cases:
                    # the nearest label governs the site only if control cannot fall into it from another label: the
                    # text between the previous label and this one must end in `return …;` or `break;`
                    if len(cases) == 1 or re.search(r"(return\b[^;]*;|break\s*;)\s*\}?\s*$", body[bstart + cases[-2].end():bstart + cases[-1].start()]):
                        guard = cases[-1].group(1)
                break
        # 2. vm_assert_type(e, T) earlier in the same handler, e not reassigned in between
        if guard is None:
            seg = body[hstart:m.start()]
            mm = None
            for mm in re.finditer(r"vm_assert_type\s*\(\s*%s\s*,\s*(JANET_\w+)\s*\)\s*;" % ee, seg):
                pass
            if mm and not re.search(r"(?<![=!<>])\b%s\s*=[^=]" % ee, seg[mm.end():]):
                guard = mm.group(1)
        rows.append((handler, m.group(2).strip(), UNWRAP_TYPES[t], guard))
    return rows


def upvalue_rows(body):
    rows = []
    for op in ("JOP_LOAD_UPVALUE", "JOP_SET_UPVALUE"):
        m = re.search(r"VM_OP\s*\(\s*%s\s*\)\s*\{" % op, body)
        if not m:
            raise ExtractError("handler %s not found" % op)
        blk = body[m.end() - 1:match_brace(body, m.end() - 1)]

        def pos(rx):
            mm = re.search(rx, blk)
            return mm.start() if mm else None
        g_env = pos(r"vm_assert\s*\(\s*func->def->environments_length\s*>\s*eindex\s*,")
        g_len = pos(r"vm_assert\s*\(\s*env->length\s*>\s*vindex\s*,")
        g_val = pos(r"vm_assert\s*\(\s*janet_env_valid\s*\(\s*env\s*\)\s*,")
        d_env = pos(r"func->envs\s*\[\s*eindex\s*\]")
        d_stack = pos(r"env->as\.fiber->data\s*\[\s*env->offset\s*\+\s*vindex\s*\]")
        d_vals = pos(r"env->as\.values\s*\[\s*vindex\s*\]")
        if None in (d_env, d_stack, d_vals):
            raise ExtractError("%s: dereferences changed shape" % op)
        if not re.search(r"int32_t\s+eindex\s*=\s*B\s*;\s*int32_t\s+vindex\s*=\s*C\s*;", blk):
            raise ExtractError("%s: operand decoding changed" % op)
        n_other = len(re.findall(r"\[[^\]]*\]", blk)) - 3 - len(re.findall(r"stack\s*\[\s*A\s*\]", blk))
        if n_other:
            raise ExtractError("%s: %d index expressions not classified" % (op, n_other))
        rows.append((op, "func->envs[eindex]", g_env is not None and g_env < d_env, True, True))
        for what, d in (("env->as.fiber->data[env->offset + vindex]", d_stack), ("env->as.values[vindex]", d_vals)):
            rows.append((op, what, g_env is not None and g_env < d, g_len is not None and g_len < d, g_val is not None and g_val < d))
    # JOP_CLOSURE
    m = re.search(r"VM_OP\s*\(\s*JOP_CLOSURE\s*\)\s*\{", body)
    if not m:
        raise ExtractError("handler JOP_CLOSURE not found")
    blk = body[m.end() - 1:match_brace(body, m.end() - 1)]
    ok = bool(re.search(r"for\s*\(\s*i\s*=\s*0\s*;\s*i\s*<\s*elen\s*;\s*\+\+i\s*\)\s*\{\s*int32_t\s+inherit\s*=\s*fd->environments\s*\[\s*i\s*\]\s*;\s*"
                        r"if\s*\(\s*inherit\s*==\s*-1\s*\|\|\s*inherit\s*>=\s*func->def->environments_length\s*\)\s*\{", blk)) and \
        bool(re.search(r"\}\s*else\s*\{\s*fn->envs\s*\[\s*i\s*\]\s*=\s*func->envs\s*\[\s*inherit\s*\]\s*;", blk)) and \
        bool(re.search(r"elen\s*=\s*fd->environments_length\s*;", blk)) and len(re.findall(r"func->envs\s*\[", blk)) == 1
    rows.append(("JOP_CLOSURE", "func->envs[inherit]", ok, True, True))
    return rows


def extract(tree):
    src = strip_comments(read(tree, "src/core/vm.c"))
    h = strip_comments(read(tree, "src/include/janet.h"))
    types = enum_values(h, "JANET_NUMBER")
    if not re.search(r"#define\s+vm_assert_type\s*\(\s*X\s*,\s*T\s*\)\s*do\s*\{\s*\\\s*if\s*\(\s*!\s*\(\s*janet_checktype\s*\(\s*\(X\)\s*,\s*\(T\)\s*\)\s*\)\s*\)\s*\{\s*\\\s*vm_commit\(\)\s*;\s*\\\s*janet_panicf", src):
        raise ExtractError("vm_assert_type changed shape")
    if not re.search(r"#define\s+vm_assert\s*\(\s*cond\s*,\s*e\s*\)\s*do\s*\{\s*if\s*\(\s*!\s*\(cond\)\s*\)\s*vm_throw\s*\(\s*\(e\)\s*\)\s*;", src):
        raise ExtractError("vm_assert changed shape")
    rows = []
    for fn in ("run_vm", "janet_method_invoke", "call_nonfn"):
        rows += unwrap_rows(func_body(src, fn), fn)
    up = upvalue_rows(func_body(src, "run_vm"))
    return types, rows, up


def render(tree):
    types, rows, up = extract(tree)
    L = [lean_header("src/core/vm.c"), "namespace JanetModel.Gen.VmGuards", "",
         "/-- value-dependent unwraps of the interpreter: handler, expression, JanetType unwrapped as, JanetType tested before (none = no test found) -/",
         "abbrev unwraps : List (String × String × Nat × Option Nat) := ["]
    L.append(",\n".join('  ("%s", "%s", %d, %s)' % (hd, e.replace('"', "'"), types[t], "none" if g is None else "some %d" % types[g]) for hd, e, t, g in rows) + "]")
    L.append("")
    L.append("/-- operand-indexed dereferences the verifier cannot bound: handler, expression, `environments_length > eindex` precedes,")
    L.append("    `env->length > vindex` precedes, `janet_env_valid(env)` precedes -/")
    L.append("abbrev upvalues : List (String × String × Bool × Bool × Bool) := [")
    L.append(",\n".join('  ("%s", "%s", %s, %s, %s)' % (hd, e, str(a).lower(), str(b).lower(), str(c).lower()) for hd, e, a, b, c in up) + "]")
    L.append("")
    L.append("end JanetModel.Gen.VmGuards")
    return "\n".join(L) + "\n"
