"""Translator: janet.h / fiber.h / fiber.c / vm.c / value.c / util.c / corelib.c  ->  Gen/Fiber.lean

Extracted (every item asserts the source shape it expects, ExtractError otherwise):
  * JanetSignal and JanetFiberStatus enums (janet.h) and their name tables (util.c)
  * JANET_FIBER_MASK_* constants and the status field layout (fiber.h)
  * the letter -> mask-bits / env-mode table of `cfun_fiber_new` (fiber.c) and the default mask of `janet_fiber_reset`
  * the status set refused by `janet_check_can_resume` and the order root-test / status-test (vm.c)
  * the mask test `child->flags & (1 << sig)` at its four sites (JOP_RESUME, JOP_CANCEL, janet_continue_no_check, janet_next)
  * the signal set mapped to nil by `next` (value.c janet_next_impl and the JOP_NEXT fix-up in janet_continue_no_check)
  * the status set for which `next` returns nil without resuming (value.c)
  * `JOP_PROPAGATE`'s status bound, `JOP_CANCEL`'s injected signal, `(signal n x)`'s user-number mapping (corelib.c)
"""
import re
from . import csrc
from .csrc import ExtractError


def _names(src, arr, n):
    m = re.search(r"%s\s*\[\s*%d\s*\]\s*=\s*\{([^}]*)\}" % (re.escape(arr), n), src)
    if not m:
        raise ExtractError("%s[%d] not found" % (arr, n))
    xs = re.findall(r'"([^"]*)"', m.group(1))
    if len(xs) != n:
        raise ExtractError("%s: expected %d names, got %d" % (arr, n, len(xs)))
    return xs


def _defines(src, prefix):
    out = {}
    for m in re.finditer(r"^#define\s+(%s\w*)(\([^)]*\))?\s+(.+?)\s*$" % prefix, src, re.M):
        out[m.group(1)] = (m.group(2), m.group(3))
    return out


def _ev(expr, env):
    try:
        return int(eval(" ".join(expr.split()), {"__builtins__": {}}, dict(env)))
    except Exception:
        raise ExtractError("cannot evaluate %r" % expr)


def _status_set(cond, stat):
    """Set of status values accepted by a C condition made of `x == JANET_STATUS_A ||` and `(x >= A && x <= B)` terms."""
    s = set()
    rest = cond
    for m in re.finditer(r"\(?\s*\w+\s*>=\s*(JANET_S\w+)\s*&&\s*\w+\s*<=\s*(JANET_S\w+)\s*\)?", cond):
        for v in range(stat[m.group(1)], stat[m.group(2)] + 1):
            s.add(v)
        rest = rest.replace(m.group(0), " 0 ")
    for m in re.finditer(r"\w+\s*==\s*(JANET_S\w+)", rest):
        s.add(stat[m.group(1)])
        rest = rest.replace(m.group(0), " 0 ", 1)
    if re.sub(r"[\s|()0]", "", rest):
        raise ExtractError("status-set condition has an unrecognised term: %r" % cond)
    return sorted(s)


def _norm(src):
    """harmless-syntax normalisation applied before any shape is matched: comments are gone already; `(void) x;`
    statements are dropped; every run of white space becomes one blank (the regexes below use `\\s*` or a single blank)"""
    src = re.sub(r"\(\s*void\s*\)\s*\w+\s*;", "", src)
    return re.sub(r"\s+", " ", src)


def _fb(src, name):
    return _norm(csrc.func_body(src, name))


def _alpha(blk, decls):
    """rename the locals of a block to the names the shapes below are written with: `decls` = [(regex with ONE group that
    matches the declared name, canonical name)]; anchored on what the local is initialised with, not on its spelling.
    A member access `x->name` is not a local and is left alone."""
    for rx, canon in decls:
        m = re.search(rx, blk)
        if not m:
            continue
        name = m.group(1)
        if name != canon:
            if re.search(r"(?<![\w>.])%s\b" % re.escape(canon), blk):
                raise ExtractError("cannot alpha-rename local %s to %s: name already in use" % (name, canon))
            blk = re.sub(r"(?<![\w>.])%s\b" % re.escape(name), canon, blk)
    return blk


def _stmts(block):
    """the `;`-separated statements of a brace-free block, blanks normalised"""
    return [" ".join(x.split()) for x in block.split(";") if x.strip()]


def extract(tree):
    jh = csrc.strip_comments(csrc.read(tree, "src/include/janet.h"))
    sig = csrc.enum_values(jh, "JANET_SIGNAL_OK")
    stat = csrc.enum_values(jh, "JANET_STATUS_DEAD")
    both = dict(sig)
    both.update(stat)
    util = csrc.strip_comments(csrc.read(tree, "src/core/util.c"))
    signames = _names(util, "janet_signal_names", 14)
    statnames = _names(util, "janet_status_names", 16)
    if sorted(set(sig.values())) != list(range(14)) or sorted(stat.values()) != list(range(16)):
        raise ExtractError("signal / status enums are not 0..13 / 0..15")

    fh = csrc.read(tree, "src/core/fiber.h")
    d = _defines(fh, "JANET_FIBER_")
    env = {}
    for k in ("JANET_FIBER_MASK_ERROR", "JANET_FIBER_MASK_DEBUG", "JANET_FIBER_MASK_YIELD", "JANET_FIBER_MASK_USER",
              "JANET_FIBER_STATUS_MASK", "JANET_FIBER_STATUS_OFFSET", "JANET_FIBER_RESUME_SIGNAL"):
        if k not in d or d[k][0]:
            raise ExtractError("fiber.h: %s not found" % k)
        env[k] = _ev(d[k][1], env)
    for i in range(10):
        k = "JANET_FIBER_MASK_USER%d" % i
        if k not in d:
            raise ExtractError("fiber.h: %s not found" % k)
        env[k] = _ev(d[k][1], env)
    if "JANET_FIBER_MASK_USERN" not in d or d["JANET_FIBER_MASK_USERN"][0] != "(N)":
        raise ExtractError("fiber.h: JANET_FIBER_MASK_USERN(N) not found")
    usern = [_ev(d["JANET_FIBER_MASK_USERN"][1], {"N": i}) for i in range(10)]
    m = re.search(r"#define\s+janet_fiber_set_status\(f,\s*s\)\s*do\s*\{\\\s*\(f\)->flags\s*&=\s*~JANET_FIBER_STATUS_MASK;\\\s*"
                  r"\(f\)->flags\s*\|=\s*\(s\)\s*<<\s*JANET_FIBER_STATUS_OFFSET;", fh)
    if not m:
        raise ExtractError("fiber.h: janet_fiber_set_status shape changed")

    fc = csrc.strip_comments(csrc.read(tree, "src/core/fiber.c"))
    body = csrc.func_body(fc, "janet_fiber_status")
    if not re.search(r"\(\(f\)->flags\s*&\s*JANET_FIBER_STATUS_MASK\)\s*>>\s*JANET_FIBER_STATUS_OFFSET", body):
        raise ExtractError("janet_fiber_status shape changed")
    m = re.search(r"fiber->flags\s*=\s*([A-Z_|\s]+);\s*fiber->env\s*=\s*NULL", fc)
    if not m:
        raise ExtractError("fiber_alloc default flags not found")
    default_mask = _ev(m.group(1), env | {"JANET_FIBER_RESUME_NO_USEVAL": 0, "JANET_FIBER_RESUME_NO_SKIP": 0})
    i = fc.find("cfun_fiber_new")
    j = fc.find("janet_arity", i)
    k = fc.find("return janet_wrap_fiber(fiber);", j)
    if min(i, j, k) < 0:
        raise ExtractError("cfun_fiber_new not found")
    new = fc[j:k]
    m = re.search(r"if\s*\(view\.bytes\[i\]\s*>=\s*'0'\s*&&\s*view\.bytes\[i\]\s*<=\s*'9'\)\s*\{\s*fiber->flags\s*\|=\s*"
                  r"JANET_FIBER_MASK_USERN\(view\.bytes\[i\]\s*-\s*'0'\);", new)
    if not m:
        raise ExtractError("cfun_fiber_new: digit case shape changed")
    if not re.search(r"fiber->flags\s*=\s*JANET_FIBER_RESUME_NO_USEVAL\s*\|\s*JANET_FIBER_RESUME_NO_SKIP;\s*"
                     r"janet_fiber_set_status\(fiber,\s*JANET_STATUS_NEW\);", new):
        raise ExtractError("cfun_fiber_new: mask reset / status new shape changed")
    letters = {}
    envmodes = {}
    for m in re.finditer(r"case\s+'(\w)'\s*:(.*?)break;", new, re.S):
        c, b = m.group(1), m.group(2)
        mm = re.search(r"fiber->flags\s*\|=\s*([A-Z0-9_|\s]+);", b)
        if mm:
            letters[c] = _ev(mm.group(1), env)
        elif "fiber->env->proto = janet_vm.fiber->env" in b and "fiber->env = janet_table(0)" in b:
            envmodes[c] = "proto"
        elif "fiber->env = janet_vm.fiber->env" in b:
            envmodes[c] = "inherit"
        else:
            raise ExtractError("cfun_fiber_new: case '%s' not recognised" % c)
    if sorted(letters) != sorted("atdeuywr") or envmodes != {"i": "inherit", "p": "proto"}:
        raise ExtractError("cfun_fiber_new: letter set changed: %s %s" % (sorted(letters), envmodes))

    vmr = csrc.strip_comments(csrc.read(tree, "src/core/vm.c"))       # csrc.func_body needs the line structure
    vm = _norm(vmr)
    ccr = _fb(vmr, "janet_check_can_resume")
    iroot = ccr.find("JANET_FIBER_FLAG_ROOT")
    m = re.search(r"if\s*\(((?:\s*\(?old_status\s*[=><]=\s*JANET_STATUS_\w+\s*(?:&&\s*old_status\s*<=\s*JANET_STATUS_\w+\))?\s*\|?\|?)+)\)\s*\{\s*"
                  r"const uint8_t \*str = janet_formatc\(\"cannot resume fiber with status :%s\"", ccr)
    if not m or iroot < 0 or iroot > m.start():
        raise ExtractError("janet_check_can_resume: shape changed")
    refuse = _status_set(m.group(1), stat)
    if not re.search(r"janet_vm\.fiber != NULL && \(fiber->gc\.flags & JANET_FIBER_FLAG_ROOT\)", ccr):
        raise ExtractError("janet_check_can_resume: root test changed")
    # the recursion guard: where it is tested relative to the refusals, and what it does to the refused fiber
    gm = list(re.finditer(r"if\s*\(janet_vm\.stackn >= JANET_RECURSION_GUARD\)\s*\{\s*janet_fiber_set_status\(fiber, JANET_STATUS_ERROR\);\s*"
                          r"\*out = janet_cstringv\(\"C stack recursed too deeply\"\);\s*return JANET_SIGNAL_ERROR;\s*\}", ccr))
    if len(gm) != 1:
        raise ExtractError("janet_check_can_resume: recursion guard block shape changed")
    if gm[0].start() > m.end() and gm[0].start() > iroot:
        guard_after = True
    elif gm[0].end() < m.start() and gm[0].end() < iroot:
        guard_after = False
    else:
        raise ExtractError("janet_check_can_resume: recursion guard sits between the root test and the status test")
    mg = re.search(r"^#define\s+JANET_RECURSION_GUARD\s+(\d+)\s*$", jh, re.M)
    if not mg:
        raise ExtractError("janet.h: JANET_RECURSION_GUARD not found")
    recursion_guard = int(mg.group(1))
    # every write to janet_vm.stackn, by site (the counter discipline mirrored by Fiber/Guard.lean runEvs / contN)
    ti = _fb(vmr, "janet_try_init")
    rs = _fb(vmr, "janet_restore")
    if not re.search(r"state->stackn = janet_vm\.stackn\+\+;", ti) or not re.search(r"janet_vm\.stackn = state->stackn;", rs):
        raise ExtractError("janet_try_init / janet_restore: stackn save / restore shape changed")
    jcall = _fb(vmr, "janet_call")
    if not re.search(r"if \(janet_vm\.stackn >= JANET_RECURSION_GUARD\)\s*janet_panic\(\"C stack recursed too deeply\"\);", jcall) or \
       not re.search(r"int32_t oldn = janet_vm\.stackn\+\+;.*?JanetSignal signal = run_vm\(janet_vm\.fiber, janet_wrap_nil\(\)\);.*?janet_vm\.stackn = oldn;", jcall, re.S) or \
       not re.search(r"janet_vm\.stackn\+\+;\s*vm_do_trace\(fun, argc, argv\);\s*janet_vm\.stackn--;", jcall):
        raise ExtractError("janet_call: recursion guard / stackn bracket shape changed")
    nwrites = len(re.findall(r"janet_vm\.stackn\s*(?:\+\+|--|=(?!=))", vm))
    if nwrites != 9:
        raise ExtractError("vm.c: %d writes to janet_vm.stackn, expected 9 (try_init, restore, child branch ++/--, janet_call ++/= and trace ++/--, janet_init)" % nwrites)
    import os as _os
    for fn in sorted(_os.listdir(_os.path.join(tree, "src/core"))):
        if fn.endswith(".c") and fn != "vm.c":
            other = csrc.strip_comments(csrc.read(tree, "src/core/" + fn))
            # other files may only bracket a callback with a balanced `stackn += n; … stackn -= n;` (compile.c, peg.c charge the
            # depth they used while a macro / cmt function runs): same discipline as janet_call's `oldn = stackn++ … stackn = oldn`
            if re.search(r"janet_vm\.stackn\s*(?:\+\+|--|=(?!=))", other):
                raise ExtractError("%s assigns janet_vm.stackn (only vm.c is modelled)" % fn)
            plus = sorted(re.findall(r"janet_vm\.stackn\s*\+=\s*(\w+)\s*;", other))
            minus = sorted(re.findall(r"janet_vm\.stackn\s*-=\s*(\w+)\s*;", other))
            if plus != minus:
                raise ExtractError("%s: unbalanced janet_vm.stackn += / -= (%s / %s)" % (fn, plus, minus))
    # the mask test at its four sites
    mask_test = r"if\s*\(sig != JANET_SIGNAL_OK && !\(child->flags & \(1 << sig\)\)\)"
    sites = {}
    for op in ("JOP_RESUME", "JOP_CANCEL"):
        a = vm.find("VM_OP(%s)" % op)
        b = vm.find("VM_OP(", a + 5)
        blk = _alpha(vm[a:b], [(r"JanetFiber \*(\w+) = janet_unwrap_fiber\(stack\[B\]\);", "child"),
                               (r"JanetSignal (\w+) = janet_continue_(?:no_check|signal)\(", "sig"),
                               (r"VM_OP\(\w+\) \{ Janet (\w+);", "retreg")])
        if not re.search(mask_test + r"\s*\{\s*vm_return\(sig, retreg\);", blk):
            raise ExtractError("%s: mask test shape changed" % op)
        if not re.search(r"fiber->child = child;", blk) or not re.search(r"fiber->child = NULL;", blk):
            raise ExtractError("%s: child chaining shape changed" % op)
        sites[op] = blk
    if "janet_check_can_resume(child, &retreg, 0)" not in sites["JOP_RESUME"] or "janet_continue_no_check(child, stack[C], &retreg)" not in sites["JOP_RESUME"]:
        raise ExtractError("JOP_RESUME: shape changed")
    m = re.search(r"janet_check_can_resume\(child, &retreg, 1\).*janet_continue_signal\(child, stack\[C\], &retreg, (JANET_SIGNAL_\w+)\)", sites["JOP_CANCEL"], re.S)
    if not m:
        raise ExtractError("JOP_CANCEL: shape changed")
    cancel_sig = sig[m.group(1)]
    a = vm.find("VM_OP(JOP_PROPAGATE)")
    blk = vm[a:vm.find("VM_OP(", a + 5)]
    m = re.search(r"if\s*\(sub_status > (JANET_STATUS_\w+)( \|\| sub_status == JANET_STATUS_DEAD)?\)\s*\{.*?cannot propagate from fiber with status :%s.*?\}\s*fiber->child = f;\s*vm_return\(\(int\) sub_status, stack\[B\]\);", blk, re.S)
    if not m:
        raise ExtractError("JOP_PROPAGATE: shape changed")
    prop_max = stat[m.group(1)]
    prop_refuses_dead = m.group(2) is not None
    a = vm.find("VM_OP(JOP_SIGNAL)")
    blk = vm[a:vm.find("VM_OP(", a + 5)]
    if not re.search(r"int32_t s = C;\s*if \(s > JANET_SIGNAL_USER9\) s = JANET_SIGNAL_USER9;\s*if \(s < 0\) s = 0;\s*vm_return\(s, stack\[B\]\);", blk):
        raise ExtractError("JOP_SIGNAL: shape changed")
    cnc = _alpha(_fb(vmr, "janet_continue_no_check"), [(r"JanetFiber \*(\w+) = fiber->child;", "child"),
                                                                 (r"JanetSignal (\w+) = janet_continue\(child,", "sig")])
    # the propagation branch: three independent assignments in any order, optionally the stale-link statement, then `return sig`
    m = re.search(mask_test + r"\s*\{([^{}]*?)return sig;\s*\}", cnc)
    if not m:
        raise ExtractError("janet_continue_no_check: propagation branch shape changed")
    st = _stmts(m.group(1))
    stale = "if (janet_fiber_status(child) == JANET_STATUS_ALIVE) fiber->child = NULL"
    stale_cleared = stale in st
    if sorted(x for x in st if x != stale) != sorted(["*out = in", "janet_fiber_set_status(fiber, sig)", "fiber->last_value = child->last_value"]):
        raise ExtractError("janet_continue_no_check: propagation branch statements changed: %r" % st)
    m = re.search(r"case JOP_NEXT:\s*\{\s*if\s*\(((?:\s*sig == JANET_SIGNAL_\w+\s*\|?\|?)+)\)\s*\{\s*in = janet_wrap_nil\(\);\s*\}\s*else\s*\{\s*in = janet_wrap_integer\(0\);", cnc)
    if not m:
        raise ExtractError("janet_continue_no_check: JOP_NEXT fix-up shape changed")
    next_nil_vm = sorted(sig[x] for x in re.findall(r"JANET_SIGNAL_\w+", m.group(1)))
    if re.search(r"uint32_t instr = [^;]*;\s*janet_fiber_set_status\(fiber, JANET_STATUS_ALIVE\);\s*janet_vm\.stackn\+\+;\s*JanetSignal sig = janet_continue\(child, in, &in\);\s*janet_vm\.stackn--;", cnc):
        chain_alive = True
    elif re.search(r"uint32_t instr = [^;]*;\s*janet_vm\.stackn\+\+;\s*JanetSignal sig = janet_continue\(child, in, &in\);\s*janet_vm\.stackn--;", cnc):
        chain_alive = False
    else:
        raise ExtractError("janet_continue_no_check: child branch shape changed")
    if not re.search(r"\}\s*fiber->child = NULL;\s*\}", cnc):
        raise ExtractError("janet_continue_no_check: child not cleared after delivery")
    if not re.search(r"janet_fiber_set_status\(fiber, JANET_STATUS_ALIVE\);\s*sig = run_vm\(fiber, in\);", cnc) or \
       not re.search(r"janet_fiber_set_status\(fiber, sig\);\s*janet_restore\(&tstate\);\s*fiber->last_value = tstate\.payload;", cnc):
        raise ExtractError("janet_continue_no_check: status transitions shape changed")
    m = re.search(r"if \(old_status == JANET_STATUS_NEW && !janet_checktype\(in, JANET_NIL\)\) \{\s*Janet \*stack = fiber->data \+ fiber->frame;\s*"
                  r"JanetFunction \*func = janet_stack_frame\(stack\)->func;\s*if \(func\) \{\s*if \(func->def->(arity|min_arity) > 0\) \{\s*stack\[0\] = in;\s*\}\s*"
                  r"else if \(func->def->flags & JANET_FUNCDEF_FLAG_VARARG\) \{\s*stack\[0\] = janet_wrap_tuple\(janet_tuple_n\(&in, 1\)\);", cnc)
    if not m:
        raise ExtractError("janet_continue_no_check: binding of the first resume value shape changed")
    first_uses_arity = m.group(1) == "arity"
    mm = re.search(r"if \(func->def->min_arity > (\d+)\) \{\s*janet_panicf\(\"fiber function must accept 0 or 1 arguments\"\);\s*\}\s*"
                   r"fiber = janet_fiber\(func, 64, func->def->min_arity, NULL\);", fc)
    if not mm:
        raise ExtractError("cfun_fiber_new: arity check shape changed")
    new_max_min_arity = int(mm.group(1))
    cs = _fb(vmr, "janet_continue_signal")
    walk_refuses_root = False
    tail = r".*child->gc\.flags \|= sig << JANET_FIBER_STATUS_OFFSET;\s*child->flags \|= JANET_FIBER_RESUME_SIGNAL;"
    if re.search(r"JanetFiber \*child = fiber;\s*while \(child->child\) child = child->child;" + tail, cs, re.S):
        walk_guarded = False
    elif re.search(r"JanetFiber \*child = fiber;\s*JanetFiber \*slow = fiber;\s*int step = 0;\s*"
                   r"while \(child->child && janet_fiber_status\(child->child\) != JANET_STATUS_ALIVE\) \{\s*child = child->child;\s*"
                   r"if \(step\+\+ & 1\) slow = slow->child;\s*if \(child == slow\) break;\s*\}" + tail, cs, re.S):
        walk_guarded = True
    elif re.search(r"JanetFiber \*child = fiber;\s*JanetFiber \*slow = fiber;\s*int step = 0;\s*"
                   r"while \(child->child && janet_fiber_status\(child->child\) != JANET_STATUS_ALIVE\) \{\s*child = child->child;\s*"
                   r"if \(child->gc\.flags & JANET_FIBER_FLAG_ROOT\) \{\s*(?:#ifdef JANET_EV\s*)?\*out = janet_cstringv\(\"cannot cancel root fiber, use ev/cancel\"\);\s*"
                   r"(?:#else\s*\*out = janet_cstringv\(\"cannot cancel root fiber\"\);\s*#endif\s*)?return JANET_SIGNAL_ERROR;\s*\}\s*"
                   r"if \(step\+\+ & 1\) slow = slow->child;\s*if \(child == slow\) break;\s*\}" + tail, cs, re.S):
        # the walk refuses a descendant that is a task of the event loop before anything is marked
        walk_guarded = True
        walk_refuses_root = True
    else:
        raise ExtractError("janet_continue_signal: shape changed")
    # run_vm start: pending signal
    if not re.search(r"if \(fiber->flags & JANET_FIBER_RESUME_SIGNAL\) \{\s*JanetSignal sig = \(fiber->gc\.flags & JANET_FIBER_STATUS_MASK\) >> JANET_FIBER_STATUS_OFFSET;"
                     r".*?janet_vm\.return_reg\[0\] = in;\s*return sig;", vm, re.S):
        raise ExtractError("run_vm: RESUME_SIGNAL prologue shape changed")
    jc = _fb(vmr, "janet_call")
    if not re.search(r"if \(signal != JANET_SIGNAL_ERROR\) \{\s*\*janet_vm\.return_reg = janet_wrap_string\(janet_formatc\(\"%v coerced from %s to error\", \*janet_vm\.return_reg, janet_signal_names\[signal\]\)\);", jc):
        raise ExtractError("janet_call: coercion shape changed")
    capi = csrc.strip_comments(csrc.read(tree, "src/core/capi.c"))
    sv = csrc.func_body(capi, "janet_signalv")
    if not re.search(r"if \(janet_vm\.coerce_error && sig != JANET_SIGNAL_OK\) \{.*?if \(sig != JANET_SIGNAL_ERROR\) \{\s*message = janet_wrap_string\(janet_formatc\(\"%v coerced from %s to error\", message, janet_signal_names\[sig\]\)\);\s*\}\s*sig = JANET_SIGNAL_ERROR;", sv, re.S):
        raise ExtractError("janet_signalv: coercion shape changed")

    valr = csrc.strip_comments(csrc.read(tree, "src/core/value.c"))
    val = _norm(valr)
    nx = _fb(valr, "janet_next_impl")
    a = nx.find("case JANET_FIBER:")
    nxf = _alpha(nx[a:], [(r"JanetFiber \*(\w+) = janet_unwrap_fiber\(ds\);", "child"),
                          (r"JanetSignal (\w+) = janet_continue\(child,", "sig"),
                          (r"JanetFiberStatus (\w+) = janet_fiber_status\(child\);", "status")])
    m = re.search(r"if\s*\(((?:\s*status == JANET_STATUS_\w+\s*\|?\|?)+)\)\s*\{\s*return janet_wrap_nil\(\);", nxf)
    if not m:
        raise ExtractError("janet_next_impl: status pre-check shape changed")
    next_skip = _status_set(m.group(1), stat)
    if not re.search(r"janet_vm\.fiber->child = child;\s*JanetSignal sig = janet_continue\(child, janet_wrap_nil\(\), &retreg\);\s*" + mask_test, nxf):
        raise ExtractError("janet_next_impl: resume / mask test shape changed")
    m = re.search(r"janet_vm\.fiber->child = NULL;\s*if\s*\(((?:\s*sig == JANET_SIGNAL_\w+\s*\|?\|?)+)\)\s*\{\s*return janet_wrap_nil\(\);\s*\}\s*else\s*\{\s*return janet_wrap_integer\(0\);", nxf)
    if not m:
        raise ExtractError("janet_next_impl: result shape changed")
    next_nil = sorted(sig[x] for x in re.findall(r"JANET_SIGNAL_\w+", m.group(1)))
    if next_nil != next_nil_vm:
        raise ExtractError("next: nil-signal sets differ between value.c %s and vm.c %s" % (next_nil, next_nil_vm))
    m = re.search(r"case JANET_FIBER:\s*\{\s*if \(janet_equals\(key, janet_wrap_integer\(0\)\)\) \{\s*return janet_unwrap_fiber\(ds\)->last_value;", val)
    if not m:
        raise ExtractError("janet_in on fibers: last_value shape changed")

    # writes to the RUNNING fiber's environment pointer (`janet_vm.fiber->env = …`), all of src/core: each must be the
    # allocate-when-NULL idiom mirrored by Fiber/Model.lean ensureEnv (the premise of `denv_never_reassigned`); the one
    # known other site is the `compile` cfunction (`if (NULL == env) { env = janet_table(0); janet_vm.fiber->env = env; }`: also only
    # when the fiber has none).  Outside the model: fiber/setenv and fiber/new's explicit env argument, which assign
    # `fiber->env` of their OPERAND — the theorem is about the instruction set of the model (setdyn / dyn / fiber/new letters)
    import os as _os2
    env_alloc, env_other, env_by_file = 0, [], {}
    for fn in sorted(_os2.listdir(_os2.path.join(tree, "src/core"))):
        if not fn.endswith(".c"):
            continue
        txt = _norm(csrc.strip_comments(csrc.read(tree, "src/core/" + fn)))
        for mm in re.finditer(r"janet_vm\.fiber->env = ([^;]*);", txt):
            pre = txt[max(0, mm.start() - 40):mm.start()]
            if re.search(r"if \(!janet_vm\.fiber->env\) \{? ?$", pre) and re.fullmatch(r"janet_table\(\d+\)", mm.group(1)):
                env_alloc += 1
                env_by_file[fn] = env_by_file.get(fn, 0) + 1
            else:
                env_other.append("%s: janet_vm.fiber->env = %s" % (fn, mm.group(1)))
    if env_other != ["compile.c: janet_vm.fiber->env = env"]:
        raise ExtractError("the running fiber's env is assigned outside the allocate-when-NULL idiom: %r" % env_other)
    if (env_by_file.get("capi.c"), env_by_file.get("corelib.c"), env_by_file.get("fiber.c")) != (1, 1, 2):
        raise ExtractError("allocate-when-NULL sites of janet_vm.fiber->env changed: %r (expected capi.c janet_setdyn 1, corelib.c setdyn 1, fiber.c letters i / p 2)" % env_by_file)
    cl = csrc.strip_comments(csrc.read(tree, "src/core/corelib.c"))
    m = re.search(r"int32_t s = janet_unwrap_integer\(argv\[0\]\);\s*if \(s < 0 \|\| s > (\d+)\) \{.*?\}\s*janet_signalv\((JANET_SIGNAL_\w+) \+ s, payload\);", cl, re.S)
    if not m:
        raise ExtractError("janet_core_signal: shape changed")
    user_max, user_base = int(m.group(1)), sig[m.group(2)]
    return dict(sig=sig, stat=stat, signames=signames, statnames=statnames, env=env, usern=usern, default_mask=default_mask,
                letters=letters, envmodes=envmodes, refuse=refuse, cancel_sig=cancel_sig, prop_max=prop_max, next_nil=next_nil,
                next_skip=next_skip, user_max=user_max, user_base=user_base, walk_guarded=walk_guarded, walk_refuses_root=walk_refuses_root, stale_cleared=stale_cleared, chain_alive=chain_alive, prop_refuses_dead=prop_refuses_dead, first_uses_arity=first_uses_arity, new_max_min_arity=new_max_min_arity,
                guard_after=guard_after, recursion_guard=recursion_guard, env_alloc=env_alloc)


def render(tree):
    x = extract(tree)
    o = [csrc.lean_header("src/include/janet.h, src/core/{fiber.h,fiber.c,vm.c,value.c,util.c,capi.c,corelib.c}"), "namespace JanetModel.Gen.Fiber\n"]
    lst = lambda xs: "[" + ", ".join(str(v) for v in xs) + "]"
    o.append("/-- JanetSignal (janet.h) -/")
    for k, v in x["sig"].items():
        o.append("abbrev %s : Nat := %d" % ("sig" + k[len("JANET_SIGNAL_"):].capitalize(), v))
    o.append("\n/-- JanetFiberStatus (janet.h) -/")
    for k, v in x["stat"].items():
        o.append("abbrev %s : Nat := %d" % ("st" + k[len("JANET_STATUS_"):].capitalize(), v))
    o.append("\nabbrev signalNames : List String := [" + ", ".join('"%s"' % s for s in x["signames"]) + "]")
    o.append("abbrev statusNames : List String := [" + ", ".join('"%s"' % s for s in x["statnames"]) + "]")
    o.append("\n/-- fiber.h masks: bit `1 <<< sig` of the flag word -/")
    o.append("abbrev maskError : Nat := %d" % x["env"]["JANET_FIBER_MASK_ERROR"])
    o.append("abbrev maskDebug : Nat := %d" % x["env"]["JANET_FIBER_MASK_DEBUG"])
    o.append("abbrev maskYield : Nat := %d" % x["env"]["JANET_FIBER_MASK_YIELD"])
    o.append("abbrev maskUser : Nat := %d" % x["env"]["JANET_FIBER_MASK_USER"])
    o.append("abbrev maskUserN : List Nat := " + lst(x["usern"]))
    o.append("abbrev maskUserNamed : List Nat := " + lst([x["env"]["JANET_FIBER_MASK_USER%d" % i] for i in range(10)]))
    o.append("abbrev statusFieldMask : Nat := %d" % x["env"]["JANET_FIBER_STATUS_MASK"])
    o.append("abbrev statusFieldOffset : Nat := %d" % x["env"]["JANET_FIBER_STATUS_OFFSET"])
    o.append("abbrev defaultMask : Nat := %d" % x["default_mask"])
    o.append("\n/-- `fiber/new` mask letters (cfun_fiber_new): letter code point -> bits or-ed into the flag word -/")
    o.append("abbrev maskLetters : List (Nat × Nat) := [" + ", ".join("(%d, %d)" % (ord(c), v) for c, v in sorted(x["letters"].items())) + "]")
    o.append("abbrev letterInherit : Nat := %d" % ord([c for c, v in x["envmodes"].items() if v == "inherit"][0]))
    o.append("abbrev letterProto : Nat := %d" % ord([c for c, v in x["envmodes"].items() if v == "proto"][0]))
    o.append("\n/-- statuses refused by janet_check_can_resume (after the root-fiber test) -/")
    o.append("abbrev refuseResume : List Nat := " + lst(x["refuse"]))
    o.append("/-- statuses for which `next` answers nil without resuming (janet_next_impl) -/")
    o.append("abbrev nextSkip : List Nat := " + lst(x["next_skip"]))
    o.append("/-- signals after which `next` answers nil (else 0); identical in value.c and the JOP_NEXT fix-up of vm.c -/")
    o.append("abbrev nextNil : List Nat := " + lst(x["next_nil"]))
    o.append("/-- JOP_CANCEL injects this signal -/")
    o.append("abbrev cancelSignal : Nat := %d" % x["cancel_sig"])
    o.append("/-- JOP_PROPAGATE refuses statuses above this one -/")
    o.append("abbrev propagateMaxStatus : Nat := %d" % x["prop_max"])
    o.append("/-- (signal n x): signal number = userBase + n for 0 <= n <= userMax -/")
    o.append("abbrev userBase : Nat := %d" % x["user_base"])
    o.append("abbrev userMax : Nat := %d" % x["user_max"])
    o.append("/-- janet_continue_signal's walk to the innermost child stops at a running child and breaks cycles -/")
    o.append("abbrev cancelWalkGuarded : Bool := %s" % ("true" if x["walk_guarded"] else "false"))
    o.append("/-- that walk refuses (\"cannot cancel root fiber, use ev/cancel\") when it meets a descendant with JANET_FIBER_FLAG_ROOT, before it marks anything -/")
    o.append("abbrev cancelWalkRefusesRoot : Bool := %s" % ("true" if x["walk_refuses_root"] else "false"))
    o.append("/-- janet_continue_no_check drops `fiber->child` when that child refused because it is alive -/")
    o.append("abbrev staleChildCleared : Bool := %s" % ("true" if x["stale_cleared"] else "false"))
    o.append("/-- janet_continue_no_check marks a fiber alive before continuing its child (pass-through activation) -/")
    o.append("abbrev chainAliveMarked : Bool := %s" % ("true" if x["chain_alive"] else "false"))
    o.append("/-- JOP_PROPAGATE refuses a dead fiber (its status would be signal ok = a return out of the current frame) -/")
    o.append("abbrev propagateRefusesDead : Bool := %s" % ("true" if x["prop_refuses_dead"] else "false"))
    o.append("/-- a new fiber's first non-nil resume value goes to parameter slot 0 when `arity > 0` (true) resp. `min_arity > 0` (false) -/")
    o.append("abbrev firstValueUsesArity : Bool := %s" % ("true" if x["first_uses_arity"] else "false"))
    o.append("/-- fiber/new refuses functions with more required parameters than this -/")
    o.append("abbrev newMaxMinArity : Nat := %d" % x["new_max_min_arity"])
    o.append("/-- JANET_RECURSION_GUARD (janet.h) -/")
    o.append("abbrev recursionGuard : Nat := %d" % x["recursion_guard"])
    o.append("/-- janet_check_can_resume tests the recursion guard AFTER the root and status refusals (true), so that the guard's\n"
             "    `janet_fiber_set_status(fiber, JANET_STATUS_ERROR)` only ever hits a fiber that could otherwise be resumed -/")
    o.append("abbrev guardAfterRefusals : Bool := %s" % ("true" if x["guard_after"] else "false"))
    o.append("/-- `janet_vm.fiber->env = janet_table(n)` sites in src/core, every one guarded by `if (!janet_vm.fiber->env)` (ensureEnv) -/")
    o.append("abbrev envAllocWhenNullSites : Nat := %d" % x["env_alloc"])
    o.append("\nend JanetModel.Gen.Fiber\n")
    return "\n".join(o)
