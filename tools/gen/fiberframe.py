"""Translator: shape of the frame set-up functions in fiber.c that `Bytecode/Exec.mkRegs` models
(`janet_fiber_funcframe`, `janet_fiber_funcframe_tail`)  ->  Gen/FiberFrame.lean.

`mkRegs` gives every slot that is not an argument the value nil and packs the surplus arguments into a tuple / struct, for
calls and tail calls alike.  That is what the C does only if (1) the normal call nils everything from the old stack top to the
new one, (2) the tail call nils the gap between the last pushed argument and the vararg slot and (3) nils the locals above the
moved arguments.  The presence of these three loops (and of the arity checks) is extracted; Props/C02 checks the flags."""
import re
from . import csrc
from .csrc import ExtractError


def _func(src, name):
    m = re.search(r"^int\s+%s\s*\(" % name, src, re.M)
    if not m:
        raise ExtractError("%s not found in fiber.c" % name)
    i = src.index("{", m.end())
    return src[i:csrc.match_brace(src, i)]


def extract(tree):
    src = csrc.strip_comments(csrc.read(tree, "src/core/fiber.c"))
    call = _func(src, "janet_fiber_funcframe")
    tail = _func(src, "janet_fiber_funcframe_tail")
    ws = lambda t: re.sub(r"\s+", "", t)
    c, t = ws(call), ws(tail)
    ms = re.search(r"static\s+Janet\s+make_struct_n\s*\(", src)
    if not ms:
        raise ExtractError("make_struct_n not found in fiber.c")
    j = src.index("{", ms.end())
    mk = ws(src[j:csrc.match_brace(src, j)])
    flags = {
        # keyword arguments are packed from complete key-value pairs only (never reads args[n])
        "structPairsBounded": "for(;i+1<n;i+=2){janet_struct_put(st,args[i],args[i+1]);}" in mk,
        "callArityChecks": "if(next_arity<func->def->min_arity)return1;" in c and "if(next_arity>func->def->max_arity)return1;" in c,
        "callNilFill": "for(i=fiber->stacktop;i<nextstacktop;++i){fiber->data[i]=janet_wrap_nil();}" in c,
        "tailArityChecks": "if(next_arity<func->def->min_arity)return1;" in t and "if(next_arity>func->def->max_arity)return1;" in t,
        "tailNilFillBeforeVararg": "for(i=fiber->stacktop;i<tuplehead;++i)fiber->data[i]=janet_wrap_nil();" in t,
        "tailNilFillLocals": "for(i=fiber->frame+stacksize;i<nextframetop;++i)fiber->data[i]=janet_wrap_nil();" in t,
        "tailVarargPack": "make_struct_n(fiber->data+tuplehead,fiber->stacktop-tuplehead)" in t and "janet_tuple_n(fiber->data+tuplehead,fiber->stacktop-tuplehead)" in t,
        "callVarargPack": "make_struct_n(fiber->data+tuplehead,oldtop-tuplehead)" in c and "janet_tuple_n(fiber->data+tuplehead,oldtop-tuplehead)" in c,
    }
    return flags


def render(tree):
    flags = extract(tree)
    o = [csrc.lean_header("src/core/fiber.c"), "namespace JanetModel.Gen.FiberFrame\n"]
    for k in sorted(flags):
        o.append("abbrev %s : Bool := %s" % (k, "true" if flags[k] else "false"))
    o.append("\nend JanetModel.Gen.FiberFrame\n")
    return "\n".join(o)
