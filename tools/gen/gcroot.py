"""C01 translator: which C functions can be interrupted by a collection  ->  Gen/GCRoot.lean.

Route (IR level, the reader of tools/gen/llvmir.py and the cached `clang-14 -S -emit-llvm -O0` of the bootstrapped
amalgamation that tools/gen/callgraph.py produces for C19): the whole-program call graph

    direct calls  +  indirect calls over-approximated by "every address-taken function with the same LLVM function type"
                  +  F -> g whenever the body of F mentions the address of g other than as a callee (callbacks handed to
                     libc: qsort, pthread_create, signal ...)

A collection is the function `janet_collect` and nothing else (asserted here: `janet_sweep` has no other direct caller in
the library, `janet_deinit_block` is called by the sweep and by janet_clear_memory only, `janet_gcalloc` does not reach
janet_collect).  Emitted:

    edges            every call edge, a * 4096 + b over the function numbering (names sorted)
    mayCollectMask   UNTRUSTED certificate: bit f set = f is claimed to be able to reach janet_collect.  Lean re-checks that
                     the complement is closed under call edges (GC/RootWin.lean, `closedOK`), which is all that is needed for
                     "a function outside the mask can never be interrupted by a collection".
    family           the delimited family the rooting certificate is about: value builders (janet_*_begin / _end / _n,
                     janet_table_clone, janet_array_n ...), marshal / unmarshal, PEG compilation, the parser
    beginEndRows     every call made between a janet_{tuple,struct,string,abstract}_begin and the matching _end on some
                     control-flow path of ANY function of the library (the unfinished object is held in a C local there):
                     (function, builder, callee); indirect calls contribute every type-compatible callee
    beginEndEscapes  builder calls with a path to `ret` that does not pass the matching _end (the unfinished object leaves
                     the function): must be empty
    mayWindows       for every function that CAN be interrupted by a collection: the number of pairs (call that returns a value
                     and can allocate, later call on some path that can collect) - the windows whose protection (value already
                     on the fiber stack / gclock / dead afterwards) is NOT certified statically; listed, tested only.
"""
import re

from . import llvmir
from .csrc import ExtractError, lean_header

PAIRS = {"janet_tuple_begin": "janet_tuple_end", "janet_struct_begin": "janet_struct_end", "janet_string_begin": "janet_string_end",
         "janet_abstract_begin": "janet_abstract_end", "janet_abstract_begin_threaded": "janet_abstract_end_threaded"}

# the family: names that must exist, and name patterns that add whatever matches
FAMILY_REQUIRED = [
    "janet_gcalloc", "janet_tuple_begin", "janet_tuple_end", "janet_tuple_n", "janet_struct_begin", "janet_struct_put", "janet_struct_put_ext",
    "janet_struct_end", "janet_string_begin", "janet_string_end", "janet_string", "janet_cstring", "janet_symbol", "janet_csymbol",
    "janet_abstract_begin", "janet_abstract_end", "janet_abstract", "janet_table_clone", "janet_array_n", "janet_array", "janet_table",
    "janet_table_init", "janet_table_to_struct", "janet_struct_to_table", "janet_buffer", "janet_fiber", "janet_thunk",
    "janet_marshal", "marshal_one", "janet_unmarshal", "unmarshal_one", "janet_parser_init", "janet_parser_consume", "janet_parser_eof",
    "janet_parser_produce", "janet_parser_clone",
]
FAMILY_PATTERNS = [r"(un)?marshal_\w+", r"janet_(un)?marshal\w*", r"cfun_(un)?marshal", r"janet_parser_\w+", r"cfun_parse_\w+", r"spec_\w+",
                   r"peg_compile1", r"compile_peg", r"make_peg", r"cfun_peg_compile", r"janet_(tuple|struct|string|abstract)_(begin|end)\w*"]


def graph(build):
    """-> (names sorted, succ {name: set(names)}, llvmir module, cg IR, by_sig)"""
    from . import callgraph as cg
    irp = cg.emit_ir(build)
    ir = cg.parse_ir(irp)
    with open(irp) as f:
        m = llvmir.parse(f.read())
    if len(ir.funcs) < 1000 or set(ir.funcs) != set(m.functions):
        raise ExtractError("IR readers disagree on the set of functions (%d / %d)" % (len(ir.funcs), len(m.functions)))
    by_sig = {}
    for nm in ir.addr_taken:
        by_sig.setdefault(ir.funcs[nm]["sig"], []).append(nm)
    succ = {}
    for a, f in ir.funcs.items():
        s = set(x for x in f["calls"] if x in ir.funcs)
        for sig in f["icalls"]:
            s.update(by_sig.get(sig, ()))
        for blk in m.functions[a].blocks:
            for ins in blk.insts:
                for r in ins.refs:
                    if r in ir.funcs:
                        s.add(r)
        succ[a] = s
    return sorted(ir.funcs), succ, m, ir, by_sig


def backward(succ, target):
    pred = {}
    for a, s in succ.items():
        for x in s:
            pred.setdefault(x, set()).add(a)
    seen, st = set(), [target]
    while st:
        x = st.pop()
        if x in seen:
            continue
        seen.add(x)
        st.extend(pred.get(x, ()))
    return seen


def call_sites(F, icsigs, by_sig):
    """[(block label, index, [possible callees], returns a value)] in block order"""
    out, k = [], 0
    for B in F.blocks:
        for j, x in enumerate(B.insts):
            if x.kind == "call" and x.callee and not x.callee.startswith("llvm."):
                out.append((B.label, j, [x.callee], x.result is not None))
            elif x.kind == "icall":
                if k >= len(icsigs):
                    raise ExtractError("indirect call sites of %s: the two IR readers disagree" % F.name)
                out.append((B.label, j, sorted(by_sig.get(icsigs[k], ())), x.result is not None))
                k += 1
    if k != len(icsigs):
        raise ExtractError("indirect call sites of %s: the two IR readers disagree (%d / %d)" % (F.name, k, len(icsigs)))
    return out


def lock_states(F):
    """must-analysis on the CFG of F: is the collector suspended by F itself (a janet_gclock not yet undone by a janet_gcunlock
    on EVERY path from the entry) at the entry of each block"""
    preds = {B.label: [] for B in F.blocks}
    for B in F.blocks:
        for s_ in B.succs:
            preds[s_].append(B.label)

    def transfer(B, st):
        for x in B.insts:
            if x.kind == "call" and x.callee == "janet_gclock":
                st = True
            elif x.kind == "call" and x.callee == "janet_gcunlock":
                st = False
        return st
    entry = F.blocks[0].label
    IN = {B.label: True for B in F.blocks}
    IN[entry] = False
    changed = True
    while changed:
        changed = False
        for B in F.blocks:
            if B.label == entry:
                v = False
            else:
                v = bool(preds[B.label]) and all(transfer(F.bmap[q], IN[q]) for q in preds[B.label])
            if v != IN[B.label]:
                IN[B.label] = v
                changed = True
    return IN


def unlocked_graph(names, succ, m, ir, by_sig):
    """the call edges that exist at a call site OUTSIDE every janet_gclock .. janet_gcunlock region of the caller; -> (succ_u, lock users, number of locked sites)"""
    succ_u, users, nlocked = {}, [], 0
    for a in names:
        F = m.functions[a]
        if not any(x.kind == "call" and x.callee == "janet_gclock" for B in F.blocks for x in B.insts):
            succ_u[a] = set(succ[a])
            continue
        users.append(a)
        IN = lock_states(F)
        sd = {(l, j): cs for l, j, cs, _ in call_sites(F, list(ir.funcs[a]["icalls"]), by_sig)}
        s = set()
        for B in F.blocks:
            st = IN[B.label]
            for j, x in enumerate(B.insts):
                if x.kind == "call" and x.callee == "janet_gclock":
                    st = True
                elif x.kind == "call" and x.callee == "janet_gcunlock":
                    st = False
                if (B.label, j) in sd:
                    if st and x.callee not in ("janet_gclock", "janet_gcunlock"):
                        nlocked += 1
                    else:
                        s.update(c for c in sd[(B.label, j)] if c in ir.funcs)
                if not st:
                    s.update(r for r in x.refs if r in ir.funcs)
        succ_u[a] = s
    return succ_u, users, nlocked


def extract(build):
    names, succ, m, ir, by_sig = graph(build)
    succ_u, lock_users, nlocked = unlocked_graph(names, succ, m, ir, by_sig)
    for a in names:
        if not succ_u[a] <= succ[a]:
            raise ExtractError("unlocked call edges of %s are not a subset of its call edges" % a)
    for need in ("janet_gclock", "janet_gcunlock"):
        if need not in succ:
            raise ExtractError("%s not found in the IR" % need)
    if "janet_call" not in lock_users or "run_vm" in succ_u["janet_call"]:
        raise ExtractError("janet_call does not run the interpreter under janet_gclock")
    idx = {n: i for i, n in enumerate(names)}
    if len(names) >= 4096:
        raise ExtractError("more than 4095 functions: edge encoding too narrow")
    for need in ("janet_collect", "janet_gcalloc", "janet_sweep", "janet_deinit_block", "janet_mark"):
        if need not in idx:
            raise ExtractError("%s not found in the IR" % need)
    # a collection is janet_collect and nothing else
    sweep_callers = sorted(a for a, s in succ.items() if "janet_sweep" in s)
    if sweep_callers != ["janet_collect"]:
        raise ExtractError("janet_sweep is called by %s (expected: janet_collect only)" % sweep_callers)
    deinit_callers = sorted(a for a, s in succ.items() if "janet_deinit_block" in s)
    if not set(deinit_callers) <= {"janet_sweep", "janet_clear_memory"} or "janet_sweep" not in deinit_callers:
        raise ExtractError("janet_deinit_block is called by %s (expected: janet_sweep, janet_clear_memory)" % deinit_callers)
    may = backward(succ, "janet_collect")
    may_u = backward(succ_u, "janet_collect")      # reachable without passing a call site inside a gclock region
    alloc = backward(succ, "janet_gcalloc")
    # ---- family
    fam = []
    for n in FAMILY_REQUIRED:
        if n not in idx:
            raise ExtractError("family function %s not found in the IR" % n)
        fam.append(n)
    pat = re.compile("^(?:" + "|".join(FAMILY_PATTERNS) + ")$")
    fam = sorted(set(fam) | set(n for n in names if pat.match(n)))
    # everything the family can call belongs to it as well (the certificate is about the closure)
    clo, st = set(), list(fam)
    while st:
        x = st.pop()
        if x in clo:
            continue
        clo.add(x)
        st.extend(succ[x])
    # ---- begin ... end windows, every function
    rows, escapes = set(), set()
    for name in names:
        F = m.functions[name]
        sites = None
        for B in F.blocks:
            for ii, ins in enumerate(B.insts):
                if not (ins.kind == "call" and ins.callee in PAIRS):
                    continue
                if sites is None:
                    sites = {(l, j): cs for l, j, cs, _ in call_sites(F, list(ir.funcs[name]["icalls"]), by_sig)}
                end = PAIRS[ins.callee]
                seen, work = set(), [(B.label, ii + 1)]
                while work:
                    lab, start = work.pop()
                    blk = F.bmap[lab]
                    stopped = False
                    for j in range(start, len(blk.insts)):
                        x = blk.insts[j]
                        if x.kind == "call" and x.callee == end:
                            stopped = True
                            break
                        for c in sites.get((lab, j), ()):
                            rows.add((name, ins.callee, c))
                    if stopped:
                        continue
                    if blk.term == "ret" and name != end:
                        escapes.add((name, ins.callee))
                    for s_ in blk.succs:
                        if s_ not in seen:
                            seen.add(s_)
                            work.append((s_, 0))
    for _, _, c in rows:
        if c not in idx and c not in ir.declared:
            raise ExtractError("callee %s of a builder window is neither defined nor declared" % c)
    # ---- allocation -> collection windows inside the functions that can collect (listed, not certified)
    may_windows = []
    for name in sorted(may_u):
        F = m.functions[name]
        reach = {}
        for B in F.blocks:
            seen, st = set(), list(B.succs)
            while st:
                x = st.pop()
                if x in seen:
                    continue
                seen.add(x)
                st.extend(F.bmap[x].succs)
            reach[B.label] = seen
        sites = call_sites(F, list(ir.funcs[name]["icalls"]), by_sig)
        n = 0
        for la, ja, ca, ra in sites:
            if not ra or not any(c in alloc for c in ca):
                continue
            for lc, jc, cc, _ in sites:
                if any(c in may_u for c in cc) and ((lc == la and jc > ja) or lc in reach[la]):
                    n += 1
        may_windows.append((name, n))
    return dict(names=names, idx=idx, succ=succ, may=may, alloc=alloc, family=fam, family_closure=sorted(clo), rows=sorted(rows),
                escapes=sorted(escapes), may_windows=may_windows, declared=ir.declared, succ_u=succ_u, may_u=may_u, lock_users=lock_users,
                locked_sites=nlocked)


def render(build):
    g = extract(build)
    names, idx = g["names"], g["idx"]
    edges = sorted(idx[a] * 4096 + idx[b] for a, s in g["succ_u"].items() for b in s)
    edges_locked = sorted(idx[a] * 4096 + idx[b] for a, s in g["succ"].items() for b in s if b not in g["succ_u"][a])
    mask = mask_u = 0
    for f in g["may"]:
        mask |= 1 << idx[f]
    for f in g["may_u"]:
        mask_u |= 1 << idx[f]
    ext_rows = sorted(set(r for r in g["rows"] if r[2] not in idx))
    rows = [r for r in g["rows"] if r[2] in idx]
    L = [lean_header("whole-program LLVM IR of the bootstrapped amalgamation: call graph"), "namespace JanetModel.Gen.GCRoot\n"]
    L.append("/-- the functions defined in the library, sorted by name; a function's number is its position -/")
    L.append("abbrev fnNames : Array String := #[\n  " + ",\n  ".join(", ".join('"%s"' % n for n in names[i:i + 6]) for i in range(0, len(names), 6)) + "]\n")
    L.append("abbrev nFuncs : Nat := %d" % len(names))
    L.append("abbrev collectId : Nat := %d   -- janet_collect" % idx["janet_collect"])
    L.append("abbrev gcallocId : Nat := %d   -- janet_gcalloc" % idx["janet_gcalloc"])
    if "run_vm" not in idx or "janet_collect" not in g["succ"]["run_vm"]:
        raise ExtractError("run_vm does not call janet_collect directly (the interpreter's safepoints)")
    L.append("abbrev runVmId : Nat := %d   -- run_vm (calls janet_collect at its safepoints)\n" % idx["run_vm"])
    L.append("/-- call edges caller * 4096 + callee: direct calls, indirect calls to every address-taken function of the same function")
    L.append("type, and caller -> g where the caller's body mentions the address of g.  `edgesU`: the edges that exist at a call site")
    L.append("OUTSIDE every janet_gclock .. janet_gcunlock region of the caller (must-analysis on the caller's control-flow graph);")
    L.append("`edgesLocked`: the edges that exist only at call sites inside such a region (%d call sites, in %s) -/" % (g["locked_sites"], ", ".join(g["lock_users"])))
    CH = 512     # a single list literal of several thousand elements exceeds the elaborator's recursion depth
    chunks = [edges[i:i + CH] for i in range(0, len(edges), CH)]
    for k, ch in enumerate(chunks):
        L.append("def edgesU%d : List Nat := [\n  " % k + ",\n  ".join(", ".join(str(e) for e in ch[i:i + 16]) for i in range(0, len(ch), 16)) + "]")
    L.append("def edgesU : List Nat := " + " ++ ".join("edgesU%d" % k for k in range(len(chunks))))
    L.append("def edgesLocked : List Nat := [" + ", ".join(str(e) for e in edges_locked) + "]")
    L.append("def edges : List Nat := edgesU ++ edgesLocked")
    L.append("abbrev lockUsers : List Nat := [" + ", ".join(str(idx[n]) for n in g["lock_users"]) + "]\n")
    L.append("/-- UNTRUSTED certificate: bit f set = function f is claimed to be able to reach janet_collect (%d functions) -/" % len(g["may"]))
    L.append("abbrev mayCollectMask : Nat := 0x%x" % mask)
    L.append("/-- ... and the same over `edgesU`: able to reach janet_collect while no frame of the chain holds the collector suspended (%d functions) -/" % len(g["may_u"]))
    L.append("abbrev mayCollectUnlockedMask : Nat := 0x%x\n" % mask_u)
    L.append("/-- the delimited family (value builders, marshal / unmarshal, PEG compilation, parser) and everything it can call -/")
    L.append("abbrev family : List Nat := [" + ", ".join(str(idx[n]) for n in g["family"]) + "]")
    L.append("abbrev familyClosure : List Nat := [" + ", ".join(str(idx[n]) for n in g["family_closure"]) + "]\n")
    L.append("/-- every call made on some path between a `_begin` builder call and the matching `_end`, in any function:")
    L.append("(function, builder, callee) -/")
    L.append("abbrev beginEndRows : List (Nat × Nat × Nat) := [\n  " + ",\n  ".join("(%d, %d, %d)" % (idx[a], idx[b], idx[c]) for a, b, c in rows) + "]")
    L.append("/- the same in words:\n" + "\n".join("  %s: %s .. %s" % r for r in rows) + "\n-/\n")
    L.append("/-- calls inside such windows to functions outside the library (libc: cannot call back into the collector) -/")
    L.append("abbrev beginEndExternal : List String := [" + ", ".join('"%s: %s .. %s"' % r for r in ext_rows) + "]")
    L.append("/-- builder calls whose unfinished object can leave the function without passing the matching `_end` -/")
    L.append("abbrev beginEndEscapes : List (Nat × Nat) := [" + ", ".join("(%d, %d)" % (idx[a], idx[b]) for a, b in g["escapes"]) + "]\n")
    L.append("/-- the functions that can be interrupted by a collection (unsuspended), each with the number of (value-returning call that can")
    L.append("allocate, later call that can collect) pairs on its control-flow graph: the windows NOT certified statically -/")
    L.append("abbrev mayWindows : List (Nat × Nat) := [" + ", ".join("(%d, %d)" % (idx[n], k) for n, k in g["may_windows"]) + "]\n")
    L.append("end JanetModel.Gen.GCRoot\n")
    info = dict(functions=len(names), call_edges=len(edges) + len(edges_locked), call_edges_only_under_gclock=len(edges_locked), call_sites_under_gclock=g["locked_sites"],
                gclock_users=g["lock_users"], may_collect_any_path=len(g["may"]), may_collect=len(g["may_u"]), can_allocate=len(g["alloc"]), family=len(g["family"]),
                family_closure=len(g["family_closure"]), begin_end_rows=len(rows), begin_end_functions=len(set(r[0] for r in rows)),
                begin_end_external=len(ext_rows), begin_end_escapes=["%s: %s" % e for e in g["escapes"]],
                may_collect_functions_without_window=sum(1 for _, k in g["may_windows"] if k == 0),
                uncertified_window_pairs={n: k for n, k in g["may_windows"] if k},
                may_collect_names=sorted(g["may_u"]), function_names=names)
    return "\n".join(L), info
