"""Translator for C16 (subprocess part): src/core/os.c -> lean/JanetModel/Gen/ProcStat.lean.

Regenerated on every run of ./check C16:
  * `branches`: the if / else-if chain of proc_get_status AFTER macro expansion (`cc -E` with the build's flags), each
    condition / assigned value parsed into the expression language `JanetModel.Proc.CExpr` -- so the Lean theorems talk
    about what the compiler sees for WIFEXITED / WEXITSTATUS / WIFSTOPPED / WSTOPSIG / WIFSIGNALED / WTERMSIG on this
    machine, not about what the model author believes the macros to be;
  * `waitpidOptions`: the options argument of the waitpid call (0 = only terminated children are reported);
  * the JANET_PROC_* flag values and the shape facts of the wait / close state machine and of the descriptor plumbing of
    os_execute_impl (see `spawn_facts`).
ExtractError when a statement the model mirrors is no longer recognised.
"""
import os
import re
import subprocess

from .csrc import ExtractError, read, strip_comments, match_brace

CPP_FLAGS = ["-std=c99", "-Isrc/include", "-Isrc/conf", "-DJANET_VERIF"]


def preprocess(tree, rel="src/core/os.c", cc="gcc"):
    r = subprocess.run([cc, "-E", "-P"] + CPP_FLAGS + [rel], cwd=tree, stdout=subprocess.PIPE, stderr=subprocess.PIPE)
    if r.returncode != 0:
        raise ExtractError("cc -E %s failed: %s" % (rel, r.stderr.decode(errors="replace")[-300:]))
    return r.stdout.decode(errors="replace")


def _body(src, sig_rx, name):
    m = re.search(sig_rx, src)
    if not m:
        raise ExtractError("os.c: definition of %s not found" % name)
    i = src.index("{", m.end() - 1)
    return src[i:match_brace(src, i)]


# ------------------------------------------------------------------------------------------------ C expression subset
_TOK = re.compile(r"\s*(0[xX][0-9a-fA-F]+|\d+|[A-Za-z_]\w*|>>|==|<<|<=|>=|!=|&&|\|\||[()&+\-<>|^~!*/%?:,])")


def tokenize(s):
    toks, i = [], 0
    s = s.strip()
    while i < len(s):
        m = _TOK.match(s, i)
        if not m:
            raise ExtractError("proc_get_status: cannot tokenize %r" % s[i:i + 30])
        toks.append(m.group(1))
        i = m.end()
    return toks


class _P:
    """recursive descent for:  band > eq > rel > shift > add > unary(cast) > primary   (C precedence, lowest first)"""

    def __init__(self, toks, text):
        self.t, self.i, self.text = toks, 0, text

    def peek(self):
        return self.t[self.i] if self.i < len(self.t) else None

    def take(self, x=None):
        tok = self.peek()
        if tok is None or (x is not None and tok != x):
            raise ExtractError("proc_get_status: expression outside the modelled subset near token %r in %r" % (tok, self.text))
        self.i += 1
        return tok

    def expr(self):
        a = self.equality()
        while self.peek() == "&":
            self.take()
            a = ("band", a, self.equality())
        return a

    def equality(self):
        a = self.rel()
        while self.peek() == "==":
            self.take()
            a = ("eq", a, self.rel())
        return a

    def rel(self):
        a = self.shift()
        while self.peek() in (">", "<"):
            op = self.take()
            a = ("gt" if op == ">" else "lt", a, self.shift())
        return a

    def shift(self):
        a = self.add()
        while self.peek() == ">>":
            self.take()
            a = ("shr", a, self.add())
        return a

    def add(self):
        a = self.unary()
        while self.peek() in ("+", "-"):
            op = self.take()
            a = ("add" if op == "+" else "sub", a, self.unary())
        return a

    def unary(self):
        if self.peek() == "(" and self.t[self.i + 1:self.i + 4] == ["signed", "char", ")"]:
            self.i += 4
            return ("scast8", self.unary())
        return self.primary()

    def primary(self):
        tok = self.take()
        if tok == "(":
            a = self.expr()
            self.take(")")
            return a
        if tok == "status":
            return ("status",)
        if re.fullmatch(r"0[xX][0-9a-fA-F]+", tok):
            return ("lit", int(tok, 16))
        if re.fullmatch(r"\d+", tok):
            if len(tok) > 1 and tok[0] == "0":
                return ("lit", int(tok, 8))
            return ("lit", int(tok))
        raise ExtractError("proc_get_status: unexpected token %r in %r (expression outside the modelled subset)" % (tok, self.text))


def parse_expr(text):
    p = _P(tokenize(text), text)
    a = p.expr()
    if p.peek() is not None:
        raise ExtractError("proc_get_status: trailing tokens %r in %r" % (p.t[p.i:], text))
    return a


def lean_expr(a):
    k = a[0]
    if k == "status":
        return ".status"
    if k == "lit":
        return "(.lit %d)" % a[1]
    if k == "scast8":
        return "(.scast8 %s)" % lean_expr(a[1])
    return "(.%s %s %s)" % (k, lean_expr(a[1]), lean_expr(a[2]))


def c_expr(a):
    k = a[0]
    if k == "status":
        return "status"
    if k == "lit":
        return "%d" % a[1]
    if k == "scast8":
        return "(signed char)(%s)" % c_expr(a[1])
    op = {"band": "&", "shr": ">>", "add": "+", "sub": "-", "eq": "==", "gt": ">", "lt": "<"}[k]
    return "(%s %s %s)" % (c_expr(a[1]), op, c_expr(a[2]))


def _paren(s, i):
    """s[i] == '(' -> index just past the matching ')'"""
    depth = 0
    while i < len(s):
        if s[i] == "(":
            depth += 1
        elif s[i] == ")":
            depth -= 1
            if depth == 0:
                return i + 1
        i += 1
    raise ExtractError("unbalanced parentheses")


def status_branches(pp):
    """pp = preprocessed os.c  ->  (branches [(cond AST, value AST)], waitpid options)"""
    b = _body(pp, r"static\s+int\s+proc_get_status\s*\(\s*JanetProc\s*\*\s*proc\s*\)\s*\{", "proc_get_status")
    m = re.search(r"do\s*\{\s*result\s*=\s*waitpid\s*\(\s*proc->pid\s*,\s*&status\s*,\s*(\w+)\s*\)\s*;\s*\}\s*while\s*\(\s*result\s*==\s*-1\s*&&", b)
    if not m:
        raise ExtractError("proc_get_status: waitpid retry loop not recognised")
    try:
        options = int(m.group(1), 0)
    except ValueError:
        raise ExtractError("proc_get_status: waitpid options %r is not a literal" % m.group(1))
    rest = b[m.end():]
    i = rest.index(";") + 1   # end of the do-while
    rest = rest[i:]
    branches = []
    pos = 0
    first = True
    while True:
        mm = re.compile(r"\s*if\s*\(" if first else r"\s*else\s+if\s*\(").match(rest, pos)
        if not mm:
            break
        first = False
        j = mm.end() - 1
        k = _paren(rest, j)
        cond = rest[j:k]
        mb = re.compile(r"\s*\{\s*status\s*=\s*([^;{}]+);\s*\}").match(rest, k)
        if not mb:
            raise ExtractError("proc_get_status: branch body is not a single assignment to status: %r" % rest[k:k + 80])
        branches.append((parse_expr(cond), parse_expr(mb.group(1))))
        pos = mb.end()
    tail = rest[pos:]
    if not re.match(r"\s*else\s*\{\s*janet_panicf\s*\(", tail):
        raise ExtractError("proc_get_status: final else is not a panic: %r" % tail[:80])
    if not re.search(r"\}\s*return\s+status\s*;\s*\}\s*$", tail):
        raise ExtractError("proc_get_status: does not end with `return status`")
    if not branches:
        raise ExtractError("proc_get_status: no branches found")
    return branches, options


def flag_values(src):
    names = ["CLOSED", "WAITED", "WAITING", "ERROR_NONZERO", "OWNS_STDIN", "OWNS_STDOUT", "OWNS_STDERR", "ALLOW_ZOMBIE"]
    out = {}
    for n in names:
        m = re.search(r"#define\s+JANET_PROC_%s\s+(\d+)" % n, src)
        if not m:
            raise ExtractError("os.c: JANET_PROC_%s not found" % n)
        out[n] = int(m.group(1))
    return out


def extract(tree):
    pp = preprocess(tree)
    branches, options = status_branches(pp)
    src = strip_comments(read(tree, "src/core/os.c"))
    facts = {"branches": branches, "waitpidOptions": options, "flags": flag_values(src),
             "branches_c": [(c_expr(c), c_expr(v)) for c, v in branches]}
    # the value computed by proc_get_status is what the waiter gets: wait_subr -> tag -> wait_cb -> return_code / schedule
    sub = _body(pp, r"static\s+JanetEVGenericMessage\s+janet_proc_wait_subr\s*\([^)]*\)\s*\{", "janet_proc_wait_subr")
    if not re.search(r"args\.tag\s*=\s*proc_get_status\s*\(\s*proc\s*\)\s*;\s*return\s+args\s*;", sub):
        raise ExtractError("janet_proc_wait_subr: tag = proc_get_status(proc) not recognised")
    cb = _body(src, r"static\s+void\s+janet_proc_wait_cb\s*\([^)]*\)\s*\{", "janet_proc_wait_cb")
    for rx, what in ((r"int\s+status\s*=\s*args\.tag\s*;", "status = args.tag"),
                     (r"proc->return_code\s*=\s*\(\s*int32_t\s*\)\s*status\s*;", "return_code = status"),
                     (r"proc->flags\s*\|=\s*JANET_PROC_WAITED\s*;\s*proc->flags\s*&=\s*~JANET_PROC_WAITING\s*;", "WAITED set, WAITING cleared"),
                     (r"janet_schedule\s*\(\s*args\.fiber\s*,\s*janet_wrap_integer\s*\(\s*status\s*\)\s*\)", "waiter resumed with status"),
                     (r"if\s*\(\s*\(\s*status\s*!=\s*0\s*\)\s*&&\s*\(\s*proc->flags\s*&\s*JANET_PROC_ERROR_NONZERO\s*\)\s*\)", ":x raises on non-zero status")):
        if not re.search(rx, cb):
            raise ExtractError("janet_proc_wait_cb: expected statement not found (%s)" % what)
    return facts


def render(tree):
    f = extract(tree)
    lines = ["-- GENERATED by tools/gen/procstat.py from src/core/os.c (after `cc -E`) on every run of ./check C16.  Do not edit.",
             "import JanetModel.Proc.Status",
             "namespace JanetModel.Gen.ProcStat",
             "open JanetModel.Proc",
             "",
             "/-- the if / else-if chain of `proc_get_status` with the wait-status macros expanded by the build's preprocessor:"]
    for c, v in f["branches_c"]:
        lines.append("      if %s  status = %s" % (c, v))
    lines.append("    final else: janet_panicf -/")
    lines.append("abbrev branches : List Branch := [")
    lines.append(",\n".join("  (%s,\n   %s)" % (lean_expr(c), lean_expr(v)) for c, v in f["branches"]))
    lines.append("]")
    lines.append("")
    lines.append("/-- options argument of the `waitpid` call in proc_get_status (0: only terminated children are reported) -/")
    lines.append("abbrev waitpidOptions : Nat := %d" % f["waitpidOptions"])
    lines.append("")
    for n, v in f["flags"].items():
        lines.append("abbrev PROC_%s : Nat := %d" % (n, v))
    lines.append("")
    lines.append("end JanetModel.Gen.ProcStat")
    return "\n".join(lines) + "\n"


if __name__ == "__main__":
    import sys
    print(render(sys.argv[1] if len(sys.argv) > 1 else "/repo"))
