"""Translator for C16 (subprocess part): src/core/os.c -> lean/JanetModel/Gen/ProcStat.lean.

Regenerated on every run of ./check C16:
  * `branches`: the if / else-if chain of proc_get_status AFTER macro expansion (`cc -E` with the build's flags), each
    condition / assigned value parsed into the expression language `JanetModel.Proc.CExpr` -- so the Lean theorems talk
    about what the compiler sees for WIFEXITED / WEXITSTATUS / WIFSTOPPED / WSTOPSIG / WIFSIGNALED / WTERMSIG on this
    machine, not about what the model author believes the macros to be;
  * `waitpidOptions`: the options argument of the waitpid call (0 = only terminated children are reported);
  * the JANET_PROC_* flag values and the shape facts of the wait / close state machine and of the descriptor plumbing of
    os_execute_impl (see `spawn_facts`).
ExtractError when a statement the model mirrors is no longer recognised.
"""
import os
import re
import subprocess

from .csrc import ExtractError, read, strip_comments, match_brace

CPP_FLAGS = ["-std=c99", "-Isrc/include", "-Isrc/conf", "-DJANET_VERIF"]


def preprocess(tree, rel="src/core/os.c", cc="gcc"):
    r = subprocess.run([cc, "-E", "-P"] + CPP_FLAGS + [rel], cwd=tree, stdout=subprocess.PIPE, stderr=subprocess.PIPE)
    if r.returncode != 0:
        raise ExtractError("cc -E %s failed: %s" % (rel, r.stderr.decode(errors="replace")[-300:]))
    return r.stdout.decode(errors="replace")


def _body(src, sig_rx, name):
    m = re.search(sig_rx, src)
    if not m:
        raise ExtractError("os.c: definition of %s not found" % name)
    i = src.index("{", m.end() - 1)
    return src[i:match_brace(src, i)]


# ------------------------------------------------------------------------------------------------ C expression subset
_TOK = re.compile(r"\s*(0[xX][0-9a-fA-F]+|\d+|[A-Za-z_]\w*|>>|==|<<|<=|>=|!=|&&|\|\||[()&+\-<>|^~!*/%?:,])")


def tokenize(s):
    toks, i = [], 0
    s = s.strip()
    while i < len(s):
        m = _TOK.match(s, i)
        if not m:
            raise ExtractError("proc_get_status: cannot tokenize %r" % s[i:i + 30])
        toks.append(m.group(1))
        i = m.end()
    return toks


class _P:
    """recursive descent for:  lor > land > band > eq > rel > shift > add > unary(cast) > primary   (C precedence, lowest first)"""

    def __init__(self, toks, text):
        self.t, self.i, self.text = toks, 0, text

    def peek(self):
        return self.t[self.i] if self.i < len(self.t) else None

    def take(self, x=None):
        tok = self.peek()
        if tok is None or (x is not None and tok != x):
            raise ExtractError("proc_get_status: expression outside the modelled subset near token %r in %r" % (tok, self.text))
        self.i += 1
        return tok

    def expr(self):
        a = self.land()
        while self.peek() == "||":
            self.take()
            a = ("lor", a, self.land())
        return a

    def land(self):
        a = self.band()
        while self.peek() == "&&":
            self.take()
            a = ("land", a, self.band())
        return a

    def band(self):
        a = self.equality()
        while self.peek() == "&":
            self.take()
            a = ("band", a, self.equality())
        return a

    def equality(self):
        a = self.rel()
        while self.peek() == "==":
            self.take()
            a = ("eq", a, self.rel())
        return a

    def rel(self):
        a = self.shift()
        while self.peek() in (">", "<"):
            op = self.take()
            a = ("gt" if op == ">" else "lt", a, self.shift())
        return a

    def shift(self):
        a = self.add()
        while self.peek() == ">>":
            self.take()
            a = ("shr", a, self.add())
        return a

    def add(self):
        a = self.unary()
        while self.peek() in ("+", "-"):
            op = self.take()
            a = ("add" if op == "+" else "sub", a, self.unary())
        return a

    def unary(self):
        if self.peek() == "(" and self.t[self.i + 1:self.i + 4] == ["signed", "char", ")"]:
            self.i += 4
            return ("scast8", self.unary())
        return self.primary()

    def primary(self):
        tok = self.take()
        if tok == "(":
            a = self.expr()
            self.take(")")
            return a
        if tok == "status":
            return ("status",)
        if re.fullmatch(r"0[xX][0-9a-fA-F]+", tok):
            return ("lit", int(tok, 16))
        if re.fullmatch(r"\d+", tok):
            if len(tok) > 1 and tok[0] == "0":
                return ("lit", int(tok, 8))
            return ("lit", int(tok))
        raise ExtractError("proc_get_status: unexpected token %r in %r (expression outside the modelled subset)" % (tok, self.text))


def parse_expr(text):
    p = _P(tokenize(text), text)
    a = p.expr()
    if p.peek() is not None:
        raise ExtractError("proc_get_status: trailing tokens %r in %r" % (p.t[p.i:], text))
    return a


def lean_expr(a):
    k = a[0]
    if k == "status":
        return ".status"
    if k == "lit":
        return "(.lit %d)" % a[1]
    if k == "scast8":
        return "(.scast8 %s)" % lean_expr(a[1])
    return "(.%s %s %s)" % (k, lean_expr(a[1]), lean_expr(a[2]))


def c_expr(a):
    k = a[0]
    if k == "status":
        return "status"
    if k == "lit":
        return "%d" % a[1]
    if k == "scast8":
        return "(signed char)(%s)" % c_expr(a[1])
    op = {"band": "&", "shr": ">>", "add": "+", "sub": "-", "eq": "==", "gt": ">", "lt": "<", "lor": "||", "land": "&&"}[k]
    return "(%s %s %s)" % (c_expr(a[1]), op, c_expr(a[2]))


def _paren(s, i):
    """s[i] == '(' -> index just past the matching ')'"""
    depth = 0
    while i < len(s):
        if s[i] == "(":
            depth += 1
        elif s[i] == ")":
            depth -= 1
            if depth == 0:
                return i + 1
        i += 1
    raise ExtractError("unbalanced parentheses")


def status_branches(pp):
    """pp = preprocessed os.c  ->  (branches [(cond AST, value AST)], waitpid options)"""
    b = _body(pp, r"static\s+int\s+proc_get_status\s*\(\s*JanetProc\s*\*\s*proc\s*\)\s*\{", "proc_get_status")
    m = re.search(r"do\s*\{\s*result\s*=\s*waitpid\s*\(\s*proc->pid\s*,\s*&status\s*,\s*(\w+)\s*\)\s*;\s*\}\s*while\s*\(\s*result\s*==\s*-1\s*&&", b)
    if not m:
        raise ExtractError("proc_get_status: waitpid retry loop not recognised")
    try:
        options = int(m.group(1), 0)
    except ValueError:
        raise ExtractError("proc_get_status: waitpid options %r is not a literal" % m.group(1))
    rest = b[m.end():]
    i = rest.index(";") + 1   # end of the do-while
    rest = rest[i:]
    branches = []
    pos = 0
    first = True
    while True:
        mm = re.compile(r"\s*if\s*\(" if first else r"\s*else\s+if\s*\(").match(rest, pos)
        if not mm:
            break
        first = False
        j = mm.end() - 1
        k = _paren(rest, j)
        cond = rest[j:k]
        mb = re.compile(r"\s*\{\s*status\s*=\s*([^;{}]+);\s*\}").match(rest, k)
        if not mb:
            raise ExtractError("proc_get_status: branch body is not a single assignment to status: %r" % rest[k:k + 80])
        branches.append((parse_expr(cond), parse_expr(mb.group(1))))
        pos = mb.end()
    tail = rest[pos:]
    if not re.match(r"\s*else\s*\{\s*janet_panicf\s*\(", tail):
        raise ExtractError("proc_get_status: final else is not a panic: %r" % tail[:80])
    if not re.search(r"\}\s*return\s+status\s*;\s*\}\s*$", tail):
        raise ExtractError("proc_get_status: does not end with `return status`")
    if not branches:
        raise ExtractError("proc_get_status: no branches found")
    return branches, options


def flag_values(src):
    names = ["CLOSED", "WAITED", "WAITING", "ERROR_NONZERO", "OWNS_STDIN", "OWNS_STDOUT", "OWNS_STDERR", "ALLOW_ZOMBIE"]
    out = {}
    for n in names:
        m = re.search(r"#define\s+JANET_PROC_%s\s+(\d+)" % n, src)
        if not m:
            raise ExtractError("os.c: JANET_PROC_%s not found" % n)
        out[n] = int(m.group(1))
    return out


def extract(tree):
    pp = preprocess(tree)
    branches, options = status_branches(pp)
    src = strip_comments(read(tree, "src/core/os.c"))
    facts = {"branches": branches, "waitpidOptions": options, "flags": flag_values(src),
             "branches_c": [(c_expr(c), c_expr(v)) for c, v in branches]}
    # the value computed by proc_get_status is what the waiter gets: wait_subr -> tag -> wait_cb -> return_code / schedule
    sub = _body(pp, r"static\s+JanetEVGenericMessage\s+janet_proc_wait_subr\s*\([^)]*\)\s*\{", "janet_proc_wait_subr")
    if not re.search(r"args\.tag\s*=\s*proc_get_status\s*\(\s*proc\s*\)\s*;\s*return\s+args\s*;", sub):
        raise ExtractError("janet_proc_wait_subr: tag = proc_get_status(proc) not recognised")
    cb = _body(src, r"static\s+void\s+janet_proc_wait_cb\s*\([^)]*\)\s*\{", "janet_proc_wait_cb")
    for rx, what in ((r"int\s+status\s*=\s*args\.tag\s*;", "status = args.tag"),
                     (r"proc->return_code\s*=\s*\(\s*int32_t\s*\)\s*status\s*;", "return_code = status"),
                     (r"proc->flags\s*\|=\s*JANET_PROC_WAITED\s*;\s*proc->flags\s*&=\s*~JANET_PROC_WAITING\s*;", "WAITED set, WAITING cleared"),
                     (r"janet_schedule\s*\(\s*args\.fiber\s*,\s*janet_wrap_integer\s*\(\s*status\s*\)\s*\)", "waiter resumed with status"),
                     (r"if\s*\(\s*\(\s*status\s*!=\s*0\s*\)\s*&&\s*\(\s*proc->flags\s*&\s*JANET_PROC_ERROR_NONZERO\s*\)\s*\)", ":x raises on non-zero status")):
        if not re.search(rx, cb):
            raise ExtractError("janet_proc_wait_cb: expected statement not found (%s)" % what)
    facts.update(spawn_facts(src))
    make_pipe_facts(tree)
    return facts


def _need(body, rx, what):
    if not re.search(rx, body, re.S):
        raise ExtractError("os.c: expected statement not found (%s): /%s/" % (what, rx))


def spawn_facts(src):
    """shape of the descriptor plumbing of os_execute_impl / make_pipes / os_proc_wait_impl / os_proc_close that
    Proc/Spawn.lean mirrors; `movesStdSources` = the src_handles loop (a3cd080) is present"""
    b = _body(src, r"static\s+Janet\s+os_execute_impl\s*\([^)]*\)\s*\{", "os_execute_impl")
    posix = b[b.index("posix_spawn_file_actions_init"):]
    f = {}
    moves = re.search(r"JanetHandle\s+src_handles\s*\[\s*3\s*\]\s*=\s*\{\s*new_in\s*,\s*new_out\s*,\s*new_err\s*\}", b) is not None
    if moves:
        _need(b, r"if\s*\(\s*src_handles\[i\]\s*<\s*0\s*\|\|\s*src_handles\[i\]\s*>\s*2\s*\|\|\s*src_handles\[i\]\s*==\s*i\s*\)\s*continue\s*;", "src_handles loop: only 0..2, not the own target")
        _need(b, r"tmp_handles\[i\]\s*=\s*fcntl\s*\(\s*src_handles\[i\]\s*,\s*F_DUPFD\s*,\s*3\s*\)\s*;", "duplicate above 2")
        _need(b, r"fcntl\s*\(\s*tmp_handles\[i\]\s*,\s*F_SETFD\s*,\s*FD_CLOEXEC\s*\)", "duplicate is close-on-exec")
        _need(b, r"src_handles\[i\]\s*=\s*tmp_handles\[i\]\s*;", "source replaced by the duplicate")
        S = [r"src_handles\[0\]", r"src_handles\[1\]", r"src_handles\[2\]"]
    else:
        S = ["new_in", "new_out", "new_err"]
    f["movesStdSources"] = moves
    ws = r"\s*"
    def dup2(a, n):
        return r"posix_spawn_file_actions_adddup2\s*\(\s*&actions\s*,\s*%s\s*,\s*%d\s*\)\s*;" % (a, n)
    def close(a):
        return r"posix_spawn_file_actions_addclose\s*\(\s*&actions\s*,\s*%s\s*\)\s*;" % a
    _need(posix, r"if\s*\(\s*pipe_in\s*!=\s*JANET_HANDLE_NONE\s*\)\s*\{\s*" + dup2("pipe_in", 0) + ws + close("pipe_in") + ws +
          r"\}\s*else\s+if\s*\(\s*new_in\s*!=\s*JANET_HANDLE_NONE\s*&&\s*new_in\s*!=\s*0\s*\)\s*\{\s*" + dup2(S[0], 0) + ws +
          r"if\s*\(\s*%s\s*!=\s*%s\s*&&\s*%s\s*!=\s*%s\s*\)\s*" % (S[0], S[1], S[0], S[2]) + close(S[0]) + ws + r"\}", "file actions for :in")
    _need(posix, r"if\s*\(\s*pipe_out\s*!=\s*JANET_HANDLE_NONE\s*\)\s*\{\s*" + dup2("pipe_out", 1) + ws + close("pipe_out") + ws +
          r"\}\s*else\s+if\s*\(\s*new_out\s*!=\s*JANET_HANDLE_NONE\s*&&\s*new_out\s*!=\s*1\s*\)\s*\{\s*" + dup2(S[1], 1) + ws +
          r"if\s*\(\s*%s\s*!=\s*%s\s*\)\s*" % (S[1], S[2]) + close(S[1]) + ws + r"\}", "file actions for :out")
    _need(posix, r"if\s*\(\s*pipe_err\s*!=\s*JANET_HANDLE_NONE\s*\)\s*\{\s*" + dup2("pipe_err", 2) + ws + close("pipe_err") + ws +
          r"\}\s*else\s+if\s*\(\s*new_err\s*!=\s*JANET_HANDLE_NONE\s*&&\s*new_err\s*!=\s*2\s*\)\s*\{\s*" + dup2(S[2], 2) + ws + close(S[2]) + ws +
          r"\}\s*else\s+if\s*\(\s*stderr_is_stdout\s*\)\s*\{\s*" + dup2("1", 2) + ws + r"\}", "file actions for :err")
    _need(posix, r"if\s*\(\s*pipe_in\s*!=\s*JANET_HANDLE_NONE\s*\)\s*close\s*\(\s*pipe_in\s*\)\s*;\s*if\s*\(\s*pipe_out\s*!=\s*JANET_HANDLE_NONE\s*\)\s*close\s*\(\s*pipe_out\s*\)\s*;\s*"
          r"if\s*\(\s*pipe_err\s*!=\s*JANET_HANDLE_NONE\s*\)\s*close\s*\(\s*pipe_err\s*\)\s*;", "the child's pipe ends are closed in the parent after posix_spawn")
    _need(posix, r"if\s*\(\s*status\s*\)\s*\{.*?if\s*\(\s*pipe_owner_flags\s*&\s*JANET_PROC_OWNS_STDIN\s*\)\s*close\s*\(\s*new_in\s*\)\s*;\s*"
          r"if\s*\(\s*pipe_owner_flags\s*&\s*JANET_PROC_OWNS_STDOUT\s*\)\s*close\s*\(\s*new_out\s*\)\s*;\s*"
          r"if\s*\(\s*pipe_owner_flags\s*&\s*JANET_PROC_OWNS_STDERR\s*\)\s*close\s*\(\s*new_err\s*\)\s*;", "failed spawn closes our pipe ends")
    _need(b, r"new_in\s*=\s*make_pipes\s*\(\s*&pipe_in\s*,\s*1\s*,\s*&pipe_errflag\s*\)\s*;\s*pipe_owner_flags\s*\|=\s*JANET_PROC_OWNS_STDIN", ":in :pipe -> make_pipes reverse")
    _need(b, r"new_out\s*=\s*make_pipes\s*\(\s*&pipe_out\s*,\s*0\s*,\s*&pipe_errflag\s*\)\s*;\s*pipe_owner_flags\s*\|=\s*JANET_PROC_OWNS_STDOUT", ":out :pipe")
    _need(b, r"new_err\s*=\s*make_pipes\s*\(\s*&pipe_err\s*,\s*0\s*,\s*&pipe_errflag\s*\)\s*;\s*pipe_owner_flags\s*\|=\s*JANET_PROC_OWNS_STDERR", ":err :pipe")
    mp = _body(src, r"static\s+JanetHandle\s+make_pipes\s*\([^)]*\)\s*\{", "make_pipes")
    _need(mp, r"janet_make_pipe\s*\(\s*handles\s*,\s*reverse\s*\?\s*2\s*:\s*1\s*\)\s*\)\s*goto\s+error\s*;\s*if\s*\(\s*reverse\s*\)\s*swap_handles\s*\(\s*handles\s*\)\s*;", "make_pipes: mode 2 / 1 + swap")
    _need(mp, r"\*handle\s*=\s*handles\[1\]\s*;\s*return\s+handles\[0\]\s*;", "make_pipes: ours = handles[0], child's = handles[1]")
    w = _body(src, r"os_proc_wait_impl\s*\(\s*JanetProc\s*\*\s*proc\s*\)\s*\{", "os_proc_wait_impl")
    _need(w, r"if\s*\(\s*proc->flags\s*&\s*\(\s*JANET_PROC_WAITED\s*\|\s*JANET_PROC_WAITING\s*\)\s*\)\s*\{\s*janet_panicf\s*\(\s*\"cannot wait twice on a process\"", "wait once")
    _need(w, r"proc->flags\s*\|=\s*JANET_PROC_WAITING\s*;", "WAITING set")
    m = re.search(r"JANET_CORE_FN\s*\(\s*os_proc_close\s*,", src)
    if not m:
        raise ExtractError("os.c: os_proc_close not found")
    i = src.index("{", src.index(")", src.index('"Close pipes', m.end())))
    c = src[i:match_brace(src, i)]
    _need(c, r"if\s*\(\s*proc->flags\s*&\s*JANET_PROC_OWNS_STDIN\s*\)\s*janet_stream_close\s*\(\s*proc->in\s*\)\s*;\s*"
          r"if\s*\(\s*proc->flags\s*&\s*JANET_PROC_OWNS_STDOUT\s*\)\s*janet_stream_close\s*\(\s*proc->out\s*\)\s*;\s*"
          r"if\s*\(\s*proc->flags\s*&\s*JANET_PROC_OWNS_STDERR\s*\)\s*janet_stream_close\s*\(\s*proc->err\s*\)\s*;", "proc-close closes the owned streams")
    _need(c, r"proc->flags\s*&=\s*~\s*\(\s*JANET_PROC_OWNS_STDIN\s*\|\s*JANET_PROC_OWNS_STDOUT\s*\|\s*JANET_PROC_OWNS_STDERR\s*\)\s*;\s*"
          r"if\s*\(\s*proc->flags\s*&\s*\(\s*JANET_PROC_WAITED\s*\|\s*JANET_PROC_WAITING\s*\)\s*\)\s*\{\s*return\s+janet_wrap_nil", "OWNS cleared; nil when waited / waiting")
    return f


def make_pipe_facts(tree):
    ev = strip_comments(read(tree, "src/core/ev.c"))
    b = _body(ev, r"int\s+janet_make_pipe\s*\(\s*JanetHandle\s+handles\[2\]\s*,\s*int\s+mode\s*\)\s*\{", "janet_make_pipe")
    b = b[b.rindex("#else"):]
    _need(b, r"if\s*\(\s*pipe\s*\(\s*handles\s*\)\s*\)\s*return\s+-1\s*;", "pipe()")
    _need(b, r"if\s*\(\s*mode\s*!=\s*2\s*&&\s*fcntl\s*\(\s*handles\[0\]\s*,\s*F_SETFD\s*,\s*FD_CLOEXEC\s*\)\s*\)\s*goto\s+error\s*;", "read end close-on-exec unless mode 2")
    _need(b, r"if\s*\(\s*mode\s*!=\s*1\s*&&\s*fcntl\s*\(\s*handles\[1\]\s*,\s*F_SETFD\s*,\s*FD_CLOEXEC\s*\)\s*\)\s*goto\s+error\s*;", "write end close-on-exec unless mode 1")
    _need(b, r"if\s*\(\s*mode\s*!=\s*2\s*&&\s*mode\s*!=\s*3\s*&&\s*fcntl\s*\(\s*handles\[0\]\s*,\s*F_SETFL\s*,\s*O_NONBLOCK\s*\)\s*\)\s*goto\s+error\s*;", "read end non-blocking")
    _need(b, r"if\s*\(\s*mode\s*!=\s*1\s*&&\s*mode\s*!=\s*3\s*&&\s*fcntl\s*\(\s*handles\[1\]\s*,\s*F_SETFL\s*,\s*O_NONBLOCK\s*\)\s*\)\s*goto\s+error\s*;", "write end non-blocking")


def render(tree):
    f = extract(tree)
    lines = ["-- GENERATED by tools/gen/procstat.py from src/core/os.c (after `cc -E`) on every run of ./check C16.  Do not edit.",
             "import JanetModel.Proc.Status",
             "namespace JanetModel.Gen.ProcStat",
             "open JanetModel.Proc",
             "",
             "/-- the if / else-if chain of `proc_get_status` with the wait-status macros expanded by the build's preprocessor:"]
    for c, v in f["branches_c"]:
        lines.append("      if %s  status = %s" % (c, v))
    lines.append("    final else: janet_panicf -/")
    lines.append("abbrev branches : List Branch := [")
    lines.append(",\n".join("  (%s,\n   %s)" % (lean_expr(c), lean_expr(v)) for c, v in f["branches"]))
    lines.append("]")
    lines.append("")
    lines.append("/-- options argument of the `waitpid` call in proc_get_status (0: only terminated children are reported) -/")
    lines.append("abbrev waitpidOptions : Nat := %d" % f["waitpidOptions"])
    lines.append("")
    for n, v in f["flags"].items():
        lines.append("abbrev PROC_%s : Nat := %d" % (n, v))
    lines.append("")
    lines.append("/-- os_execute_impl passes redirection sources that are 0, 1 or 2 through a close-on-exec duplicate above 2 -/")
    lines.append("abbrev movesStdSources : Bool := %s" % ("true" if f["movesStdSources"] else "false"))
    lines.append("")
    lines.append("end JanetModel.Gen.ProcStat")
    return "\n".join(lines) + "\n"


if __name__ == "__main__":
    import sys
    print(render(sys.argv[1] if len(sys.argv) > 1 else "/repo"))
