"""C15: the condition guards of specials.c `janetc_if` / `janetc_while`, read from the canonical statement skeletons (cfuns_skel.py).

The two special forms recognise `(= nil x)` / `(not= nil x)` conditions (function VALUE in head position: what `each`, `eachk`, `eachp`,
`loop` expand to), strip the head and test `x` directly.  The opcode of every conditional jump they emit for the condition, and the
predicate they apply to a constant condition, depend on which heads were stripped.  This module EXECUTES the skeleton symbolically,
once per combination of outcomes of the `janetc_check_nil_form` tests (a *path* = the list of heads stripped, outermost first), and
reports

  guard sites     (form, path, site, opcode, offset argument, opcode emitted right after)      for EVERY `janetc_emit_si` of a jump:
                  site "main" = the jump that leaves the then-branch / the loop (offset patched later),
                  site "iife" = the guard of the while loop recompiled as a tail-recursive closure (skips a `JOP_RETURN_NIL`)
  constant folds  (form, path, predicate)   predicate of the constant under which the else-branch is taken / the loop never runs

Nothing is matched by variable name: opcode variables are followed through their assignments.  A guard opcode or fold predicate that
depends on anything but the nil-form tests raises ExtractError (= broken tie)."""
import re
from .csrc import ExtractError

JUMPS = ("JOP_JUMP_IF", "JOP_JUMP_IF_NOT", "JOP_JUMP_IF_NIL", "JOP_JUMP_IF_NOT_NIL")
NIL_FORM = re.compile(r"^janetc_check_nil_form\((\$\d+), &(\$\d+), JANET_FUN_(\w+)\)$")
LEAVES = [
    (re.compile(r"^!janet_checktype\((\$\d+)\.constant, JANET_NIL\)"), "notNil"),
    (re.compile(r"^janet_checktype\((\$\d+)\.constant, JANET_NIL\)"), "isNil"),
    (re.compile(r"^!janet_truthy\((\$\d+)\.constant\)"), "falsy"),
    (re.compile(r"^janet_truthy\((\$\d+)\.constant\)"), "truthy"),
]
TOKEN = re.compile(r"\s*(\$\d+|JOP_\w+|\d+|==|&&|\?|:|\(|\)|!)")


class Unknown(Exception):
    pass


class Tainted(Unknown):
    pass


class Expr:
    """tiny evaluator for the expressions that select a jump opcode / a fold predicate: variables, opcode and integer literals,
    `c ? a : b`, `a == b`, `a && b`, `!a`, parentheses, and the four predicates of a constant slot"""

    def __init__(self, text, w, conds):
        self.t, self.i, self.env, self.tainted, self.scope, self.conds = text, 0, w["env"], w["tainted"], w["scope"], tuple(conds)

    def peek(self):
        m = TOKEN.match(self.t, self.i)
        return m.group(1) if m else None

    def take(self, tok=None):
        m = TOKEN.match(self.t, self.i)
        if not m or (tok is not None and m.group(1) != tok):
            raise Unknown(self.t)
        self.i = m.end()
        return m.group(1)

    def leaf(self):
        rest = self.t[self.i:].lstrip()
        off = len(self.t) - len(rest)
        for rx, name in LEAVES:
            m = rx.match(rest)
            if m:
                self.i = off + m.end()
                return ("pred", name)
        return None

    def atom(self):
        lf = self.leaf()
        if lf:
            return lf
        tok = self.take()
        if tok == "(":
            v = self.ternary()
            self.take(")")
            return v
        if tok == "!":
            v = self.atom()
            if v[0] == "int":
                return ("int", 0 if v[1] else 1)
            raise Unknown(self.t)
        if tok.startswith("$"):
            if tok in self.tainted or self.scope.get(tok, ()) != self.conds[:len(self.scope.get(tok, ()))]:
                raise Tainted("`%s` depends on %s, which is assigned under a condition other than the nil-form tests" % (self.t, tok))
            if tok not in self.env or self.env[tok] is None:
                raise Unknown(self.t)
            return self.env[tok]
        if tok.startswith("JOP_"):
            return ("op", tok)
        if tok.isdigit():
            return ("int", int(tok))
        raise Unknown(self.t)

    def eq(self):
        a = self.atom()
        if self.peek() == "==":
            self.take()
            b = self.atom()
            return ("int", 1 if a == b else 0)
        return a

    def conj(self):
        a = self.eq()
        while self.peek() == "&&":
            self.take()
            b = self.eq()
            if a[0] != "int":
                raise Unknown(self.t)
            a = b if a[1] else ("int", 0)
        return a

    def ternary(self):
        c = self.conj()
        if self.peek() == "?":
            self.take()
            a = self.ternary()
            self.take(":")
            b = self.ternary()
            if c[0] != "int":
                raise Unknown(self.t)
            return a if c[1] else b
        return c

    def value(self):
        v = self.ternary()
        if self.t[self.i:].strip():
            raise Unknown(self.t)
        return v


def evaluate(text, w, conds):
    return Expr(text, w, conds).value()


def tree_of(sk):
    """skeleton lines -> nested nodes {kind, op, text, body, orelse}"""
    def block(i, depth):
        nodes = []
        while i < len(sk) and sk[i][0] >= depth:
            d, kind, op, text = sk[i]
            if d > depth:
                raise ExtractError("guard sites: skeleton depth jumps at line %d" % i)
            if kind == "else":
                if not nodes or nodes[-1]["kind"] != "if":
                    raise ExtractError("guard sites: else without if")
                nodes[-1]["orelse"], i = block(i + 1, depth + 1)
                continue
            node = dict(kind=kind, op=op, text=text, body=[], orelse=[])
            i += 1
            if kind in ("if", "for", "while"):
                node["body"], i = block(i, depth + 1)
            nodes.append(node)
        return nodes, i
    nodes, i = block(0, 0)
    if i != len(sk):
        raise ExtractError("guard sites: skeleton not consumed")
    return nodes


def split_args(s):
    out, depth, cur = [], 0, ""
    for ch in s:
        if ch == "(":
            depth += 1
        elif ch == ")":
            depth -= 1
        if ch == "," and depth == 0:
            out.append(cur.strip())
            cur = ""
        else:
            cur += ch
    out.append(cur.strip())
    return out


def emit_si_in(text):
    """(opcode expression, offset argument) of a `janetc_emit_si(c, op, slot, off, wr)` call inside `text`, or None"""
    k = text.find("janetc_emit_si(")
    if k < 0:
        return None
    j, depth = k + len("janetc_emit_si("), 1
    start = j
    while j < len(text) and depth:
        depth += {"(": 1, ")": -1}.get(text[j], 0)
        j += 1
    args = split_args(text[start:j - 1])
    if len(args) != 5:
        raise ExtractError("guard sites: janetc_emit_si with %d arguments" % len(args))
    return args[1], args[3]


def run(form, fname, sk):
    """-> (sites [(form, path, site, op, offset, next_op)], folds [(form, path, pred)])"""
    sites, folds = [], []
    worlds = [dict(env={}, tainted=set(), scope={}, path=[], sites=[], folds=[])]

    def site(w, opx, offx, conds, nxt):
        try:
            v = evaluate(opx, w, conds)
        except Tainted as e:
            raise ExtractError("%s: opcode of an emitted jump: %s" % (fname, e))
        except Unknown:
            raise ExtractError("%s: opcode `%s` of an emitted conditional jump cannot be followed to a literal" % (fname, opx))
        if v[0] != "op":
            raise ExtractError("%s: janetc_emit_si with a non-opcode `%s`" % (fname, opx))
        if v[1] not in JUMPS:
            return
        if not offx.isdigit():
            raise ExtractError("%s: jump offset argument `%s` is not a literal" % (fname, offx))
        kind = "iife" if any("JANET_SCOPE_CLOSURE" in c for c in conds) else "main"
        w["sites"].append((kind, v[1], int(offx), nxt))

    def next_emit(nodes, k):
        if k + 1 < len(nodes) and nodes[k + 1]["kind"] == "call" and nodes[k + 1]["text"].startswith("janetc_emit(") and nodes[k + 1]["op"]:
            return nodes[k + 1]["op"]
        return None

    def exec_block(nodes, ws, conds):
        for k, n in enumerate(nodes):
            kind, text = n["kind"], n["text"]
            if kind == "if":
                m = NIL_FORM.match(text)
                if m:
                    if m.group(1) != m.group(2):
                        raise ExtractError("%s: janetc_check_nil_form does not strip the condition in place" % fname)
                    if conds:
                        raise ExtractError("%s: nil-form test under another condition" % fname)
                    taken = [dict(env=dict(w["env"]), tainted=set(w["tainted"]), scope=dict(w["scope"]), path=w["path"] + [m.group(3)],
                                  sites=list(w["sites"]), folds=list(w["folds"])) for w in ws]
                    taken = exec_block(n["body"], taken, conds)
                    ws = exec_block(n["orelse"], ws, conds) if n["orelse"] else ws
                    ws = ws + taken
                    continue
                # a test of a constant: `v == JOP_X && pred(constant)` (janetc_if) or a variable holding a predicate (janetc_while)
                for w in ws:
                    try:
                        v = evaluate(text, w, conds)
                    except Unknown:
                        v = None
                    if v and v[0] == "pred":
                        w["folds"].append((v[1], fold_role(n, nodes[k + 1:], fname)))
                ws = exec_block(n["body"], ws, conds + [text])
                ws = exec_block(n["orelse"], ws, conds + ["!(" + text + ")"]) if n["orelse"] else ws
                continue
            if kind in ("for", "while"):
                ws = exec_block(n["body"], ws, conds + [kind + " " + text])
                continue
            if kind == "emit":
                m = re.match(r"^(?:(\$\d+) = )?(\w+) (.*) \((.*)\)$", text)
                if not m:
                    raise ExtractError("%s: emit line `%s` not understood" % (fname, text))
                if m.group(2) == "si":
                    args = split_args(m.group(4))
                    for w in ws:
                        site(w, m.group(3), args[1], conds, next_emit(nodes, k))
                if m.group(1):
                    for w in ws:
                        w["env"][m.group(1)] = None
                continue
            if kind == "let":
                m = re.match(r"^(\$\d+) = (.*)$", text)
                if not m:
                    continue
                var, rhs = m.group(1), m.group(2)
                es = emit_si_in(rhs)
                for w in ws:
                    if es:
                        site(w, es[0], es[1], conds, next_emit(nodes, k))
                        val = None
                    else:
                        try:
                            val = evaluate(rhs, w, conds)
                        except Unknown:
                            val = None
                    if var in w["env"] and w["scope"].get(var, ()) != tuple(conds):
                        # re-assigned under a different condition (not a nil-form test): its value is not known afterwards
                        if w["env"][var] != val or val is None:
                            w["tainted"].add(var)
                    else:
                        w["env"][var] = val
                        w["scope"][var] = tuple(conds)
                continue
            if kind in ("set", "call") and "janetc_emit_si(" in text:
                es = emit_si_in(text)
                for w in ws:
                    site(w, es[0], es[1], conds, next_emit(nodes, k))
        return ws

    def fold_role(n, later, fname):
        """what a true predicate of the constant condition leads to: `swap` (janetc_if: the bodies are exchanged) or `never`
        (janetc_while: the loop is not compiled at all)"""
        if any(c["kind"] == "ret" for c in n["body"]):
            return "never"
        if len(n["body"]) == 1 and re.match(r"^(\$\d+) = 1$", n["body"][0]["text"]):
            flag = n["body"][0]["text"].split(" ")[0]
            for c in later:
                if c["kind"] == "if" and c["text"] == flag:
                    lets = [x["text"] for x in c["body"] if x["kind"] == "let"]
                    if len(lets) == 3:
                        a, b, t = lets[1].split(" = ")[1], lets[1].split(" = ")[0], lets[0].split(" = ")[0]
                        if lets[0] == "%s = %s" % (t, b) and lets[2] == "%s = %s" % (a, t):
                            return "swap"
        raise ExtractError("%s: what follows a true predicate of a constant condition is neither an early return nor a swap of the bodies" % fname)

    worlds = exec_block(tree_of(sk), worlds, [])
    for w in worlds:
        path = tuple(w["path"])
        if not w["sites"]:
            raise ExtractError("%s: no conditional jump emitted on path %s" % (fname, list(path)))
        for kind, op, off, nxt in w["sites"]:
            sites.append((form, path, kind, op, off, nxt))
        if len(w["folds"]) != 1:
            raise ExtractError("%s: %d predicates apply to a constant condition on path %s, expected 1" % (fname, len(w["folds"]), list(path)))
        folds.append((form, path, w["folds"][0][0], w["folds"][0][1]))
    return sorted(sites, key=lambda r: (r[0], len(r[1]), r[1], r[2])), sorted(folds, key=lambda r: (r[0], len(r[1]), r[1]))


def extract(sp, ops, skeleton):
    """sp = comment-stripped text of specials.c; skeleton = cfuns_skel.skeleton"""
    sites, folds = [], []
    for form, fname in (("if", "janetc_if"), ("while", "janetc_while")):
        s, f = run(form, fname, skeleton(sp, fname, ops))
        sites += s
        folds += f
    return sites, folds
