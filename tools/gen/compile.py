"""Translator: the facts of compile.c / specials.c that the compiler model lean/JanetModel/Compile/Model.lean hard-codes
->  Gen/Compile.lean.  Props/C02 (`compile_model_matches_source`) checks them against the model on every run.

 * the table of special forms `janetc_specials[]` (names in table order, and the handler each name dispatches to): the
   model's `specials` list and its dispatch on exactly these names;
 * presence / shape of the statements whose effect the model mirrors one for one: which `do` statements are compiled with
   JANET_FOPTS_DROP and freed, the tail-call test of janetc_call, the near-register test of janetc_gettarget, the
   alias / copy decision of namelocal, the jump range checks and label patches of janetc_if / janetc_while, the register
   limit of janetc_allocfar, what janetc_return emits, what janetc_freeslot skips.
Raises ExtractError when a function is missing; a statement that is no longer there gives a false flag (the theorem fails)."""
import re
from . import csrc
from .csrc import ExtractError


def _func(src, name, where):
    m = re.search(r"^[A-Za-z_][A-Za-z0-9_ \*]*\b%s\s*\(" % re.escape(name), src, re.M)
    if not m:
        raise ExtractError("%s not found in %s" % (name, where))
    i = src.index("{", m.end())
    return re.sub(r"\s+", "", src[i:csrc.match_brace(src, i)])


CNUM = {"INT8_MAX": 127, "INT8_MIN": -128, "INT16_MAX": 32767, "INT16_MIN": -32768, "UINT8_MAX": 255, "UINT16_MAX": 65535, "INT32_MAX": 2147483647}
CBITS = {"uint8_t": 8, "int8_t": 8, "uint16_t": 16, "int16_t": 16}
_N = r"(-?(?:0[xX][0-9A-Fa-f]+|\d+|U?INT(?:8|16|32)_(?:MAX|MIN)))"


def _num(tok):
    if tok in CNUM:
        return CNUM[tok]
    return int(tok, 0)


def _upper(op, n):
    """exclusive upper bound of the accepted range of `x <op> n` (accept when true)"""
    return {"<": n, "<=": n + 1}[op]


def bounds(tree):
    """Operand-width bounds: every place where the compiler selects a short instruction form (8-bit / 16-bit operand
    field) or rejects a program by comparing an index, a count or a value with a literal.  Returned as NUMBERS read
    from the comparison actually written in the source (operator AND literal: `i <= 0x100` gives the exclusive bound
    0x101), next to the width of the operand field the value is put into (from the cast / the shift in the same
    statement); Props/C02 `operand_bounds_fit_fields` and `destructure_short_index_fits` must re-check with them.
    ExtractError when the statement has no longer the recognised shape."""
    comp = csrc.strip_comments(csrc.read(tree, "src/core/compile.c"))
    spec = csrc.strip_comments(csrc.read(tree, "src/core/specials.c"))
    emit = csrc.strip_comments(csrc.read(tree, "src/core/emit.c"))
    cfun = csrc.strip_comments(csrc.read(tree, "src/core/cfuns.c"))
    out = {}

    def need(m, what):
        if not m:
            raise ExtractError("operand-width bound not recognised: " + what)
        return m
    # the definition of destructure(), not its prototype
    m = None
    for mm in re.finditer(r"^static\s+int\s+destructure\s*\(", spec, re.M):
        j = mm.end()
        k = min([x for x in (spec.find(";", j), spec.find("{", j)) if x >= 0] or [-1])
        if k >= 0 and spec[k] == "{":
            m = k
    if m is None:
        raise ExtractError("definition of destructure() not found in specials.c")
    de = re.sub(r"\s+", "", spec[m:csrc.match_brace(spec, m)])
    m = need(re.search(r"if\(i(<=|<)" + _N + r"\)\{janetc_emit_ssu\(c,JOP_GET_INDEX,nextright,right,\((u?int\d+_t)\)i,1\);\}"
                       r"else\{JanetSlotk=janetc_cslot\(janet_wrap_integer\(i\)\);janetc_emit_sss\(c,JOP_IN,nextright,right,k,1\);\}", de),
             "destructure(): if (i < 0x100) GET_INDEX (uint8_t) i else IN constant key")
    out["destructureShortIndexBound"] = _upper(m.group(1), _num(m.group(2)))
    out["destructureShortIndexBits"] = CBITS[m.group(3)]
    # emit_ssu puts `rest` at bit 24 of a 32-bit word: 8 bits
    e3 = _func(emit, "emit2s", "emit.c")
    m = need(re.search(r"janetc_emit\(c,op\|\(reg1<<8\)\|\(reg2<<16\)\|\(\(uint32_t\)rest<<(\d+)\)\);", e3), "emit2s: rest << 24")
    out["emit2sRestBits"] = 32 - int(m.group(1))
    ci = _func(cfun, "can_be_imm", "cfuns.c")
    m = need(re.search(r"if\(integer>" + _N + r"\|\|integer<" + _N + r"\)return0;", ci), "can_be_imm: integer > INT8_MAX || integer < INT8_MIN")
    out["immMax"], out["immMin"] = _num(m.group(1)), _num(m.group(2))
    m = need(re.search(r"\*out=\((u?int\d+_t)\)integer;", ci), "can_be_imm: *out = (int8_t) integer")
    out["immBits"] = CBITS[m.group(1)]
    lc = _func(emit, "janetc_loadconst", "emit.c")
    m = need(re.search(r"if\(dval<" + _N + r"\|\|dval>" + _N + r"\)gotodo_constant;", lc), "janetc_loadconst: dval < INT16_MIN || dval > INT16_MAX")
    out["loadIntMin"], out["loadIntMax"] = _num(m.group(1)), _num(m.group(2))
    m = need(re.search(r"\(iu<<(\d+)\)\|\(reg<<8\)\|JOP_LOAD_INTEGER", lc), "janetc_loadconst: (iu << 16) | (reg << 8) | JOP_LOAD_INTEGER")
    out["loadIntBits"] = 32 - int(m.group(1))
    rn = _func(emit, "janetc_regnear", "emit.c")
    m = need(re.search(r"if\(s\.envindex<0&&s\.index>=0&&s\.index(<=|<)" + _N + r"\)\{returns\.index;\}", rn), "janetc_regnear: s.index <= 0xFF")
    out["nearSlotBound"] = _upper(m.group(1), _num(m.group(2)))
    gt = _func(comp, "janetc_gettarget", "compile.c")
    m = need(re.search(r"opts\.hint\.index>=0&&opts\.hint\.index(<=|<)" + _N + r"\)", gt), "janetc_gettarget: hint.index <= 0xFF")
    out["nearHintBound"] = _upper(m.group(1), _num(m.group(2)))
    rs = _func(comp, "janetc_resolve", "compile.c")
    m = need(re.search(r"if\(ret\.index(>=|>)" + _N + r"\)\{janetc_cerror\(c,\"cannotcapturelocalinclosure", rs), "janetc_resolve: ret.index > 0xFF rejected")
    out["upvalueIndexBound"] = _num(m.group(2)) + (1 if m.group(1) == ">" else 0)
    af = _func(emit, "janetc_allocfar", "emit.c")
    m = need(re.search(r"if\(reg(>=|>)" + _N + r"\)\{janetc_cerror", af), "janetc_allocfar: reg > 0xFFFF rejected")
    out["farRegisterBound"] = _num(m.group(2)) + (1 if m.group(1) == ">" else 0)
    kc = _func(emit, "janetc_const", "emit.c")
    m = need(re.search(r"if\(len(>=|>)" + _N + r"\)\{janetc_cerror\(c,\"toomanyconstants\"\);", kc), "janetc_const: len >= 0xFFFF rejected")
    out["constIndexBound"] = _num(m.group(2)) + (1 if m.group(1) == ">" else 0)
    sl = _func(emit, "janetc_emit_sl", "emit.c")
    m = need(re.search(r"if\(jump<" + _N + r"\|\|jump>" + _N + r"\)\{janetc_cerror", sl), "janetc_emit_sl: jump < INT16_MIN || jump > INT16_MAX rejected")
    out["labelJumpMin"], out["labelJumpMax"] = _num(m.group(1)), _num(m.group(2))
    iff = _func(spec, "janetc_if", "specials.c")
    m = need(re.search(r"if\(\(labelr-labeljr\)>" + _N + r"\|\|\(labeld-labeljd\)>" + _N + r"\)\{", iff), "janetc_if: jump range check")
    out["ifCondJumpMax"], out["ifJumpMax"] = _num(m.group(1)), _num(m.group(2))
    whl = _func(spec, "janetc_while", "specials.c")
    m = need(re.search(r"if\(\(!infinite&&\(labeld-labelc\)>" + _N + r"\)\|\|\((labeljt|labeld)-labelwt\)>" + _N + r"\)\{", whl), "janetc_while: jump range check")
    out["whileCondJumpMax"], out["whileJumpMax"] = _num(m.group(1)), _num(m.group(3))
    # every break is patched with `labeld - i`, i >= labelwt, labeld = labeljt + 1: a check of the jump BACK (labeljt - labelwt)
    # admits a break jump one larger than the literal; a check of labeld - labelwt bounds the break jump by the literal itself
    out["whileBreakJumpMax"] = _num(m.group(3)) + (1 if m.group(2) == "labeljt" else 0)
    return out


def extract(tree):
    comp = csrc.strip_comments(csrc.read(tree, "src/core/compile.c"))
    spec = csrc.strip_comments(csrc.read(tree, "src/core/specials.c"))
    emit = csrc.strip_comments(csrc.read(tree, "src/core/emit.c"))
    m = re.search(r"static\s+const\s+JanetSpecial\s+janetc_specials\s*\[\]\s*=\s*\{(.*?)\};", spec, re.S)
    if not m:
        raise ExtractError("janetc_specials[] not found in specials.c")
    table = re.findall(r'\{\s*"([^"]+)"\s*,\s*([A-Za-z_0-9]+)\s*\}', m.group(1))
    if len(table) < 5:
        raise ExtractError("janetc_specials[] has an unexpected shape")
    do = _func(spec, "janetc_do", "specials.c")
    up = _func(spec, "janetc_upscope", "specials.c")
    iff = _func(spec, "janetc_if", "specials.c")
    whl = _func(spec, "janetc_while", "specials.c")
    brk = _func(spec, "janetc_break", "specials.c")
    nl = _func(spec, "namelocal", "specials.c")
    vs = _func(spec, "janetc_varset", "specials.c")
    fn = _func(spec, "janetc_fn", "specials.c")
    call = _func(comp, "janetc_call", "compile.c")
    gt = _func(comp, "janetc_gettarget", "compile.c")
    ret = _func(comp, "janetc_return", "compile.c")
    fs = _func(comp, "janetc_freeslot", "compile.c")
    val = _func(comp, "janetc_value", "compile.c")
    pk = _func(comp, "janetc_popscope_keepslot", "compile.c")
    af = _func(emit, "janetc_allocfar", "emit.c")
    seq = "if(i!=argn-1){subopts.flags=JANET_FOPTS_DROP;}else{subopts=opts;subopts.flags&=~JANET_FOPTS_ACCEPT_SPLICE;}ret=janetc_value(subopts,argv[i]);if(i!=argn-1){janetc_freeslot(c,ret);}"
    flags = {
        "doDropsAndFreesAllButLast": seq in do and "janetc_popscope_keepslot(c,ret);" in do,
        "upscopeDropsAndFreesAllButLast": seq in up and "janetc_scope(" not in up,
        "callTailUnlessTopScope": "if((opts.flags&JANET_FOPTS_TAIL)&&!(c->scope->flags&JANET_SCOPE_TOP)){janetc_emit_s(c,JOP_TAILCALL,fun,0);" in call
                                  and "retslot=janetc_gettarget(opts);janetc_emit_ss(c,JOP_CALL,retslot,fun,1);" in call,
        "callPushesThenFrees": call.index("janetc_pushslots(c,slots)") < call.index("janetc_freeslots(c,slots)") if "janetc_pushslots(c,slots)" in call and "janetc_freeslots(c,slots)" in call else False,
        "targetReusesNearHint": "if((opts.flags&JANET_FOPTS_HINT)&&(opts.hint.envindex<0)&&(opts.hint.index>=0&&opts.hint.index<=0xFF)){slot=opts.hint;}" in gt
                                and "slot.index=janetc_allocfar(opts.compiler);" in gt,
        "returnNilOrReturn": "if(s.flags&JANET_SLOT_CONSTANT&&janet_checktype(s.constant,JANET_NIL))janetc_emit(c,JOP_RETURN_NIL);elsejanetc_emit_s(c,JOP_RETURN,s,0);s.flags|=JANET_SLOT_RETURNED;" in ret,
        "freeslotSkipsConstRefNamedUpvalue": "if(s.flags&(JANET_SLOT_CONSTANT|JANET_SLOT_REF|JANET_SLOT_NAMED))return;if(s.envindex>=0)return;janetc_regalloc_free(&c->scope->ra,s.index);" in fs,
        "valueTailThenHint": "if(opts.flags&JANET_FOPTS_TAIL)ret=janetc_return(c,ret);if(opts.flags&JANET_FOPTS_HINT){janetc_copy(c,opts.hint,ret);ret=opts.hint;}" in val,
        "keepslotTouchesLocal": "if(scope&&retslot.envindex<0&&retslot.index>=0){janetc_regalloc_touch(&scope->ra,retslot.index);}" in pk,
        "namelocalAliasOrCopy": "intcanAlias=!(flags&JANET_SLOT_MUTABLE)&&!(ret.flags&JANET_SLOT_MUTABLE)&&(ret.flags&JANET_SLOT_NAMED)&&(ret.index>=0)&&(ret.envindex==-1);" in nl
                                and "JanetSlotlocalslot=janetc_farslot(c);janetc_copy(c,localslot,ret);ret=localslot;" in nl,
        "varsetHintsDest": "subopts.flags=JANET_FOPTS_HINT;subopts.hint=dest;JanetSlotret=janetc_value(subopts,argv[1]);janetc_copy(opts.compiler,dest,ret);returnret;" in vs,
        "ifJumpRangeAndPatch": "if((labelr-labeljr)>INT16_MAX||(labeld-labeljd)>0x7FFFFF){" in iff and "c->buffer[labeljr]|=(labelr-labeljr)<<16;if(!tail)c->buffer[labeljd]|=(labeld-labeljd)<<8;" in iff,
        "ifElseJumpCondition": "if(!tail&&!(drop&&janet_checktype(falsebody,JANET_NIL)))janetc_emit(c,JOP_JUMP);" in iff,
        "whileJumpRangeAndPatch": ("if((!infinite&&(labeld-labelc)>INT16_MAX)||(labeljt-labelwt)>0x7FFFFF){" in whl
                                   or "if((!infinite&&(labeld-labelc)>INT16_MAX)||(labeld-labelwt)>0x7FFFFF){" in whl)
                                  and "if(!infinite)c->buffer[labelc]|=(uint32_t)(labeld-labelc)<<16;c->buffer[labeljt]|=(uint32_t)(labelwt-labeljt)<<8;" in whl,
        "whileBreakPatch": "if(c->buffer[i]==(0x80|JOP_JUMP)){c->buffer[i]=JOP_JUMP|((labeld-i)<<8);}" in whl and "janetc_emit(c,0x80|JOP_JUMP);" in brk,
        "whileClosureRewrite": "if(tempscope.flags&JANET_SCOPE_CLOSURE){" in whl and 'janetc_scope(&tempscope,c,JANET_SCOPE_FUNCTION,"while-iife");' in whl
                               and "janetc_emit(c,JOP_LOAD_SELF|(tempself<<8));janetc_emit(c,JOP_TAILCALL|(tempself<<8));" in whl
                               and "janetc_emit(c,JOP_CLOSURE|(cloreg<<8)|(defindex<<16));janetc_emit(c,JOP_CALL|(cloreg<<8)|(cloreg<<16));" in whl,
        "fnMarksClosureAndTailBody": "c->scope->flags|=JANET_SCOPE_CLOSURE;janetc_scope(&fnscope,c,JANET_SCOPE_FUNCTION,\"function\");" in fn
                                     and "subopts.flags=(argi==(argn-1))?JANET_FOPTS_TAIL:JANET_FOPTS_DROP;" in fn
                                     and "ret=janetc_gettarget(opts);janetc_emit_su(c,JOP_CLOSURE,ret,defindex,1);" in fn,
        "allocfarLimit0xFFFF": "if(reg>0xFFFF){" in af,
    }
    return table, flags


def render(tree):
    table, flags = extract(tree)
    out = ["-- GENERATED by /verif/tools/gen/compile.py from the current janet source tree (src/core/compile.c, specials.c, emit.c).",
           "-- Regenerated on every check run; do not edit.", "", "namespace JanetModel.Gen.Compile", "",
           "/-- `janetc_specials[]`: names in table order -/",
           "abbrev specialNames : List String := [%s]" % ", ".join('"%s"' % n for n, _ in table), "",
           "/-- name ↦ handler -/",
           "abbrev specialHandlers : List (String × String) := [%s]" % ", ".join('("%s", "%s")' % t for t in table), ""]
    for k, v in flags.items():
        out.append("abbrev %s : Bool := %s" % (k, "true" if v else "false"))
    out.append("")
    out.append("abbrev allShapes : Bool := %s" % " && ".join(flags.keys()))
    out += ["", "/-! operand-width bounds: the literal AND the comparison operator as written in the source (exclusive `…Bound`,",
            "inclusive `…Min` / `…Max`), and the width of the operand field the value is stored in -/"]
    for k, v in bounds(tree).items():
        out.append("abbrev %s : %s := %s" % (k, "Int" if (k.endswith("Min") or k.endswith("Max")) else "Nat", ("(%d)" % v) if v < 0 else str(v)))
    out += ["", "end JanetModel.Gen.Compile", ""]
    return "\n".join(out)
