"""Translator: the facts of compile.c / specials.c that the compiler model lean/JanetModel/Compile/Model.lean hard-codes
->  Gen/Compile.lean.  Props/C02 (`compile_model_matches_source`) checks them against the model on every run.

 * the table of special forms `janetc_specials[]` (names in table order, and the handler each name dispatches to): the
   model's `specials` list and its dispatch on exactly these names;
 * presence / shape of the statements whose effect the model mirrors one for one: which `do` statements are compiled with
   JANET_FOPTS_DROP and freed, the tail-call test of janetc_call, the near-register test of janetc_gettarget, the
   alias / copy decision of namelocal, the jump range checks and label patches of janetc_if / janetc_while, the register
   limit of janetc_allocfar, what janetc_return emits, what janetc_freeslot skips.
Raises ExtractError when a function is missing; a statement that is no longer there gives a false flag (the theorem fails)."""
import re
from . import csrc
from .csrc import ExtractError


def _func(src, name, where):
    m = re.search(r"^[A-Za-z_][A-Za-z0-9_ \*]*\b%s\s*\(" % re.escape(name), src, re.M)
    if not m:
        raise ExtractError("%s not found in %s" % (name, where))
    i = src.index("{", m.end())
    return re.sub(r"\s+", "", src[i:csrc.match_brace(src, i)])


def extract(tree):
    comp = csrc.strip_comments(csrc.read(tree, "src/core/compile.c"))
    spec = csrc.strip_comments(csrc.read(tree, "src/core/specials.c"))
    emit = csrc.strip_comments(csrc.read(tree, "src/core/emit.c"))
    m = re.search(r"static\s+const\s+JanetSpecial\s+janetc_specials\s*\[\]\s*=\s*\{(.*?)\};", spec, re.S)
    if not m:
        raise ExtractError("janetc_specials[] not found in specials.c")
    table = re.findall(r'\{\s*"([^"]+)"\s*,\s*([A-Za-z_0-9]+)\s*\}', m.group(1))
    if len(table) < 5:
        raise ExtractError("janetc_specials[] has an unexpected shape")
    do = _func(spec, "janetc_do", "specials.c")
    up = _func(spec, "janetc_upscope", "specials.c")
    iff = _func(spec, "janetc_if", "specials.c")
    whl = _func(spec, "janetc_while", "specials.c")
    brk = _func(spec, "janetc_break", "specials.c")
    nl = _func(spec, "namelocal", "specials.c")
    vs = _func(spec, "janetc_varset", "specials.c")
    fn = _func(spec, "janetc_fn", "specials.c")
    call = _func(comp, "janetc_call", "compile.c")
    gt = _func(comp, "janetc_gettarget", "compile.c")
    ret = _func(comp, "janetc_return", "compile.c")
    fs = _func(comp, "janetc_freeslot", "compile.c")
    val = _func(comp, "janetc_value", "compile.c")
    pk = _func(comp, "janetc_popscope_keepslot", "compile.c")
    af = _func(emit, "janetc_allocfar", "emit.c")
    seq = "if(i!=argn-1){subopts.flags=JANET_FOPTS_DROP;}else{subopts=opts;subopts.flags&=~JANET_FOPTS_ACCEPT_SPLICE;}ret=janetc_value(subopts,argv[i]);if(i!=argn-1){janetc_freeslot(c,ret);}"
    flags = {
        "doDropsAndFreesAllButLast": seq in do and "janetc_popscope_keepslot(c,ret);" in do,
        "upscopeDropsAndFreesAllButLast": seq in up and "janetc_scope(" not in up,
        "callTailUnlessTopScope": "if((opts.flags&JANET_FOPTS_TAIL)&&!(c->scope->flags&JANET_SCOPE_TOP)){janetc_emit_s(c,JOP_TAILCALL,fun,0);" in call
                                  and "retslot=janetc_gettarget(opts);janetc_emit_ss(c,JOP_CALL,retslot,fun,1);" in call,
        "callPushesThenFrees": call.index("janetc_pushslots(c,slots)") < call.index("janetc_freeslots(c,slots)") if "janetc_pushslots(c,slots)" in call and "janetc_freeslots(c,slots)" in call else False,
        "targetReusesNearHint": "if((opts.flags&JANET_FOPTS_HINT)&&(opts.hint.envindex<0)&&(opts.hint.index>=0&&opts.hint.index<=0xFF)){slot=opts.hint;}" in gt
                                and "slot.index=janetc_allocfar(opts.compiler);" in gt,
        "returnNilOrReturn": "if(s.flags&JANET_SLOT_CONSTANT&&janet_checktype(s.constant,JANET_NIL))janetc_emit(c,JOP_RETURN_NIL);elsejanetc_emit_s(c,JOP_RETURN,s,0);s.flags|=JANET_SLOT_RETURNED;" in ret,
        "freeslotSkipsConstRefNamedUpvalue": "if(s.flags&(JANET_SLOT_CONSTANT|JANET_SLOT_REF|JANET_SLOT_NAMED))return;if(s.envindex>=0)return;janetc_regalloc_free(&c->scope->ra,s.index);" in fs,
        "valueTailThenHint": "if(opts.flags&JANET_FOPTS_TAIL)ret=janetc_return(c,ret);if(opts.flags&JANET_FOPTS_HINT){janetc_copy(c,opts.hint,ret);ret=opts.hint;}" in val,
        "keepslotTouchesLocal": "if(scope&&retslot.envindex<0&&retslot.index>=0){janetc_regalloc_touch(&scope->ra,retslot.index);}" in pk,
        "namelocalAliasOrCopy": "intcanAlias=!(flags&JANET_SLOT_MUTABLE)&&!(ret.flags&JANET_SLOT_MUTABLE)&&(ret.flags&JANET_SLOT_NAMED)&&(ret.index>=0)&&(ret.envindex==-1);" in nl
                                and "JanetSlotlocalslot=janetc_farslot(c);janetc_copy(c,localslot,ret);ret=localslot;" in nl,
        "varsetHintsDest": "subopts.flags=JANET_FOPTS_HINT;subopts.hint=dest;JanetSlotret=janetc_value(subopts,argv[1]);janetc_copy(opts.compiler,dest,ret);returnret;" in vs,
        "ifJumpRangeAndPatch": "if((labelr-labeljr)>INT16_MAX||(labeld-labeljd)>0x7FFFFF){" in iff and "c->buffer[labeljr]|=(labelr-labeljr)<<16;if(!tail)c->buffer[labeljd]|=(labeld-labeljd)<<8;" in iff,
        "ifElseJumpCondition": "if(!tail&&!(drop&&janet_checktype(falsebody,JANET_NIL)))janetc_emit(c,JOP_JUMP);" in iff,
        "whileJumpRangeAndPatch": "if((!infinite&&(labeld-labelc)>INT16_MAX)||(labeljt-labelwt)>0x7FFFFF){" in whl
                                  and "if(!infinite)c->buffer[labelc]|=(uint32_t)(labeld-labelc)<<16;c->buffer[labeljt]|=(uint32_t)(labelwt-labeljt)<<8;" in whl,
        "whileBreakPatch": "if(c->buffer[i]==(0x80|JOP_JUMP)){c->buffer[i]=JOP_JUMP|((labeld-i)<<8);}" in whl and "janetc_emit(c,0x80|JOP_JUMP);" in brk,
        "whileClosureRewrite": "if(tempscope.flags&JANET_SCOPE_CLOSURE){" in whl and 'janetc_scope(&tempscope,c,JANET_SCOPE_FUNCTION,"while-iife");' in whl
                               and "janetc_emit(c,JOP_LOAD_SELF|(tempself<<8));janetc_emit(c,JOP_TAILCALL|(tempself<<8));" in whl
                               and "janetc_emit(c,JOP_CLOSURE|(cloreg<<8)|(defindex<<16));janetc_emit(c,JOP_CALL|(cloreg<<8)|(cloreg<<16));" in whl,
        "fnMarksClosureAndTailBody": "c->scope->flags|=JANET_SCOPE_CLOSURE;janetc_scope(&fnscope,c,JANET_SCOPE_FUNCTION,\"function\");" in fn
                                     and "subopts.flags=(argi==(argn-1))?JANET_FOPTS_TAIL:JANET_FOPTS_DROP;" in fn
                                     and "ret=janetc_gettarget(opts);janetc_emit_su(c,JOP_CLOSURE,ret,defindex,1);" in fn,
        "allocfarLimit0xFFFF": "if(reg>0xFFFF){" in af,
    }
    return table, flags


def render(tree):
    table, flags = extract(tree)
    out = ["-- GENERATED by /verif/tools/gen/compile.py from the current janet source tree (src/core/compile.c, specials.c, emit.c).",
           "-- Regenerated on every check run; do not edit.", "", "namespace JanetModel.Gen.Compile", "",
           "/-- `janetc_specials[]`: names in table order -/",
           "abbrev specialNames : List String := [%s]" % ", ".join('"%s"' % n for n, _ in table), "",
           "/-- name ↦ handler -/",
           "abbrev specialHandlers : List (String × String) := [%s]" % ", ".join('("%s", "%s")' % t for t in table), ""]
    for k, v in flags.items():
        out.append("abbrev %s : Bool := %s" % (k, "true" if v else "false"))
    out.append("")
    out.append("abbrev allShapes : Bool := %s" % " && ".join(flags.keys()))
    out += ["", "end JanetModel.Gen.Compile", ""]
    return "\n".join(out)
