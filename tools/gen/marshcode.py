"""Translator: marsh.c (code objects) -> Gen/MarshCode.lean.

Extracted from the current source, with shape assertions (ExtractError = broken tie):
  * the JANET_FUNCDEF_FLAG_* bits that select the optional parts of a marshalled funcdef,
  * the order of the fields written by marshal_one_def and read by unmarshal_one_def (statement order),
  * the limits tested by the unmarshaller (slot count, environment count),
  * the recursion-depth increment (`flags` vs `flags + 1`) of every call from marshal_one / marshal_one_def /
    marshal_one_env and of the corresponding call on the unmarshal side,
  * where a function / funcdef / environment is numbered relative to its children.
"""
import re
from . import csrc
from .csrc import ExtractError

FLAGS = ["HASSYMBOLMAP", "HASNAME", "HASSOURCE", "HASDEFS", "HASENVS", "HASSOURCEMAP", "HASCLOBITSET"]
LEAN_FLAG = {"HASSYMBOLMAP": "fdHasSymbolMap", "HASNAME": "fdHasName", "HASSOURCE": "fdHasSource", "HASDEFS": "fdHasDefs",
             "HASENVS": "fdHasEnvs", "HASSOURCEMAP": "fdHasSourceMap", "HASCLOBITSET": "fdHasCloBitset"}

# (token, regex) in the order in which marshal_one_def must write them; each regex must match exactly once and the
# matches must appear in this order
M_FIELDS = [
    ("seen-loop", r"for\s*\(\s*int32_t\s+i\s*=\s*0\s*;\s*i\s*<\s*janet_v_count\s*\(\s*st->seen_defs\s*\)\s*;\s*i\+\+\s*\)\s*\{\s*if\s*\(\s*st->seen_defs\[i\]\s*==\s*def\s*\)\s*\{\s*pushbyte\s*\(\s*st\s*,\s*LB_FUNCDEF_REF\s*\)\s*;\s*pushint\s*\(\s*st\s*,\s*i\s*\)\s*;\s*return\s*;"),
    ("push-seen", r"janet_v_push\s*\(\s*st->seen_defs\s*,\s*def\s*\)\s*;"),
    ("flags", r"pushint\s*\(\s*st\s*,\s*def->flags\s*\)\s*;"),
    ("slotcount", r"pushint\s*\(\s*st\s*,\s*def->slotcount\s*\)\s*;"),
    ("arity", r"pushint\s*\(\s*st\s*,\s*def->arity\s*\)\s*;"),
    ("min_arity", r"pushint\s*\(\s*st\s*,\s*def->min_arity\s*\)\s*;"),
    ("max_arity", r"pushint\s*\(\s*st\s*,\s*def->max_arity\s*\)\s*;"),
    ("constants_length", r"pushint\s*\(\s*st\s*,\s*def->constants_length\s*\)\s*;"),
    ("bytecode_length", r"pushint\s*\(\s*st\s*,\s*def->bytecode_length\s*\)\s*;"),
    ("?HASENVS:environments_length", r"if\s*\(\s*def->flags\s*&\s*JANET_FUNCDEF_FLAG_HASENVS\s*\)\s*pushint\s*\(\s*st\s*,\s*def->environments_length\s*\)\s*;"),
    ("?HASDEFS:defs_length", r"if\s*\(\s*def->flags\s*&\s*JANET_FUNCDEF_FLAG_HASDEFS\s*\)\s*pushint\s*\(\s*st\s*,\s*def->defs_length\s*\)\s*;"),
    ("?HASSYMBOLMAP:symbolmap_length", r"if\s*\(\s*def->flags\s*&\s*JANET_FUNCDEF_FLAG_HASSYMBOLMAP\s*\)\s*pushint\s*\(\s*st\s*,\s*def->symbolmap_length\s*\)\s*;"),
    ("?HASNAME:name", r"if\s*\(\s*def->flags\s*&\s*JANET_FUNCDEF_FLAG_HASNAME\s*\)\s*marshal_one\s*\(\s*st\s*,\s*janet_wrap_string\s*\(\s*def->name\s*\)\s*,\s*flags(\s*\+\s*1)?\s*\)\s*;"),
    ("?HASSOURCE:source", r"if\s*\(\s*def->flags\s*&\s*JANET_FUNCDEF_FLAG_HASSOURCE\s*\)\s*marshal_one\s*\(\s*st\s*,\s*janet_wrap_string\s*\(\s*def->source\s*\)\s*,\s*flags(\s*\+\s*1)?\s*\)\s*;"),
    ("constants", r"for\s*\(\s*int32_t\s+i\s*=\s*0\s*;\s*i\s*<\s*def->constants_length\s*;\s*i\+\+\s*\)\s*marshal_one\s*\(\s*st\s*,\s*def->constants\[i\]\s*,\s*flags(\s*\+\s*1)?\s*\)\s*;"),
    ("symbolmap", r"for\s*\(\s*int32_t\s+i\s*=\s*0\s*;\s*i\s*<\s*def->symbolmap_length\s*;\s*i\+\+\s*\)\s*\{\s*pushint\s*\(\s*st\s*,\s*\(int32_t\)\s*def->symbolmap\[i\]\.birth_pc\s*\)\s*;\s*pushint\s*\(\s*st\s*,\s*\(int32_t\)\s*def->symbolmap\[i\]\.death_pc\s*\)\s*;\s*pushint\s*\(\s*st\s*,\s*\(int32_t\)\s*def->symbolmap\[i\]\.slot_index\s*\)\s*;\s*marshal_one\s*\(\s*st\s*,\s*janet_wrap_symbol\s*\(\s*def->symbolmap\[i\]\.symbol\s*\)\s*,\s*flags(\s*\+\s*1)?\s*\)\s*;\s*\}"),
    ("bytecode", r"janet_marshal_u32s\s*\(\s*st\s*,\s*def->bytecode\s*,\s*def->bytecode_length\s*\)\s*;"),
    ("environments", r"for\s*\(\s*int32_t\s+i\s*=\s*0\s*;\s*i\s*<\s*def->environments_length\s*;\s*i\+\+\s*\)\s*pushint\s*\(\s*st\s*,\s*def->environments\[i\]\s*\)\s*;"),
    ("defs", r"for\s*\(\s*int32_t\s+i\s*=\s*0\s*;\s*i\s*<\s*def->defs_length\s*;\s*i\+\+\s*\)\s*marshal_one_def\s*\(\s*st\s*,\s*def->defs\[i\]\s*,\s*flags(\s*\+\s*1)?\s*\)\s*;"),
    ("?HASSOURCEMAP:sourcemap", r"if\s*\(\s*def->flags\s*&\s*JANET_FUNCDEF_FLAG_HASSOURCEMAP\s*\)\s*\{\s*int32_t\s+current\s*=\s*0\s*;\s*for\s*\(\s*int32_t\s+i\s*=\s*0\s*;\s*i\s*<\s*def->bytecode_length\s*;\s*i\+\+\s*\)\s*\{\s*JanetSourceMapping\s+map\s*=\s*def->sourcemap\[i\]\s*;\s*pushint\s*\(\s*st\s*,\s*map\.line\s*-\s*current\s*\)\s*;\s*pushint\s*\(\s*st\s*,\s*map\.column\s*\)\s*;\s*current\s*=\s*map\.line\s*;\s*\}\s*\}"),
    ("?HASCLOBITSET:closure_bitset", r"if\s*\(\s*def->flags\s*&\s*JANET_FUNCDEF_FLAG_HASCLOBITSET\s*\)\s*\{\s*janet_marshal_u32s\s*\(\s*st\s*,\s*def->closure_bitset\s*,\s*\(\s*\(\s*def->slotcount\s*\+\s*31\s*\)\s*>>\s*5\s*\)\s*\)\s*;\s*\}"),
]

U_FIELDS = [
    ("ref", r"if\s*\(\s*\*data\s*==\s*LB_FUNCDEF_REF\s*\)\s*\{\s*data\+\+\s*;\s*int32_t\s+index\s*=\s*readint\s*\(\s*st\s*,\s*&data\s*\)\s*;\s*if\s*\(\s*index\s*<\s*0\s*\|\|\s*index\s*>=\s*janet_v_count\s*\(\s*st->lookup_defs\s*\)\s*\)"),
    ("push-seen", r"janet_v_push\s*\(\s*st->lookup_defs\s*,\s*def\s*\)\s*;"),
    ("flags", r"def->flags\s*=\s*readint\s*\(\s*st\s*,\s*&data\s*\)\s*;"),
    ("slotcount", r"def->slotcount\s*=\s*readnat\s*\(\s*st\s*,\s*&data\s*\)\s*;\s*if\s*\(\s*def->slotcount\s*>\s*(\w+)\s*\)\s*\{"),
    ("arity", r"def->arity\s*=\s*readnat\s*\(\s*st\s*,\s*&data\s*\)\s*;"),
    ("min_arity", r"def->min_arity\s*=\s*readnat\s*\(\s*st\s*,\s*&data\s*\)\s*;"),
    ("max_arity", r"def->max_arity\s*=\s*readnat\s*\(\s*st\s*,\s*&data\s*\)\s*;"),
    ("constants_length", r"constants_length\s*=\s*readnat\s*\(\s*st\s*,\s*&data\s*\)\s*;"),
    ("bytecode_length", r"bytecode_length\s*=\s*readnat\s*\(\s*st\s*,\s*&data\s*\)\s*;"),
    ("?HASENVS:environments_length", r"if\s*\(\s*def->flags\s*&\s*JANET_FUNCDEF_FLAG_HASENVS\s*\)\s*environments_length\s*=\s*readnat\s*\(\s*st\s*,\s*&data\s*\)\s*;"),
    ("?HASDEFS:defs_length", r"if\s*\(\s*def->flags\s*&\s*JANET_FUNCDEF_FLAG_HASDEFS\s*\)\s*defs_length\s*=\s*readnat\s*\(\s*st\s*,\s*&data\s*\)\s*;"),
    ("?HASSYMBOLMAP:symbolmap_length", r"if\s*\(\s*def->flags\s*&\s*JANET_FUNCDEF_FLAG_HASSYMBOLMAP\s*\)\s*symbolmap_length\s*=\s*readnat\s*\(\s*st\s*,\s*&data\s*\)\s*;"),
    ("?HASNAME:name", r"if\s*\(\s*def->flags\s*&\s*JANET_FUNCDEF_FLAG_HASNAME\s*\)\s*\{\s*Janet\s+x\s*;\s*data\s*=\s*unmarshal_one\s*\(\s*st\s*,\s*data\s*,\s*&x\s*,\s*flags(\s*\+\s*1)?\s*\)\s*;\s*janet_asserttype\s*\(\s*x\s*,\s*JANET_STRING\s*,\s*st\s*\)\s*;\s*def->name\s*="),
    ("?HASSOURCE:source", r"if\s*\(\s*def->flags\s*&\s*JANET_FUNCDEF_FLAG_HASSOURCE\s*\)\s*\{\s*Janet\s+x\s*;\s*data\s*=\s*unmarshal_one\s*\(\s*st\s*,\s*data\s*,\s*&x\s*,\s*flags(\s*\+\s*1)?\s*\)\s*;\s*janet_asserttype\s*\(\s*x\s*,\s*JANET_STRING\s*,\s*st\s*\)\s*;\s*def->source\s*="),
    ("constants", r"for\s*\(\s*int32_t\s+i\s*=\s*0\s*;\s*i\s*<\s*constants_length\s*;\s*i\+\+\s*\)\s*data\s*=\s*unmarshal_one\s*\(\s*st\s*,\s*data\s*,\s*def->constants\s*\+\s*i\s*,\s*flags(\s*\+\s*1)?\s*\)\s*;"),
    ("symbolmap", r"if\s*\(\s*def->flags\s*&\s*JANET_FUNCDEF_FLAG_HASSYMBOLMAP\s*\)\s*\{.*?for\s*\(\s*int32_t\s+i\s*=\s*0\s*;\s*i\s*<\s*symbolmap_length\s*;\s*i\+\+\s*\)\s*\{\s*def->symbolmap\[i\]\.birth_pc\s*=\s*\(uint32_t\)\s*readint\s*\(\s*st\s*,\s*&data\s*\)\s*;\s*def->symbolmap\[i\]\.death_pc\s*=\s*\(uint32_t\)\s*readint\s*\(\s*st\s*,\s*&data\s*\)\s*;\s*def->symbolmap\[i\]\.slot_index\s*=\s*\(uint32_t\)\s*readint\s*\(\s*st\s*,\s*&data\s*\)\s*;\s*Janet\s+value\s*;\s*data\s*=\s*unmarshal_one\s*\(\s*st\s*,\s*data\s*,\s*&value\s*,\s*flags(\s*\+\s*1)?\s*\)\s*;"),
    ("bytecode", r"data\s*=\s*janet_unmarshal_u32s\s*\(\s*st\s*,\s*data\s*,\s*def->bytecode\s*,\s*bytecode_length\s*\)\s*;"),
    ("environments", r"if\s*\(\s*def->flags\s*&\s*JANET_FUNCDEF_FLAG_HASENVS\s*\)\s*\{.*?for\s*\(\s*int32_t\s+i\s*=\s*0\s*;\s*i\s*<\s*environments_length\s*;\s*i\+\+\s*\)\s*\{\s*int32_t\s+inherit\s*=\s*readint\s*\(\s*st\s*,\s*&data\s*\)\s*;\s*if\s*\(\s*inherit\s*<\s*-1\s*\)"),
    ("defs", r"if\s*\(\s*def->flags\s*&\s*JANET_FUNCDEF_FLAG_HASDEFS\s*\)\s*\{.*?for\s*\(\s*int32_t\s+i\s*=\s*0\s*;\s*i\s*<\s*defs_length\s*;\s*i\+\+\s*\)\s*\{\s*data\s*=\s*unmarshal_one_def\s*\(\s*st\s*,\s*data\s*,\s*def->defs\s*\+\s*i\s*,\s*flags(\s*\+\s*1)?\s*\)\s*;"),
    ("?HASSOURCEMAP:sourcemap", r"if\s*\(\s*def->flags\s*&\s*JANET_FUNCDEF_FLAG_HASSOURCEMAP\s*\)\s*\{\s*int32_t\s+current\s*=\s*0\s*;.*?for\s*\(\s*int32_t\s+i\s*=\s*0\s*;\s*i\s*<\s*bytecode_length\s*;\s*i\+\+\s*\)\s*\{\s*current\s*\+=\s*readint\s*\(\s*st\s*,\s*&data\s*\)\s*;\s*def->sourcemap\[i\]\.line\s*=\s*current\s*;\s*def->sourcemap\[i\]\.column\s*=\s*readint\s*\(\s*st\s*,\s*&data\s*\)\s*;"),
    ("?HASCLOBITSET:closure_bitset", r"if\s*\(\s*def->flags\s*&\s*JANET_FUNCDEF_FLAG_HASCLOBITSET\s*\)\s*\{\s*int32_t\s+n\s*=\s*\(\s*def->slotcount\s*\+\s*31\s*\)\s*>>\s*5\s*;.*?data\s*=\s*janet_unmarshal_u32s\s*\(\s*st\s*,\s*data\s*,\s*def->closure_bitset\s*,\s*n\s*\)\s*;"),
    ("verify", r"if\s*\(\s*janet_verify\s*\(\s*def\s*\)\s*\)\s*janet_panic"),
]


# statement order of marshal_one_fiber / unmarshal_one_fiber (every child visit at flags + 1)
F_FIELDS = [
    ("stackcheck", r"^\{\s*MARSH_STACKCHECK\s*;"),
    ("haschild", r"if\s*\(\s*fiber->child\s*\)\s*fflags\s*\|=\s*JANET_FIBER_FLAG_HASCHILD\s*;"),
    ("hasenv", r"if\s*\(\s*fiber->env\s*\)\s*fflags\s*\|=\s*JANET_FIBER_FLAG_HASENV\s*;"),
    ("header", r"pushint\s*\(\s*st\s*,\s*fflags\s*\)\s*;\s*pushint\s*\(\s*st\s*,\s*fiber->frame\s*\)\s*;\s*pushint\s*\(\s*st\s*,\s*fiber->stackstart\s*\)\s*;\s*pushint\s*\(\s*st\s*,\s*fiber->stacktop\s*\)\s*;\s*pushint\s*\(\s*st\s*,\s*fiber->maxstack\s*\)\s*;"),
    ("loop", r"int32_t\s+i\s*=\s*fiber->frame\s*;\s*int32_t\s+j\s*=\s*fiber->stackstart\s*-\s*JANET_FRAME_SIZE\s*;\s*while\s*\(\s*i\s*>\s*0\s*\)\s*\{"),
    # either the bit is stored in the live frame (`frame->flags |= …; pushint(st, frame->flags)`), or it is computed in a local
    # (`int32_t frameflags = frame->flags [& ~HASENV]; if (frame->env) frameflags |= HASENV; … pushint(st, frameflags)`)
    ("frame-hasenv", r"(?:if\s*\(\s*frame->env\s*\)\s*(frame->flags)\s*\|=\s*JANET_STACKFRAME_HASENV\s*;"
                     r"|int32_t\s+frameflags\s*=\s*frame->flags\s*(?:&\s*~\s*JANET_STACKFRAME_HASENV\s*)?;\s*if\s*\(\s*frame->env\s*\)\s*frameflags\s*\|=\s*JANET_STACKFRAME_HASENV\s*;)"),
    ("frame-ints", r"pushint\s*\(\s*st\s*,\s*(frame->flags|frameflags)\s*\)\s*;\s*pushint\s*\(\s*st\s*,\s*frame->prevframe\s*\)\s*;\s*int32_t\s+pcdiff\s*=\s*\(int32_t\)\s*\(\s*frame->pc\s*-\s*frame->func->def->bytecode\s*\)\s*;\s*pushint\s*\(\s*st\s*,\s*pcdiff\s*\)\s*;"),
    ("frame-func", r"marshal_one\s*\(\s*st\s*,\s*janet_wrap_function\s*\(\s*frame->func\s*\)\s*,\s*flags\s*\+\s*1\s*\)\s*;"),
    ("frame-env", r"if\s*\(\s*frame->env\s*\)\s*marshal_one_env\s*\(\s*st\s*,\s*frame->env\s*,\s*flags\s*\+\s*1\s*\)\s*;"),
    ("frame-slots", r"for\s*\(\s*int32_t\s+k\s*=\s*i\s*;\s*k\s*<\s*j\s*;\s*k\+\+\s*\)\s*marshal_one\s*\(\s*st\s*,\s*fiber->data\[k\]\s*,\s*flags\s*\+\s*1\s*\)\s*;\s*j\s*=\s*i\s*-\s*JANET_FRAME_SIZE\s*;\s*i\s*=\s*frame->prevframe\s*;"),
    ("env", r"if\s*\(\s*fiber->env\s*\)\s*\{\s*marshal_one\s*\(\s*st\s*,\s*janet_wrap_table\s*\(\s*fiber->env\s*\)\s*,\s*flags\s*\+\s*1\s*\)\s*;\s*\}"),
    ("child", r"if\s*\(\s*fiber->child\s*\)\s*marshal_one\s*\(\s*st\s*,\s*janet_wrap_fiber\s*\(\s*fiber->child\s*\)\s*,\s*flags\s*\+\s*1\s*\)\s*;"),
    ("last", r"marshal_one\s*\(\s*st\s*,\s*fiber->last_value\s*,\s*flags\s*\+\s*1\s*\)\s*;"),
]
FU_FIELDS = [
    ("push", r"janet_v_push\s*\(\s*st->lookup\s*,\s*janet_wrap_fiber\s*\(\s*fiber\s*\)\s*\)\s*;"),
    ("header", r"int32_t\s+fiber_flags\s*=\s*readint\s*\(\s*st\s*,\s*&data\s*\)\s*;\s*int32_t\s+frame\s*=\s*readnat\s*\(\s*st\s*,\s*&data\s*\)\s*;\s*int32_t\s+fiber_stackstart\s*=\s*readnat\s*\(\s*st\s*,\s*&data\s*\)\s*;\s*int32_t\s+fiber_stacktop\s*=\s*readnat\s*\(\s*st\s*,\s*&data\s*\)\s*;\s*int32_t\s+fiber_maxstack\s*=\s*readnat\s*\(\s*st\s*,\s*&data\s*\)\s*;"),
    ("setup-check", r"if\s*\(\s*\(int32_t\)\s*\(\s*frame\s*\+\s*JANET_FRAME_SIZE\s*\)\s*>\s*fiber_stackstart\s*\|\|\s*fiber_stackstart\s*>\s*fiber_stacktop\s*\|\|\s*fiber_stacktop\s*>\s*fiber_maxstack\s*\)"),
    ("loop", r"int32_t\s+stack\s*=\s*frame\s*;\s*int32_t\s+stacktop\s*=\s*fiber_stackstart\s*-\s*JANET_FRAME_SIZE\s*;\s*while\s*\(\s*stack\s*>\s*0\s*\)\s*\{"),
    ("frame-ints", r"int32_t\s+frameflags\s*=\s*readint\s*\(\s*st\s*,\s*&data\s*\)\s*;\s*int32_t\s+prevframe\s*=\s*readnat\s*\(\s*st\s*,\s*&data\s*\)\s*;\s*int32_t\s+pcdiff\s*=\s*readnat\s*\(\s*st\s*,\s*&data\s*\)\s*;"),
    ("frame-func", r"data\s*=\s*unmarshal_one\s*\(\s*st\s*,\s*data\s*,\s*&funcv\s*,\s*flags\s*\+\s*1\s*\)\s*;"),
    ("frame-env", r"if\s*\(\s*frameflags\s*&\s*JANET_STACKFRAME_HASENV\s*\)\s*\{\s*frameflags\s*&=\s*~JANET_STACKFRAME_HASENV\s*;\s*data\s*=\s*unmarshal_one_env\s*\(\s*st\s*,\s*data\s*,\s*&env\s*,\s*flags\s*\+\s*1\s*\)\s*;\s*\}"),
    ("frame-align", r"if\s*\(\s*\(int32_t\)\s*\(\s*prevframe\s*\+\s*JANET_FRAME_SIZE\s*\)\s*>\s*stack\s*\)"),
    ("frame-slots", r"for\s*\(\s*int32_t\s+i\s*=\s*stack\s*;\s*i\s*<\s*stacktop\s*;\s*i\+\+\s*\)\s*data\s*=\s*unmarshal_one\s*\(\s*st\s*,\s*data\s*,\s*fiber->data\s*\+\s*i\s*,\s*flags\s*\+\s*1\s*\)\s*;"),
    ("frame-next", r"stacktop\s*=\s*stack\s*-\s*JANET_FRAME_SIZE\s*;\s*stack\s*=\s*prevframe\s*;"),
    ("env", r"if\s*\(\s*fiber_flags\s*&\s*JANET_FIBER_FLAG_HASENV\s*\)\s*\{\s*Janet\s+envv\s*;\s*(fiber_flags\s*&=\s*~JANET_FIBER_FLAG_HASENV\s*;\s*)?data\s*=\s*unmarshal_one\s*\(\s*st\s*,\s*data\s*,\s*&envv\s*,\s*flags\s*\+\s*1\s*\)\s*;"),
    ("child", r"if\s*\(\s*fiber_flags\s*&\s*JANET_FIBER_FLAG_HASCHILD\s*\)\s*\{\s*Janet\s+fiberv\s*;\s*(fiber_flags\s*&=\s*~JANET_FIBER_FLAG_HASCHILD\s*;\s*)?data\s*=\s*unmarshal_one\s*\(\s*st\s*,\s*data\s*,\s*&fiberv\s*,\s*flags\s*\+\s*1\s*\)\s*;"),
    ("last", r"data\s*=\s*unmarshal_one\s*\(\s*st\s*,\s*data\s*,\s*&fiber->last_value\s*,\s*flags\s*\+\s*1\s*\)\s*;"),
    ("store-flags", r"fiber->flags\s*=\s*fiber_flags\s*(?:&\s*~\s*(\(?[A-Z_|\s]+\)?)\s*)?;"),
]


def _ordered(body, fields, what):
    """every regex matches exactly once and in the listed order; returns the match objects"""
    pos, out = -1, {}
    for tok, rx in fields:
        ms = list(re.finditer(rx, body, flags=re.S))
        if len(ms) != 1:
            raise ExtractError("%s: field `%s` expected exactly once, found %d times" % (what, tok, len(ms)))
        if ms[0].start() <= pos:
            raise ExtractError("%s: field `%s` is out of order" % (what, tok))
        pos = ms[0].start()
        out[tok] = ms[0]
    return out


def _canon_loops(src):
    """harmless-rewrite tolerance: the control variable of a `for (int32_t X = 0; …)` loop that contains no other loop (and no
    other use of `i`) is renamed to `i`, the name the patterns below were written against.  (Braces around the single-statement
    value loops of marshal_one_env / unmarshal_one_env are optional in their patterns.)"""
    out, pos = [], 0
    for m in re.finditer(r"\bfor\s*\(\s*int32_t\s+(\w+)\s*=", src):
        if m.start() < pos:
            continue
        name = m.group(1)
        # extent of the loop statement
        k = src.index("(", m.start())
        depth, j = 0, k
        while True:
            if src[j] == "(":
                depth += 1
            elif src[j] == ")":
                depth -= 1
                if depth == 0:
                    break
            j += 1
        e = j + 1
        while src[e].isspace():
            e += 1
        if src[e] == "{":
            end = csrc.match_brace(src, e)
        else:
            end = src.index(";", e) + 1
        stmt = src[m.start():end]
        if name != "i" and len(re.findall(r"\bfor\s*\(", stmt)) == 1 and not re.search(r"\bi\b", stmt):
            stmt = re.sub(r"\b%s\b" % re.escape(name), "i", stmt)
        out.append(src[pos:m.start()])
        out.append(stmt)
        pos = end
    out.append(src[pos:])
    return "".join(out)


def _inc(m, group=1):
    return 1 if m.group(group) else 0


def extract(tree):
    src = _canon_loops(csrc.strip_comments(csrc.read(tree, "src/core/marsh.c")))
    hdr = csrc.strip_comments(csrc.read(tree, "src/include/janet.h"))
    flags = {}
    for f in FLAGS:
        m = re.search(r"#define\s+JANET_FUNCDEF_FLAG_%s\s+(\w+)" % f, hdr)
        if not m:
            raise ExtractError("JANET_FUNCDEF_FLAG_%s not found" % f)
        v = csrc.cint(m.group(1))
        if v <= 0 or v & (v - 1) or v >= 2 ** 31:
            raise ExtractError("JANET_FUNCDEF_FLAG_%s = %#x is not a single bit below 2^31" % (f, v))
        flags[f] = v
    if len(set(flags.values())) != len(flags):
        raise ExtractError("JANET_FUNCDEF_FLAG_*: two flags share a bit")
    md = csrc.func_body(src, "marshal_one_def")
    ud = csrc.func_body(src, "unmarshal_one_def")
    mm = _ordered(md, M_FIELDS, "marshal_one_def")
    um = _ordered(ud, U_FIELDS, "unmarshal_one_def")
    if not re.match(r"\{\s*MARSH_STACKCHECK\s*;", md) or not re.match(r"\{\s*MARSH_STACKCHECK\s*;", ud):
        raise ExtractError("marshal_one_def / unmarshal_one_def: MARSH_STACKCHECK is not the first statement")
    c = {"maxSlotcount": csrc.cint(um["slotcount"].group(1))}
    inc = {}
    inc["mIncDefName"], inc["mIncDefSource"] = _inc(mm["?HASNAME:name"]), _inc(mm["?HASSOURCE:source"])
    inc["mIncDefConst"], inc["mIncDefSym"], inc["mIncDefSub"] = _inc(mm["constants"]), _inc(mm["symbolmap"]), _inc(mm["defs"])
    inc["uIncDefName"], inc["uIncDefSource"] = _inc(um["?HASNAME:name"]), _inc(um["?HASSOURCE:source"])
    inc["uIncDefConst"], inc["uIncDefSym"], inc["uIncDefSub"] = _inc(um["constants"]), _inc(um["symbolmap"]), _inc(um["defs"])
    # case JANET_FUNCTION of marshal_one
    mo = csrc.func_body(src, "marshal_one")
    m = re.search(r"case\s+JANET_FUNCTION\s*:\s*\{\s*pushbyte\s*\(\s*st\s*,\s*LB_FUNCTION\s*\)\s*;\s*JanetFunction\s*\*\s*func\s*=\s*janet_unwrap_function\s*\(\s*x\s*\)\s*;\s*"
                  r"pushint\s*\(\s*st\s*,\s*func->def->environments_length\s*\)\s*;\s*MARK_SEEN\s*\(\s*\)\s*;\s*"
                  r"marshal_one_def\s*\(\s*st\s*,\s*func->def\s*,\s*flags(\s*\+\s*1)?\s*\)\s*;\s*"
                  r"for\s*\(\s*int32_t\s+i\s*=\s*0\s*;\s*i\s*<\s*func->def->environments_length\s*;\s*i\+\+\s*\)\s*"
                  r"marshal_one_env\s*\(\s*st\s*,\s*func->envs\[i\]\s*,\s*flags(\s*\+\s*1)?\s*\)\s*;\s*return\s*;", mo)
    if not m:
        raise ExtractError("marshal_one: case JANET_FUNCTION not recognised (lead, env count, MARK_SEEN, def, envs)")
    inc["mIncFuncDef"], inc["mIncFuncEnv"] = _inc(m, 1), _inc(m, 2)
    uo = csrc.func_body(src, "unmarshal_one")
    m = re.search(r"case\s+LB_FUNCTION\s*:\s*\{.*?data\+\+\s*;\s*int32_t\s+len\s*=\s*readnat\s*\(\s*st\s*,\s*&data\s*\)\s*;\s*if\s*\(\s*len\s*>\s*(\w+)\s*\)\s*\{.*?"
                  r"\*out\s*=\s*janet_wrap_function\s*\(\s*func\s*\)\s*;\s*janet_v_push\s*\(\s*st->lookup\s*,\s*\*out\s*\)\s*;\s*"
                  r"data\s*=\s*unmarshal_one_def\s*\(\s*st\s*,\s*data\s*,\s*&def\s*,\s*flags(\s*\+\s*1)?\s*\)\s*;.*?"
                  r"for\s*\(\s*int32_t\s+i\s*=\s*0\s*;\s*i\s*<\s*len\s*;\s*i\+\+\s*\)\s*\{\s*data\s*=\s*unmarshal_one_env\s*\(\s*st\s*,\s*data\s*,\s*&\(func->envs\[i\]\)\s*,\s*flags(\s*\+\s*1)?\s*\)\s*;\s*\}\s*return\s+data\s*;", uo, flags=re.S)
    if not m:
        raise ExtractError("unmarshal_one: case LB_FUNCTION not recognised (env count, push, def, envs)")
    c["maxFuncEnvs"] = csrc.cint(m.group(1))
    inc["uIncFuncDef"], inc["uIncFuncEnv"] = _inc(m, 2), _inc(m, 3)
    # marshal_one_env
    me = csrc.func_body(src, "marshal_one_env")
    if not re.match(r"\{\s*MARSH_STACKCHECK\s*;", me):
        raise ExtractError("marshal_one_env: MARSH_STACKCHECK is not the first statement")
    m = re.search(r"for\s*\(\s*int32_t\s+i\s*=\s*0\s*;\s*i\s*<\s*janet_v_count\s*\(\s*st->seen_envs\s*\)\s*;\s*i\+\+\s*\)\s*\{\s*if\s*\(\s*st->seen_envs\[i\]\s*==\s*env\s*\)\s*\{\s*pushbyte\s*\(\s*st\s*,\s*LB_FUNCENV_REF\s*\)\s*;\s*pushint\s*\(\s*st\s*,\s*i\s*\)\s*;\s*return\s*;\s*\}\s*\}\s*"
                  r"janet_env_valid\s*\(\s*env\s*\)\s*;\s*janet_v_push\s*\(\s*st->seen_envs\s*,\s*env\s*\)\s*;", me)
    if not m:
        raise ExtractError("marshal_one_env: seen_envs lookup / push not recognised")
    m = re.search(r"else\s*\{\s*janet_env_maybe_detach\s*\(\s*env\s*\)\s*;\s*pushint\s*\(\s*st\s*,\s*env->offset\s*\)\s*;\s*pushint\s*\(\s*st\s*,\s*env->length\s*\)\s*;\s*"
                  r"if\s*\(\s*env->offset\s*>\s*0\s*\)\s*\{\s*marshal_one\s*\(\s*st\s*,\s*janet_wrap_fiber\s*\(\s*env->as\.fiber\s*\)\s*,\s*flags(\s*\+\s*1)?\s*\)\s*;\s*\}\s*else\s*\{\s*"
                  r"for\s*\(\s*int32_t\s+i\s*=\s*0\s*;\s*i\s*<\s*env->length\s*;\s*i\+\+\s*\)\s*\{?\s*marshal_one\s*\(\s*st\s*,\s*env->as\.values\[i\]\s*,\s*flags(\s*\+\s*1)?\s*\)\s*;", me)
    if not m:
        raise ExtractError("marshal_one_env: offset / length / fiber / values not recognised")
    a, b = _inc(m, 1), _inc(m, 2)
    m2 = re.search(r"pushint\s*\(\s*st\s*,\s*0\s*\)\s*;\s*pushint\s*\(\s*st\s*,\s*env->length\s*\)\s*;.*?marshal_one\s*\(\s*st\s*,\s*values\[i\]\s*,\s*flags(\s*\+\s*1)?\s*\)\s*;", me, flags=re.S)
    if not m2:
        raise ExtractError("marshal_one_env: early-detach branch not recognised")
    if not (a == b == _inc(m2, 1)):
        raise ExtractError("marshal_one_env: the three value visits use different depth increments")
    inc["mIncEnvVal"] = a
    ue = csrc.func_body(src, "unmarshal_one_env")
    if re.search(r"MARSH_STACKCHECK", ue):
        raise ExtractError("unmarshal_one_env: has a MARSH_STACKCHECK the model does not have")
    m = re.search(r"if\s*\(\s*\*data\s*==\s*LB_FUNCENV_REF\s*\)\s*\{\s*data\+\+\s*;\s*int32_t\s+index\s*=\s*readint\s*\(\s*st\s*,\s*&data\s*\)\s*;\s*if\s*\(\s*index\s*<\s*0\s*\|\|\s*index\s*>=\s*janet_v_count\s*\(\s*st->lookup_envs\s*\)\s*\).*?"
                  r"janet_v_push\s*\(\s*st->lookup_envs\s*,\s*env\s*\)\s*;\s*int32_t\s+offset\s*=\s*readnat\s*\(\s*st\s*,\s*&data\s*\)\s*;\s*int32_t\s+length\s*=\s*readnat\s*\(\s*st\s*,\s*&data\s*\)\s*;\s*"
                  r"if\s*\(\s*offset\s*>\s*0\s*\)\s*\{\s*Janet\s+fiberv\s*;\s*data\s*=\s*unmarshal_one\s*\(\s*st\s*,\s*data\s*,\s*&fiberv\s*,\s*flags(\s*\+\s*1)?\s*\)\s*;.*?"
                  r"\}\s*else\s*\{\s*if\s*\(\s*length\s*==\s*0\s*\)\s*\{.*?for\s*\(\s*int32_t\s+i\s*=\s*0\s*;\s*i\s*<\s*length\s*;\s*i\+\+\s*\)\s*\{?\s*data\s*=\s*unmarshal_one\s*\(\s*st\s*,\s*data\s*,\s*env->as\.values\s*\+\s*i\s*,\s*flags(\s*\+\s*1)?\s*\)\s*;", ue, flags=re.S)
    if not m:
        raise ExtractError("unmarshal_one_env: reference / push / offset / length / fiber / values not recognised")
    if _inc(m, 1) != _inc(m, 2):
        raise ExtractError("unmarshal_one_env: fiber and values are read at different depths")
    inc["uIncEnvVal"] = _inc(m, 1)
    # fibers: wire-only flag bits and the frame size
    m1 = re.search(r"#define\s+JANET_FIBER_FLAG_HASCHILD\s+\(\s*1\s*<<\s*(\d+)\s*\)", src)
    m2 = re.search(r"#define\s+JANET_FIBER_FLAG_HASENV\s+\(\s*1\s*<<\s*(\d+)\s*\)", src)
    m3 = re.search(r"#define\s+JANET_STACKFRAME_HASENV\s+\(\s*INT32_MIN\s*\)", src)
    m4 = re.search(r"#define\s+JANET_FRAME_SIZE\s+(\d+)", hdr)
    if not (m1 and m2 and m3 and m4):
        raise ExtractError("fiber wire flags / JANET_FRAME_SIZE not recognised")
    c["fiberHasChildBit"], c["fiberHasEnvBit"], c["frameSize"] = int(m1.group(1)), int(m2.group(1)), int(m4.group(1))
    fm = _ordered(csrc.func_body(src, "marshal_one_fiber"), F_FIELDS, "marshal_one_fiber")
    in_place = fm["frame-hasenv"].group(1) is not None
    if (fm["frame-ints"].group(1) == "frame->flags") != in_place:
        raise ExtractError("marshal_one_fiber: the frame flags that are written are not the ones HASENV was added to")
    # 1 = marshalling stores the image-only JANET_STACKFRAME_HASENV bit in the live frame (the fiber is changed by being marshalled)
    c["marshalStoresFrameHasEnv"] = 1 if in_place else 0
    ufb = csrc.func_body(src, "unmarshal_one_fiber")
    fu = _ordered(ufb, FU_FIELDS, "unmarshal_one_fiber")
    # the bits cleared between the wire flags and `fiber->flags = …` (nothing else may assign fiber_flags / fiber->flags)
    if len(re.findall(r"\bfiber_flags\s*(?:[&|^+\-]?=)(?!=)", ufb)) != 1 + (1 if fu["env"].group(1) else 0) + (1 if fu["child"].group(1) else 0):
        raise ExtractError("unmarshal_one_fiber: fiber_flags is assigned somewhere else")
    if len(re.findall(r"fiber->flags\s*(?:[&|^+\-]?=)(?!=)", ufb)) != 2:
        raise ExtractError("unmarshal_one_fiber: fiber->flags is assigned other than `= 0` and `= fiber_flags …`")
    strip = set()
    if fu["env"].group(1):
        strip.add("HASENV")
    if fu["child"].group(1):
        strip.add("HASCHILD")
    mexpr = fu["store-flags"].group(1)
    if mexpr:
        names = [t.strip() for t in mexpr.strip().strip("()").split("|")]
        for t in names:
            if t not in ("JANET_FIBER_FLAG_HASENV", "JANET_FIBER_FLAG_HASCHILD"):
                raise ExtractError("unmarshal_one_fiber: fiber->flags mask `%s` not recognised" % mexpr)
            strip.add(t[len("JANET_FIBER_FLAG_"):])
    c["fiberMemStripMask"] = sum((1 << c["fiber%sBit" % {"HASENV": "HasEnv", "HASCHILD": "HasChild"}[t]]) for t in strip)
    m = re.search(r"case\s+JANET_FIBER\s*:\s*\{\s*MARK_SEEN\s*\(\s*\)\s*;\s*pushbyte\s*\(\s*st\s*,\s*LB_FIBER\s*\)\s*;\s*marshal_one_fiber\s*\(\s*st\s*,\s*janet_unwrap_fiber\s*\(\s*x\s*\)\s*,\s*flags\s*\+\s*1\s*\)\s*;", mo)
    if not m:
        raise ExtractError("marshal_one: case JANET_FIBER not recognised")
    m = re.search(r"case\s+LB_FIBER\s*:\s*\{\s*JanetFiber\s*\*\s*fiber\s*;\s*data\s*=\s*unmarshal_one_fiber\s*\(\s*st\s*,\s*data\s*\+\s*1\s*,\s*&fiber\s*,\s*flags\s*\+\s*1\s*\)\s*;", uo)
    if not m:
        raise ExtractError("unmarshal_one: case LB_FIBER not recognised")
    order_m = [t for t, _ in M_FIELDS]
    order_u = [t for t, _ in U_FIELDS]
    return flags, c, inc, order_m, order_u


def _calls(body, what):
    """the janet_(un)marshal_* context calls of a hook, in statement order; a loop / branch shape the model does not have raises"""
    return [m.group(1) for m in re.finditer(r"\bjanet_(?:un)?marshal_(abstract_threaded|abstract|int64|int|size|byte|bytes|janet|ptr)\s*\(", body)]


def extract_hooks(tree):
    """call sequences of the int64 and channel marshal / unmarshal hooks (inttypes.c, ev.c)"""
    it = csrc.strip_comments(csrc.read(tree, "src/core/inttypes.c"))
    ev = csrc.strip_comments(csrc.read(tree, "src/core/ev.c"))
    out = {}
    out["int64MarshalCalls"] = _calls(csrc.func_body(it, "int64_marshal"), "int64_marshal")
    out["int64UnmarshalCalls"] = _calls(csrc.func_body(it, "int64_unmarshal"), "int64_unmarshal")
    for ty in ("janet_s64_type", "janet_u64_type"):
        m = re.search(r"const\s+JanetAbstractType\s+%s\s*=\s*\{([^}]*)\}" % ty, it)
        if not m or not re.search(r"\bint64_marshal\s*,\s*int64_unmarshal\b", m.group(1)):
            raise ExtractError("%s: marshal / unmarshal hooks are not int64_marshal, int64_unmarshal" % ty)
    cm = csrc.func_body(ev, "janet_chanat_marshal")
    cu = csrc.func_body(ev, "janet_chanat_unmarshal")
    out["chanMarshalCalls"] = _calls(cm, "janet_chanat_marshal")
    out["chanUnmarshalCalls"] = _calls(cu, "janet_chanat_unmarshal")
    # shapes the model relies on: queue written from head to tail (with wrap-around), count = janet_q_count, negative count panics,
    # one janet_unmarshal_janet per counted item pushed in order
    if not re.search(r"int32_t\s+count\s*=\s*janet_q_count\s*\(\s*&channel->items\s*\)\s*;\s*janet_marshal_int\s*\(\s*ctx\s*,\s*count\s*\)", cm):
        raise ExtractError("janet_chanat_marshal: count is not janet_q_count(&channel->items)")
    if not re.search(r"if\s*\(\s*items->head\s*<=\s*items->tail\s*\)\s*\{\s*for\s*\(\s*int32_t\s+i\s*=\s*items->head\s*;\s*i\s*<\s*items->tail\s*;\s*i\+\+\s*\)\s*janet_marshal_janet\s*\(\s*ctx\s*,\s*data\[i\]\s*\)\s*;\s*\}\s*else\s*\{\s*"
                     r"for\s*\(\s*int32_t\s+i\s*=\s*items->head\s*;\s*i\s*<\s*items->capacity\s*;\s*i\+\+\s*\)\s*janet_marshal_janet\s*\(\s*ctx\s*,\s*data\[i\]\s*\)\s*;\s*"
                     r"for\s*\(\s*int32_t\s+i\s*=\s*0\s*;\s*i\s*<\s*items->tail\s*;\s*i\+\+\s*\)\s*janet_marshal_janet\s*\(\s*ctx\s*,\s*data\[i\]\s*\)\s*;", cm):
        raise ExtractError("janet_chanat_marshal: queue walk head..tail with wrap-around not recognised")
    if not re.search(r"int32_t\s+count\s*=\s*janet_unmarshal_int\s*\(\s*ctx\s*\)\s*;\s*if\s*\(\s*count\s*<\s*0\s*\)\s*janet_panic", cu):
        raise ExtractError("janet_chanat_unmarshal: negative count test not recognised")
    if not re.search(r"for\s*\(\s*int32_t\s+i\s*=\s*0\s*;\s*i\s*<\s*count\s*;\s*i\+\+\s*\)\s*\{\s*Janet\s+item\s*=\s*janet_unmarshal_janet\s*\(\s*ctx\s*\)\s*;\s*janet_q_push\s*\(\s*&abst->items\s*,\s*&item\s*,\s*sizeof\s*\(\s*item\s*\)\s*\)\s*;\s*\}", cu):
        raise ExtractError("janet_chanat_unmarshal: item loop not recognised")
    pg = csrc.strip_comments(csrc.read(tree, "src/core/peg.c"))
    pm = csrc.func_body(pg, "peg_marshal")
    pu = csrc.func_body(pg, "peg_unmarshal")
    out["pegMarshalCalls"] = _calls(pm, "peg_marshal")
    out["pegUnmarshalCalls"] = _calls(pu, "peg_unmarshal")
    if not re.search(r"for\s*\(\s*size_t\s+i\s*=\s*0\s*;\s*i\s*<\s*peg->bytecode_len\s*;\s*i\+\+\s*\)\s*janet_marshal_int\s*\(\s*ctx\s*,\s*\(int32_t\)\s*peg->bytecode\[i\]\s*\)\s*;\s*"
                     r"for\s*\(\s*uint32_t\s+j\s*=\s*0\s*;\s*j\s*<\s*peg->num_constants\s*;\s*j\+\+\s*\)\s*janet_marshal_janet\s*\(\s*ctx\s*,\s*peg->constants\[j\]\s*\)\s*;", pm):
        raise ExtractError("peg_marshal: bytecode / constants loops not recognised")
    if not re.search(r"for\s*\(\s*size_t\s+i\s*=\s*0\s*;\s*i\s*<\s*peg->bytecode_len\s*;\s*i\+\+\s*\)\s*bytecode\[i\]\s*=\s*\(uint32_t\)\s*janet_unmarshal_int\s*\(\s*ctx\s*\)\s*;\s*"
                     r"for\s*\(\s*uint32_t\s+j\s*=\s*0\s*;\s*j\s*<\s*peg->num_constants\s*;\s*j\+\+\s*\)\s*constants\[j\]\s*=\s*janet_unmarshal_janet\s*\(\s*ctx\s*\)\s*;", pu):
        raise ExtractError("peg_unmarshal: bytecode / constants loops not recognised")
    if not re.search(r"if\s*\(\s*bytecode_len\s*>\s*INT32_MAX\s*\|\|\s*num_constants\s*>\s*INT32_MAX\s*\)\s*janet_panic", pu):
        raise ExtractError("peg_unmarshal: size test not recognised")
    return out


def _plus(expr, base):
    """`base` or `base + k` (k a decimal literal) -> k; anything else -> None"""
    m = re.fullmatch(r"\s*%s\s*(?:\+\s*(\d+)\s*)?" % base, expr)
    if not m:
        return None
    return int(m.group(1)) if m.group(1) else 0


def extract_absdepth(tree):
    """recursion depth along the abstract-hook path: marshal_one -> marshal_one_abstract -> JanetMarshalContext.flags ->
    janet_marshal_janet -> marshal_one, and the same four edges on the unmarshal side.  Every edge must be `flags + k` of the
    enclosing function's own `flags` (for janet_(un)marshal_janet: of `ctx->flags`); the context initialiser is reported with
    `…CtxLocal = 0` when its flags field is not derived from the local depth counter (the depth would restart)."""
    src = csrc.strip_comments(csrc.read(tree, "src/core/marsh.c"))
    out = {}
    def need(m, what):
        if not m:
            raise ExtractError("abstract depth path: %s not recognised" % what)
        return m
    def plus(expr, base, what):
        k = _plus(expr, base)
        if k is None:
            raise ExtractError("abstract depth path: %s passes `%s`, not `%s + k`" % (what, expr.strip(), base.replace("\\", "")))
        return k
    mo = csrc.func_body(src, "marshal_one")
    ma = csrc.func_body(src, "marshal_one_abstract")
    mj = csrc.func_body(src, "janet_marshal_janet")
    uo = csrc.func_body(src, "unmarshal_one")
    ua = csrc.func_body(src, "unmarshal_one_abstract")
    uj = csrc.func_body(src, "janet_unmarshal_janet")
    for nm, b in (("marshal_one_abstract", ma), ("unmarshal_one_abstract", ua), ("janet_marshal_janet", mj), ("janet_unmarshal_janet", uj)):
        if "MARSH_STACKCHECK" in b:
            raise ExtractError("abstract depth path: %s has a MARSH_STACKCHECK the model does not have" % nm)
    ms = re.findall(r"\bmarshal_one_abstract\s*\(\s*st\s*,\s*x\s*,([^,()]*)\)\s*;", mo)
    if len(ms) != 1:
        raise ExtractError("abstract depth path: marshal_one calls marshal_one_abstract %d times" % len(ms))
    out["mAbsCall"] = plus(ms[0], "flags", "marshal_one -> marshal_one_abstract")
    m = need(re.search(r"pushbyte\s*\(\s*st\s*,\s*LB_ABSTRACT\s*\)\s*;\s*marshal_one\s*\(\s*st\s*,\s*janet_csymbolv\s*\(\s*at->name\s*\)\s*,([^,()]*)\)\s*;\s*"
                       r"JanetMarshalContext\s+(\w+)\s*=\s*\{\s*st\s*,\s*NULL\s*,([^,{}]*),\s*NULL\s*,\s*at\s*\}\s*;\s*at->marshal\s*\(\s*abstract\s*,\s*&\2\s*\)\s*;", ma),
             "marshal_one_abstract (lead, type name, context initialiser, hook call)")
    out["mAbsName"] = plus(m.group(1), "flags", "marshal_one_abstract -> marshal_one(type name)")
    k = _plus(m.group(3), "flags")
    out["mAbsCtxLocal"], out["mAbsCtx"] = (0, 0) if k is None else (1, k)
    out["_mCtxExpr"] = m.group(3).strip()
    names = {"ctx", "context", m.group(2)}
    ms = re.findall(r"\bmarshal_one\s*\(\s*st\s*,\s*x\s*,([^,()]*)\)\s*;", mj)
    if len(ms) != 1:
        raise ExtractError("abstract depth path: janet_marshal_janet does not call marshal_one exactly once")
    out["mAbsItem"] = plus(ms[0], r"ctx->flags", "janet_marshal_janet -> marshal_one")
    ms = re.findall(r"\breturn\s+unmarshal_one_abstract\s*\(\s*st\s*,\s*data\s*,\s*out\s*,([^,()]*)\)\s*;", uo)
    if len(ms) != 1:
        raise ExtractError("abstract depth path: unmarshal_one calls unmarshal_one_abstract %d times" % len(ms))
    out["uAbsCall"] = plus(ms[0], "flags", "unmarshal_one -> unmarshal_one_abstract")
    m = need(re.search(r"data\s*=\s*unmarshal_one\s*\(\s*st\s*,\s*data\s*,\s*&key\s*,([^,()]*)\)\s*;.*?"
                       r"JanetMarshalContext\s+(\w+)\s*=\s*\{\s*NULL\s*,\s*st\s*,([^,{}]*),\s*data\s*,\s*at\s*\}\s*;\s*void\s*\*\s*\w+\s*=\s*at->unmarshal\s*\(\s*&\2\s*\)\s*;", ua, flags=re.S),
             "unmarshal_one_abstract (type name, context initialiser, hook call)")
    out["uAbsName"] = plus(m.group(1), "flags", "unmarshal_one_abstract -> unmarshal_one(type name)")
    k = _plus(m.group(3), "flags")
    out["uAbsCtxLocal"], out["uAbsCtx"] = (0, 0) if k is None else (1, k)
    out["_uCtxExpr"] = m.group(3).strip()
    names.add(m.group(2))
    ms = re.findall(r"ctx->data\s*=\s*unmarshal_one\s*\(\s*st\s*,\s*ctx->data\s*,\s*&ret\s*,([^,()]*)\)\s*;", uj)
    if len(ms) != 1:
        raise ExtractError("abstract depth path: janet_unmarshal_janet does not call unmarshal_one exactly once")
    out["uAbsItem"] = plus(ms[0], r"ctx->flags", "janet_unmarshal_janet -> unmarshal_one")
    # nobody else writes the depth field of a context
    fld = r"\b(?:%s)\s*(?:->|\.)\s*flags" % "|".join(sorted(re.escape(x) for x in names))
    n = len(re.findall(fld + r"\s*(?:[-+|&^]|<<|>>)?=(?!=)", src)) + len(re.findall(r"(?:\+\+|--)\s*" + fld + "|" + fld + r"\s*(?:\+\+|--)", src))
    if n:
        raise ExtractError("abstract depth path: the flags field of a JanetMarshalContext is assigned after its initialiser (%d places)" % n)
    if len(re.findall(r"\bJanetMarshalContext\s+\w+\s*=", src)) != 2:
        raise ExtractError("abstract depth path: marsh.c builds a JanetMarshalContext in other than the two known places")
    return out


def render(tree):
    flags, c, inc, order_m, order_u = extract(tree)
    out = [csrc.lean_header("src/core/marsh.c, src/include/janet.h"), "namespace JanetModel.Gen.MarshCode\n"]
    out.append("/-- JANET_FUNCDEF_FLAG_* bits that select the optional parts of a marshalled funcdef -/")
    for f in FLAGS:
        out.append("abbrev %s : Int := %d" % (LEAN_FLAG[f], flags[f]))
    out.append("\n/-- limits tested by unmarshal_one_def / case LB_FUNCTION -/")
    for k, v in c.items():
        out.append("abbrev %s : Nat := %d" % (k, v))
    out.append("abbrev fiberHasChild : Int := %d" % (1 << c["fiberHasChildBit"]))
    out.append("abbrev fiberHasEnv : Int := %d" % (1 << c["fiberHasEnvBit"]))
    out.append("\n/-- recursion-depth increment of every call between marshal_one / marshal_one_def / marshal_one_env (m...) and between")
    out.append("their unmarshal counterparts (u...): 1 = `flags + 1`, 0 = `flags` -/")
    for k in sorted(inc):
        out.append("abbrev %s : Nat := %d" % (k, inc[k]))
    out.append("\n/-- statement order of marshal_one_def / unmarshal_one_def (`?FLAG:` = only when the flag bit is set) -/")
    out.append("def defOrderMarshal : List String := [" + ", ".join('"%s"' % t for t in order_m) + "]")
    out.append("def defOrderUnmarshal : List String := [" + ", ".join('"%s"' % t for t in order_u) + "]")
    out.append("\n/-- context calls of the int64 and channel hooks, in statement order (loops: each call site once) -/")
    for k, v in extract_hooks(tree).items():
        out.append("def %s : List String := [" % k + ", ".join('"%s"' % t for t in v) + "]")
    ad = extract_absdepth(tree)
    out.append("\n/-- recursion depth along the abstract-hook path (marshal side m…, unmarshal side u…): `Call` = (un)marshal_one ->")
    out.append("(un)marshal_one_abstract, `Name` = the type-name symbol, `Ctx` = the `flags` field of the JanetMarshalContext initialiser")
    out.append("(`CtxLocal` = 1 iff that field is `flags + k` of the local depth counter; marshal: `%s`, unmarshal: `%s`)," % (ad["_mCtxExpr"], ad["_uCtxExpr"]))
    out.append("`Item` = janet_(un)marshal_janet (`ctx->flags + k`) -/" )
    for k in sorted(ad):
        if not k.startswith("_"):
            out.append("abbrev %s : Nat := %d" % (k, ad[k]))
    out.append("\nend JanetModel.Gen.MarshCode\n")
    return "\n".join(out)
