"""Translator: janet.h opcode enum + bytecode.c `janet_instructions[]`  ->  Gen/Bytecode.lean.

Shared by C10 (verifier soundness), C15 (specialisation tables), C02, C19."""
import re
from . import csrc
from .csrc import ExtractError


def extract(tree):
    hdr = csrc.strip_comments(csrc.read(tree, "src/include/janet.h"))
    ops = csrc.enum_values(hdr, "JOP_NOOP")
    if "JOP_INSTRUCTION_COUNT" not in ops:
        raise ExtractError("JOP_INSTRUCTION_COUNT missing from the opcode enum")
    count = ops.pop("JOP_INSTRUCTION_COUNT")
    if sorted(ops.values()) != list(range(count)):
        raise ExtractError("opcode enum is not dense 0..%d" % (count - 1))
    jint = csrc.enum_values(hdr, "JINT_0")
    src = csrc.read(tree, "src/core/bytecode.c")
    m = re.search(r"enum\s+JanetInstructionType\s+janet_instructions\s*\[\s*JOP_INSTRUCTION_COUNT\s*\]\s*=\s*\{", src)
    if not m:
        raise ExtractError("janet_instructions[] table not found")
    i = src.index("{", m.start())
    body = src[i + 1:csrc.match_brace(src, i) - 1]
    rows = []
    for line in body.splitlines():
        line = line.strip()
        if not line:
            continue
        mm = re.match(r"^(JINT_\w+)\s*,?\s*/\*\s*(JOP_\w+)\s*,?\s*\*/\s*$", line)
        if not mm:
            raise ExtractError("janet_instructions row not recognised: %r" % line)
        rows.append((mm.group(1), mm.group(2)))
    if len(rows) != count:
        raise ExtractError("janet_instructions has %d rows, enum has %d opcodes" % (len(rows), count))
    by_val = sorted(ops.items(), key=lambda kv: kv[1])
    for idx, ((ty, cmt), (name, val)) in enumerate(zip(rows, by_val)):
        if cmt != name:
            raise ExtractError("row %d of janet_instructions is commented %s but opcode %d is %s" % (idx, cmt, val, name))
        if ty not in jint:
            raise ExtractError("unknown instruction type %s" % ty)
    return by_val, [r[0] for r in rows], jint


def lean_name(c):
    parts = c.lower().split("_")[1:]
    return parts[0] + "".join(p.capitalize() for p in parts[1:])


def render(tree):
    ops, types, jint = extract(tree)
    o = [csrc.lean_header("src/include/janet.h, src/core/bytecode.c"), "namespace JanetModel.Gen.Bytecode\n"]
    o.append("/-- `enum JanetInstructionType` -/\ninductive IType where")
    for k in sorted(jint, key=jint.get):
        o.append("  | %s" % lean_name(k).replace("0", "none_") if lean_name(k) == "0" else "  | %s" % lean_name(k))
    o.append("  deriving DecidableEq, Repr, Inhabited\n")
    o.append("/-- `enum JanetOpCode` (dense, in numeric order) -/\ninductive Op where")
    for name, val in ops:
        o.append("  | %s" % lean_name(name))
    o.append("  deriving DecidableEq, Repr, Inhabited\n")
    o.append("def Op.all : List Op := [" + ", ".join("." + lean_name(n) for n, _ in ops) + "]\n")
    o.append("def Op.toNat : Op → Nat")
    for name, val in ops:
        o.append("  | .%s => %d" % (lean_name(name), val))
    o.append("\ndef Op.ofNat? : Nat → Option Op")
    for name, val in ops:
        o.append("  | %d => some .%s" % (val, lean_name(name)))
    o.append("  | _ => none\n")
    o.append("def Op.cName : Op → String")
    for name, val in ops:
        o.append('  | .%s => "%s"' % (lean_name(name), name))
    o.append("\nabbrev instructionCount : Nat := %d\n" % len(ops))
    o.append("/-- `janet_instructions[]` (bytecode.c): operand layout the verifier assumes for each opcode -/\ndef Op.itype : Op → IType")
    for (name, val), ty in zip(ops, types):
        t = lean_name(ty)
        o.append("  | .%s => .%s" % (lean_name(name), "none_" if t == "0" else t))
    o.append("\nend JanetModel.Gen.Bytecode\n")
    return "\n".join(o)
