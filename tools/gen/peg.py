"""Translator: janet.h (JanetPegOpcod) + peg.c (peg_unmarshal verifier, peg_rule)  ->  Gen/Peg.lean.

Generated:
  * opcode enum values (RULE_*),
  * the instruction size in words that the bytecode verifier in `peg_unmarshal` advances by for each opcode
    (0 = variable length: LITERAL, CHOICE, SEQUENCE),
  * which operands the verifier treats as rule references / constant references,
  * `lenprefixLeak`: whether RULE_LENPREFIX in `peg_rule` can `return NULL` after it set `s->mode` and before it restores it,
  * `modeLeaks`: the same analysis for every opcode case that assigns `s->mode` (a list of opcode names; [] on a correct tree),
  * `windowLeaks`: opcode cases that assign `s->text_end` and can return before restoring it,
  * JANET_RECURSION_GUARD, JANET_MAX_READINT_WIDTH,
  * a hash of every `case RULE_*:` body of peg_rule (compared by checks/C12.py with the hashes of the tree the model was
    written against: a changed case is reported as a broken tie and widens the search).
"""
import hashlib
import re
from . import csrc
from .csrc import ExtractError


def split_cases(body):
    """{(labels...): text} for the top-level `case X:` groups of the switch in a function body."""
    m = re.search(r"switch\s*\([^)]*\)\s*\{", body)
    if not m:
        raise ExtractError("switch not found")
    i = body.index("{", m.start())
    end = csrc.match_brace(body, i)
    sw = body[i + 1:end - 1]
    # walk at depth 0
    out = []
    depth = 0
    pos = 0
    marks = []
    for mm in re.finditer(r"[{}]|\bcase\s+(\w+)\s*:|\bdefault\s*:", sw):
        t = mm.group(0)
        if t == "{":
            depth += 1
        elif t == "}":
            depth -= 1
        elif depth == 0:
            marks.append((mm.start(), mm.end(), mm.group(1) or "default"))
    groups = []
    cur_labels = []
    for idx, (a, b, lab) in enumerate(marks):
        nxt = marks[idx + 1][0] if idx + 1 < len(marks) else len(sw)
        text = sw[b:nxt].strip()
        cur_labels.append(lab)
        if text:
            groups.append((tuple(cur_labels), text))
            cur_labels = []
    return groups


def norm(text):
    return re.sub(r"\s+", " ", text).strip()


def leaks(text, assign_re, restore_re):
    """Does the case body contain a `return` that is textually after an assignment matching assign_re and not preceded
    (since that assignment) by a restore matching restore_re?  Purely textual, statement order; good enough for the
    straight-line shape of peg_rule cases, and only used as a flag that is cross-checked by correspondence."""
    toks = [(m.start(), "assign") for m in re.finditer(assign_re, text)]
    toks += [(m.start(), "restore") for m in re.finditer(restore_re, text)]
    toks += [(m.start(), "return") for m in re.finditer(r"\breturn\b", text)]
    toks.sort()
    dirty = False
    for _, k in toks:
        if k == "assign":
            dirty = True
        elif k == "restore":
            dirty = False
        elif k == "return" and dirty:
            return True
    return False



# ------------------------------------------------------------------------------------------------ depth budget analysis
_TOK = re.compile(r"\s*(?:(\bif\b|\belse\b|\bwhile\b|\bfor\b|\bdo\b|\bswitch\b|\breturn\b|\bgoto\b|\bbreak\b|\bcontinue\b|\bcase\b|\bdefault\b)|([{}();:])|([^\s{}();:]+))")


def _tokens(text):
    out, i = [], 0
    while i < len(text):
        m = _TOK.match(text, i)
        if not m or m.end() == i:
            i += 1
            continue
        out.append(m.group(1) or m.group(2) or m.group(3))
        i = m.end()
    return out


class _Bal:
    """abstract interpretation of one `case` body: the set of possible values of (#down1 - #up1) at every exit"""

    def __init__(self, toks):
        self.t, self.i = toks, 0
        self.exits = []          # (kind, balance)
        self.problems = []

    def peek(self):
        return self.t[self.i] if self.i < len(self.t) else None

    def take(self):
        x = self.t[self.i]
        self.i += 1
        return x

    def parens(self):
        """consume a balanced ( ... ), return its tokens"""
        assert self.take() == "("
        depth, out = 1, []
        while depth:
            x = self.take()
            if x == "(":
                depth += 1
            elif x == ")":
                depth -= 1
                if depth == 0:
                    break
            out.append(x)
        return out

    @staticmethod
    def delta(toks):
        return sum(1 for x in toks if x == "down1") - sum(1 for x in toks if x == "up1")

    def stmt(self, cur, brk, cont):
        """cur: set of balances on entry -> set of balances on normal exit; brk/cont: lists collecting break / continue sets"""
        x = self.peek()
        if x == "{":
            self.take()
            while self.peek() != "}":
                cur = self.stmt(cur, brk, cont)
            self.take()
            return cur
        if x == "if":
            self.take()
            cur = {b + self.delta(self.parens()) for b in cur}
            a = self.stmt(set(cur), brk, cont)
            if self.peek() == "else":
                self.take()
                b = self.stmt(set(cur), brk, cont)
                return a | b
            return a | cur
        if x in ("while", "for"):
            self.take()
            self.parens()
            start = self.i
            seen = set(cur)
            mybrk = []
            for _ in range(4):
                self.i = start
                b2, c2 = [], []
                out = self.stmt(set(seen), b2, c2)
                back = out.union(*c2) if c2 else out
                mybrk = b2
                if back <= seen:
                    break
                seen |= back
            else:
                self.problems.append("loop body is not depth-neutral")
            res = set(seen)
            for b in mybrk:
                res |= b
            return res
        if x == "do":
            self.take()
            b2, c2 = [], []
            out = self.stmt(set(cur), b2, c2)
            assert self.take() == "while"
            self.parens()
            if self.peek() == ";":
                self.take()
            if not (out <= cur):
                self.problems.append("do-loop body is not depth-neutral")
            res = out
            for b in b2:
                res |= b
            return res
        if x == "switch":
            self.take()
            self.parens()
            assert self.take() == "{"
            entry, b2 = set(cur), []
            cur = set()
            while self.peek() != "}":
                if self.peek() in ("case", "default"):
                    while self.take() != ":":
                        pass
                    cur = cur | entry
                    continue
                cur = self.stmt(cur, b2, cont)
            self.take()
            res = cur
            for b in b2:
                res |= b
            return res | entry
        if x == "return":
            toks = []
            while self.peek() != ";":
                toks.append(self.take())
            self.take()
            d = self.delta(toks)
            self.exits += [("return", b + d) for b in cur]
            return set()
        if x == "goto":
            self.take()
            self.take()
            self.take()
            self.exits += [("tail", b) for b in cur]
            return set()
        if x == "break":
            self.take()
            self.take()
            brk.append(set(cur))
            return set()
        if x == "continue":
            self.take()
            self.take()
            cont.append(set(cur))
            return set()
        # simple statement up to ';' (balanced parens inside)
        toks, depth = [], 0
        while True:
            y = self.take()
            if y == "(":
                depth += 1
            elif y == ")":
                depth -= 1
            elif y == ";" and depth == 0:
                break
            toks.append(y)
        d = self.delta(toks)
        return {b + d for b in cur}


def depth_balance(case_text):
    """(sorted exit balances, problems, #down1, #up1) of one opcode case of peg_rule"""
    toks = _tokens(case_text)
    a = _Bal(["{"] + toks + ["}"])
    try:
        end = a.stmt({0}, [], [])
    except (AssertionError, IndexError) as e:
        raise ExtractError("depth analysis cannot parse case: %r" % (e,))
    if end:
        a.exits += [("fallthrough", b) for b in end]
    return (sorted(set(b for _, b in a.exits)), a.problems, sum(1 for x in toks if x == "down1"), sum(1 for x in toks if x == "up1"))


def extract(tree):
    hdr = csrc.strip_comments(csrc.read(tree, "src/include/janet.h"))
    ops = csrc.enum_values(hdr, "RULE_LITERAL")
    if list(ops.values()) != list(range(len(ops))):
        raise ExtractError("JanetPegOpcod is not a dense 0..n enum")
    m = re.search(r"#define\s+JANET_RECURSION_GUARD\s+(\d+)", hdr)
    if not m:
        raise ExtractError("JANET_RECURSION_GUARD not found")
    guard = int(m.group(1))
    src = csrc.strip_comments(csrc.read(tree, "src/core/peg.c"))
    m = re.search(r"#ifdef\s+JANET_INT_TYPES\s*#define\s+JANET_MAX_READINT_WIDTH\s+(\d+)", src)
    if not m:
        raise ExtractError("JANET_MAX_READINT_WIDTH not found")
    maxw = int(m.group(1))

    # ---- verifier: sizes and operand kinds
    ver = csrc.func_body(src, "peg_unmarshal")
    sizes, rulerefs, constrefs = {}, {}, {}
    for labels, text in split_cases(ver):
        if labels == ("default",):
            continue
        mm = re.search(r"i\s*\+=\s*([^;]+);", text)
        if not mm:
            raise ExtractError("verifier case %s: no `i += n`" % (labels,))
        expr = norm(mm.group(1))
        if re.fullmatch(r"\d+", expr):
            size = int(expr)
        elif expr in ("2 + ((rule[1] + 3) >> 2)", "2 + len"):
            size = 0
        else:
            raise ExtractError("verifier case %s: unrecognised size %r" % (labels, expr))
        rr = sorted(set(int(x) for x in re.findall(r"rule\[(\d+)\]\s*>=\s*blen", text)))
        cr = sorted(set(int(x) for x in re.findall(r"rule\[(\d+)\]\s*>=\s*clen", text)))
        for lab in labels:
            if lab not in ops:
                raise ExtractError("verifier mentions unknown opcode %s" % lab)
            sizes[lab], rulerefs[lab], constrefs[lab] = size, rr, cr
    missing = [o for o in ops if o not in sizes]
    if missing:
        raise ExtractError("verifier has no case for %s" % missing)

    # ---- interpreter: case hashes + leak analysis
    body = csrc.func_body(src, "peg_rule")
    hashes, mode_leaks, window_leaks = {}, [], []
    seen = set()
    for labels, text in split_cases(body):
        h = hashlib.sha256(norm(text).encode()).hexdigest()[:12]
        for lab in labels:
            hashes[lab] = h
            seen.add(lab)
        if labels == ("default",):
            continue
        # the locals that hold the value to restore are recognised by their initialiser, not by their name
        modes = re.findall(r"\bint\s+(\w+)\s*=\s*s->mode\s*;", text)
        ends = re.findall(r"\*\s*(\w+)\s*=\s*s->text_end\s*;", text)
        alt = lambda names: "(?:%s)" % "|".join(map(re.escape, names)) if names else r"(?!x)x"
        if leaks(text, r"s->mode\s*=\s*PEG_MODE_\w+\s*;", r"s->mode\s*=\s*%s\s*;" % alt(modes)):
            mode_leaks += list(labels)
        if leaks(text, r"s->text_end\s*=\s*(?!%s\s*;)[^;]+;" % alt(ends), r"s->text_end\s*=\s*%s\s*;" % alt(ends)):
            window_leaks += list(labels)
    missing = [o for o in ops if o not in seen]
    if missing:
        raise ExtractError("peg_rule has no case for %s" % missing)
    depth_exits, depth_bad, depth_counts = {}, [], {}
    for labels, text in split_cases(body):
        if labels == ("default",):
            continue
        ex, probs, nd, nu = depth_balance(text)
        for lab in labels:
            depth_exits[lab], depth_counts[lab] = ex, (nd, nu)
            if ex != [0] or probs:
                depth_bad.append(lab)
    numcase = [t for labels, t in split_cases(body) if "RULE_CAPTURE_NUM" in labels]
    if len(numcase) != 1 or "janet_scan_number_base" not in numcase[0]:
        raise ExtractError("RULE_CAPTURE_NUM case not recognised")
    num_raw = bool(re.search(r"janet_buffer_push_bytes\s*\(\s*s->scratch\s*,\s*text\b", numcase[0]))
    return dict(ops=ops, guard=guard, maxw=maxw, sizes=sizes, rulerefs=rulerefs, constrefs=constrefs, hashes=hashes,
                mode_leaks=mode_leaks, window_leaks=window_leaks, num_raw=num_raw,
                depth_exits=depth_exits, depth_bad=depth_bad, depth_counts=depth_counts)


def render(tree):
    x = extract(tree)
    ops = x["ops"]
    out = [csrc.lean_header("src/include/janet.h JanetPegOpcod, src/core/peg.c peg_unmarshal + peg_rule"),
           "namespace JanetModel.Gen.Peg\n"]
    for k, v in ops.items():
        out.append("abbrev %s : Nat := %d" % (k, v))
    out.append("\ndef opcodes : List (String × Nat) := [" + ", ".join('("%s", %d)' % kv for kv in ops.items()) + "]")
    out.append("\n/-- instruction size in words per opcode number as advanced by the verifier in peg_unmarshal; 0 = variable -/")
    out.append("def opSizes : List Nat := [" + ", ".join(str(x["sizes"][k]) for k in ops) + "]")
    out.append("\n/-- operand positions the verifier checks as rule references -/")
    out.append("def ruleRefs : List (List Nat) := [" + ", ".join("[" + ", ".join(map(str, x["rulerefs"][k])) + "]" for k in ops) + "]")
    out.append("\n/-- operand positions the verifier checks as constant references -/")
    out.append("def constRefs : List (List Nat) := [" + ", ".join("[" + ", ".join(map(str, x["constrefs"][k])) + "]" for k in ops) + "]")
    out.append("\nabbrev recursionGuard : Nat := %d" % x["guard"])
    out.append("abbrev maxReadintWidth : Nat := %d" % x["maxw"])
    out.append("\n/-- opcode cases of peg_rule that can return while `s->mode` is still overwritten -/")
    out.append("def modeLeaks : List String := [" + ", ".join('"%s"' % s for s in x["mode_leaks"]) + "]")
    out.append("abbrev lenprefixLeak : Bool := %s" % ("true" if "RULE_LENPREFIX" in x["mode_leaks"] else "false"))
    out.append("\n/-- RULE_CAPTURE_NUM appends the matched text (not the number) to the accumulation buffer when !has_backref -/")
    out.append("abbrev captureNumRaw : Bool := %s" % ("true" if x["num_raw"] else "false"))
    out.append("\n/-- per opcode (in enum order): the possible values of #down1 - #up1 at the exits (return / goto tail) of its case in peg_rule,")
    out.append("    from a path-sensitive walk over the statements of the case (loops must be neutral) -/")
    out.append("def depthExits : List (List Int) := [" + ", ".join("[" + ", ".join(str(b) for b in x["depth_exits"][k]) + "]" for k in ops) + "]")
    out.append("/-- textual (#down1, #up1) per opcode case -/")
    out.append("def depthCounts : List (Nat × Nat) := [" + ", ".join("(%d, %d)" % x["depth_counts"][k] for k in ops) + "]")
    out.append("/-- opcode cases with an exit where down1/up1 are not balanced -/")
    out.append("def depthUnbalanced : List String := [" + ", ".join('"%s"' % s for s in x["depth_bad"]) + "]")
    out.append("\n/-- opcode cases of peg_rule that can return while `s->text_end` is still narrowed -/")
    out.append("def windowLeaks : List String := [" + ", ".join('"%s"' % s for s in x["window_leaks"]) + "]")
    out.append("\nend JanetModel.Gen.Peg\n")
    return "\n".join(out)


def case_hashes(tree):
    return extract(tree)["hashes"]
