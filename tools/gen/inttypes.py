"""Translator for C14: inttypes.c / vm.c / corelib.c / strtod.c / janet.h  ->  Gen/Int64.lean.

What is carried over (everything table-like or flag-like that the C14 theorems hinge on):
  * `it_s64_methods[]` / `it_u64_methods[]`             -> method tables (name, cfun)
  * every OPMETHOD / DIVMETHOD / ... instantiation       -> (macro, C type, kind, name, operator)
  * whether each division-like s64 method tests INT64_MIN / -1 before the C `/` or `%` (the `no_ub` obligation)
  * the comparison operators used at the 2^63 / 2^64 edge of compare_int64_double / compare_uint64_double
  * operand order (argv index of dividend / divisor) of the hand-written floor-div / mod methods
  * the range-check macros of janet.h, `digit_lookup[]`, the scan length limit
  * vm.c: method names used by each arithmetic opcode, look-up order of janet_binop_call
  * corelib.c: opcode, nullary and unary constants of every variadic operator
  * math.c: registration name -> function for math/floor ceil trunc round abs gcd lcm; janet_gcd / janet_lcm bodies (structural match)
The shapes of the macro bodies / functions that the hand-written Lean model mirrors are asserted; if the source no longer
has that shape an ExtractError is raised (reported by the check as a broken tie)."""
import re
from . import csrc
from .csrc import ExtractError


def _macro(src, name):
    """text of a multi-line #define (continuation lines joined)"""
    m = re.search(r"^#define\s+%s\b((?:[^\n]*\\\n)*[^\n]*)" % re.escape(name), src, re.M)
    if not m:
        raise ExtractError("macro %s not found" % name)
    return re.sub(r"\\\n", "\n", m.group(1))


def _norm(s):
    return re.sub(r"\s+", " ", s).strip()


def _rename(text, mapping):
    """consistent renaming of identifiers (whole words); used to bring harmlessly renamed locals / parameters back to the names the shape
    patterns are written with.  Refuses a renaming that would merge two different identifiers."""
    mapping = {a: b for a, b in mapping.items() if a != b}
    for a, b in mapping.items():
        if b not in mapping and re.search(r"\b%s\b" % re.escape(b), text):
            raise ExtractError("cannot canonicalise %s -> %s: %s is already used" % (a, b, b))
    if not mapping:
        return text
    return re.sub(r"\b(%s)\b" % "|".join(re.escape(a) for a in mapping), lambda m: mapping[m.group(1)], text)


def _params(src, name, types):
    """parameter names of the definition `name(types[0] p0, types[1] p1, ...)`"""
    pat = r"\b%s\s*\(\s*%s\s*\)\s*\{" % (re.escape(name), r"\s*,\s*".join(r"%s\s+(\w+)" % re.escape(t) for t in types))
    m = re.search(pat, src)
    if not m:
        raise ExtractError("%s(%s): signature not recognised" % (name, ", ".join(types)))
    return m.groups()


_CNAMES = {"INT64_MAX": "(9223372036854775807)", "INT64_MIN": "(-9223372036854775808)", "UINT64_MAX": "(18446744073709551615)",
           "INT32_MAX": "(2147483647)", "INT32_MIN": "(-2147483648)", "UINT32_MAX": "(4294967295)", "DBL_MAX": "(1.7976931348623157e308)"}


def _cdouble(expr, hdr, depth=0):
    """value of the constant C expression `expr` once it stands in a comparison with a double, evaluated as the compiler does:
    integer constants are converted to double (round to nearest even: `(double) INT64_MAX` is 2^63, `(double) UINT64_MAX` is 2^64).
    Accepts literals, unary minus, parentheses, `(double)` casts, <stdint.h> limits and object-like macros of janet.h.  Returns an int
    (a non-integral bound is refused)."""
    e = expr
    for _ in range(6):                                    # object-like macros of janet.h (JANET_INTMAX_DOUBLE, ...)
        names = set(re.findall(r"\b[A-Za-z_]\w*\b", e)) - set(_CNAMES) - {"double"}
        if not names:
            break
        for n in names:
            m = re.search(r"^#define\s+%s\s+(.+)$" % re.escape(n), hdr, re.M)
            if not m:
                raise ExtractError("range bound `%s`: unknown name %s" % (expr, n))
            e = re.sub(r"\b%s\b" % re.escape(n), "(" + _norm(m.group(1)) + ")", e)
    e = re.sub(r"\(\s*double\s*\)", " float ", e)
    for n, v in _CNAMES.items():
        e = re.sub(r"\b%s\b" % n, v, e)
    e = re.sub(r"(?<=[0-9.])(?:[uU]?[lL]{0,2}|[fF])\b", "", e)   # integer / float suffixes
    while True:                                           # ` float X` -> float(X) for a parenthesised or literal X
        m = re.search(r" float\s*(\(|-?[0-9.]+(?:[eE][-+]?\d+)?)", e)
        if not m:
            break
        if m.group(1) == "(":
            j = _match_paren(e, m.end() - 1)
            e = e[:m.start()] + "F(" + e[m.end():j - 1] + ")" + e[j:]
        else:
            e = e[:m.start()] + "F(" + m.group(1) + ")" + e[m.end():]
    if not re.fullmatch(r"[0-9.eE+\-()F\s]+", e):
        raise ExtractError("range bound `%s`: not a constant this translator evaluates (%s)" % (expr, e))
    try:
        v = float(eval(e, {"__builtins__": {}}, {"F": float}))          # the comparison converts the bound to double
    except Exception as ex:
        raise ExtractError("range bound `%s`: %s" % (expr, ex))
    if v != v or v in (float("inf"), float("-inf")) or v != int(v):
        raise ExtractError("range bound `%s` = %r is not an integer" % (expr, v))
    return int(v)


def _match_paren(s, i):
    """index just past the parenthesis matching s[i] == '('"""
    depth = 0
    for j in range(i, len(s)):
        if s[j] == "(":
            depth += 1
        elif s[j] == ")":
            depth -= 1
            if depth == 0:
                return j + 1
    raise ExtractError("unbalanced parentheses in " + s)


def _split_top(e, op):
    """split at top-level occurrences of the two-character operator `op`"""
    parts, depth, last, i = [], 0, 0, 0
    while i < len(e):
        if e[i] == "(":
            depth += 1
        elif e[i] == ")":
            depth -= 1
        elif depth == 0 and e.startswith(op, i):
            parts.append(e[last:i])
            last = i + 2
            i += 1
        i += 1
    parts.append(e[last:])
    return [p.strip() for p in parts]


def _strip_parens(e):
    e = e.strip()
    while e.startswith("(") and _match_paren(e, 0) == len(e):
        e = e[1:-1].strip()
    return e


def _unwrap_window(b, kind, hdr):
    """number branch of janet_unwrap_<kind> (locals already canonical: `d`): the accepted window as inclusive integer bounds.
    Recognised: `if (!MACRO(d)) break;` with MACRO(x) of janet.h a conjunction, an inline conjunction under `!`, or an inline
    disjunction of rejections; atoms are comparisons of d with a constant and an integrality test (`d == (T) d`, `d == floor(d)`,
    `d != floor(d)` as a rejection).  Then `return (T) d;`."""
    ctype = {"s64": "int64_t", "u64": "uint64_t"}[kind]
    m = re.search(r"case JANET_NUMBER ?: \{ double d = janet_unwrap_number\(x\); if \((.*?)\) break; return \(%s\) ?d; \}" % ctype, b)
    if not m:
        raise ExtractError("janet_unwrap_%s: number branch not recognised: %s" % (kind, b[:300]))
    cond = _strip_parens(m.group(1))
    how = "inline"
    mm = re.fullmatch(r"!\s*(\w+)\s*\(\s*d\s*\)", cond)
    if mm:                                                  # through a macro of janet.h
        how = mm.group(1)
        md = re.search(r"^#define\s+%s\((\w+)\)\s+(.+)$" % re.escape(how), hdr, re.M)
        if not md:
            raise ExtractError("janet_unwrap_%s: range macro %s not found in janet.h" % (kind, how))
        body = re.sub(r"\(\s*%s\s*\)" % re.escape(md.group(1)), "d", _norm(md.group(2)))
        body = re.sub(r"\b%s\b" % re.escape(md.group(1)), "d", body)
        atoms = [(a, True) for a in _split_top(_strip_parens(body), "&&")]
    elif cond.startswith("!") and _strip_parens(cond[1:]) != cond[1:].strip():
        atoms = [(a, True) for a in _split_top(_strip_parens(cond[1:]), "&&")]
    else:
        atoms = [(a, False) for a in _split_top(cond, "||")]          # each disjunct rejects
    lo = hi = None
    integral = False
    flip = {"<": ">", ">": "<", "<=": ">=", ">=": "<="}
    neg = {"<": ">=", ">": "<=", "<=": ">", ">=": "<", "==": "!=", "!=": "=="}
    for a, accept in atoms:
        a = _strip_parens(a)
        mc = re.fullmatch(r"(.+?)\s*(<=|>=|==|!=|<|>)\s*(.+)", a)
        if not mc:
            raise ExtractError("janet_unwrap_%s: range test atom `%s` not recognised" % (kind, a))
        l, op, r = _strip_parens(mc.group(1)), mc.group(2), _strip_parens(mc.group(3))
        if not accept:
            op = neg[op]
        if op in ("==", "!="):
            other = r if l == "d" else (l if r == "d" else None)
            if op == "==" and other is not None and re.fullmatch(r"\(\s*%s\s*\)\s*\(?\s*d\s*\)?|(floor|trunc|ceil|rint|nearbyint|round)\s*\(\s*d\s*\)" % ctype, other):
                integral = True
                continue
            raise ExtractError("janet_unwrap_%s: range test atom `%s` not recognised" % (kind, a))
        if r == "d" and l != "d":
            l, r, op = r, l, flip[op]
        if l != "d":
            raise ExtractError("janet_unwrap_%s: range test atom `%s` not recognised" % (kind, a))
        v = _cdouble(r, hdr)
        if op in (">=", ">"):
            v = v if op == ">=" else v + 1
            lo = v if lo is None else max(lo, v)
        else:
            v = v if op == "<=" else v - 1
            hi = v if hi is None else min(hi, v)
    if lo is None or hi is None or not integral:
        raise ExtractError("janet_unwrap_%s: number branch needs a lower bound, an upper bound and an integrality test: `%s`" % (kind, cond))
    return lo, hi, how



def _has_minneg_guard(body, divisor, dividend, before):
    """an `if ((divisor == -1) && (dividend == INT64_MIN)) janet_panic(` (either order) textually before `before`"""
    cut = body.find(before)
    if cut < 0:
        raise ExtractError("expected %r in %r" % (before, _norm(body)[:120]))
    head = body[:cut]
    d, n = re.escape(divisor), re.escape(dividend)
    pats = [r"if\s*\(\s*\(?\s*%s\s*==\s*-1\s*\)?\s*&&\s*\(?\s*%s\s*==\s*INT64_MIN\s*\)?\s*\)\s*janet_panic\s*\(" % (d, n),
            r"if\s*\(\s*\(?\s*%s\s*==\s*INT64_MIN\s*\)?\s*&&\s*\(?\s*%s\s*==\s*-1\s*\)?\s*\)\s*janet_panic\s*\(" % (n, d)]
    return any(re.search(p, head) for p in pats)


def extract(tree):
    raw = csrc.read(tree, "src/core/inttypes.c")
    src = csrc.strip_comments(raw)
    g = {}

    # ---- method tables ---------------------------------------------------------------------------------
    for kind in ("s64", "u64"):
        m = re.search(r"static\s+JanetMethod\s+it_%s_methods\s*\[\s*\]\s*=\s*\{" % kind, src)
        if not m:
            raise ExtractError("it_%s_methods[] not found" % kind)
        i = src.index("{", m.start())
        body = src[i + 1:csrc.match_brace(src, i) - 1]
        rows = re.findall(r"\{\s*(\"(?:[^\"\\]|\\.)*\"|NULL)\s*,\s*(\w+)\s*\}", body)
        if not rows or rows[-1] != ("NULL", "NULL"):
            raise ExtractError("it_%s_methods[]: rows not recognised / no NULL terminator" % kind)
        tab = []
        for name, fn in rows[:-1]:
            if not fn.startswith("cfun_it_%s_" % kind) and not fn.startswith("cfun_it_"):
                raise ExtractError("it_%s_methods[]: unexpected function %s" % (kind, fn))
            tab.append((name[1:-1], fn[len("cfun_it_"):]))
        g[kind + "Methods"] = tab

    # ---- macro instantiations --------------------------------------------------------------------------
    macros = ["OPMETHOD", "OPMETHODINVERT", "UNARYMETHOD", "DIVMETHOD", "DIVMETHODINVERT", "DIVMETHOD_SIGNED", "DIVMETHODINVERT_SIGNED"]
    inst = []
    for m in re.finditer(r"^(%s)\s*\(\s*(\w+)\s*,\s*(\w+)\s*,\s*(\w+)\s*,\s*([^\s)]+)\s*\)\s*$" % "|".join(macros), src, re.M):
        mac, cty, kind, name, oper = m.groups()
        if kind not in ("s64", "u64") or cty != {"s64": "int64_t", "u64": "uint64_t"}[kind]:
            raise ExtractError("instantiation %s: C type %s does not match kind %s" % (m.group(0), cty, kind))
        suffix = "i" if "INVERT" in mac else ""
        inst.append((kind + "_" + name + suffix, mac, kind, name, oper))
    if len(inst) < 20:
        raise ExtractError("only %d method instantiations recognised" % len(inst))
    g["instances"] = inst

    # ---- macro body shapes the model mirrors -----------------------------------------------------------
    # canonical local names inside the method macros (a renamed local is harmless): the box pointer, the loop index, the operand
    # variable are found by role; the DIVZERO_* helper macros mention the box of the enclosing macro, so they take DIVMETHOD's mapping
    def _macro_locals(text):
        mp = {}
        m = re.search(r"\bT\s*\*\s*(\w+)\s*=\s*janet_abstract\s*\(", text)
        if m:
            mp[m.group(1)] = "box"
        m = re.search(r"for\s*\(\s*int32_t\s+(\w+)\s*=\s*1\s*;", text)
        if m:
            mp[m.group(1)] = "i"
        m = re.search(r"\bT\s+(\w+)\s*=\s*janet_unwrap_##type\s*\(\s*argv\s*\[", text)
        if m:
            mp[m.group(1)] = "value"
        return mp
    _plain_macro = globals()["_macro"]
    _div_map = _macro_locals(_plain_macro(src, "DIVMETHOD"))
    def _macro(src_, name):                                    # shadows the module-level helper inside extract()
        t = _plain_macro(src_, name)
        if name.startswith("DIVZERO"):
            return _rename(t, {a: b for a, b in _div_map.items() if b == "box"})
        return _rename(t, _macro_locals(t))
    op = _norm(_macro(src, "OPMETHOD"))
    if not re.search(r"\*box = janet_unwrap_##type\(argv\[0\]\); for \(int32_t i = 1; i < argc; i\+\+\) \*box = \(T\) \(\(uint64_t\) \(\*box\)\) oper \(\(uint64_t\) janet_unwrap_##type\(argv\[i\]\)\);", op):
        raise ExtractError("OPMETHOD body changed: " + op[:200])
    opi = _norm(_macro(src, "OPMETHODINVERT"))
    if not re.search(r"\*box = janet_unwrap_##type\(argv\[1\]\); \*box = \(T\) \(\(uint64_t\) \*box\) oper \(\(uint64_t\) janet_unwrap_##type\(argv\[0\]\)\);", opi):
        raise ExtractError("OPMETHODINVERT body changed: " + opi[:200])
    un = _norm(_macro(src, "UNARYMETHOD"))
    if "janet_fixarity(argc, 1)" not in un or "*box = oper(janet_unwrap_##type(argv[0]));" not in un:
        raise ExtractError("UNARYMETHOD body changed")
    dz = {}
    for nm in ("div", "rem", "mod"):
        t = _norm(_macro(src, "DIVZERO_" + nm))
        if t.startswith("janet_panic(\"division by zero\")"):
            dz[nm] = "error"
        elif t.startswith("return janet_wrap_abstract(box)"):
            dz[nm] = "dividend"
        else:
            raise ExtractError("DIVZERO_%s not recognised: %s" % (nm, t))
    g["divzero"] = dz
    loop_forms = set()
    for mac, inv in (("DIVMETHOD", False), ("DIVMETHODINVERT", True), ("DIVMETHOD_SIGNED", False), ("DIVMETHODINVERT_SIGNED", True)):
        t = _macro(src, mac)
        n = _norm(t)
        if inv:
            ok = re.search(r"\*box = janet_unwrap_##type\(argv\[1\]\); T value = janet_unwrap_##type\(argv\[0\]\); if \(value == 0\) DIVZERO\(name\);", n)
        else:
            # the zero test inside the loop: DIVZERO(name) (same action as the two-argument forms) or DIVZERO_NEXT(name)
            ok = re.search(r"\*box = janet_unwrap_##type\(argv\[0\]\); for \(int32_t i = 1; i < argc; i\+\+\) \{ T value = janet_unwrap_##type\(argv\[i\]\); if \(value == 0\) (DIVZERO|DIVZERO_NEXT)\(name\);", n)
            if ok:
                loop_forms.add(ok.group(1))
        if not ok or "*box oper##= value;" not in n:
            raise ExtractError("%s body changed: %s" % (mac, n[:240]))
        g["guard_" + mac] = _has_minneg_guard(t, "value", "*box", "*box oper##= value") if "SIGNED" in mac else False

    # what a zero divisor does inside the loop of DIVMETHOD / DIVMETHOD_SIGNED: "error" | "return" | "continue"
    if len(loop_forms) != 1:
        raise ExtractError("the loops of DIVMETHOD and DIVMETHOD_SIGNED use different zero tests: %s" % sorted(loop_forms))
    lz = {}
    if loop_forms == {"DIVZERO"}:
        for nm in ("div", "rem", "mod"):
            lz[nm] = "error" if dz[nm] == "error" else "return"
    else:
        if _norm(_macro(src, "DIVZERO_NEXT")) != "(name) DIVZERO_NEXT_##name":
            raise ExtractError("DIVZERO_NEXT not recognised: " + _norm(_macro(src, "DIVZERO_NEXT")))
        for nm in ("div", "rem", "mod"):
            t = _norm(_macro(src, "DIVZERO_NEXT_" + nm))
            if t == "DIVZERO_" + nm:
                lz[nm] = "error" if dz[nm] == "error" else "return"
            elif t.startswith("janet_panic(\"division by zero\")"):
                lz[nm] = "error"
            elif t == "continue":
                lz[nm] = "continue"
            elif t.startswith("return janet_wrap_abstract(box)"):
                lz[nm] = "return"
            else:
                raise ExtractError("DIVZERO_NEXT_%s not recognised: %s" % (nm, t))
    g["loopZero"] = lz

    # ---- boot.janet: polymorphic compare and the chains built on it ---------------------------------------
    boot = csrc.read(tree, "src/boot/boot.janet")
    def _jnorm(t):
        return re.sub(r"\s+", " ", t).strip()
    m = re.search(r"\(defmacro- do-compare\s+\[x y\](.*?)\n\n", boot, re.S)
    want_do = ("(def f (gensym)) (def f-res (gensym)) (def g (gensym)) (def g-res (gensym)) ~(do (def ,f (,get ,x :compare)) "
               "(def ,f-res (if ,f (,f ,x ,y))) (if ,f-res ,f-res (do (def ,g (,get ,y :compare)) (def ,g-res (if ,g (,- (,g ,y ,x)))) "
               "(if ,g-res ,g-res (,cmp ,x ,y))))))")
    if not m or _jnorm(m.group(1)) != want_do:
        raise ExtractError("boot.janet do-compare changed: " + (_jnorm(m.group(1))[:200] if m else "not found"))
    m = re.search(r"\(defmacro- compare-reduce \[op xs\](.*?)\n\n", boot, re.S)
    want_red = ("~(do (var res true) (var x (get ,xs 0)) (forv i 1 (length ,xs) (let [y (in ,xs i)] (if (,op (do-compare x y) 0) (set x y) "
                "(do (set res false) (break))))) res))")
    if not m or _jnorm(m.group(1)) != want_red:
        raise ExtractError("boot.janet compare-reduce changed: " + (_jnorm(m.group(1))[:200] if m else "not found"))
    if not re.search(r"\(defn compare\s+``.*?``\s+\[x y\]\s+\(do-compare x y\)\)", boot, re.S):
        raise ExtractError("boot.janet compare is no longer (do-compare x y)")
    chains = re.findall(r"\(defn (compare[<>=]+)\s+``.*?``\s+\[& xs\]\s+\(compare-reduce (\S+) xs\)\)", boot, re.S)
    if sorted(chains) != sorted([("compare<", "<"), ("compare<=", "<="), ("compare=", "="), ("compare>", ">"), ("compare>=", ">=")]):
        raise ExtractError("boot.janet polymorphic chains changed: %s" % chains)
    g["polyChains"] = [("compare<", "<"), ("compare<=", "<="), ("compare=", "="), ("compare>", ">"), ("compare>=", ">=")]
    g["polyChains"] = [c for c in g["polyChains"] if c in chains]
    # the numeric predicates built on compare: (defn NAME "doc" [x] (= (compare x K) R))  /  (defn NAME "doc" [x] (= 0 (compare P (mod x M))))
    # (the *last* definition of a name counts: boot.janet defines a bootstrap `odd?` early and the polymorphic one later)
    preds = {}
    for m in re.finditer(r"\(defn\s+(zero\?|pos\?|neg\?|one\?|even\?|odd\?)\s+(?:\"[^\"]*\"\s+)?\[(\w+)\]\s*(\((?:[^()]|\((?:[^()]|\([^()]*\))*\))*\))\s*\)", boot):
        name, var, body = m.group(1), m.group(2), _jnorm(m.group(3))
        m1 = re.fullmatch(r"\(= \(compare %s (-?\d+)\) (-?\d+)\)" % re.escape(var), body)
        m2 = re.fullmatch(r"\(= 0 \(compare (-?\d+) \(mod %s (-?\d+)\)\)\)" % re.escape(var), body)
        if m1:
            preds[name] = ("cmp", int(m1.group(1)), int(m1.group(2)))
        elif m2:
            preds[name] = ("parity", int(m2.group(1)), int(m2.group(2)))
        else:
            preds[name] = ("other", 0, 0)
    for nm in ("zero?", "pos?", "neg?", "one?", "even?", "odd?"):
        if preds.get(nm, ("other",))[0] == "other":
            raise ExtractError("boot.janet %s: definition not of the shape (= (compare x K) R) / (= 0 (compare P (mod x M))): %s" % (nm, preds.get(nm)))
    g["polyPreds"] = [(nm,) + preds[nm] for nm in ("zero?", "pos?", "neg?", "one?", "even?", "odd?")]

    # ---- hand-written floor division / modulo ----------------------------------------------------------
    for fn in ("divf", "divfi", "mod", "modi"):
        body = csrc.func_body(src, "cfun_it_s64_" + fn)
        # canonical local names (a renamed local is harmless): the box, the quotient / remainder variable, its dividend and divisor
        mb = re.search(r"int64_t\s*\*\s*(\w+)\s*=\s*janet_abstract\s*\(", body)
        mq = re.search(r"int64_t\s+(\w+)\s*=\s*(\w+)\s*[/%]\s*(\w+)\s*;", body)
        if mb and mq:
            body = _rename(body, {mb.group(1): "box", mq.group(1): "x", mq.group(2): "op1", mq.group(3): "op2"})
        n = _norm(body)
        m1 = re.search(r"int64_t op1 = janet_unwrap_s64\(argv\[(\d)\]\);", n)
        m2 = re.search(r"int64_t op2 = janet_unwrap_s64\(argv\[(\d)\]\);", n)
        if not m1 or not m2 or "janet_fixarity(argc, 2)" not in n:
            raise ExtractError("cfun_it_s64_%s: operand fetch not recognised" % fn)
        g[fn + "Args"] = (int(m1.group(1)), int(m2.group(1)))
        if fn.startswith("divf"):
            if not re.search(r"if \(op2 == 0\) janet_panic\(\"division by zero\"\);", n) or \
               not re.search(r"int64_t x = op1 / op2; \*box = x - \(\(\(op1 \^ op2\) < 0\) && \(x \* op2 != op1\)\);", n):
                raise ExtractError("cfun_it_s64_%s: formula changed: %s" % (fn, n[:300]))
            g[fn + "Guard"] = _has_minneg_guard(body, "op2", "op1", "op1 / op2")
        else:
            if not re.search(r"if \(op2 == 0\) \{ \*box = op1; \}", n) or \
               not re.search(r"int64_t x = op1 % op2; \*box = \(\(\(op1 \^ op2\) < 0\) && \(x != 0\)\) \? x \+ op2 : x;", n):
                raise ExtractError("cfun_it_s64_%s: formula changed: %s" % (fn, n[:300]))
            cut = n.find("op1 % op2")
            # accepted guard: an `else if (op2 == -1) { *box = 0; }` arm before the `%`
            g[fn + "Guard"] = bool(re.search(r"else if \(\s*op2 == -1\s*\) \{ \*box = 0; \}", n[:cut]))

    # ---- mixed comparison ------------------------------------------------------------------------------
    def _cmp_body(fname, ity):
        px, py = _params(src, fname, (ity, "double"))
        b = csrc.func_body(src, fname)
        md = re.search(r"double\s+(\w+)\s*=\s*\(\s*double\s*\)\s*%s\s*;" % re.escape(px), b)
        mi = re.search(r"%s\s+(\w+)\s*=\s*\(\s*%s\s*\)\s*%s\s*;" % (ity, ity, re.escape(py)), b)
        mp = {px: "x", py: "y"}
        if md:
            mp[md.group(1)] = "dx"
        if mi:
            mp[mi.group(1)] = "yi"
        return _norm(_rename(b, mp))
    b = _cmp_body("compare_int64_double", "int64_t")
    m = re.search(r"if \(isnan\(y\)\) \{ return 0; \} else if \(\(y > JANET_INTMIN_DOUBLE\) && \(y < JANET_INTMAX_DOUBLE\)\) \{ double dx = \(double\) x; return compare_double_double\(dx, y\); \} "
                  r"else if \(y (>=?) \(\(double\) INT64_MAX\)\) \{ return -1; \} else if \(y (<=?) \(\(double\) INT64_MIN\)\) \{ return 1; \} "
                  r"else \{ int64_t yi = \(int64_t\) y; return \(x < yi\) \? -1 : \(\(x > yi\) \? 1 : 0\); \}", b)
    if not m:
        raise ExtractError("compare_int64_double: shape changed: " + b[:400])
    g["cmpS64Upper"], g["cmpS64Lower"] = m.group(1), m.group(2)
    b = _cmp_body("compare_uint64_double", "uint64_t")
    m = re.search(r"if \(isnan\(y\)\) \{ return 0; \} else if \(y < 0\) \{ return 1; \} else if \(\(y >= 0\) && \(y < JANET_INTMAX_DOUBLE\)\) \{ double dx = \(double\) x; return compare_double_double\(dx, y\); \} "
                  r"else if \(y (>=?) \(\(double\) UINT64_MAX\)\) \{ return -1; \} "
                  r"else \{ uint64_t yi = \(uint64_t\) y; return \(x < yi\) \? -1 : \(\(x > yi\) \? 1 : 0\); \}", b)
    if not m:
        raise ExtractError("compare_uint64_double: shape changed: " + b[:400])
    g["cmpU64Upper"] = m.group(1)
    b = _norm(csrc.func_body(src, "compare_double_double"))
    if "return (x < y) ? -1 : ((x > y) ? 1 : 0);" not in b:
        raise ExtractError("compare_double_double changed")
    for kind, other in (("s64", "u64"), ("u64", "s64")):
        b = _norm(csrc.func_body(src, "cfun_it_%s_compare" % kind))
        if "janet_is_int(argv[0]) != JANET_INT_%s" % kind.upper() not in b or "return janet_wrap_nil();" not in b:
            raise ExtractError("cfun_it_%s_compare changed" % kind)
    b = _norm(csrc.func_body(src, "cfun_it_s64_compare"))
    if "if (x < 0) { return janet_wrap_number(-1); } else if (y > INT64_MAX) { return janet_wrap_number(-1); }" not in b:
        raise ExtractError("cfun_it_s64_compare: s64/u64 arm changed")
    b = _norm(csrc.func_body(src, "cfun_it_u64_compare"))
    if "if (y < 0) { return janet_wrap_number(1); } else if (x > INT64_MAX) { return janet_wrap_number(1); }" not in b:
        raise ExtractError("cfun_it_u64_compare: u64/s64 arm changed")

    hdr = csrc.strip_comments(csrc.read(tree, "src/include/janet.h"))
    def hdef(name):
        m = re.search(r"^#define\s+%s\s+(.+)$" % re.escape(name), hdr, re.M)
        if not m:
            raise ExtractError("janet.h: #define %s not found" % name)
        return _norm(m.group(1))
    def hmac(name):
        m = re.search(r"^#define\s+%s\(x\)\s+(.+)$" % re.escape(name), hdr, re.M)
        if not m:
            raise ExtractError("janet.h: macro %s not found" % name)
        return _norm(m.group(1))
    def dblint(s):
        s = s.strip("()")
        v = float(s)
        if v != int(v):
            raise ExtractError("non-integral bound " + s)
        return int(v)
    g["intMaxDouble"] = dblint(hdef("JANET_INTMAX_DOUBLE"))
    g["intMinDouble"] = dblint(hdef("JANET_INTMIN_DOUBLE"))
    g["intMaxInt64"] = int(hdef("JANET_INTMAX_INT64").strip("()"))
    # ---- unwrap: accepted operand types; the number branch's window is REGENERATED (not matched as text) -----
    for kind, scan in (("s64", "janet_scan_int64"), ("u64", "janet_scan_uint64")):
        b = csrc.func_body(src, "janet_unwrap_" + kind)
        mp = {_params(src, "janet_unwrap_" + kind, ("Janet",))[0]: "x"}          # locals by role (a renamed local is harmless)
        for pat, canon in ((r"double\s+(\w+)\s*=\s*janet_unwrap_number\s*\(", "d"), (r"const\s+uint8_t\s*\*\s*(\w+)\s*=\s*janet_unwrap_string\s*\(", "str"),
                           (r"void\s*\*\s*(\w+)\s*=\s*janet_unwrap_abstract\s*\(", "abst"), (r"\bu?int64_t\s+(\w+)\s*;", "value")):
            mm_ = re.search(pat, b)
            if mm_:
                mp[mm_.group(1)] = canon
        b = _norm(_rename(b, mp))
        if "if (%s(str, janet_string_length(str), &value)) return value;" % scan not in b or \
           "janet_abstract_type(abst) == &janet_s64_type || (janet_abstract_type(abst) == &janet_u64_type)" not in b:
            raise ExtractError("janet_unwrap_%s: shape changed: %s" % (kind, b[:300]))
        lo, hi, how = _unwrap_window(b, kind, hdr)
        g["unwrap%sLo" % kind.upper()], g["unwrap%sHi" % kind.upper()] = lo, hi
        g["unwrap%sTest" % kind.upper()] = how
    if hmac("janet_checkintrange") != "((x) >= INT32_MIN && (x) <= INT32_MAX && (x) == (int32_t)(x))":
        raise ExtractError("janet_checkintrange changed")
    if hmac("janet_checkuintrange") != "((x) >= 0 && (x) <= UINT32_MAX && (x) == (uint32_t)(x))":
        raise ExtractError("janet_checkuintrange changed")
    mm = re.search(r"JANET_CORE_FN\(cfun_to_number\s*,", src)
    if not mm:
        raise ExtractError("cfun_to_number not found")
    i = src.index(") {", mm.end()) + 2
    b = _norm(src[i:csrc.match_brace(src, i)])
    if "if (value > JANET_INTMAX_INT64) {" not in b or "if (value < -JANET_INTMAX_INT64) {" not in b:
        raise ExtractError("cfun_to_number: range tests changed")

    # ---- string scanning -------------------------------------------------------------------------------
    st = csrc.strip_comments(csrc.read(tree, "src/core/strtod.c"))
    m = re.search(r"static\s+uint8_t\s+digit_lookup\s*\[\s*128\s*\]\s*=\s*\{([^}]*)\}", st)
    if not m:
        raise ExtractError("digit_lookup[128] not found")
    dl = [csrc.cint(x) for x in m.group(1).replace("\n", " ").split(",") if x.strip()]
    if len(dl) != 128:
        raise ExtractError("digit_lookup has %d entries" % len(dl))
    g["digitLookup"] = dl
    # scan_uint64: parameters and locals canonicalised by role, `{ return x; }` after a condition read as `return x;` - a renamed
    # variable, added braces or comments are harmless; the statement sequence itself is what the model `scanU64Raw` mirrors
    b = csrc.func_body(st, "scan_uint64")
    msig = re.search(r"\bscan_uint64\s*\(\s*const\s+uint8_t\s*\*\s*(\w+)\s*,\s*int32_t\s+(\w+)\s*,\s*uint64_t\s*\*\s*(\w+)\s*,\s*int\s*\*\s*(\w+)\s*\)\s*\{", st)
    if not msig:
        raise ExtractError("scan_uint64: signature not recognised")
    mp = dict(zip(msig.groups(), ("str", "len", "out", "neg")))
    pstr, plen = re.escape(msig.group(1)), re.escape(msig.group(2))
    for pat, canon in ((r"const\s+uint8_t\s*\*\s*(\w+)\s*=\s*%s\s*\+\s*%s\s*;" % (pstr, plen), "end"), (r"\buint64_t\s+(\w+)\s*=\s*0\s*;", "accum"),
                       (r"\bint\s+(\w+)\s*=\s*10\s*;", "base"), (r"\bint\s+(\w+)\s*=\s*0\s*;", "seenadigit"), (r"\bint\s+(\w+)\s*=\s*digit_lookup\s*\[", "digit")):
        found = set(re.findall(pat, b))
        if len(found) != 1:
            raise ExtractError("scan_uint64: local `%s` not identified (%d candidates)" % (canon, len(found)))
        mp[found.pop()] = canon
    b = _norm(_rename(b, mp))
    b = re.sub(r"\) \{ (return [^;{}]*;) \}", r") \1", b)
    m = re.search(r"if \(len > (\d+)\) return 0;", b)
    if not m:
        raise ExtractError("scan_uint64: length limit not found")
    g["scanMaxLen"] = int(m.group(1))
    need = ["if (str >= end) return 0;", "if (*str == '-') { *neg = 1; str++; } else if (*str == '+') { str++; }",
            "if (str + 1 < end && str[0] == '0' && str[1] == 'x') { base = 16; str += 2; }",
            "else if (str + 1 < end && str[0] >= '0' && str[0] <= '9' && str[1] == 'r') { base = str[0] - '0'; str += 2; }",
            "base = 10 * (str[0] - '0') + (str[1] - '0'); if (base < 2 || base > 36) return 0; str += 3;",
            "while (str < end && *str == '0') { seenadigit = 1; str++; }",
            "if (*str == '_') { if (!seenadigit) return 0; }",
            "int digit = digit_lookup[*str & 0x7F]; if (*str > 127 || digit >= base) return 0; if (accum > (UINT64_MAX - digit) / base) return 0; accum = accum * base + digit; seenadigit = 1;",
            "if (!seenadigit) return 0; *out = accum; return 1;"]
    for frag in need:
        if frag not in b:
            raise ExtractError("scan_uint64: fragment changed: " + frag)
    b = _norm(csrc.func_body(st, "janet_scan_int64"))
    if "if (neg && bi <= ((UINT64_MAX / 2) + 1)) { if (bi > INT64_MAX) { *out = INT64_MIN; } else { *out = -((int64_t) bi); } return 1; } if (!neg && bi <= INT64_MAX) { *out = (int64_t) bi; return 1; }" not in b:
        raise ExtractError("janet_scan_int64: range tests changed: " + b[:300])
    b = _norm(csrc.func_body(st, "janet_scan_uint64"))
    if "if (!neg) { *out = bi; return 1; }" not in b:
        raise ExtractError("janet_scan_uint64 changed")

    # ---- vm.c: operator opcodes -> method names; dispatch order ----------------------------------------
    vm = csrc.strip_comments(csrc.read(tree, "src/core/vm.c"))
    ops = []
    for m in re.finditer(r"VM_OP\((JOP_\w+)\)\s*(vm_binop|vm_bitop|vm_bitopu|vm_compop)\(\s*([^\s)]+)\s*\)\s*;", vm):
        ops.append((m.group(1), m.group(2)[3:], m.group(3)))
    for opn, lm, rm, kind in (("JOP_DIVIDE_FLOOR", "div", "rdiv", "divfloor"), ("JOP_MODULO", "mod", "rmod", "modulo"), ("JOP_REMAINDER", "%", "r%", "remainder")):
        mm = re.search(r"VM_OP\(%s\)\s*\{" % opn, vm)
        if not mm:
            raise ExtractError(opn + " not found")
        i = vm.index("{", mm.start())
        body = _norm(vm[i:csrc.match_brace(vm, i)])
        ml = re.search(r"double (\w+) = x2 \* floor\(x1 / x2\);", body)
        if ml:
            body = _rename(body, {ml.group(1): "intres"})
        if 'janet_binop_call("%s", "%s", op1, op2)' % (lm, rm) not in body:
            raise ExtractError("%s: method names changed" % opn)
        shape = {"divfloor": "janet_wrap_number(floor(x1 / x2))",
                 "modulo": "if (x2 == 0) { stack[A] = janet_wrap_number(x1); } else { double intres = x2 * floor(x1 / x2); stack[A] = janet_wrap_number(x1 - intres); }",
                 "remainder": "janet_wrap_number(fmod(x1, x2))"}[kind]
        if shape not in body:
            raise ExtractError("%s: number fast path changed" % opn)
        ops.append((opn, kind, lm))
    mm = re.search(r"VM_OP\(JOP_BNOT\)\s*\{", vm)
    i = vm.index("{", mm.start())
    body = _norm(vm[i:csrc.match_brace(vm, i)])
    if 'janet_wrap_integer(~janet_unwrap_integer(op))' not in body or 'janet_unary_call("~", op)' not in body:
        raise ExtractError("JOP_BNOT changed")
    ops.append(("JOP_BNOT", "bnot", "~"))
    if len(ops) < 16:
        raise ExtractError("only %d arithmetic opcodes recognised in vm.c" % len(ops))
    g["vmOps"] = ops
    vb = _norm(_macro(vm, "_vm_binop"))
    if 'janet_binop_call(#op, "r" #op, op1, op2);' not in vb or "stack[A] = wrap(x1 op x2);" not in vb:
        raise ExtractError("_vm_binop: method naming changed")
    vb = _norm(_macro(vm, "_vm_bitop"))
    if 'janet_binop_call(#op, "r" #op, op1, op2)' not in vb or "if (!rangecheck(y1))" not in vb or "if (!janet_checkintrange(y2))" not in vb \
       or "type1 x1 = (type1) y1; int32_t x2 = (int32_t) y2; stack[A] = janet_wrap_number((type1) (x1 op x2));" not in vb:
        raise ExtractError("_vm_bitop changed")
    bc = _norm(csrc.func_body(vm, "janet_binop_call"))
    m = re.search(r"Janet lm = janet_method_lookup\((lhs|rhs), lmethod\); if \(janet_checktype\(lm, JANET_NIL\)\) \{ Janet lr = janet_method_lookup\((lhs|rhs), rmethod\); Janet argv\[2\] = \{ (lhs|rhs), (lhs|rhs) \};"
                  r".*return janet_method_invoke\(lr, 2, argv\); \} else \{ Janet argv\[2\] = \{ (lhs|rhs), (lhs|rhs) \}; return janet_method_invoke\(lm, 2, argv\); \}", bc)
    if not m:
        raise ExtractError("janet_binop_call: shape changed: " + bc[:300])
    g["binopCall"] = m.groups()   # (first looked up, second looked up, rargv0, rargv1, largv0, largv1)

    # ---- corelib.c: the operator functions -------------------------------------------------------------
    cl = csrc.strip_comments(csrc.read(tree, "src/core/corelib.c"))
    fns = []
    for m in re.finditer(r"templatize_varop\(\s*env\s*,\s*\w+\s*,\s*\"([^\"]+)\"\s*,\s*(-?\d+)\s*,\s*(-?\d+)\s*,\s*(JOP_\w+)\s*,", cl):
        fns.append((m.group(1), "varop", m.group(4), int(m.group(2)), int(m.group(3))))
    for m in re.finditer(r"templatize_comparator\(\s*env\s*,\s*\w+\s*,\s*\"([^\"]+)\"\s*,\s*(\d)\s*,\s*(JOP_\w+)\s*,", cl):
        fns.append((m.group(1), "comparator", m.group(3), int(m.group(2)), 0))
    # the loop shape of the two templates the model's varopFold / comparatorLoop mirror
    def asm_array(name):
        m = re.search(r"uint32_t\s+%s\s*\[\s*\]\s*=\s*\{" % name, cl)
        if not m:
            raise ExtractError("%s[] not found in corelib.c" % name)
        i = cl.index("{", m.start())
        return re.sub(r"\s+", "", cl[i + 1:csrc.match_brace(cl, i) - 1])
    want_varop = ("SS(JOP_LENGTH,1,0),SSS(JOP_EQUALS_IMMEDIATE,2,1,0),SI(JOP_JUMP_IF_NOT,2,3),SI(JOP_LOAD_INTEGER,3,nullary),S(JOP_RETURN,3),"
                  "SSI(JOP_EQUALS_IMMEDIATE,2,1,1),SI(JOP_JUMP_IF_NOT,2,5),SI(JOP_LOAD_INTEGER,3,unary),SSI(JOP_GET_INDEX,4,0,0),SSS(op,3,3,4),S(JOP_RETURN,3),"
                  "SSI(JOP_GET_INDEX,3,0,0),SI(JOP_LOAD_INTEGER,5,1),SSS(JOP_IN,4,0,5),SSS(op,3,3,4),SSI(JOP_ADD_IMMEDIATE,5,5,1),SSI(JOP_EQUALS,2,5,1),"
                  "SI(JOP_JUMP_IF_NOT,2,-4),S(JOP_RETURN,3)")
    if asm_array("varop_asm") != want_varop:
        raise ExtractError("templatize_varop: varop_asm[] changed (the model mirrors: unary = `unary op x`, n-ary = left fold)")
    want_cmp = ("SS(JOP_LENGTH,1,0),SSS(JOP_LESS_THAN_IMMEDIATE,2,1,2),SI(JOP_JUMP_IF,2,10),SSI(JOP_GET_INDEX,3,0,0),SI(JOP_LOAD_INTEGER,5,1),"
                "SSS(JOP_IN,4,0,5),SSS(op,2,3,4),SI(JOP_JUMP_IF_NOT,2,7),SSI(JOP_ADD_IMMEDIATE,5,5,1),SS(JOP_MOVE_NEAR,3,4),SSI(JOP_EQUALS,2,5,1),"
                "SI(JOP_JUMP_IF_NOT,2,-6),S(invert?JOP_LOAD_FALSE:JOP_LOAD_TRUE,3),S(JOP_RETURN,3),S(invert?JOP_LOAD_TRUE:JOP_LOAD_FALSE,3),S(JOP_RETURN,3)")
    if asm_array("comparator_asm") != want_cmp:
        raise ExtractError("templatize_comparator: comparator_asm[] changed")
    if len(fns) != 19:
        raise ExtractError("expected 13 variadic operators + 6 comparators in corelib.c, found %d" % len(fns))
    g["coreFns"] = fns
    g["mathReg"] = extract_math(tree)
    return g


MATH_MODELLED = ("math/floor", "math/ceil", "math/trunc", "math/round", "math/abs", "math/gcd", "math/lcm")


def extract_math(tree):
    """math.c: which C function each of the modelled `math/...` names is registered to, resolved through the MATHOP macros to the
    libm function it applies / to janet_gcd, janet_lcm; the bodies the model mirrors (Int64/MathFns.lean) are matched *structurally*
    (parameter and local names free, whitespace / comments / redundant parentheses around conditions free)."""
    mc = csrc.strip_comments(csrc.read(tree, "src/core/math.c"))
    W = r"\s*"
    # the two macros: fixarity 1 / 2, janet_getnumber on every argument, wrap_number(fop(...))
    m1 = _norm(_macro(mc, "JANET_DEFINE_NAMED_MATHOP"))
    if not re.fullmatch(r"\(janet_name, fop, doc\) JANET_CORE_FN\(janet_##fop, \"\(math/\" janet_name \" x\)\", doc\) \{ janet_fixarity\(argc, 1\); "
                        r"double (\w+) = janet_getnumber\(argv, 0\); return janet_wrap_number\(fop\(\1\)\); \}", m1):
        raise ExtractError("JANET_DEFINE_NAMED_MATHOP changed: " + m1[:200])
    if _norm(_macro(mc, "JANET_DEFINE_MATHOP")) != "(fop, doc) JANET_DEFINE_NAMED_MATHOP(#fop, fop, doc)":
        raise ExtractError("JANET_DEFINE_MATHOP changed")
    unary = {}          # C function janet_<fop> -> (janet name, libm function)
    for m in re.finditer(r"^JANET_DEFINE_MATHOP\(\s*(\w+)\s*,", mc, re.M):
        unary["janet_" + m.group(1)] = (m.group(1), m.group(1))
    for m in re.finditer(r"^JANET_DEFINE_NAMED_MATHOP\(\s*\"([^\"]+)\"\s*,\s*(\w+)\s*,", mc, re.M):
        unary["janet_" + m.group(2)] = (m.group(1), m.group(2))
    # janet_gcd: NaN test, infinity test, Euclid's loop over fmod, return
    sig = re.search(r"static\s+double\s+janet_gcd\s*\(\s*double\s+(\w+)\s*,\s*double\s+(\w+)\s*\)", mc)
    if not sig:
        raise ExtractError("janet_gcd(double, double) not found")
    X, Y = sig.group(1), sig.group(2)
    body = re.sub(r"#\s*ifdef\s+NAN\s*return\s+NAN\s*;\s*#\s*else\s*return\s+0\.0\s*/\s*0\.0\s*;\s*#\s*endif", "return NAN;", csrc.func_body(mc, "janet_gcd"))
    body = _norm(body)
    def cond_or(f):
        return r"\(%s\(?%s\(%s%s%s\)%s\)?%s\|\|%s\(?%s\(%s%s%s\)%s\)?%s\)" % (W, f, W, X, W, W, W, W, f, W, Y, W, W, W)
    pat = (r"\{?%sif%s%s%s\{?%sreturn NAN;%s\}?%sif%s%s%s\{?%sreturn INFINITY;%s\}?%s"
           r"while%s\(%s%s%s!=%s0(?:\.0)?%s\)%s\{%s(?:const )?double (?P<t>\w+) = %s;%s%s = fmod\(%s%s%s,%s%s%s\);%s%s = (?P=t);%s\}%sreturn %s;%s\}?"
           % (W, W, cond_or("isnan"), W, W, W, W, W, cond_or("isinf"), W, W, W, W,
              W, W, Y, W, W, W, W, W, Y, W, Y, W, X, W, W, Y, W, W, X, W, W, X, W))
    if not re.fullmatch(pat, body):
        raise ExtractError("janet_gcd: body no longer `NaN test; infinity test; while (y != 0) { t = y; y = fmod(x, y); x = t; } return x`: " + body[:300])
    sig = re.search(r"static\s+double\s+janet_lcm\s*\(\s*double\s+(\w+)\s*,\s*double\s+(\w+)\s*\)", mc)
    if not sig:
        raise ExtractError("janet_lcm(double, double) not found")
    X, Y = sig.group(1), sig.group(2)
    body = _norm(csrc.func_body(mc, "janet_lcm"))
    if not re.fullmatch(r"\{?%sreturn%s\(?%s\(%s%s%s/%sjanet_gcd\(%s%s%s,%s%s%s\)%s\)%s\*%s%s%s\)?%s;%s\}?" % (W, W, W, W, X, W, W, W, X, W, W, Y, W, W, W, W, Y, W, W, W), body):
        raise ExtractError("janet_lcm: body no longer `(x / janet_gcd(x, y)) * y`: " + body[:200])
    binary = {}
    for cf, inner in (("janet_cfun_gcd", "janet_gcd"), ("janet_cfun_lcm", "janet_lcm")):
        mm = re.search(r"JANET_CORE_FN\(\s*%s\s*," % cf, mc)
        if not mm:
            raise ExtractError("JANET_CORE_FN(%s, ...) not found" % cf)
        i = mm.end()
        depth = 1
        while depth:                                  # skip to the end of the JANET_CORE_FN( ... ) header (string literals contain parentheses)
            c = mc[i]
            if c == '"':
                i += 1
                while mc[i] != '"':
                    i += 2 if mc[i] == "\\" else 1
            elif c == "(":
                depth += 1
            elif c == ")":
                depth -= 1
            i += 1
        i = mc.index("{", i)
        b = _norm(mc[i:csrc.match_brace(mc, i)])
        if not re.fullmatch(r"\{?%sjanet_fixarity\(argc, 2\);%sdouble (\w+) = janet_getnumber\(argv, 0\);%sdouble (\w+) = janet_getnumber\(argv, 1\);%s"
                            r"return janet_wrap_number\(%s\(\1, \2\)\);%s\}?" % (W, W, W, W, inner, W), b):
            raise ExtractError("%s changed: %s" % (cf, b[:200]))
        binary[cf] = inner
    reg = []
    for m in re.finditer(r"JANET_CORE_REG\(\s*\"(math/[^\"]+)\"\s*,\s*(\w+)\s*\)", mc):
        name, cf = m.group(1), m.group(2)
        if name not in MATH_MODELLED:
            continue
        if cf in unary:
            if "math/" + unary[cf][0] != name:
                raise ExtractError("%s registered to %s, which is defined as math/%s" % (name, cf, unary[cf][0]))
            reg.append((name, unary[cf][1]))
        elif cf in binary:
            reg.append((name, binary[cf]))
        else:
            raise ExtractError("%s registered to unknown function %s" % (name, cf))
    if sorted(n for n, _ in reg) != sorted(MATH_MODELLED):
        raise ExtractError("math.c: registrations of %s not all found (%s)" % (", ".join(MATH_MODELLED), reg))
    return sorted(reg)


def _s(x):
    return '"%s"' % x.replace("\\", "\\\\").replace('"', '\\"')


def render(tree):
    g = extract(tree)
    o = [csrc.lean_header("src/core/inttypes.c, vm.c, corelib.c, strtod.c, src/include/janet.h"), "namespace JanetModel.Gen.Int64\n"]
    for kind in ("s64", "u64"):
        o.append("/-- `it_%s_methods[]`: (method name, cfun_it_<...>) -/" % kind)
        o.append("def %sMethods : List (String × String) := [\n  %s]\n" % (kind, ",\n  ".join("(%s, %s)" % (_s(a), _s(b)) for a, b in g[kind + "Methods"])))
    o.append("/-- macro instantiations: (cfun suffix, macro, kind, name, C operator) -/")
    o.append("def instances : List (String × String × String × String × String) := [\n  %s]\n" %
             ",\n  ".join("(%s, %s, %s, %s, %s)" % tuple(_s(x) for x in r) for r in g["instances"]))
    o.append("/-- does the macro / function test `divisor == -1 && dividend == INT64_MIN` before the C `/` or `%`? -/")
    o.append("abbrev guardDivMethodSigned : Bool := %s" % str(g["guard_DIVMETHOD_SIGNED"]).lower())
    o.append("abbrev guardDivMethodInvertSigned : Bool := %s" % str(g["guard_DIVMETHODINVERT_SIGNED"]).lower())
    for fn in ("divf", "divfi", "mod", "modi"):
        o.append("abbrev guard%s : Bool := %s" % (fn.capitalize(), str(g[fn + "Guard"]).lower()))
    o.append("")
    o.append("/-- boot.janet: `(defn compare<op> [& xs] (compare-reduce <op> xs))` (the bodies of do-compare / compare-reduce are shape-asserted) -/")
    o.append("def polyChains : List (String × String) := [%s]\n" % ", ".join("(%s, %s)" % (_s(a), _s(b)) for a, b in g["polyChains"]))
    o.append("/-- boot.janet numeric predicates: (name, shape, a, b): cmp = `(= (compare x a) b)`, parity = `(= 0 (compare a (mod x b)))` -/")
    o.append("def polyPreds : List (String × String × Int × Int) := [%s]\n" %
             ", ".join("(%s, %s, %s, %s)" % (_s(n), _s(k), "(%d)" % a if a < 0 else a, "(%d)" % b if b < 0 else b) for n, k, a, b in g["polyPreds"]))
    o.append("/-- argv index of (op1 = dividend, op2 = divisor) in the hand-written methods -/")
    for fn in ("divf", "divfi", "mod", "modi"):
        o.append("abbrev %sArgs : Nat × Nat := (%d, %d)" % (fn, g[fn + "Args"][0], g[fn + "Args"][1]))
    o.append("")
    o.append("/-- zero divisor inside the loop of DIVMETHOD / DIVMETHOD_SIGNED (`DIVZERO(name)` or `DIVZERO_NEXT(name)`): error | return | continue -/")
    for nm in ("div", "rem", "mod"):
        o.append("abbrev loopZero%s : String := %s" % (nm.capitalize(), _s(g["loopZero"][nm])))
    o.append("/-- DIVZERO_<name>: true = panic \"division by zero\", false = return the dividend -/")
    for nm in ("div", "rem", "mod"):
        o.append("abbrev divzeroErrors%s : Bool := %s" % (nm.capitalize(), "true" if g["divzero"][nm] == "error" else "false"))
    o.append("")
    o.append("/-- comparison operators at the edge of compare_int64_double / compare_uint64_double -/")
    o.append("abbrev cmpS64UpperInclusive : Bool := %s   -- `y %s (double) INT64_MAX`" % (str(g["cmpS64Upper"] == ">=").lower(), g["cmpS64Upper"]))
    o.append("abbrev cmpS64LowerInclusive : Bool := %s   -- `y %s (double) INT64_MIN`" % (str(g["cmpS64Lower"] == "<=").lower(), g["cmpS64Lower"]))
    o.append("abbrev cmpU64UpperInclusive : Bool := %s   -- `y %s (double) UINT64_MAX`" % (str(g["cmpU64Upper"] == ">=").lower(), g["cmpU64Upper"]))
    o.append("")
    o.append("abbrev intMaxDouble : Int := %d" % g["intMaxDouble"])
    o.append("abbrev intMinDouble : Int := (%d)" % g["intMinDouble"])
    o.append("abbrev intMaxInt64 : Int := %d" % g["intMaxInt64"])
    o.append("/-- number branch of janet_unwrap_s64 / janet_unwrap_u64: accepted window (inclusive, integral doubles only), regenerated from the\n"
             "    range test (%s / %s); bounds evaluated as doubles the way the C compiler does (`(double) INT64_MAX` = 2^63) -/" % (g["unwrapS64Test"], g["unwrapU64Test"]))
    o.append("abbrev unwrapS64Lo : Int := (%d)" % g["unwrapS64Lo"])
    o.append("abbrev unwrapS64Hi : Int := (%d)" % g["unwrapS64Hi"])
    o.append("abbrev unwrapU64Lo : Int := (%d)" % g["unwrapU64Lo"])
    o.append("abbrev unwrapU64Hi : Int := (%d)" % g["unwrapU64Hi"])
    o.append("abbrev scanMaxLen : Nat := %d" % g["scanMaxLen"])
    o.append("def digitLookup : List Nat := [%s]\n" % ", ".join(str(x) for x in g["digitLookup"]))
    o.append("/-- vm.c: (opcode, template, C operator = method name) -/")
    o.append("def vmOps : List (String × String × String) := [\n  %s]\n" % ",\n  ".join("(%s, %s, %s)" % tuple(_s(x) for x in r) for r in g["vmOps"]))
    bc = g["binopCall"]
    o.append("/-- janet_binop_call: whose method is looked up first / second, and the argument order of each call -/")
    o.append("abbrev binopFirstIsLhs : Bool := %s" % str(bc[0] == "lhs").lower())
    o.append("abbrev binopSecondIsRhs : Bool := %s" % str(bc[1] == "rhs").lower())
    o.append("abbrev binopRArgsSwapped : Bool := %s   -- argv = {%s, %s} for the r-method" % (str((bc[2], bc[3]) == ("rhs", "lhs")).lower(), bc[2], bc[3]))
    o.append("abbrev binopLArgsInOrder : Bool := %s   -- argv = {%s, %s} for the left method" % (str((bc[4], bc[5]) == ("lhs", "rhs")).lower(), bc[4], bc[5]))
    o.append("")
    o.append("/-- corelib.c: (function, template, opcode, nullary constant / invert flag, unary constant) -/")
    o.append("def coreFns : List (String × String × String × Int × Int) := [\n  %s]\n" %
             ",\n  ".join("(%s, %s, %s, %s, %s)" % (_s(a), _s(b), _s(c), "(%d)" % d if d < 0 else d, "(%d)" % e if e < 0 else e) for a, b, c, d, e in g["coreFns"]))
    o.append("/-- math.c: (registered name, function applied to the unwrapped number(s)): libm function through the MATHOP macros, or janet_gcd / janet_lcm\n"
             "    (bodies matched structurally by the translator: NaN test, infinity test, `while (y != 0) { t = y; y = fmod(x, y); x = t; } return x`; `(x / gcd) * y`) -/")
    o.append("def mathReg : List (String × String) := [\n  %s]\n" % ",\n  ".join("(%s, %s)" % (_s(a), _s(b)) for a, b in g["mathReg"]))
    o.append("end JanetModel.Gen.Int64\n")
    return "\n".join(o)


if __name__ == "__main__":
    import sys
    print(render(sys.argv[1] if len(sys.argv) > 1 else "/repo"))
