"""Translator for C20: path-level descriptor balance  ->  Gen/FdPaths.lean

For every function of FUNCS (functions of ev.c / os.c / io.c / net.c / filewatch.c that create a descriptor and whose control
structure is inside the fragment this walker understands) the preprocessed body is parsed into a statement tree (blocks, if / else,
while / for / do-while, switch, labels, goto to a top-level label, return, break, continue) and EVERY path through it is walked
(loops unrolled twice; each creating call forks into "succeeded" / "failed"; each call that can raise forks into "passes" /
"raises"; a branch whose condition is decided by the outcome of a creating call on this path - `fd < 0`, `fd == -1`,
`NULL == f`, `!tmp`, `if (pipe(handles))`, conjunctions / disjunctions / negations of those - is followed one way only).
Emitted per path: the exit (return <expr> / raise <callee> / end) and the sequence of descriptor events

    create v   a creating call succeeded and stored the descriptor in C local v          (pipe-like calls: two events)
    move v w   w = fdopen(v, ...) succeeded: the FILE in w now owns descriptor v
    close v    close(v) / fclose(v)
    wrap v     janet_stream(v, ...) / make_stream / janet_makefile / janet_makejfile: an object with a finaliser owns it now
               (janet_stream_marshal: the duplicate travels in the marshalled message)
    release o  janet_stream_close(o): an object that owns its descriptor is closed (no local gives anything up)

each with the key `callee(first argument, locals as $k)` under which the site appears in Gen/Fds.lean (`fdSites`).  Lean replays every path
(`Loop/FdPaths.lean`: a local that holds a descriptor is not overwritten, close / wrap only of a held local, nothing held at any
exit except what the two pipe constructors return) and checks the table against `fdSites` both ways.  The path enumeration itself
is this script's (as in C19's counter balance): Lean checks each emitted path and the coverage of the site table, not that the
walker found every path of the C function.

Session 4, second part.  Next to the creation outcomes a path carries FACTS about plain locals and fields, used to follow a decided branch one
way only and learned from the branch taken when a test is undecided:
  `=x`        x is non-zero / non-null  (set by `x = 0 | NULL | 1 | <non-null pattern>`; forgotten on any other assignment, `op=`, `++`, `&x` passed on)
  `=x&K`      bit K of x is set         (`x |= K`; clear after `x = 0` or `x = c ? A : B` when neither constant has the bit)
  `=x==C`     x equals the constant C   (from `x == C` / `x != C` tests)
  `x`         a descriptor-valued local is valid: set to -1, copied from another local (validity only, no ownership), borrowed from janet_getjstream
  `?e|…`      the value of a side-effect-free leaf condition e under the known zero-ness of its locals (same loop header twice)
  `!call`     an argument check of REVALIDATED with this argument text has already passed
Calls with a contract: make_pipes (pair through an out-parameter + error flag), janet_getjstream (borrow), get_stdio_for_handle (take-over iff orig == NULL;
the callee's own paths are checked against the same contract, ENTRY).  os_execute_impl is walked on three slices, one per stdio slot (see SLOTS).
"""
import re
from .csrc import ExtractError, match_brace, lean_header
from .loop import preprocess, functions, _ws, _lstr
from .fds import RAISE_RX
from . import fds as _fds
from .loop import sites as _sites

FUNCS = [
    ("ev.c", "janet_make_pipe"), ("ev.c", "get_file_for_stream"), ("ev.c", "janet_stream_marshal"),
    ("net.c", "net_callback_accept"),
    ("os.c", "make_pipes"), ("os.c", "os_open"), ("os.c", "os_pipe"),
    ("io.c", "cfun_io_fopen"), ("io.c", "cfun_io_temp"),
    ("filewatch.c", "janet_watcher_init"),
    # session 4b: functions whose balance depends on correlations between locals (loop left by `break` <=> the cursor is non-null <=>
    # the last socket() succeeded; `addr` set <=> a socket is held) or on what the caller hands in
    ("net.c", "cfun_net_connect"), ("net.c", "cfun_net_listen"), ("os.c", "get_stdio_for_handle"),
]
# caller contract of a function that takes over a descriptor it did not create: (parameter that decides, parameter handed in).
# get_stdio_for_handle(handle, orig, iswrite): `orig == NULL` <=> `handle` is the parent's end of a pipe os_execute_impl made with
# make_pipes (nobody else owns it: the callee must wrap it); otherwise `handle` is the descriptor of the stream / file `orig`, which keeps it.
ENTRY = {"get_stdio_for_handle": ("orig", "handle")}
# right-hand sides taken to be non-null / non-zero when assigned to a plain local (assumptions about libc's getaddrinfo results and
# about janet_get_addrinfo, which raises instead of returning NULL)
NONNULL_RHS = [r"\w+->ai_addr", r"\(void\*\)ai"]
# creating calls that store ONE descriptor in the assigned lvalue
CREATE1 = ["dup", "open", "socket", "accept4", "accept", "inotify_init1", "epoll_create1", "timerfd_create", "fopen", "tmpfile", "fcntl_dupfd"]
# creating calls that fill a two-element array given as first argument and return non-zero on failure
CREATE2 = ["pipe", "janet_make_pipe"]
MOVE = ["fdopen"]
# `v = make_pipes(&w, reverse, &errflag)`: on success v and w hold the two ends, on failure both are -1 and *errflag = 1 (os.c make_pipes,
# itself one of the walked functions: `fd_paths_ok` checks exactly this contract on its two paths)
CREATE_PAIR_OUT = ["make_pipes"]
# `v = janet_getjstream(argv, n, &orig)`: raises, or returns the (valid) descriptor of an existing stream / file and stores that object
# in *orig: v is BORROWED (valid, not owned by this function), orig is non-null afterwards
BORROW = ["janet_getjstream"]
# `p = get_stdio_for_handle(h, orig, …)` seen from the caller: with orig == NULL the callee takes h over (wraps it; never fails); with
# orig != NULL h stays with orig and the result may be NULL (dup failed) - the contract the callee's own paths are checked against (ENTRY)
TAKEOVER = ["get_stdio_for_handle"]
# argument checks that are repeated with the same argument text under the same loop header: once passed, passed again
# (os_execute_impl: `for (i < exargs.len) (void) janet_getcstring(exargs.items, i);` before any pipe exists, and again when it builds argv)
REVALIDATED = ["janet_getcstring"]
CLOSE = ["close", "fclose", "close_handle"]
WRAP = ["janet_stream", "janet_stream_ext", "make_stream", "janet_makefile", "janet_makejfile"]
# closing an OBJECT that already owns its descriptor (a site of the table; no local gives anything up)
RELEASE = ["janet_stream_close"]
# hand-over that is not a wrapping call: (function, callee)
HANDOVER = [("janet_stream_marshal", "janet_marshal_int")]
PANIC_RX = r"janet_panic\w*"
NULLP = "((void*)0)"


# ------------------------------------------------------------------------------------------------ statement parser

def _skip_ws(t, i):
    while i < len(t) and t[i] in " \t\r\n":
        i += 1
    return i


def _paren(t, i):
    """t[i] == '(' -> (inside, index after the matching ')')"""
    d, j = 0, i
    while j < len(t):
        c = t[j]
        if c == '"' or c == "'":
            k = j + 1
            while k < len(t) and t[k] != c:
                k += 2 if t[k] == "\\" else 1
            j = k + 1
            continue
        if c == "(":
            d += 1
        elif c == ")":
            d -= 1
            if d == 0:
                return t[i + 1:j], j + 1
        j += 1
    raise ExtractError("unbalanced parenthesis: " + t[i:i + 80])


def _parse_stmt(t, i):
    i = _skip_ws(t, i)
    if i >= len(t):
        return None, i
    if t[i] == "{":
        j = match_brace(t, i)
        return ("block", _parse_nodes(t[i + 1:j - 1])), j
    m = re.match(r"(if|for|while|switch)\b\s*\(", t[i:])
    if m:
        kw = m.group(1)
        head, j = _paren(t, i + m.end() - 1)
        body, j = _parse_stmt(t, j)
        if kw == "if":
            k = _skip_ws(t, j)
            if re.match(r"else\b", t[k:]):
                els, j = _parse_stmt(t, k + 4)
                return ("if", head, body, els), j
            return ("if", head, body, None), j
        if kw == "switch":
            return ("switch", head, body[1] if body and body[0] == "block" else [body]), j
        return ("while", head, body), j
    if re.match(r"do\b", t[i:]):
        body, j = _parse_stmt(t, i + 2)
        k = _skip_ws(t, j)
        m2 = re.match(r"while\s*\(", t[k:])
        if not m2:
            raise ExtractError("do without while")
        head, j = _paren(t, k + m2.end() - 1)
        j = t.index(";", j) + 1
        return ("dowhile", head, body), j
    m = re.match(r"(case\b[^:;{}?]*|default|[A-Za-z_]\w*)\s*:(?!:)", t[i:])
    if m and not re.match(r"(return|goto|break|continue)\b", t[i:]):
        return ("label", _ws(m.group(1))), i + m.end()
    j, depth = i, 0
    while j < len(t):
        c = t[j]
        if c == '"' or c == "'":
            k = j + 1
            while k < len(t) and t[k] != c:
                k += 2 if t[k] == "\\" else 1
            j = k + 1
            continue
        if c in "([{":
            depth += 1
        elif c in ")]}":
            depth -= 1
        elif c == ";" and depth == 0:
            return ("stmt", t[i:j + 1]), j + 1
        j += 1
    return ("stmt", t[i:]), len(t)


def _parse_nodes(t):
    nodes, i = [], 0
    while True:
        n, i = _parse_stmt(t, i)
        if n is None:
            break
        nodes.append(n)
    return nodes


# ------------------------------------------------------------------------------------------------ expressions

def _strip_parens(e):
    e = _ws(e)
    while e.startswith("(") and e.endswith(")"):
        d, ok = 0, True
        for q, ch in enumerate(e):
            if ch == "(":
                d += 1
            elif ch == ")":
                d -= 1
                if d == 0 and q != len(e) - 1:
                    ok = False
                    break
        if not ok:
            break
        e = e[1:-1]
    return e


def _norm_var(a):
    """first argument / lvalue -> name of the C local: whitespace, redundant parentheses and casts removed"""
    a = _strip_parens(a)
    while True:
        m = re.match(r"^\((?:const)?(?:unsigned|signed|struct)?[A-Za-z_]\w*\**\)(.+)$", a)
        if not m:
            break
        a = _strip_parens(m.group(1))
    return a


def _split_top(e, op):
    """split e on the top-level binary operator op ('&&', '||', ',', '?', ':')"""
    out, d, cur, k = [], 0, "", 0
    while k < len(e):
        ch = e[k]
        if ch == '"' or ch == "'":
            j = k + 1
            while j < len(e) and e[j] != ch:
                j += 2 if e[j] == "\\" else 1
            cur += e[k:j + 1]
            k = j + 1
            continue
        if ch in "([{":
            d += 1
        elif ch in ")]}":
            d -= 1
        if d == 0 and e.startswith(op, k):
            out.append(cur)
            cur = ""
            k += len(op)
            continue
        cur += ch
        k += 1
    out.append(cur)
    return out


def _first_arg(inside):
    return _split_top(inside, ",")[0]


def _unmark(t):
    return re.sub(r"@\d+", "", t)


def _mark(fn, body):
    """append `@n` to the callee of the n-th (n >= 2) occurrence of a site key, numbered exactly as tools/gen/fds.py numbers them"""
    rx_fd = _fds._call_rx(_fds.CREATE + _fds.CLOSE + _fds.WRAP)
    seen, ins = {}, []
    idmap = _fds.ident_map(fn, body)
    for m, _guards in _sites(body, rx_fd):
        callee = m.group(1)
        if callee == fn:
            continue
        key = _fds.site_key(callee, _fds._first_arg(body, m), idmap, grow=False)
        seen[key] = seen.get(key, 0) + 1
        if seen[key] > 1:
            ins.append((m.start(1) + len(callee), "@%d" % seen[key]))
    for pos, txt in sorted(ins, reverse=True):
        body = body[:pos] + txt + body[pos:]
    return body


_LV = r"[A-Za-z_]\w*(?:->\w+)?"


def _truth_leaf(c):
    """c tests whether a plain local / field is non-zero / non-null -> (name, True) ; zero / null -> (name, False);
    `x & K` (one bit) -> ("x&K", True); `x == CONST` / `x != CONST` -> ("x==CONST", True / False); else None"""
    c = re.sub(r"(?<![\w\]\)])\(([A-Za-z_]\w*)\)", r"\1", _strip_parens(c))
    if re.fullmatch(_LV, c):
        return c, True
    m = re.fullmatch(r"([A-Za-z_]\w*)&(\d+)", c)
    if m:
        return c, True
    z = "(?:0|" + re.escape(NULLP) + ")"
    m = re.fullmatch("(" + _LV + ")(==|!=)" + z, c) or re.fullmatch(z + "(==|!=)(" + _LV + ")", c)
    if m:
        g = m.groups()
        name, op = (g[0], g[1]) if g[1] in ("==", "!=") else (g[1], g[0])
        return name, op == "!="
    m = re.fullmatch(r"\((.+)\)(==|!=)0", c) or re.fullmatch(r"0(==|!=)\((.+)\)", c)
    if m:                                   # `(x & K) != 0`, `0 == (x & K)`
        g = m.groups()
        inner, op = (g[0], g[1]) if g[1] in ("==", "!=") else (g[1], g[0])
        tl = _truth_leaf(inner)
        if tl:
            return tl[0], tl[1] == (op == "!=")
    m = re.fullmatch(r"([A-Za-z_]\w*)(==|!=)([A-Z][A-Z0-9_]+)", c)
    if m:
        return m.group(1) + "==" + m.group(3), m.group(2) == "=="
    return None


def _learn(cond, val, defs=None):
    """facts implied by `cond` evaluating to `val` (only what follows for certain: every conjunct of a true &&, every disjunct of a false ||;
    for a local `int x = e;` assigned nowhere else also what follows from e having that value)"""
    c = _strip_parens(_unmark(cond))
    parts = _split_top(c, "||")
    if len(parts) > 1:
        out = {}
        if not val:
            for p in parts:
                out.update(_learn(p, False, defs))
        return out
    parts = _split_top(c, "&&")
    if len(parts) > 1:
        out = {}
        if val:
            for p in parts:
                out.update(_learn(p, True, defs))
        return out
    if c.startswith("!") and not c.startswith("!="):
        return _learn(c[1:], not val, defs)
    tl = _truth_leaf(c)
    if not tl:
        return {}
    out = {"=" + tl[0]: tl[1] == val}
    if defs and tl[0] in defs:
        out.update(_learn(defs[tl[0]], tl[1] == val, None))
    return out


class State:
    __slots__ = ("events", "outcome")

    def __init__(self, events=(), outcome=()):
        self.events, self.outcome = tuple(events), tuple(sorted(dict(outcome).items()))

    def key(self):
        return (self.events, self.outcome)

    def with_event(self, ev):
        return State(self.events + (ev,), self.outcome)

    def with_outcome(self, names, ok):
        d = dict(self.outcome)
        for n in names:
            d[n] = ok
        return State(self.events, d.items())

    def get(self, name):
        return dict(self.outcome).get(name)

    def with_facts(self, facts):
        """facts: {'=x': True | False | None (forget)}"""
        if not facts:
            return self
        d = dict(self.outcome)
        for k, v in facts.items():
            if v is None:
                d.pop(k, None)
            else:
                d[k] = v
        return State(self.events, d.items())


def _uniq(states):
    seen, out = set(), []
    for s in states:
        if s.key() not in seen:
            seen.add(s.key())
            out.append(s)
    return out


class Walker:
    def __init__(self, fn, top, idmap=None):
        self.fn, self.top = fn, top
        self.idmap = idmap or {}
        self.exits = []          # (kind, label, events)
        self.goto_depth = 0
        self.defs = {}           # locals `int x = e;` assigned nowhere else (set by extract for the functions that need it)
        self.skip_assign = None  # lvalue whose fact was just set by a call with a known contract
        self.keep_addr = None
        self.pair_flags = []
        self.stable = set()      # locals never assigned after their declaration (set by extract for the functions that need it)
        names = CREATE1 + CREATE2 + MOVE + CLOSE + WRAP + RELEASE + CREATE_PAIR_OUT + TAKEOVER + [c for f, c in HANDOVER if f == fn]
        self.rx = re.compile(r"(?<![\w.>])(" + "|".join(sorted(names, key=lambda x: -len(x))) + "|" + PANIC_RX + "|" + RAISE_RX + r")(@\d+)?\s*\(")

    # ---- conditions -------------------------------------------------------------------------------------------
    def classify(self, cond, st):
        """True / False when the outcome of a creating call on this path decides the condition, else None"""
        c = _strip_parens(_unmark(cond))
        c = re.sub(r"(?<![\w\]\)])\(([A-Za-z_]\w*(?:\[\d+\])?)\)", r"\1", c)      # (connfd) >= 0
        parts = _split_top(c, "||")
        if len(parts) > 1:
            vs = [self.classify(p, st) for p in parts]
            return True if any(v is True for v in vs) else (False if all(v is False for v in vs) else None)
        parts = _split_top(c, "&&")
        if len(parts) > 1:
            vs = [self.classify(p, st) for p in parts]
            return False if any(v is False for v in vs) else (True if all(v is True for v in vs) else None)
        if c.startswith("!"):
            v = self.classify(c[1:], st)
            return None if v is None else (not v)
        if c in ("0", "1"):
            return c == "1"
        tl = _truth_leaf(c)
        if tl is not None:
            fact = st.get("=" + tl[0])
            if fact is not None:
                return fact == tl[1]
        for name, ok in st.outcome:
            if name.startswith("="):
                continue
            n = re.escape(name)
            if name.endswith(")"):
                # the creating call itself used as a condition: non-zero = failure
                if c == name or re.match(r"^%s(!=0|<0|==-1)$" % n, c) or re.match(r"^-1==%s$" % n, c):
                    return not ok
                if re.match(r"^%s==0$" % n, c):
                    return ok
                continue
            if re.match(r"^%s(<0|==-1|==\(-1\)|==%s)$" % (n, re.escape(NULLP)), c) or re.match(r"^(-1|\(-1\)|%s)==%s$" % (re.escape(NULLP), n), c):
                return not ok
            if c == name or re.match(r"^%s(>=0|!=-1|!=\(-1\)|!=%s)$" % (n, re.escape(NULLP)), c) or re.match(r"^(-1|\(-1\)|%s)!=%s$" % (re.escape(NULLP), n), c):
                return ok
        return None

    # ---- events of one expression, in textual order; returns the surviving states -------------------------------
    def expr(self, text, states):
        pos = 0
        while True:
            m = self.rx.search(text, pos)
            if not m:
                return states
            callee = m.group(1)
            inside, end = _paren(text, m.end() - 1)
            # arguments first (nested calls), then the call itself
            states = self.expr(inside, states)
            inside = _unmark(inside)
            arg = _norm_var(_first_arg(inside))
            # the key under which tools/gen/fds.py lists this call site (occurrence number from the marker put there by _mark)
            key = _fds.site_key(callee, _ws(_first_arg(inside))[:60], self.idmap, grow=False) + (("#" + m.group(2)[1:]) if m.group(2) else "")
            if re.fullmatch(PANIC_RX, callee):
                for s in states:
                    self.exits.append(("raise", callee, s.events))
                return []
            if re.fullmatch(RAISE_RX, callee):
                # a check that already passed on this path with the same argument text passes again (os_execute_impl validates every
                # command-line argument with janet_getcstring BEFORE it creates pipes and converts them again afterwards)
                call = "!" + _unmark(_ws(text[m.start():end]))
                for s in states:
                    if not (callee in REVALIDATED and s.get(call)):
                        self.exits.append(("raise", callee, s.events))
                if callee in REVALIDATED:
                    states = [s if s.get(call) else s.with_facts({call: True}) for s in states]
                # ... or it passes
            elif callee in CREATE_PAIR_OUT or callee in TAKEOVER:
                lv = re.search(r"([A-Za-z_][\w\.\[\]>-]*)\s*=\s*$", text[:m.start()])
                if not lv:
                    raise ExtractError("%s: result of %s is not assigned" % (self.fn, key))
                v = _norm_var(lv.group(1))
                args = [_norm_var(a) for a in _split_top(inside, ",")]
                new = []
                if callee in CREATE_PAIR_OUT:
                    if len(args) != 3 or not args[0].startswith("&") or not args[2].startswith("&"):
                        raise ExtractError("%s: %s(&other_end, reverse, &errflag) not recognised" % (self.fn, callee))
                    w, flag = args[0][1:], args[2][1:]
                    for s in states:
                        new.append(s.with_event(("create", v, "", key)).with_event(("create", w, "", key)).with_outcome([v, w], True))
                        new.append(s.with_outcome([v, w], False).with_facts({"=" + flag: True}))
                else:
                    if len(args) < 2:
                        raise ExtractError("%s: %s(handle, orig, …) not recognised" % (self.fn, callee))
                    for s in states:
                        own = s.get("=" + args[1])
                        if own is None:
                            raise ExtractError("%s: %s: not known on this path whether %s is NULL" % (self.fn, key, args[1]))
                        if own is False:
                            new.append(s.with_event(("wrap", arg, "", key)).with_facts({"=" + v: True}))
                        else:
                            new.append(s.with_facts({"=" + v: True}))
                            new.append(s.with_facts({"=" + v: False}))
                states = new
                self.skip_assign = v
            elif callee in CREATE1 or callee in MOVE:
                lv = re.search(r"([A-Za-z_][\w\.\[\]>-]*)\s*=\s*$", text[:m.start()])
                if not lv:
                    raise ExtractError("%s: result of %s is not assigned to a local" % (self.fn, key))
                v = _norm_var(lv.group(1))
                new = []
                for s in states:
                    if callee in MOVE:
                        new.append(s.with_event(("move", arg, v, key)).with_outcome([v], True))
                    else:
                        new.append(s.with_event(("create", v, "", key)).with_outcome([v], True))
                    new.append(s.with_outcome([v], False))
                states = new
            elif callee in CREATE2:
                a, b = arg + "[0]", arg + "[1]"
                call = _unmark(_ws(text[m.start():end]))
                new = []
                for s in states:
                    new.append(s.with_event(("create", a, "", key)).with_event(("create", b, "", key)).with_outcome([a, b, call], True))
                    new.append(s.with_outcome([a, b, call], False))
                states = new
            elif callee in CLOSE:
                states = [s.with_event(("close", arg, "", key)) for s in states]
            elif callee in WRAP:
                states = [s.with_event(("wrap", arg, "", key)) for s in states]
            elif callee in RELEASE:
                states = [s.with_event(("release", arg, "", key)) for s in states]
            else:   # HANDOVER: the descriptor is the last argument; only a local created on this path counts
                last = _norm_var(_split_top(inside, ",")[-1])
                states = [s.with_event(("wrap", last, "", callee)) if s.get(last) is True else s for s in states]
            states = _uniq(states)
            pos = end

    # ---- statements ------------------------------------------------------------------------------------------------
    def nodes(self, nodes, cur):
        brk, cont = [], []
        for n in nodes:
            if not cur and n[0] != "label":
                continue
            cur, b, c = self.node(n, cur)
            brk += b
            cont += c
        return cur, brk, cont

    def branch(self, cond, states):
        """-> (states where cond holds, states where it does not); the events of cond are performed first"""
        states = self.assigns(cond, self.expr(cond, states))
        t, f = [], []
        for s in states:
            v = self.classify(cond, s)
            k = self.opaque_key(cond, s) if v is None and self.stable else None
            if k is not None and s.get(k) is not None:
                v = s.get(k)
            if v is not False:
                t.append(s if v is True else s.with_facts(dict(_learn(cond, True, self.defs), **({k: True} if k else {}))))
            if v is not True:
                f.append(s if v is False else s.with_facts(dict(_learn(cond, False, self.defs), **({k: False} if k else {}))))
        return t, f

    def opaque_key(self, cond, st):
        """key under which the value of a side-effect-free LEAF condition is remembered on a path: its text plus the known zero-ness of the
        locals in it; only if every other identifier in it is a local that is never assigned after its declaration (so the same key
        means the same value: `i < exargs.len` with i == 0 in two loops with the same header)"""
        c = _strip_parens(_unmark(cond))
        if "(" in c or _split_top(c, "||")[1:] or _split_top(c, "&&")[1:] or c.startswith("!") or _truth_leaf(c):
            return None
        parts = []
        for v in sorted(set(re.findall(r"(?<![\w.>])[A-Za-z_]\w*", c))):
            f = st.get("=" + v)
            if f is not None:
                parts.append("%s=%s" % (v, f))
            elif v not in self.stable:
                return None
        return "?" + c + "|" + ",".join(parts)

    def assigns(self, text, states):
        """facts about plain locals / fields (`=x` -> is x non-zero / non-null; `=x&K` -> is bit K set; a descriptor-valued local set to -1 or
        to a borrowed descriptor) updated by the assignments of a statement / expression"""
        upd, alias = {}, {}
        t = _unmark(text).strip().rstrip(";")
        skip, self.skip_assign = self.skip_assign, None
        lvrx = r"([A-Za-z_]\w*(?:\[\w+\])?(?:->\w+)?)"
        for part in _split_top(t, ","):
            m = re.match(r"^(?:[\w\s\*]*?[\s\*])?" + lvrx + r"\s*=(?!=)\s*(.+)$", part.strip(), re.S)
            if m and not re.match(r"^(return|goto|case)\b", part.strip()):
                name, raw = m.group(1), _ws(_strip_parens(m.group(2)))
                if name == skip:
                    continue
                rhs = _norm_var(m.group(2))
                bm = re.match(r"^(%s)\(" % "|".join(BORROW), raw)
                for k in [k for k, _v in states[0].outcome if k.startswith("=" + name + "&")] if states else []:
                    upd[k] = None
                if rhs in ("-1", "(-1)"):
                    upd[name] = False                 # descriptor-valued local: invalid
                    upd["=" + name] = None
                elif bm:
                    args = [_norm_var(a) for a in _split_top(_paren(raw, raw.index("("))[0], ",")]
                    if not args[-1].startswith("&"):
                        raise ExtractError("%s: %s(…, &orig) not recognised" % (self.fn, bm.group(1)))
                    upd[name] = True                  # valid, borrowed: no create event
                    upd["=" + args[-1][1:]] = True
                    self.keep_addr = args[-1][1:]
                elif re.fullmatch(r"[A-Za-z_]\w*(?:\[\w+\])?", rhs) and any(s.get(rhs) is not None for s in states):
                    alias[name] = rhs                 # copy of a descriptor number: same validity (per state), no ownership
                    upd["=" + name] = None
                elif rhs in ("0", NULLP):
                    upd["=" + name] = False
                    for b in range(8):
                        upd["=%s&%d" % (name, 1 << b)] = False
                elif re.fullmatch(r"[1-9]\d*", rhs) or any(re.fullmatch(rx, _ws(_strip_parens(m.group(2)))) for rx in NONNULL_RHS):
                    upd["=" + name] = True
                else:
                    upd["=" + name] = None
                    cm = re.search(r"\?\s*(\d+)\s*:\s*(\d+)\s*$", rhs)
                    if cm:                              # `cond ? A : B`: a bit neither constant has is clear
                        for b in range(8):
                            if not ((int(cm.group(1)) | int(cm.group(2))) >> b) & 1:
                                upd["=%s&%d" % (name, 1 << b)] = False
        for m in re.finditer(r"(?<![\w.>\]])([A-Za-z_]\w*)\s*((?:[-+*/|&^%]|<<|>>)=(?!=)|\+\+|--)\s*(\d+)?", t):
            upd["=" + m.group(1)] = None
            if m.group(2) == "|=" and m.group(3) and bin(int(m.group(3))).count("1") == 1:
                upd["=%s&%s" % (m.group(1), m.group(3))] = True
        for m in re.finditer(r"(?:\+\+|--)\s*([A-Za-z_]\w*)\b(?!\s*[.\[(-])", t):
            upd["=" + m.group(1)] = None
        keep = set(self.pair_flags)
        if getattr(self, "keep_addr", None):
            keep.add(self.keep_addr)
            self.keep_addr = None
        for m in re.finditer(r"(?<!&)&\s*([A-Za-z_]\w*)\b(?!\s*[.\[(]|\s*->)", t.replace("&&", "  ")):
            if m.group(1) not in keep and not any(c + "(" in _ws(t) for c in CREATE_PAIR_OUT):
                upd["=" + m.group(1)] = None     # address taken: the callee may store anything
        if not upd:
            return states
        return _uniq([s.with_facts(dict(upd, **dict((n, s.get(r)) for n, r in alias.items()))) for s in states])

    def ret(self, expr, states):
        q = _split_top(_strip_parens(expr), "?")
        if len(q) > 1:
            cond = q[0]
            rest = "?".join(q[1:])
            # split rest at the ':' matching this '?'
            d, k, cut = 0, 0, None
            while k < len(rest):
                ch = rest[k]
                if ch in "([{":
                    d += 1
                elif ch in ")]}":
                    d -= 1
                elif ch == "?" and d == 0:
                    d += 1000
                elif ch == ":" and d >= 1000:
                    d -= 1000
                elif ch == ":" and d == 0:
                    cut = k
                    break
                k += 1
            if cut is None:
                raise ExtractError("%s: conditional expression not understood: %s" % (self.fn, expr[:80]))
            t, f = self.branch(cond, states)
            self.ret(rest[:cut], t)
            self.ret(rest[cut + 1:], f)
            return
        states = self.expr(expr, states)
        for s in states:
            self.exits.append(("return", _unmark(_ws(expr))[:40], s.events))

    def goto(self, label, states):
        idx = [i for i, n in enumerate(self.top) if n[0] == "label" and n[1] == label]
        if len(idx) != 1:
            raise ExtractError("%s: goto %s: no unique top-level label" % (self.fn, label))
        self.goto_depth += 1
        if self.goto_depth > 4:
            raise ExtractError("%s: goto nesting too deep (backward goto?)" % self.fn)
        fall, b, c = self.nodes(self.top[idx[0] + 1:], states)
        self.goto_depth -= 1
        for s in fall:
            self.exits.append(("end", "", s.events))

    def node(self, n, cur):
        k = n[0]
        if k == "label":
            return cur, [], []
        if k == "block":
            return self.nodes(n[1], cur)
        if k == "stmt":
            txt = n[1].strip()
            if re.match(r"break\s*;", txt):
                return [], cur, []
            if re.match(r"continue\s*;", txt):
                return [], [], cur
            m = re.match(r"goto\s+(\w+)\s*;", txt)
            if m:
                self.goto(m.group(1), cur)
                return [], [], []
            m = re.match(r"return\b(.*);$", txt, re.S)
            if m:
                self.ret(m.group(1), cur)
                return [], [], []
            return self.assigns(txt, _uniq(self.expr(txt, cur))), [], []
        if k == "if":
            t, f = self.branch(n[1], cur)
            f1, b1, c1 = self.node(n[2], t) if n[2] else (t, [], [])
            f2, b2, c2 = self.node(n[3], f) if n[3] is not None else (f, [], [])
            return _uniq(f1 + f2), b1 + b2, c1 + c2
        if k in ("while", "dowhile"):
            head = n[1]
            if ";" in head:           # for (init; cond; step)
                parts = _split_top(head, ";")
                if len(parts) != 3:
                    raise ExtractError("%s: for header not understood" % self.fn)
                cur = self.assigns(parts[0], self.expr(parts[0], cur))
                head, step = parts[1] or "1", parts[2]
            else:
                step = ""
            out = []
            states = cur
            for it in range(2):
                if k == "while" or it > 0:
                    states, f = self.branch(head, states)
                    out += f
                fall, b, c = self.node(n[2], states) if n[2] else (states, [], [])
                out += b
                states = self.assigns(step, _uniq(self.expr(step, fall + c))) if step else _uniq(fall + c)
            t, f = self.branch(head, states)
            out += f           # (paths that would go round a third time are cut here)
            return _uniq(out), [], []
        if k == "switch":
            cur = self.expr(n[1], cur)
            body = n[2]
            out = []
            starts = [i for i, x in enumerate(body) if x[0] == "label" and (i == 0 or body[i - 1][0] != "label")]
            has_default = any(x[0] == "label" and x[1] == "default" for x in body)
            for i in starts:
                f, b, c = self.nodes(body[i:], list(cur))
                if c:
                    raise ExtractError("%s: continue inside switch not supported" % self.fn)
                out += f + b
            if not has_default:
                out += cur
            return _uniq(out), [], []
        raise ExtractError("unknown node " + k)


# ------------------------------------------------------------------------------------------------ os_execute_impl, one stdio slot at a time
#
# os_execute_impl handles stdin / stdout / stderr with three disjoint sets of locals (new_X, pipe_X, orig_X, maybe_stdX, X_is_pipe, the
# bit JANET_PROC_OWNS_STDX of pipe_owner_flags, element X of src_handles / tmp_handles, proc->X) and a few shared ones (pipe_errflag, status,
# is_spawn, mode, flags).  Walking all three together multiplies the paths (4^3 set-ups x 4^3 dup outcomes x …); descriptors of different
# slots never meet (no close / wrap takes a descriptor of one slot from a local of another), so the function is walked three times, each
# time on the SLICE for one slot:
#   * a statement that mentions only another slot's locals is dropped; `new_Y = make_pipes(&pipe_Y, r, &pipe_errflag)` of another slot becomes
#     `if (<unknown>) pipe_errflag = 1;` (its only effect on shared state);
#   * an `if` whose condition mentions only another slot's locals keeps its (sliced) body under an unknown condition;
#   * `for (int i = 0; i < 3 [&& c]; i++) body` (the loops over the three handles) becomes ONE pass `do { if (!(c)) break; body } while (0)` for this
#     slot's element - `tmp_handles[i]` / `src_handles[i]` then name this slot's element - followed, for the dup loop, by
#     `if (<unknown>) pipe_errflag = 1;` (another slot's dup may have failed);
#   * `JanetHandle tmp_handles[3] = {-1, -1, -1};` becomes `tmp_handles[i] = (-1);`.
# The union of the three slices' events covers every site of the function in `Gen.Fds.fdSites` (`fd_paths_cover_sites` checks that).
SLOTS = {"in": "16", "out": "32", "err": "64"}


def _slot_rx(x, bit):
    return re.compile(r"\b(?:new_%s|pipe_%s|orig_%s|maybe_std%s|%s_is_pipe)\b|proc->%s\b|pipe_owner_flags\s*(?:\|=|&)\s*%s\b" % (x, x, x, x, x, x, bit))


def slice_nodes(nodes, mine, others):
    unknown = "__other_slot()"
    bump = ("if", unknown, ("stmt", "pipe_errflag = 1;"), None)

    def is_other(t):
        t = _unmark(t)
        return any(o.search(t) for o in others) and not mine.search(t)

    def sl(n):
        k = n[0]
        if k == "stmt":
            t = n[1]
            if re.search(r"\btmp_handles\s*\[\s*3\s*\]\s*=\s*\{", t):
                return [("stmt", "tmp_handles[i] = (-1);")]
            ms = re.search(r"\bsrc_handles\s*\[\s*3\s*\]\s*=\s*\{([^}]*)\}", t)
            if ms:
                own = [a.strip() for a in ms.group(1).split(",") if mine.search(a)]
                if len(own) != 1:
                    raise ExtractError("os_execute_impl: initialiser of src_handles not recognised")
                return [("stmt", "src_handles[i] = %s;" % own[0])]
            if is_other(t):
                return [bump] if any(c + "(" in _ws(_unmark(t)) or c + "@" in _ws(t) for c in CREATE_PAIR_OUT) else []
            return [n]
        if k == "block":
            return [("block", [y for x in n[1] for y in sl(x)])]
        if k == "if":
            a = sl(n[2]) if n[2] is not None else []
            b = sl(n[3]) if n[3] is not None else []
            body = a[0] if len(a) == 1 else ("block", a)
            els = None if n[3] is None else (b[0] if len(b) == 1 else ("block", b))
            if is_other(n[1]):
                if not any(True for x in a + b for _t in _texts(x)):
                    return []
                return [("if", unknown, body, els)]
            return [("if", n[1], body, els)]
        if k in ("while", "dowhile"):
            m = re.match(r"^\s*int\s+i\s*=\s*0\s*;\s*i\s*<\s*3\s*(?:&&(.*))?;\s*i\s*\+\+\s*$", n[1], re.S)
            body = sl(n[2]) if n[2] is not None else []
            if m and k == "while":
                inner = ([("if", "!(%s)" % m.group(1).strip(), ("stmt", "break;"), None)] if m.group(1) else []) + body
                out = [("dowhile", "0", ("block", inner))]
                if any("fcntl_dupfd" in t for x in body for t in _texts(x)):
                    out.append(bump)
                return out
            return [(k, n[1], body[0] if len(body) == 1 else ("block", body))]
        if k == "switch":
            return [("switch", n[1], [y for x in n[2] for y in sl(x)])]
        return [n]
    return [y for x in nodes for y in sl(x)]


def _texts(n):
    k = n[0]
    if k == "stmt":
        yield n[1]
    elif k == "block":
        for x in n[1]:
            yield from _texts(x)
    elif k == "if":
        yield n[1]
        for x in (n[2], n[3]):
            if x is not None:
                yield from _texts(x)
    elif k in ("while", "dowhile"):
        yield n[1]
        if n[2] is not None:
            yield from _texts(n[2])
    elif k == "switch":
        yield n[1]
        for x in n[2]:
            yield from _texts(x)


def _single_defs(text):
    """locals `int x = e;` that are assigned nowhere else"""
    defs = {}
    for m in re.finditer(r"(?<![\w.>])int\s+([A-Za-z_]\w*)\s*=(?!=)\s*([^;{}]+);", text):
        x = m.group(1)
        others = [o for o in re.finditer(r"(?<![\w.>])%s\s*(?:(?:[-+*/|&^%%]|<<|>>)?=(?!=)|\+\+|--)" % re.escape(x), text) if o.start() != m.start(1)]
        if not others and not re.search(r"(?<!&)&\s*%s\b" % re.escape(x), text.replace("&&", "  ")):
            defs[x] = m.group(2)
    return defs


def _stable_locals(text):
    """locals declared with an initialiser and never assigned, incremented or passed by address afterwards"""
    out = set()
    flat = text.replace("&&", "  ")
    for m in re.finditer(r"(?<![\w.>])(?:[A-Za-z_]\w*[\s\*]+)+([A-Za-z_]\w*)\s*=(?!=)", text):
        x = m.group(1)
        n = len(re.findall(r"(?<![\w.>])%s(?:\.\w+|->\w+|\[[^\]]*\])*\s*(?:(?:[-+*/|&^%%]|<<|>>)?=(?!=)|\+\+|--)" % re.escape(x), text))
        if n == 1 and not re.search(r"(?<!&)&\s*%s\b" % re.escape(x), flat) and not re.search(r"(?:\+\+|--)\s*%s\b" % re.escape(x), text):
            out.add(x)
    return out


def walk_os_execute(pre_os):
    fn = "os_execute_impl"
    body = pre_os.get(fn)
    if body is None:
        raise ExtractError("path walk: function %s not found in os.c" % fn)
    marked = _mark(fn, body)
    top = _parse_nodes(marked.strip()[1:-1])
    rxs = dict((x, _slot_rx(x, b)) for x, b in SLOTS.items())
    exits = []
    for x in SLOTS:
        if not rxs[x].search(body):
            raise ExtractError("path walk: os_execute_impl no longer has the locals of the std%s slot" % x)
        sliced = slice_nodes(top, rxs[x], [rxs[y] for y in SLOTS if y != x])
        w = Walker(fn, sliced, _fds.ident_map(fn, body))
        w.defs = _single_defs(_unmark(marked))
        w.stable = _stable_locals(_unmark(marked))
        w.pair_flags = ["pipe_errflag"]
        fall, b, c = w.nodes(sliced, [State()])
        if b or c:
            raise ExtractError("%s: break / continue outside a loop" % fn)
        for s in fall:
            w.exits.append(("end", "", s.events))
        if not any(e[0] == "create" for _, _, evs in w.exits for e in evs):
            raise ExtractError("path walk: the std%s slice of os_execute_impl creates no descriptor" % x)
        exits += w.exits
    ex = sorted(set(exits))
    if len(ex) > 600:
        raise ExtractError("path walk: os_execute_impl has %d distinct paths" % len(ex))
    return [(fn, kind, label, list(evs)) for kind, label, evs in ex]


def extract(tree):
    pre = {}
    paths, covered = [], []
    for f, fn in FUNCS:
        if f not in pre:
            src = preprocess(tree, "src/core/" + f)
            src = re.sub(r"(?<![\w.>])fcntl\s*\(([^,()]*(?:\[[^\]]*\])?[^,()]*),\s*(?:0|1030)\s*,", r"fcntl_dupfd(\1,", src)
            pre[f] = dict(functions(src))
        body = pre[f].get(fn)
        if body is None:
            raise ExtractError("path walk: function %s not found in %s" % (fn, f))
        top = _parse_nodes(_mark(fn, body).strip()[1:-1])
        w = Walker(fn, top, _fds.ident_map(fn, body))
        start = [State()]
        if fn in ENTRY:
            decides, handed = ENTRY[fn]
            if not re.search(r"\b%s\b" % decides, body) or not re.search(r"\b%s\b" % handed, body):
                raise ExtractError("path walk: %s no longer has the parameters %s / %s" % (fn, decides, handed))
            start = [State([("create", handed, "", "entry:" + handed)], {"=" + decides: False, handed: True}.items()),
                     State((), {"=" + decides: True}.items())]
        fall, b, c = w.nodes(top, start)
        if b or c:
            raise ExtractError("%s: break / continue outside a loop" % fn)
        for s in fall:
            w.exits.append(("end", "", s.events))
        ex = sorted(set(w.exits))
        if not any(e[0] == "create" for _, _, evs in ex for e in evs):
            raise ExtractError("path walk: no path of %s creates a descriptor any more" % fn)
        if len(ex) > 400:
            raise ExtractError("path walk: %s has %d distinct paths" % (fn, len(ex)))
        for kind, label, evs in ex:
            paths.append((fn, kind, label, list(evs)))
        covered.append(fn)
    paths += walk_os_execute(pre["os.c"])
    covered.append("os_execute_impl")
    return {"paths": paths, "functions": covered}


def diagnose(paths):
    """the discipline Lean checks (Loop/FdPaths.lean `pathOk`), re-evaluated here only to NAME the offending paths in the report"""
    bad = []
    for fn, kind, label, evs in paths:
        held, why = [], None
        for k, v, w, key in evs:
            if k == "create":
                if v in held:
                    why = "local %s overwritten while it holds a descriptor at %s" % (v, key)
                    break
                held.append(v)
            elif k in ("close", "wrap"):
                if v not in held:
                    why = "%s of local %s that holds no descriptor at %s" % (k, v, key)
                    break
                held.remove(v)
            elif k == "move":
                if v not in held or w in held:
                    why = "fdopen hand-over %s -> %s not possible at %s" % (v, w, key)
                    break
                held.remove(v)
                held.append(w)
        exp = 2 if (fn, kind, label) == ("janet_make_pipe", "return", "0") or (fn == "make_pipes" and kind == "return" and label != "(-1)") else 0
        if why is None and len(held) != exp:
            why = "exit `%s %s` with local(s) %s still holding a descriptor" % (kind, label, held) if held else "successful return without both pipe ends"
        if why:
            bad.append("%s: %s (path: %s)" % (fn, why, " ; ".join("%s %s" % (e[0], e[3]) for e in evs)))
    return bad


def render(tree):
    r = extract(tree)
    o = [lean_header("src/core/ev.c, net.c, os.c, io.c, filewatch.c (preprocessed for this platform)"), "", "namespace JanetModel.Gen.FdPaths", ""]
    o.append("/-- functions whose paths were walked -/")
    o.append("abbrev functions : List String := [" + ", ".join(_lstr(f) for f in r["functions"]) + "]")
    o.append("")
    o.append("/-- every distinct path: (function, exit kind, exit label, events (kind, local, second local of `move`, site key)) -/")
    o.append("abbrev paths : List (String × String × String × List (String × String × String × String)) := [")
    o.append(",\n".join("  (%s, %s, %s, [%s])" % (_lstr(fn), _lstr(k), _lstr(lab), ", ".join("(%s, %s, %s, %s)" % tuple(_lstr(x) for x in e) for e in evs))
                        for fn, k, lab, evs in r["paths"]))
    o.append("]")
    o.append("")
    o.append("end JanetModel.Gen.FdPaths")
    return "\n".join(o) + "\n"


if __name__ == "__main__":
    import sys
    print(render(sys.argv[1] if len(sys.argv) > 1 else "/repo"))
