"""Reader for textual LLVM IR (clang-14, typed pointers, -O0) - reusable by every IR-level translator.

    m = llvmir.parse(text)                 or   m = llvmir.compile_ir(c_file, include_dirs, defines)
    m.functions[name] -> Function          .name .params(int) .blocks(list of Block, entry first) .internal(bool) .sig(str)
    Block                                  .label .insts(list of Inst) .succs(list of labels) .term ('br','switch','ret','unreachable','indirectbr')
    Inst                                   .kind  'call' | 'icall' | 'asm' | 'load' | 'store' | 'other'
                                           .callee (direct calls; bitcast-wrapped callees are unwrapped)
                                           .args   list of (type string, value string);  .const_args: list of int or None
                                           .refs   names of global symbols (@x) mentioned outside the callee position
                                           .text   the raw line
    m.declared      set of external (declared, not defined) function names
    m.globals[name] -> initializer text of a global variable / constant ('' if none)
    m.address_taken() -> {function name: [where...]} functions whose address escapes (global initialisers, stores, arguments)
    m.callgraph()   -> {caller: set(direct callees)}
    m.indirect_call_sites() -> [(function, block label, inst)]

Every routine raises ExtractError (tools/gen/csrc.py) when the text does not have the expected shape."""
import os
import re
import subprocess

from .csrc import ExtractError

_IDENT = r'(?:"[^"]*"|[-\w.$]+)'
_GLOBAL_REF = re.compile(r'@(' + _IDENT + r')')
_DEFINE = re.compile(r'^define\s+(.*?)@(' + _IDENT + r')\((.*)\)\s*([^{]*)\{\s*$')
_DECLARE = re.compile(r'^declare\s+.*?@(' + _IDENT + r')\(')
_LABEL = re.compile(r'^(' + _IDENT + r'):')
_GLOBALDEF = re.compile(r'^@(' + _IDENT + r')\s*=\s*(.*)$')
_INT = re.compile(r'^-?\d+$')


def _unq(n):
    return n[1:-1] if n.startswith('"') else n


def split_top(s, sep=","):
    """Split on `sep` at bracket depth 0 ((), [], {}, <>-free: '<' '>' appear in vector types only, ignored)."""
    out, depth, cur, i, n = [], 0, [], 0, len(s)
    while i < n:
        c = s[i]
        if c == '"':
            j = s.index('"', i + 1)
            cur.append(s[i:j + 1])
            i = j + 1
            continue
        if c in "([{":
            depth += 1
        elif c in ")]}":
            depth -= 1
        if c == sep and depth == 0:
            out.append("".join(cur).strip())
            cur = []
        else:
            cur.append(c)
        i += 1
    last = "".join(cur).strip()
    if last:
        out.append(last)
    return out


def _match_paren(s, i):
    depth = 0
    n = len(s)
    while i < n:
        c = s[i]
        if c == '"':
            i = s.index('"', i + 1) + 1
            continue
        if c == "(":
            depth += 1
        elif c == ")":
            depth -= 1
            if depth == 0:
                return i
        i += 1
    raise ExtractError("unbalanced parentheses in IR line: " + s[:120])


class Inst:
    __slots__ = ("kind", "callee", "args", "const_args", "refs", "text", "result")

    def __init__(self, kind, text):
        self.kind = kind
        self.text = text
        self.callee = None
        self.args = []
        self.const_args = []
        self.refs = []
        self.result = None

    def __repr__(self):
        return "<%s %s>" % (self.kind, self.callee or self.text[:60])


class Block:
    __slots__ = ("label", "insts", "succs", "term", "term_text")

    def __init__(self, label):
        self.label = label
        self.insts = []
        self.succs = []
        self.term = None
        self.term_text = ""          # text of a `br` / `switch` terminator


class Function:
    __slots__ = ("name", "params", "blocks", "internal", "sig", "bmap", "rettype")

    def __init__(self, name):
        self.name = name
        self.blocks = []
        self.bmap = {}

    def calls(self):
        for b in self.blocks:
            for i in b.insts:
                if i.kind in ("call", "icall", "asm"):
                    yield b, i


_CALL = re.compile(r'^(?:(%' + _IDENT + r')\s*=\s*)?(?:tail |musttail |notail )?call\s+(.*)$')


def parse_call(line):
    """`line`: an instruction containing a call.  Returns Inst or None when the line is not a call."""
    m = _CALL.match(line)
    if not m:
        return None
    rest = m.group(2)
    # find the first depth-0 '(' whose previous character is not whitespace: that opens the argument list
    i, n, depth = 0, len(rest), 0
    start = None
    while i < n:
        c = rest[i]
        if c == '"':
            i = rest.index('"', i + 1) + 1
            continue
        if c == "(":
            if depth == 0 and i > 0 and not rest[i - 1].isspace() and rest[i - 1] != ",":
                start = i
                break
            j = _match_paren(rest, i)
            # a group preceded by whitespace: part of the return / function type, or the operand of bitcast/asm
            if depth == 0 and j + 1 < n and rest[j + 1] == "(":
                # `bitcast (...)(args)`  or  `asm "..." (..)`-like: constant-expression callee
                start = j + 1
                break
            i = j + 1
            continue
        i += 1
    if start is None:
        raise ExtractError("cannot find argument list of call: " + line[:160])
    end = _match_paren(rest, start)
    head = rest[:start]
    argtext = rest[start + 1:end]
    inst = Inst("call", line)
    inst.result = m.group(1)
    if re.search(r'\basm\b', head):
        inst.kind = "asm"
    elif head.endswith(")"):
        # constant-expression callee, e.g. bitcast (i32 (...)* @f to i32 ()*)
        mm = _GLOBAL_REF.search(head[head.rindex("bitcast"):] if "bitcast" in head else head)
        if mm:
            inst.callee = _unq(mm.group(1))
        else:
            inst.kind = "icall"
    else:
        tok = re.search(r'([@%])(' + _IDENT + r')$', head)
        if not tok:
            raise ExtractError("cannot find callee of call: " + line[:160])
        if tok.group(1) == "@":
            inst.callee = _unq(tok.group(2))
        else:
            inst.kind = "icall"
            inst.callee = None
    for a in split_top(argtext):
        if a == "...":
            continue
        toks = a.rsplit(None, 1)
        val = toks[-1] if toks else ""
        inst.args.append((a, val))
        inst.const_args.append(int(val) if _INT.match(val) else None)
        for r in _GLOBAL_REF.finditer(a):
            inst.refs.append(_unq(r.group(1)))
    return inst


class Module:
    def __init__(self):
        self.functions = {}
        self.declared = set()
        self.globals = {}
        self.order = []

    def callgraph(self):
        g = {}
        for f in self.functions.values():
            s = g.setdefault(f.name, set())
            for b, i in f.calls():
                if i.kind == "call" and i.callee:
                    s.add(i.callee)
        return g

    def indirect_call_sites(self):
        out = []
        for name in self.order:
            f = self.functions[name]
            for b, i in f.calls():
                if i.kind == "icall":
                    out.append((name, b.label, i))
        return out

    def address_taken(self):
        """Functions whose address is used other than as the callee of a direct call."""
        fnames = set(self.functions) | self.declared
        taken = {}
        for g, init in self.globals.items():
            for r in _GLOBAL_REF.finditer(init):
                n = _unq(r.group(1))
                if n in fnames:
                    taken.setdefault(n, []).append("global " + g)
        for name in self.order:
            f = self.functions[name]
            for b in f.blocks:
                for i in b.insts:
                    for n in i.refs:
                        if n in fnames:
                            taken.setdefault(n, []).append("in " + name)
        return taken


def parse(text):
    m = Module()
    lines = text.split("\n")
    i, n = 0, len(lines)
    while i < n:
        line = lines[i]
        if line.startswith("define "):
            d = _DEFINE.match(line)
            if not d:
                raise ExtractError("unrecognised define line: " + line[:200])
            f = Function(_unq(d.group(2)))
            f.internal = bool(re.search(r'\b(internal|private)\b', d.group(1)))
            f.rettype = d.group(1)
            params = split_top(d.group(3))
            f.params = len([p for p in params if p != "..."])
            f.sig = d.group(3)
            cur = Block("%d" % f.params)      # implicit entry label (clang numbers it after the parameters)
            f.blocks.append(cur)
            i += 1
            while i < n and lines[i] != "}":
                l = lines[i]
                s = l.strip()
                i += 1
                if not s or s.startswith(";"):
                    continue
                lab = _LABEL.match(l)
                if lab and not l.startswith(" "):
                    cur = Block(_unq(lab.group(1)))
                    f.blocks.append(cur)
                    continue
                # multi-line switch
                if s.startswith("switch "):
                    while "]" not in s:
                        s += " " + lines[i].strip()
                        i += 1
                    cur.term = "switch"
                    cur.term_text = s
                    cur.succs = [_unq(x) for x in re.findall(r'label %(' + _IDENT + r')', s)]
                    continue
                if s.startswith("br "):
                    cur.term = "br"
                    cur.term_text = s
                    cur.succs = [_unq(x) for x in re.findall(r'label %(' + _IDENT + r')', s)]
                    continue
                if s.startswith("indirectbr "):
                    cur.term = "indirectbr"
                    cur.succs = [_unq(x) for x in re.findall(r'label %(' + _IDENT + r')', s)]
                    continue
                if s.startswith("ret ") or s == "ret void":
                    cur.term = "ret"
                    continue
                if s == "unreachable":
                    cur.term = "unreachable"
                    continue
                if s.startswith(("invoke ", "callbr ", "resume ", "catchswitch ", "cleanupret ", "catchret ")) or " = invoke " in s:
                    raise ExtractError("unsupported terminator in %s: %s" % (f.name, s[:100]))
                inst = None
                if re.search(r'(^|= |\s)call\s', s) and _CALL.match(s):
                    inst = parse_call(s)
                if inst is None:
                    kind = "other"
                    mm = re.match(r'^(?:%' + _IDENT + r'\s*=\s*)?(\w+)', s)
                    if mm and mm.group(1) in ("load", "store"):
                        kind = mm.group(1)
                    inst = Inst(kind, s)
                    for r in _GLOBAL_REF.finditer(s):
                        inst.refs.append(_unq(r.group(1)))
                cur.insts.append(inst)
            if i >= n:
                raise ExtractError("unterminated function " + f.name)
            seen = set()
            for b in f.blocks:
                if b.term is None:
                    raise ExtractError("block %s of %s has no terminator" % (b.label, f.name))
                if b.label in seen:
                    raise ExtractError("duplicate label %s in %s" % (b.label, f.name))
                seen.add(b.label)
                f.bmap[b.label] = b
            for b in f.blocks:
                for s_ in b.succs:
                    if s_ not in f.bmap:
                        raise ExtractError("edge to unknown label %s in %s" % (s_, f.name))
            m.functions[f.name] = f
            m.order.append(f.name)
        elif line.startswith("declare "):
            d = _DECLARE.match(line)
            if not d:
                raise ExtractError("unrecognised declare line: " + line[:200])
            m.declared.add(_unq(d.group(1)))
        elif line.startswith("@"):
            g = _GLOBALDEF.match(line)
            if g:
                m.globals[_unq(g.group(1))] = g.group(2)
        i += 1
    if not m.functions:
        raise ExtractError("no function definitions in IR")
    return m


def compile_ir(cfile, include_dirs=(), defines=(), out=None, clang="clang-14"):
    """clang -S -emit-llvm -O0 of one C file; returns the IR text."""
    out = out or (cfile + ".ll")
    cmd = [clang, "-S", "-emit-llvm", "-O0", "-w"] + ["-I" + d for d in include_dirs] + ["-D" + d for d in defines] + [cfile, "-o", out]
    r = subprocess.run(cmd, stdout=subprocess.PIPE, stderr=subprocess.STDOUT)
    if r.returncode:
        raise ExtractError("clang -emit-llvm failed: " + r.stdout.decode(errors="replace")[-600:])
    with open(out) as f:
        return f.read()
