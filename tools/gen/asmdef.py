"""Translator: the funcdef-level part of asm . disasm  ->  Gen/AsmDef.lean.

From asm.c:
  * `janet_asm1`: order of the statements that decide the initial slot count (`def->flags |= JANET_FUNCDEF_FLAG_VARARG`
    relative to `def->slotcount = !!(def->flags & JANET_FUNCDEF_FLAG_VARARG) + def->arity`), the three arity assertions,
    `janet_verify(def)` called after the bytecode / symbolmap / environments sections and before `janet_def_addflags`;
  * `doarg_1`: the slot-count update `if (argtype == JANET_OAT_SLOT && ret >= slotcount) slotcount = ret + 1`;
  * `read_instruction`: which operands of every instruction type are `JANET_OAT_SLOT`.
From bytecode.c `janet_verify`: the header checks (return 1 / 2), per instruction type the ordered list of comparisons
(expression shape, what it is compared with, return code), the symbol-map loop (return 10) and the set of terminal opcodes
(return 9).

Statements are recognised after comments are stripped and all whitespace removed, so re-indentation, comments, added
parentheses around a whole condition or `(void)` casts do not matter; a change of an operator, a constant, the order of the
flag / slot-count statements or an operand kind changes the generated Lean (a theorem of Props/C09 then no longer checks) or
raises ExtractError."""
import re
from . import csrc, bytecode, asm as gen_asm
from .csrc import ExtractError


def _squash(s):
    return re.sub(r"\s+", "", s)


def _stmts(body):
    """top-level statements of a function body (text between `;` at brace depth 0 of the body), squashed"""
    out, depth, cur = [], 0, []
    for ch in body:
        if ch == "{":
            depth += 1
        elif ch == "}":
            depth -= 1
        cur.append(ch)
        if ch == ";" and depth <= 1:
            out.append(_squash("".join(cur)))
            cur = []
    return out


def _alpha(body, decls):
    """rename locals to canonical names: `decls` = [(canonical, regex with one group matching the declared name)], applied in order
    (a later regex may mention an earlier canonical name)"""
    for canon, rx in decls:
        m = re.search(rx, body)
        if not m:
            raise ExtractError("local `%s` not found (pattern %s)" % (canon, rx))
        name = m.group(1)
        if name != canon:
            if re.search(r"\b%s\b" % re.escape(canon), body):
                raise ExtractError("cannot rename local %s to %s: name already in use" % (name, canon))
            body = re.sub(r"\b%s\b" % re.escape(name), canon, body)
    return body


def extract_asm1(tree):
    src = csrc.strip_comments(csrc.read(tree, "src/core/asm.c"))
    # `#if defined(JANET_BSD) … if (_setjmp(…)) { #else if (setjmp(…)) { #endif`: keep one branch so that braces balance
    src = re.sub(r"#if[^\n]*\n([^#]*?)#else[^\n]*\n([^#]*?)#endif[^\n]*\n", lambda m: m.group(2), src)
    raw = csrc.func_body(src, "janet_asm1")
    # locals may be renamed: the scratch value `x`, the source `s`, the symbol-map entry `ss` and its tuple `tup`
    raw = _alpha(raw, [("x", r"\bJanet\s+(\w+)\s*;"), ("s", r"\bJanet\s+(\w+)\s*=\s*source\s*;"),
                       ("ss", r"\bJanetSymbolMap\s+(\w+)\s*;"), ("def", r"\bJanetFuncDef\s*\*\s*(\w+)\s*;")])
    raw = re.sub(r"\(void\)\s*\w+\s*;", "", raw)
    body = _squash(raw)
    def pos(rx, what, unique=True):
        ms = list(re.finditer(rx, body))
        if not ms or (unique and len(ms) != 1):
            raise ExtractError("janet_asm1: %s: %d matches" % (what, len(ms)))
        return ms[0].start()
    p_arity = pos(r"def->arity=janet_checkint\(x\)\?janet_unwrap_integer\(x\):0;", "arity read")
    p_a0 = pos(r"janet_asm_assert\(&a,def->arity>=0,", "arity >= 0 assertion")
    p_max = pos(r"def->max_arity=janet_checkint\(x\)\?janet_unwrap_integer\(x\):def->arity;", "max-arity read")
    p_a1 = pos(r"janet_asm_assert\(&a,def->max_arity>=def->arity,", "max-arity assertion")
    p_min = pos(r"def->min_arity=janet_checkint\(x\)\?janet_unwrap_integer\(x\):def->arity;", "min-arity read")
    p_a2 = pos(r"janet_asm_assert\(&a,def->min_arity<=def->arity,", "min-arity assertion")
    p_flag = pos(r"if\(janet_truthy\(x\)\)\{?def->flags\|=JANET_FUNCDEF_FLAG_VARARG;", "vararg flag")
    p_getv = pos(r'x=janet_get1\(s,janet_ckeywordv\("vararg"\)\);', ":vararg read")
    # the initial slot count: arity plus one for the rest parameter when the flag is (already) set
    m = re.search(r"def->slotcount=(.*?);", body)
    if not m:
        raise ExtractError("janet_asm1: slot count initialisation not found")
    init = m.group(1)
    forms = (r"!!\(def->flags&JANET_FUNCDEF_FLAG_VARARG\)\+def->arity", r"def->arity\+!!\(def->flags&JANET_FUNCDEF_FLAG_VARARG\)",
             r"def->arity\+\(\(def->flags&JANET_FUNCDEF_FLAG_VARARG\)\?1:0\)", r"\(\(def->flags&JANET_FUNCDEF_FLAG_VARARG\)\?1:0\)\+def->arity")
    if not any(re.fullmatch(f, init) for f in forms):
        raise ExtractError("janet_asm1: slot count initialisation %r not recognised" % init)
    # the symbol-map loop: does a named local in a slot no instruction mentions raise the slot count?
    sym_bump = re.search(r"ss\.slot_index=janet_unwrap_integer\(tup\[2\]\);ss\.symbol=janet_unwrap_symbol\(tup\[3\]\);"
                         r"if\(ss\.birth_pc!=UINT32_MAX&&ss\.slot_index<INT32_MAX&&\(int32_t\)ss\.slot_index>=def->slotcount\)"
                         r"\{?def->slotcount=\(int32_t\)ss\.slot_index\+1;\}?def->symbolmap\[i\]=ss;", body) is not None
    if not re.search(r"if\(janet_keyeq\(tup\[0\],\"upvalue\"\)\)\{ss\.birth_pc=UINT32_MAX;\}", body):
        raise ExtractError("janet_asm1: upvalue symbol-map entries not recognised")
    if len(re.findall(r"def->slotcount=", body)) != 1 + (1 if sym_bump else 0):
        raise ExtractError("janet_asm1: slot count assigned at an unrecognised place")
    p_init = m.start()
    if not (p_arity < p_a0 < p_init and p_getv < p_flag):
        raise ExtractError("janet_asm1: arity is not read and checked before the slot count is initialised")
    counts_vararg = p_flag < p_init
    p_bc = pos(r'x=janet_get1\(s,janet_ckeywordv\("bytecode"\)\);', ":bytecode read")
    p_ver = pos(r"intverify_status=janet_verify\(def\);if\(verify_status\)\{?janet_asm_errorv\(", "janet_verify call")
    p_sm = pos(r'x=janet_get1\(s,janet_ckeywordv\("symbolmap"\)\);', ":symbolmap read")
    p_env = pos(r'x=janet_get1\(s,janet_ckeywordv\("environments"\)\);', ":environments read")
    p_add = pos(r"janet_def_addflags\(def\);", "janet_def_addflags")
    if not (p_init < p_bc < p_ver < p_add and p_sm < p_ver and p_env < p_ver and p_max < p_a1 < p_ver and p_min < p_a2 < p_ver):
        raise ExtractError("janet_asm1: order of bytecode / symbolmap / environments / verify / addflags changed")
    # :slotcount of the description must not be read (the model computes the count from the operands)
    if re.search(r'janet_ckeywordv\("slotcount"\)', body):
        raise ExtractError("janet_asm1 now reads :slotcount; the model does not")
    d1 = _squash(csrc.func_body(src, "doarg_1"))
    if not re.search(r"if\(argtype==JANET_OAT_SLOT&&ret>=a->def->slotcount\)\{?a->def->slotcount=\(int32_t\)ret\+1;\}?returnret;", d1):
        raise ExtractError("doarg_1: slot count update not recognised")
    return counts_vararg, sym_bump


_CODES = {"sc": ("slot", 4), "def->defs_length": ("def_", 6), "def->constants_length": ("const_", 7), "def->environments_length": ("env", 8)}


def _operand(expr):
    """value of an operand expression of janet_verify -> (shift_bits, masked)"""
    e = expr
    for rx, masked in ((r"\(int32_t\)\(\(instr>>(\d+)\)&0xFF\)", True), (r"\(\(int32_t\)\(instr>>(\d+)\)&0xFF\)", True),
                       (r"\(int32_t\)\(instr>>(\d+)\)", False)):
        m = re.fullmatch(rx, e)
        if m:
            return int(m.group(1)), masked
    raise ExtractError("janet_verify: operand expression %r not recognised" % expr)


def extract_verify(tree):
    src = csrc.strip_comments(csrc.read(tree, "src/core/bytecode.c"))
    body = csrc.func_body(src, "janet_verify")
    body = _alpha(body, [("vargs", r"\bint\s+(\w+)\s*=\s*!!\s*\(\s*def->flags\s*&\s*JANET_FUNCDEF_FLAG_VARARG\s*\)\s*;"),
                         ("maxslot", r"\bint32_t\s+(\w+)\s*=\s*def->arity\s*\+\s*vargs\s*;"),
                         ("sc", r"\bint32_t\s+(\w+)\s*=\s*def->slotcount\s*;"),
                         ("i", r"\bfor\s*\(\s*(\w+)\s*=\s*0\s*;\s*\w+\s*<\s*def->bytecode_length\s*;"),
                         ("instr", r"\buint32_t\s+(\w+)\s*=\s*def->bytecode\s*\[\s*i\s*\]\s*;"),
                         ("type", r"\benum\s+JanetInstructionType\s+(\w+)\s*=\s*janet_instructions"),
                         ("jumpdest", r"\bint32_t\s+(\w+)\s*=\s*i\s*\+"),
                         ("sm", r"\bconst\s+JanetSymbolMap\s*\*\s*(\w+)\s*="),
                         ("lastop", r"\buint32_t\s+(\w+)\s*=\s*def->bytecode\s*\[\s*def->bytecode_length\s*-\s*1\s*\]")])
    body = re.sub(r"\(void\)\s*\w+\s*;", "", body)
    sq = _squash(body)
    head = sq[:sq.index("for(i=0;i<def->bytecode_length;i++)")]
    want = [r"intvargs=!!\(def->flags&JANET_FUNCDEF_FLAG_VARARG\);", r"int32_tmaxslot=def->arity\+vargs;", r"int32_tsc=def->slotcount;",
            r"if\(def->bytecode_length==0\)return1;", r"if\(sc<0\|\|sc>(0x[0-9A-Fa-f]+|\d+)\)return2;",
            r"if\(def->arity<0\|\|def->arity>sc\)return2;", r"if\(def->min_arity<0\|\|def->min_arity>def->max_arity\)return2;",
            r"if\(maxslot>sc\)return2;"]
    # declarations, then `bytecode_length == 0` (return 1) before the four tests that return 2 (those in any order: same code)
    at, maxsc = {}, None
    for w in want:
        m = re.compile(w).search(head)
        if not m:
            raise ExtractError("janet_verify: header statement %s not found" % w)
        if m.groups():
            maxsc = csrc.cint(m.group(1))
        at[w] = m.start()
    if not all(at[want[3]] < at[w] for w in want[4:]) or not all(at[w] < at[want[3]] for w in want[:3]):
        raise ExtractError("janet_verify: order of the header statements changed")
    if len(re.findall(r"return\d+;", head)) != 5:
        raise ExtractError("janet_verify: header has an unexpected number of early returns")
    if not re.search(r"if\(\(instr&0x7F\)>=JOP_INSTRUCTION_COUNT\)\{?return3;", sq) or \
       not re.search(r"enumJanetInstructionTypetype=janet_instructions\[instr&0x7F\];switch\(type\)", sq):
        raise ExtractError("janet_verify: opcode range test / type dispatch not recognised")
    # the switch
    si = body.index("switch (type)") if "switch (type)" in body else body.index("switch(type)")
    bi = body.index("{", si)
    sw = body[bi + 1:csrc.match_brace(body, bi) - 1]
    pos = [(m.start(), m.group(1)) for m in re.finditer(r"case\s+(JINT_\w+)\s*:", sw)]
    checks, cur = {}, []
    for k, (p, name) in enumerate(pos):
        cur.append(name)
        end = pos[k + 1][0] if k + 1 < len(pos) else len(sw)
        seg = sw[p:end]
        seg = _squash(seg[seg.index(":") + 1:])
        if not seg:
            continue
        seg = seg.strip("{}")
        if not seg.endswith("continue;"):
            raise ExtractError("janet_verify: case %s does not end in `continue`" % cur)
        seg = seg[:-len("continue;")]
        lst = []
        jm = re.match(r"int32_tjumpdest=i\+\(\(\(int32_t\)instr\)>>(\d+)\);", seg)
        jshift = None
        if jm:
            jshift = int(jm.group(1))
            seg = seg[jm.end():]
        while seg:
            m = re.match(r"if\((.*?)\)\{?return(\d+);\}?", seg)
            if not m:
                raise ExtractError("janet_verify: case %s: statement %r not recognised" % (cur, seg[:60]))
            cond, code = m.group(1), int(m.group(2))
            seg = seg[m.end():]
            if cond == "jumpdest<0||jumpdest>=def->bytecode_length":
                if jshift is None or code != 5:
                    raise ExtractError("janet_verify: case %s: jump test without jumpdest / code %d" % (cur, code))
                lst.append(("label", jshift, False))
                continue
            for part in cond.split("||"):
                mm = re.fullmatch(r"(.*)>=(sc|def->defs_length|def->constants_length|def->environments_length)", part)
                if not mm:
                    raise ExtractError("janet_verify: case %s: comparison %r not recognised" % (cur, part))
                kind, want_code = _CODES[mm.group(2)]
                if code != want_code:
                    raise ExtractError("janet_verify: case %s: %s test returns %d" % (cur, kind, code))
                sh, masked = _operand(mm.group(1))
                lst.append((kind, sh, masked))
        for t in cur:
            checks[t] = lst
        cur = []
    # symbol map loop
    if not re.search(r"for\(i=0;i<def->symbolmap_length;i\+\+\)\{constJanetSymbolMap\*sm=def->symbolmap\+i;if\(sm->birth_pc==UINT32_MAX\)\{"
                     r"if\(sm->death_pc>=\(uint32_t\)def->environments_length\)return10;\}else\{if\(sm->slot_index>=\(uint32_t\)sc\)return10;"
                     r"if\(sm->birth_pc>sm->death_pc\|\|sm->death_pc>\(uint32_t\)def->bytecode_length\)return10;\}\}", sq):
        raise ExtractError("janet_verify: symbol map loop not recognised")
    m = re.search(r"uint32_tlastop=def->bytecode\[def->bytecode_length-1\]&0xFF;switch\(lastop\)\{default:return9;((?:caseJOP_\w+:)+)break;\}", sq)
    if not m:
        raise ExtractError("janet_verify: last-instruction test not recognised")
    terms = re.findall(r"case(JOP_\w+):", m.group(1))
    if not sq.rstrip("}").endswith("return0;"):
        raise ExtractError("janet_verify: does not end in `return 0`")
    return maxsc, checks, terms


def extract_slot_operands(tree):
    """read_instruction: per instruction type, for every operand (argt[1..n]) whether it is a JANET_OAT_SLOT counted in the
    assembler's own funcdef (`doarg(a, …)`).  The one operand handed to another assembler must be the third operand of
    JINT_SES, counted in the ancestor reached by `for (env += 1; env > 0; env--) b = b->parent;`."""
    src = csrc.strip_comments(csrc.read(tree, "src/core/asm.c"))
    ri = csrc.func_body(src, "read_instruction")
    pos = [(mm.start(), mm.group(1)) for mm in re.finditer(r"case\s+(JINT_\w+)\s*:", ri)]
    out, cur, foreign = {}, [], []
    for i, (p, name) in enumerate(pos):
        cur.append(name)
        end = pos[i + 1][0] if i + 1 < len(pos) else len(ri)
        body = ri[p:end]
        body = body[body.index(":") + 1:]
        if not body.strip():
            continue
        calls = re.findall(r"doarg\s*\(\s*(\w+)\s*,\s*(JANET_OAT_\w+)\s*,\s*\d+\s*,\s*\d+\s*,\s*[^,]+?\s*,\s*argt\[(\d+)\]\s*\)", body)
        calls.sort(key=lambda c: int(c[2]))
        if [int(c[2]) for c in calls] != list(range(1, len(calls) + 1)):
            raise ExtractError("read_instruction: operands of %s are not argt[1..n]" % cur)
        anc = re.search(r"JanetAssembler\s*\*\s*(\w+)\s*=\s*a\s*;", body)
        ancn = anc.group(1) if anc else "b"
        calls = [("b" if who == ancn else who, oat, argi) for who, oat, argi in calls]
        body = re.sub(r"\b%s\b" % re.escape(ancn), "b", body)
        for who, oat, argi in calls:
            if who != "a":
                foreign.append((tuple(cur), who, oat, int(argi)))
                if not re.search(r"JanetAssembler\s*\*\s*b\s*=\s*a\s*;", body) or \
                   not re.search(r"for\s*\(\s*env\s*\+=\s*1\s*;\s*env\s*>\s*0\s*;\s*env--\s*\)\s*\{\s*b\s*=\s*b->parent\s*;", body):
                    raise ExtractError("read_instruction: %s: operand handed to another assembler, ancestor walk not recognised" % cur)
        for t in cur:
            out[t] = [who == "a" and oat == "JANET_OAT_SLOT" for who, oat, argi in calls]
        cur = []
    if foreign != [(("JINT_SES",), "b", "JANET_OAT_SLOT", 3)]:
        raise ExtractError("read_instruction: operands counted in another assembler: %r (expected only the third operand of JINT_SES)" % (foreign,))
    return out


def render(tree):
    counts_vararg, sym_bump = extract_asm1(tree)
    own_slots = extract_slot_operands(tree)
    maxsc, checks, terms = extract_verify(tree)
    _, layouts, _ = gen_asm.extract(tree)
    ops, types, jint = bytecode.extract(tree)
    opnum = dict(ops)
    def ln(t):
        n = bytecode.lean_name(t)
        return "none_" if n == "0" else n
    for t in jint:
        if t not in checks:
            raise ExtractError("janet_verify has no case for %s" % t)
    for t in terms:
        if t not in opnum:
            raise ExtractError("janet_verify: unknown terminal opcode %s" % t)
    o = [csrc.lean_header("src/core/asm.c (janet_asm1, doarg_1, read_instruction), src/core/bytecode.c (janet_verify)"),
         "import JanetModel.Gen.Asm\n", "namespace JanetModel.Gen.AsmDef\nopen JanetModel.Gen.Bytecode\n"]
    o.append("/-- `janet_asm1`: is `JANET_FUNCDEF_FLAG_VARARG` already set when `def->slotcount = !!(flags & VARARG) + arity` runs? -/")
    o.append("abbrev slotInitCountsVararg : Bool := %s\n" % ("true" if counts_vararg else "false"))
    o.append("/-- `janet_asm1`, symbol-map loop: a non-upvalue entry with `slot_index >= slotcount` raises the slot count to `slot_index + 1` -/")
    o.append("abbrev symbolmapCountsSlots : Bool := %s\n" % ("true" if sym_bump else "false"))
    o.append("/-- `janet_verify`: `sc > maxSlotcount` is rejected -/\nabbrev maxSlotcount : Int := %d\n" % maxsc)
    o.append("/-- what one comparison of `janet_verify` is about -/\ninductive VKind where\n  | slot | label | def_ | const_ | env\n  deriving DecidableEq, Repr\n")
    o.append("/-- one comparison: operand `(instr >> shift)` (`& 0xFF` when `masked`); for `label`: `i + ((int32_t) instr >> shift)` -/")
    o.append("structure VCheck where\n  kind : VKind\n  shift : Nat\n  masked : Bool\n  deriving DecidableEq, Repr\n")
    o.append("/-- the comparisons of every `case JINT_x` of `janet_verify`, in source order -/\ndef verifyChecksOf : IType → List VCheck")
    for t in sorted(jint, key=jint.get):
        o.append("  | .%s => [%s]" % (ln(t), ", ".join("⟨.%s, %d, %s⟩" % (k, sh, "true" if mk else "false") for (k, sh, mk) in checks[t])))
    o.append("\n/-- `read_instruction`: which operands are `JANET_OAT_SLOT` of the funcdef being assembled (parallel to `Gen.Asm.fieldsOf`);\n"
             "the third operand of JINT_SES is a slot of a captured frame and is counted in an enclosing assembler (`b`, `env + 1` levels up) -/\ndef slotOperandOf : IType → List Bool")
    for t in sorted(jint, key=jint.get):
        if t not in own_slots or len(own_slots[t]) != len(layouts[t]):
            raise ExtractError("read_instruction: operand list of %s not recognised" % t)
        o.append("  | .%s => [%s]" % (ln(t), ", ".join("true" if b else "false" for b in own_slots[t])))
    o.append("\n/-- opcodes `janet_verify` accepts as last instruction -/\ndef terminalOps : List Nat := [%s]\n" % ", ".join(str(opnum[t]) for t in terms))
    o.append("\nend JanetModel.Gen.AsmDef\n")
    return "\n".join(o)
