"""Translator for C10 (PEG part): what `peg_unmarshal` verifies per RULE_* opcode vs what `peg_rule` dereferences.

peg.c  ->  Gen/PegAccess.lean
  verifier row (per `case RULE_x` of the verify loop in peg_unmarshal): operand words required (`left < N`), width
  (`i += N`, literal / list forms), operands bounds-checked as rule offsets (`rule[k] >= blen`), operands MARKED as jump
  targets (`op_flags[rule[k]] |= 1`), operands checked as constant indices (`rule[k] >= clen`), the same for the variable
  operand list of choice / sequence; after the loop: `i != blen`, "every marked index starts an instruction", non-empty.
  use row (per `case RULE_x` of peg_rule): operands followed as rule offsets (`s->bytecode + rule[k]`), operands used as
  constant indices (`s->constants[rule[k]]`), operand list followed (`args[i]`), literal payload, highest operand read."""
import re
from . import csrc
from .csrc import ExtractError


def opcodes(tree):
    hdr = csrc.strip_comments(csrc.read(tree, "src/include/janet.h"))
    ops = csrc.enum_values(hdr, "RULE_LITERAL")
    if sorted(ops.values()) != list(range(len(ops))):
        raise ExtractError("peg opcode enum is not dense")
    return ops


def _case_groups(body, start_rx):
    """split the body of a switch into [(labels, text)] at top-level `case RULE_x:` runs"""
    m = re.search(start_rx, body)
    if not m:
        raise ExtractError("switch not found: %s" % start_rx)
    i = body.index("{", m.start())
    sw = body[i + 1:csrc.match_brace(body, i) - 1]
    # positions of case/default labels at brace depth 0
    depth, pos, k, n = 0, [], 0, len(sw)
    while k < n:
        c = sw[k]
        if c in "\"'":
            j = k + 1
            while j < n and sw[j] != c:
                j += 2 if sw[j] == "\\" else 1
            k = j + 1
            continue
        if c == "{":
            depth += 1
        elif c == "}":
            depth -= 1
        elif depth == 0:
            mm = re.match(r"(case\s+(RULE_\w+)|default)\s*:", sw[k:])
            if mm and (k == 0 or not (sw[k - 1].isalnum() or sw[k - 1] == "_")):
                pos.append((k, k + mm.end(), mm.group(2) or "default"))
                k += mm.end()
                continue
        k += 1
    groups, labels = [], []
    for idx, (a, b, lab) in enumerate(pos):
        labels.append(lab)
        end = pos[idx + 1][0] if idx + 1 < len(pos) else n
        text = sw[b:end]
        if text.strip() == "":
            continue
        groups.append((labels, text))
        labels = []
    return groups


def macro_value(src, name):
    if re.fullmatch(r"\d+|0x[0-9A-Fa-f]+", name):
        return int(name, 0)
    vals = re.findall(r"^#define %s (\d+)\s*$" % re.escape(name), src, re.M)
    if not vals:
        raise ExtractError("peg.c: value of %s not found" % name)
    return max(int(v) for v in vals)   # both configuration branches are listed; the larger bound is the weaker check


def extract(tree):
    ops = opcodes(tree)
    src_raw = csrc.read(tree, "src/core/peg.c")
    src = csrc.strip_comments(src_raw)
    un = csrc.func_body(src, "peg_unmarshal")
    pr = csrc.func_body(src, "peg_rule")
    # ---- verifier
    if not re.search(r"uint32_t \*rule = bytecode \+ i;", un) or not re.search(r"while \(i < blen\)", un):
        raise ExtractError("peg_unmarshal: verify loop not recognised")
    has_left = bool(re.search(r"uint32_t left = blen - i;", un))
    vrows = {}
    for labels, text in _case_groups(un, r"switch \(instr\)"):
        if labels == ["default"]:
            if "goto bad" not in text:
                raise ExtractError("peg_unmarshal: default case does not reject")
            continue
        t = text
        row = dict(need=0, width=None, var="fixed", varBound=False, checkedRules=[], markedRules=[], checkedConsts=[], listChecked=False, listMarked=False,
                   nonNeg=[], immBounds=[])
        m = re.search(r"if \(left < (\d+)\) goto bad;", t)
        if m and has_left:
            row["need"] = int(m.group(1))
        if re.search(r"i \+= 2 \+ \(\(rule\[1\] \+ 3\) >> 2\);", t):
            row["var"], row["width"] = "literal", 2
            row["varBound"] = bool(re.search(r"if \(rule\[1\] > \(left - 2\) \* 4\) goto bad;", t))
        elif re.search(r"uint32_t len = rule\[1\];", t) and re.search(r"i \+= 2 \+ len;", t):
            row["var"], row["width"] = "list", 2
            row["varBound"] = bool(re.search(r"if \(len > left - 2\) goto bad;", t))
            row["listChecked"] = bool(re.search(r"if \(rule\[2 \+ j\] >= blen\) goto bad;", t))
            row["listMarked"] = bool(re.search(r"op_flags\[rule\[2 \+ j\]\] \|= 0x0?1;", t))
        else:
            m = re.findall(r"\bi \+= (\d+);", t)
            if len(m) != 1:
                raise ExtractError("peg_unmarshal: width of %s not recognised" % labels)
            row["width"] = int(m[0])
        row["checkedRules"] = sorted(set(int(k) for k in re.findall(r"if \(rule\[(\d+)\] >= blen\) goto bad;", t)))
        row["checkedConsts"] = sorted(set(int(k) for k in re.findall(r"if \(rule\[(\d+)\] >= clen\) goto bad;", t)))
        row["nonNeg"] = sorted(set(int(k) for k in re.findall(r"if \(rule\[(\d+)\] > INT32_MAX\) goto bad;", t)))
        for k, mask, a, b in re.findall(r"if \(\(rule\[(\d+)\] & (0x[0-9A-Fa-f]+)\) > (\w+) \|\| rule\[\1\] > (0x[0-9A-Fa-f]+)\) goto bad;", t):
            mk = int(mask, 16) + 1
            if mk & (mk - 1):
                raise ExtractError("peg_unmarshal: mask %s is not 2^k-1" % mask)
            row["immBounds"].append((int(k), mk, macro_value(src_raw, a), int(b, 16)))
        row["markedRules"] = sorted(set(int(k) for k in re.findall(r"op_flags\[rule\[(\d+)\]\] \|= 0x0?1;", t)))
        # any other write through op_flags / other subscripted use of rule[] with a computed index is unknown
        rest = re.sub(r"op_flags\[rule\[(\d+|2 \+ j)\]\] \|= 0x0?1;", "", t)
        if "op_flags[" in rest:
            raise ExtractError("peg_unmarshal: unrecognised op_flags use in %s" % labels)
        for idx in re.findall(r"rule\[([^\]]+)\]", t):
            if not re.fullmatch(r"\d+|2 \+ j", idx.strip()):
                raise ExtractError("peg_unmarshal: unrecognised operand index rule[%s] in %s" % (idx, labels))
        for lab in labels:
            vrows[lab] = row
    post = un[un.index("while (i < blen)"):]
    glob = dict(exactEnd=bool(re.search(r"if \(i != blen\) goto bad;", post)),
                marksChecked=bool(re.search(r"for \(i = 0; i < blen; i\+\+\)\s*if \(op_flags\[i\] == 0x01\) goto bad;", post)),
                nonEmpty=bool(re.search(r"if \(blen == 0\) (goto bad;|janet_panic\()", un)))
    # ---- uses
    urows = {}
    for labels, text in _case_groups(pr, r"switch \(\*rule\)"):
        if labels == ["default"]:
            continue
        t = text
        u = dict(ruleOps=[], constOps=[], listRules=False, literal=False, maxOperand=0, signedIndexOps=[])
        for var, k in re.findall(r"int32_t (\w+) = \(\(int32_t \*\)rule\)\[(\d+)\];", t):
            if re.search(r"s->extrav\[%s\]" % var, t):
                u["signedIndexOps"].append(int(k))
        u["ruleOps"] = sorted(set(int(k) for k in re.findall(r"s->bytecode \+ rule\[(\d+)\]", t)))
        u["constOps"] = sorted(set(int(k) for k in re.findall(r"s->constants\[rule\[(\d+)\]\]", t)))
        if re.search(r"s->bytecode \+ args\[", t):
            if not (re.search(r"const uint32_t \*args = rule \+ 2;", t) and re.search(r"uint32_t len = rule\[1\];", t)):
                raise ExtractError("peg_rule: operand list of %s not recognised" % labels)
            u["listRules"] = True
        if re.search(r"memcmp\(text, rule \+ 2, len\)", t):
            if not re.search(r"uint32_t len = rule\[1\];", t):
                raise ExtractError("peg_rule: literal of %s not recognised" % labels)
            u["literal"] = True
        ks = [int(k) for k in re.findall(r"rule\[(\d+)\]", t)]
        if re.search(r"\(\(int32_t \*\)rule\)\[1\]", t):
            ks.append(1)
        if re.search(r"rule\[1 \+ \(text\[0\] >> 5\)\]", t):
            ks.append(8)
        u["maxOperand"] = max(ks) if ks else 0
        # unknown uses
        rest = t
        for rx in (r"s->bytecode \+ rule\[\d+\]", r"s->bytecode \+ args\[[^\]]*\]", r"s->constants\[rule\[\d+\]\]", r"rule\[1 \+ \(text\[0\] >> 5\)\]",
                   r"\(\(int32_t \*\)rule\)\[1\]", r"rule\[\d+\]", r"const uint32_t \*args = rule \+ 2;", r"memcmp\(text, rule \+ 2, len\)"):
            rest = re.sub(rx, "", rest)
        if "s->extrav" in t and not u["signedIndexOps"]:
            raise ExtractError("peg_rule: unrecognised use of s->extrav in %s" % labels)
        if re.search(r"s->bytecode\b(?!\s*;)", rest) or re.search(r"s->constants\b", rest) or re.search(r"\brule\s*\[", rest) or re.search(r"\brule \+", rest):
            raise ExtractError("peg_rule: unrecognised use of rule / bytecode / constants in %s" % labels)
        for lab in labels:
            urows[lab] = u
    return ops, vrows, urows, glob


def render(tree):
    ops, vrows, urows, glob = extract(tree)
    by = sorted(ops.items(), key=lambda kv: kv[1])

    def nl(xs):
        return "[" + ", ".join(str(x) for x in xs) + "]"
    o = [csrc.lean_header("src/core/peg.c (peg_unmarshal verify loop, peg_rule), src/include/janet.h (RULE_* enum)"),
         "import JanetModel.PegVerify.Defs\n", "namespace JanetModel.Gen.PegAccess\nopen JanetModel.PegVerify\n"]
    o.append("def opNames : List String := [" + ", ".join('"%s"' % n for n, _ in by) + "]\n")
    o.append("def vrows : List VRow := [")
    rows = []
    for n, v in by:
        r = vrows.get(n)
        if r is None:
            rows.append("  { known := false }")
        else:
            rows.append("  { known := true, need := %d, width := %d, var := .%s, varBound := %s, checkedRules := %s, markedRules := %s, checkedConsts := %s, listChecked := %s, listMarked := %s, nonNeg := %s, immBounds := [%s] }" % (
                r["need"], r["width"], r["var"], str(r["varBound"]).lower(), nl(r["checkedRules"]), nl(r["markedRules"]), nl(r["checkedConsts"]),
                str(r["listChecked"]).lower(), str(r["listMarked"]).lower(), nl(r["nonNeg"]), ", ".join("(%d, %d, %d, %d)" % q for q in r["immBounds"])))
    o.append(",\n".join(rows) + "]\n")
    o.append("def urows : List URow := [")
    rows = []
    for n, v in by:
        u = urows.get(n)
        if u is None:
            rows.append("  { known := false }")
        else:
            rows.append("  { known := true, ruleOps := %s, constOps := %s, listRules := %s, literal := %s, maxOperand := %d, signedIndexOps := %s }" % (
                nl(u["ruleOps"]), nl(u["constOps"]), str(u["listRules"]).lower(), str(u["literal"]).lower(), u["maxOperand"], nl(u["signedIndexOps"])))
    o.append(",\n".join(rows) + "]\n")
    o.append("def tables : PegTables := { vrows := vrows, urows := urows, exactEnd := %s, marksChecked := %s, nonEmpty := %s }\n" % (
        str(glob["exactEnd"]).lower(), str(glob["marksChecked"]).lower(), str(glob["nonEmpty"]).lower()))
    o.append("end JanetModel.Gen.PegAccess\n")
    return "\n".join(o)
