"""Translator for C16 (readiness dispatch): src/core/ev.c -> lean/JanetModel/Gen/Dispatch.lean.

The block of the epoll `janet_loop1_impl` that turns ONE epoll event word (EPOLLIN / EPOLLOUT / EPOLLERR / EPOLLHUP and their
unions) into calls of the listener callbacks of `stream->read_fiber` / `stream->write_fiber` is regenerated as a TABLE:
for each of the 16 flag combinations the ordered list of (slot, event kind) that is delivered.  The table is obtained from the
source text itself, independent of how the block is written (two `if (rf)` / `if (wf)` groups, a per-fiber loop, renamed locals):
the statement block of the stream branch is cut out of the PREPROCESSED function (`cc -E -P`), compiled verbatim against stub
definitions of JanetFiber / JanetStream (only the members the block may touch: ev_callback, ev_stream, read_fiber, write_fiber,
flags) with the JanetAsyncEvent values of janet.h, and executed for every flag word x slot occupancy x "callback ends the
operation at its k-th event".

Shape assertions (ExtractError):
  * the function has the expected skeleton: epoll_wait loop, `for (... < ready ...)`, timer / self-pipe / stream branches;
  * the block compiles against the stubs (it touches nothing else) and never calls a cleared callback (`f->ev_callback &&` guard);
  * what a fiber receives does not depend on the other slot (reader-only / writer-only runs = projections of the full run);
  * when a callback ends its operation at its k-th event (clears ev_callback and its slot like janet_async_end) that fiber gets
    exactly the first k events of its list and the other fiber's list is unchanged;
  * other bits of the word (EPOLLRDHUP, EPOLLPRI, EPOLLET, EPOLLONESHOT) do not change the delivery;
  * janet_stream_checktoclose(stream) runs exactly once, after all callbacks.
"""
import itertools
import os
import re
import shutil
import subprocess
import tempfile

from .csrc import ExtractError, read, strip_comments, match_brace, enum_values
from .procstat import preprocess

KINDS = {"READ": 0, "WRITE": 1, "ERR": 2, "HUP": 3}
KNAME = {0: "READ", 1: "WRITE", 2: "ERR", 3: "HUP", 9: "OTHER"}
BITS = (("IN", 1, "EPOLLIN"), ("OUT", 2, "EPOLLOUT"), ("ERR", 4, "EPOLLERR"), ("HUP", 8, "EPOLLHUP"))


def word_name(w):
    return "|".join(n for n, b, _ in BITS if w & b) or "0"


def _match_paren(s, i):
    depth = 0
    while i < len(s):
        if s[i] == "(":
            depth += 1
        elif s[i] == ")":
            depth -= 1
            if depth == 0:
                return i + 1
        i += 1
    raise ExtractError("unbalanced parentheses")


def stream_block(pp):
    """-> text of the statement block executed for an event whose data.ptr is a stream (without the outer braces)"""
    m = None
    for m in re.finditer(r"\bvoid\s+janet_loop1_impl\s*\([^;{)]*\)\s*\{", pp):
        pass
    if m is None:
        raise ExtractError("ev.c: definition of janet_loop1_impl not found")
    i = pp.index("{", m.end() - 1)
    body = pp[i:match_brace(pp, i)]
    if not re.search(r"\bepoll_wait\s*\(\s*janet_vm\.epoll\s*,\s*(\w+)\s*,", body):
        raise ExtractError("janet_loop1_impl: epoll_wait(janet_vm.epoll, events, ...) not found (not the epoll back end?)")
    evname = re.search(r"\bepoll_wait\s*\(\s*janet_vm\.epoll\s*,\s*(\w+)\s*,", body).group(1)
    fm = None
    for fm in re.finditer(r"\bfor\s*\(", body):
        hdr = body[fm.end() - 1:_match_paren(body, fm.end() - 1)]
        if re.search(r"<\s*ready\b", hdr):
            break
    else:
        raise ExtractError("janet_loop1_impl: loop over the `ready` events not found")
    mi = re.search(r"\bint\s+(\w+)\s*=\s*0", hdr)
    if not mi:
        raise ExtractError("janet_loop1_impl: index variable of the event loop not recognised: %s" % hdr)
    idx = mi.group(1)
    j = _match_paren(body, fm.end() - 1)
    k = body.index("{", j)
    if body[j:k].strip():
        raise ExtractError("janet_loop1_impl: event loop body is not a block")
    loop = body[k:match_brace(body, k)]
    inner = loop[1:-1]
    # void *p = events[i].data.ptr;  if (&janet_vm.timerfd == p) {..} else if (janet_vm.selfpipe == p) {..} else { BLOCK }
    mp = re.match(r"\s*void\s*\*\s*(\w+)\s*=\s*%s\s*\[\s*%s\s*\]\s*\.data\.ptr\s*;" % (re.escape(evname), re.escape(idx)), inner)
    if not mp:
        raise ExtractError("janet_loop1_impl: `void *p = events[i].data.ptr;` not found at the head of the event loop")
    pvar = mp.group(1)
    rest = inner[mp.end():]
    branches = []
    pos = 0
    while True:
        mm = re.match(r"\s*if\s*\(", rest[pos:])
        if not mm:
            raise ExtractError("janet_loop1_impl: if / else-if chain over the event's data pointer not recognised")
        a = pos + mm.end() - 1
        b = _match_paren(rest, a)
        cond = rest[a:b]
        c = rest.index("{", b)
        if rest[b:c].strip():
            raise ExtractError("janet_loop1_impl: branch of the data-pointer chain is not a block")
        d = match_brace(rest, c)
        branches.append((cond, rest[c:d]))
        me = re.match(r"\s*else\b", rest[d:])
        if not me:
            raise ExtractError("janet_loop1_impl: data-pointer chain has no final else (stream) branch")
        pos = d + me.end()
        if re.match(r"\s*if\b", rest[pos:]):
            continue
        c = rest.index("{", pos)
        if rest[pos:c].strip():
            raise ExtractError("janet_loop1_impl: stream branch is not a block")
        d = match_brace(rest, c)
        block = rest[c + 1:d - 1]
        if rest[d:].strip():
            raise ExtractError("janet_loop1_impl: statements after the data-pointer chain: %s" % rest[d:].strip()[:80])
        break
    conds = " ".join(c for c, _ in branches)
    if "timerfd" not in conds or "selfpipe" not in conds or len(branches) != 2:
        raise ExtractError("janet_loop1_impl: expected the timer and self-pipe branches before the stream branch, found %s" % conds)
    return block, pvar, evname, idx


STUB = r"""
#include <sys/epoll.h>
#include <stdio.h>
#include <stdlib.h>
#include <stddef.h>
#include <stdint.h>
typedef enum { %(enum)s } JanetAsyncEvent;
typedef struct JanetFiber JanetFiber;
typedef struct JanetStream JanetStream;
typedef void (*JanetEVCallback)(JanetFiber *fiber, JanetAsyncEvent event);
struct JanetFiber { JanetEVCallback ev_callback; JanetStream *ev_stream; int id; };
struct JanetStream { JanetFiber *read_fiber; JanetFiber *write_fiber; uint32_t flags; };
static int count[2], endafter[2], nchk;
static void janet_stream_checktoclose(JanetStream *stream) { (void) stream; nchk++; printf(" chk"); }
static void cb(JanetFiber *f, JanetAsyncEvent e) {
    printf(" %%d:%%d", f->id, (int) e);
    if (++count[f->id] == endafter[f->id]) {          /* the callback ends the operation: janet_async_end */
        if (f->ev_stream->read_fiber == f) f->ev_stream->read_fiber = NULL;
        if (f->ev_stream->write_fiber == f) f->ev_stream->write_fiber = NULL;
        f->ev_callback = NULL;
    }
}
static void dispatch(void *%(p)s, struct epoll_event *%(events)s, int %(i)s) {
%(block)s
}
int main(int argc, char **argv) {
    /* argv: mask occupancy(1 reader,2 writer,3 both) endafter_r endafter_w */
    (void) argc;
    uint32_t mask = (uint32_t) strtoul(argv[1], NULL, 0);
    int occ = atoi(argv[2]);
    endafter[0] = atoi(argv[3]); endafter[1] = atoi(argv[4]);
    JanetStream st = { NULL, NULL, 0 };
    JanetFiber r = { cb, &st, 0 }, w = { cb, &st, 1 };
    if (occ & 1) st.read_fiber = &r;
    if (occ & 2) st.write_fiber = &w;
    struct epoll_event evs[3];
    evs[1].events = mask; evs[1].data.ptr = &st;
    dispatch(&st, evs, 1);
    printf("\n");
    return 0;
}
"""


def _run_all(exe, cases):
    """one process per case would be slow: the stub is re-invoked through a tiny batch loop in sh"""
    out = {}
    script = "\n".join("%s %d %d %d %d" % (exe, m, o, er, ew) for (m, o, er, ew) in cases)
    r = subprocess.run(["sh", "-c", script], stdout=subprocess.PIPE, stderr=subprocess.PIPE)
    lines = r.stdout.decode(errors="replace").split("\n")
    if r.returncode != 0 or len(lines) < len(cases):
        raise ExtractError("dispatch block crashed in the stub environment (a cleared callback was called?): rc=%s %s"
                           % (r.returncode, r.stderr.decode(errors="replace")[-200:]))
    for c, line in zip(cases, lines):
        toks = line.split()
        out[c] = toks
    return out


def extract(tree):
    hdr = strip_comments(read(tree, "src/include/janet.h"))
    enum = enum_values(hdr, "JANET_ASYNC_EVENT_INIT")
    code2kind = {}
    for name, val in enum.items():
        code2kind[val] = KINDS.get(name.replace("JANET_ASYNC_EVENT_", ""), 9)
    pp = preprocess(tree, "src/core/ev.c")
    block, pvar, evname, idx = stream_block(pp)
    if "ev_callback" not in block:
        raise ExtractError("janet_loop1_impl: the stream branch does not call any listener callback")
    d = tempfile.mkdtemp(prefix="c16d-", dir="/var/tmp")
    try:
        src = STUB % {"enum": ", ".join("%s = %d" % kv for kv in sorted(enum.items(), key=lambda kv: kv[1])),
                      "p": pvar, "events": evname, "i": idx, "block": block}
        with open(os.path.join(d, "d.c"), "w") as f:
            f.write(src)
        exe = os.path.join(d, "d")
        r = subprocess.run(["cc", "-O0", "-w", "-o", exe, os.path.join(d, "d.c")], stdout=subprocess.PIPE, stderr=subprocess.PIPE)
        if r.returncode != 0:
            raise ExtractError("janet_loop1_impl: the stream branch does not compile against the stub JanetFiber / JanetStream "
                               "(it uses something besides ev_callback / read_fiber / write_fiber / flags / janet_stream_checktoclose): %s"
                               % r.stderr.decode(errors="replace")[-400:])
        import select  # noqa: F401  (EPOLL constants)
        EP = {"IN": 0x001, "OUT": 0x004, "ERR": 0x008, "HUP": 0x010}
        EXTRA = 0x2000 | 0x002 | (1 << 31) | (1 << 30)       # RDHUP | PRI | ET | ONESHOT
        def mask_of(w):
            return sum(EP[n] for n, b, _ in BITS if w & b)
        cases = []
        for w in range(16):
            for occ in (1, 2, 3):
                cases.append((mask_of(w), occ, 0, 0))
            cases.append((mask_of(w) | EXTRA, 3, 0, 0))
            for er, ew in itertools.product(range(0, 4), range(0, 4)):
                if er or ew:
                    cases.append((mask_of(w), 3, er, ew))
        res = _run_all(exe, cases)
    finally:
        shutil.rmtree(d, ignore_errors=True)

    def events(toks, what):
        if not toks or toks[-1] != "chk" or toks.count("chk") != 1:
            raise ExtractError("janet_loop1_impl: janet_stream_checktoclose(stream) is not called exactly once after the callbacks (%s): %s" % (what, " ".join(toks)))
        ev = []
        for t in toks[:-1]:
            s, c = t.split(":")
            ev.append((int(s), code2kind.get(int(c), 9)))
        return ev
    table = {}
    for w in range(16):
        m = mask_of(w)
        full = events(res[(m, 3, 0, 0)], word_name(w))
        table[w] = full
        proj = lambda s, evs=full: [e for e in evs if e[0] == s]
        if events(res[(m, 1, 0, 0)], word_name(w)) != proj(0):
            raise ExtractError("dispatch of %s: what the reader receives depends on whether a writer is registered" % word_name(w))
        if events(res[(m, 2, 0, 0)], word_name(w)) != proj(1):
            raise ExtractError("dispatch of %s: what the writer receives depends on whether a reader is registered" % word_name(w))
        if events(res[(m | EXTRA, 3, 0, 0)], word_name(w)) != full:
            raise ExtractError("dispatch of %s: EPOLLRDHUP / EPOLLPRI / EPOLLET / EPOLLONESHOT bits change the delivery" % word_name(w))
        for er, ew in itertools.product(range(0, 4), range(0, 4)):
            if not (er or ew):
                continue
            got = events(res[(m, 3, er, ew)], word_name(w))
            for s, k in ((0, er), (1, ew)):
                want = proj(s)[:k] if k else proj(s)
                if [e for e in got if e[0] == s] != want:
                    raise ExtractError("dispatch of %s: a fiber whose callback ended its operation at event %d still receives events "
                                       "(or loses earlier ones): %s" % (word_name(w), k, got))
    return {"table": table}


def render(tree):
    f = extract(tree)
    rows = []
    for w in range(16):
        evs = ", ".join("(%d, %d)" % e for e in f["table"][w])
        rows.append("  (%d, [%s])%s   -- %s: %s" % (w, evs, "," if w < 15 else "", word_name(w),
                                                     " ".join("%s<-%s" % ("rw"[s], KNAME[k]) for s, k in f["table"][w]) or "nothing"))
    return """-- GENERATED by tools/gen/dispatch.py from src/core/ev.c (cc -E, stream branch of the epoll janet_loop1_impl executed
-- against stubs for every flag word) on every run of ./check C16.  Do not edit.
namespace JanetModel.Gen.Dispatch

/-- row = (word, deliveries in order).  word bits: EPOLLIN = 1, EPOLLOUT = 2, EPOLLERR = 4, EPOLLHUP = 8.
    delivery = (slot, kind): slot 0 = stream->read_fiber, 1 = stream->write_fiber;
    kind 0 = JANET_ASYNC_EVENT_READ, 1 = WRITE, 2 = ERR, 3 = HUP, 9 = any other event. -/
abbrev table : List (Nat × List (Nat × Nat)) := [
%s
]

end JanetModel.Gen.Dispatch
""" % "\n".join(rows)


if __name__ == "__main__":
    import sys
    print(render(sys.argv[1] if len(sys.argv) > 1 else "/repo"))
