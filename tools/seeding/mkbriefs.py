#!/usr/bin/env python3
"""Write one brief per property to /var/tmp/seedbrief/<ID>.md for an independent mutation author (who must see nothing of
/verif): the property text + one-line descriptions of the changes already tried (from DESIGN.md §5.2 tables).
The author prompt is tools/seeding/PROMPT.md with @ID@ substituted (adjust the output round number `…-out/<k>` in it)."""
import json, re, os
V = os.path.dirname(os.path.dirname(os.path.dirname(os.path.abspath(__file__))))
out = "/var/tmp/seedbrief"; os.makedirs(out, exist_ok=True)
prev = {}
for l in open(os.path.join(V, "DESIGN.md")):
    m = re.match(r"\| (C\d\d)-(\d) \| (.*?) \|", l)
    if m: prev.setdefault(m.group(1), []).append(m.group(3)[:300])
for l in open(os.path.join(V, "properties.jsonl")):
    p = json.loads(l); pid = p["id"]
    with open(os.path.join(out, pid + ".md"), "w") as f:
        f.write("# Property %s: %s\n\n## Statement\n%s\n\n## Quantifier\n%s\n\n## Why the existing tests cannot settle it\n%s\n\n## Code anchors\n%s\n\n"
                % (pid, p["title"], p["statement"], json.dumps(p["quantifier"], indent=1), p["why_tests_cant"], json.dumps(p["anchors"], indent=1)))
        f.write("## Changes already tried by earlier authors (do NOT repeat these or trivial variants of them)\n")
        for s in prev.get(pid, []): f.write("- %s\n" % s)
open(os.path.join(out, "PROMPT.md"), "w").write(open(os.path.join(V, "tools/seeding/PROMPT.md")).read())
print("briefs written to", out)
