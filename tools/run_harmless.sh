#!/bin/sh
# run all 20 quick checks from a snapshot against the harmless-rewrite worktree, 4 at a time
SNAP=$1; WT=$2; OUT=$3
mkdir -p $OUT; rm -f $OUT/summary.txt
cd $SNAP
for grp in "C01 C02 C03 C04" "C05 C06 C07 C08" "C09 C10 C11 C12" "C13 C14 C15 C16" "C17 C18 C19 C20"; do
  for id in $grp; do
    ( s=$(date +%s); VERIF_REPO=$WT ./check $id --tier quick > $OUT/$id.log 2>&1; rc=$?; e=$(date +%s); echo "$id rc=$rc $((e-s))s $(grep -c '^VIOLATION' $OUT/$id.log) viol" >> $OUT/summary.txt ) &
  done
  wait
done
