#!/usr/bin/env python3
"""(Re)write the round-5 paragraph of DESIGN §5.3 from the §5.2c table."""
import re, os
from collections import Counter
V = os.path.dirname(os.path.dirname(os.path.abspath(__file__)))
p = os.path.join(V, "DESIGN.md")
d = open(p).read()
rows = re.findall(r"^\| (C\d\d-8) \|.*\| ([a-z*-]+) \| ([a-z*-]+) \| [^|]*\|$", d, flags=re.M)
f = Counter(r[1] for r in rows); l = Counter(r[2] for r in rows)
left = ", ".join("%s (%s)" % (r[0], r[2].strip("*")) for r in rows if r[2] != "input") or "none"
add = '''* **Round 5 (end of session 4, §5.2c).**  Twenty seeds written against the
  checks as strengthened by rounds 1–4.  First evaluation: %d with a concrete
  input, %d `no-failing-input-found` (C09-8 image-only HASCHILD bit kept by
  unmarshal; C20-8 duplicates of std-descriptor redirections not closed when
  posix_spawn fails), %d missed — C02-8 (`destructure` uses the 8-bit
  `GET_INDEX` form up to index 256 inclusive), C08-8 (a stale hand-off is
  requeued at the tail of the item queue; the reorder was *masked by the
  signature of a known finding* — the one way a known finding can hide a new
  violation, repaired by classifying the reorder from the history), C17-8
  (`string/format` item of exactly 256 bytes), C19-8 (marshal depth restarts
  inside abstract-type hooks).  Each was repaired within the hour by a model
  element plus a generator family (regenerated operand-width bounds with
  `destructure_short_index_fits`; `per_sender_order_requeue`;
  `format_item_exact_or_error`; the depth argument followed through the marshal
  context; `fiber_flags_no_wire_bits` + multi-generation fiber round trips;
  failing spawns × std-descriptor redirections in the boundedness cycles), and
  two of the new families found genuine defects of the unchanged tree at once
  (rows 100–101 of §4.1: re-marshalling a fiber after a tail call; functions
  with more than 240 parameters; rows 102–103 came from the final proof pass).  Latest evaluation: %d with input, %d
  no-input, %d missed (not yet with input: %s).  Detection at first contact over
  the five rounds: 92/120, 11/20, %d/20.
''' % (f["input"], f["no-input"], f["**miss**"], l["input"], l["no-input"], l["**miss**"], left, f["input"] + f["no-input"])
marker = "* **The sixteen `no-input` seeds of rounds 1–3**"
if "* **Round 5 (end of session 4, §5.2c).**" in d:
    d = re.sub(r"\* \*\*Round 5 \(end of session 4, §5\.2c\)\.\*\*.*?(?=\* \*\*The sixteen)", lambda m: add, d, flags=re.S)
else:
    d = d.replace(marker, add + marker)
open(p, "w").write(d)
print(len(rows), dict(f), dict(l), left)
