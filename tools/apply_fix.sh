#!/bin/sh
# usage: tools/apply_fix.sh <patch> "<commit message>"   — apply to /repo, run guard-off suite, commit
set -e
P="$1"; MSG="$2"
cd /repo
git apply --check "$P"
git apply "$P"
if (cd /verif && ./check baseline_off | tail -1 | grep -q "31 passed, 0 failed"); then
  git add -A && git commit -qm "$MSG" && git log --oneline | head -1
else
  echo "SUITE FAILED with $P; reverting"; git checkout -- .; exit 1
fi
