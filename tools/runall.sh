#!/bin/sh
# usage: runall.sh <outdir> [ids...]
out=$1; shift
mkdir -p $out
cd /verif
for id in "$@"; do
  ( s=$(date +%s); ./check $id --tier quick > $out/$id.log 2>&1; rc=$?; e=$(date +%s); echo "$id rc=$rc $((e-s))s" >> $out/summary.txt ) &
done
wait
