#!/usr/bin/env python3
"""extract the final report of a builder agent from its JSONL transcript; save whole report + the DESIGN §3 block"""
import json,sys,re,os
path,pid=sys.argv[1],sys.argv[2]
last=None
for line in open(path,errors='replace'):
    try: o=json.loads(line)
    except Exception: continue
    m=o.get('message') or {}
    if m.get('role')=='assistant':
        txt=''.join(c.get('text','') for c in m.get('content',[]) if isinstance(c,dict) and c.get('type')=='text')
        if txt.strip(): last=txt
if not last: sys.exit('no text')
os.makedirs('/verif/notes/design_s4',exist_ok=True)
open('/verif/notes/design_s4/%s.report.md'%pid,'w').write(last)
blocks=re.findall(r'```[a-z]*\n(.*?)```',last,flags=re.S)
cand=[b for b in blocks if re.search(r'###\s*'+pid,b)]
if cand:
    open('/verif/notes/design_s4/%s.section.md'%pid,'w').write(cand[-1])
    print(pid,'section',len(cand[-1].splitlines()),'lines')
else:
    m=re.search(r'(###\s*'+pid+r'\s*[—-].*?)(\n(?:Relevant paths|Main paths|Key paths|Files|Paths)\b.*)?$',last,flags=re.S)
    if m:
        open('/verif/notes/design_s4/%s.section.md'%pid,'w').write(m.group(1).rstrip()+'\n')
        print(pid,'section (unfenced)',len(m.group(1).splitlines()),'lines')
    else:
        print(pid,'NO section block; report saved',len(last))
