#!/usr/bin/env python3
"""Bring DESIGN.md's generated tables up to date: §4.1 (repaired defects, from known_findings.json) and the round-4
seed table (from seeded/*-7/meta.json).  Idempotent."""
import json, os, re, glob
V = os.path.dirname(os.path.dirname(os.path.abspath(__file__)))
p = os.path.join(V, "DESIGN.md")
d = open(p).read()
k = json.load(open(os.path.join(V, "known_findings.json")))["findings"]
fixed = [e for e in k if e["status"] == "fixed"]
# --- 4.1
rows = re.findall(r"^\| (\d+) \| (C\d\d) \| ([0-9a-f]{7}) \|", d, flags=re.M)
have = {r[2] for r in rows}
n = max(int(r[0]) for r in rows)
new = [e for e in fixed if e["commit"][:7] not in have]
if new:
    last = [m for m in re.finditer(r"^\| %d \| C\d\d \| [0-9a-f]{7} \|.*\n" % n, d, flags=re.M)][-1]
    add = "".join("| %d | %s | %s | %s |\n" % (n + 1 + i, e["property"], e["commit"][:7], e["what"].replace("|", "\\|")) for i, e in enumerate(new))
    d = d[:last.end()] + add + d[last.end():]
tot = len(fixed)
from collections import Counter
c = Counter(e["property"] for e in fixed)
d = re.sub(r"### 4\.1 Defects of the pinned tree found and repaired \(.*?\)", "### 4.1 Defects of the pinned tree found and repaired (%d; rows 73–87 session 3, rows 88–%d session 4)" % (tot, tot), d)
d = re.sub(r"By property \(all \d+\): .*? \(the C06", "By property (all %d): %s (the C06" % (tot, ", ".join("%s %d" % (q, c[q]) for q in sorted(c))), d, flags=re.S)
# --- round-4 seeds
def verdict(det, checks, pid):
    ch = checks.get(pid, {})
    if ch.get("rc") == 1 and any(l.startswith("VIOLATION") for l in ch.get("lines", [])):
        return "no-input" if all("no-failing-input-found" in l for l in ch["lines"] if l.startswith("VIOLATION")) else "input"
    if ch.get("rc") == 0: return "**miss**"
    return "rc=%s" % ch.get("rc")
def seed_rows(suffix):
    lines = []
    for mp in sorted(glob.glob(os.path.join(V, "seeded/C??-%s/meta.json" % suffix))):
        m = json.load(open(mp)); sid = os.path.basename(os.path.dirname(mp)); pid = sid[:3]
        ev = m.get("evaluation", {}); hist = m.get("history", [])
        final = verdict(m.get("detected"), ev.get("checks", {}), pid)
        first = verdict(None, hist[0]["checks"], pid) if hist else final
        try:  # the first committed version of the file is the first evaluation, whatever later re-evaluations did to `history`
            import subprocess
            rel = os.path.relpath(mp, V)
            h = subprocess.run("git -C %s log --diff-filter=A --format=%%H -- %s | tail -1" % (V, rel), shell=True, capture_output=True, text=True).stdout.strip()
            if h:
                m0 = json.loads(subprocess.run("git -C %s show %s:%s" % (V, h, rel), shell=True, capture_output=True, text=True).stdout)
                first = verdict(None, m0.get("evaluation", {}).get("checks", {}), pid)
        except Exception:
            pass
        others = ", ".join("%s: %s" % (q, verdict(None, ev.get("checks", {}), q)) for q in ev.get("checks", {}) if q != pid)
        summ = re.split(r"(?<=[.;]) ", m.get("summary", "").strip())[0][:260].replace("|", "\\|")
        lines.append("| %s | %s | %s | %s | %s |" % (sid, summ, first, final, others or "–"))
    return lines

HDR = ("Generated from `seeded/*-%s/meta.json` by `tools/design_tables.py`.  *first* = first evaluation (first committed meta.json), *final* = latest "
       "evaluation; `input` = exit 1 with a concrete failing input, `no-input` = exit 1 with `no-failing-input-found` only, `miss` = exit 0.  "
       "Last column: the same seed against neighbouring properties' checks (latest evaluation).\n\n"
       "| id | change | first | final | other checks |\n|---|---|---|---|---|\n")
r4 = seed_rows("7"); r5 = seed_rows("8")
tab = "### 5.2b Round 4 (session 4): one more independent seed per property\n\n" + HDR % "7" + "\n".join(r4) + "\n\n"
if r5:
    tab += "### 5.2c Round 5 (end of session 4, written against the strengthened checks)\n\n" + HDR % "8" + "\n".join(r5) + "\n\n"
if "### 5.2b Round 4" in d:
    d = re.sub(r"### 5\.2b Round 4.*?(?=^### 5\.3 )", lambda _m: tab, d, flags=re.S | re.M)
else:
    d = d.replace("### 5.3 Reading the tables", tab + "### 5.3 Reading the tables")
open(p, "w").write(d)
print("4.1: +%d rows (total %d fixed);  round-4 seeds: %d, round-5 seeds: %d" % (len(new), tot, len(r4), len(r5)))
