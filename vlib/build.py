"""Scratch builds of the janet working tree for the verification checks.

Every call recomputes a content hash of the repo's src/ + Makefile, so a build
is shared between the checks of one session but any edit to the tree forces a
rebuild (this is how "rebuild from /repo's current working tree" is met).

Layout of a build directory  $VERIF_SCRATCH/<hash16>/ :
    tree/            snapshot of src/ test/ tools/ Makefile (what was built; wrapper TUs #include from here)
    boot/janet_boot  bootstrap interpreter (-DJANET_BOOTSTRAP -O0)
    boot/janet.c     amalgamation (used by the IR-level translator)
    boot/image.c     embedded core image only
    <variant>/janet, <variant>/libjanet.a, <variant>/obj/*.o
"""
import fcntl
import hashlib
import os
import shutil
import subprocess
import sys
import time
from concurrent.futures import ThreadPoolExecutor

SCRATCH = os.environ.get("VERIF_SCRATCH", "/var/tmp/janet-verif")
GUARD = "JANET_VERIF"

COMMON = ["-std=c99", "-Wall", "-Wextra", "-fvisibility=hidden", "-fPIC", "-w"]
CLIBS = ["-lm", "-lpthread", "-lrt", "-ldl"]

VARIANTS = {
    # name: (cc, cflags, ldflags)
    "plain": ("gcc", ["-O1", "-g", "-D" + GUARD], ["-rdynamic"]),
    "asan": ("gcc", ["-O1", "-g", "-fno-omit-frame-pointer", "-D" + GUARD,
                     "-fsanitize=address,undefined", "-fno-sanitize-recover=all"],
             ["-rdynamic", "-fsanitize=address,undefined"]),
    "debugstack": ("gcc", ["-O1", "-g", "-D" + GUARD, "-DJANET_DEBUG"], ["-rdynamic"]),
    "asan_debugstack": ("gcc", ["-O1", "-g", "-fno-omit-frame-pointer", "-D" + GUARD, "-DJANET_DEBUG",
                                "-fsanitize=address,undefined", "-fno-sanitize-recover=all"],
                        ["-rdynamic", "-fsanitize=address,undefined"]),
    "tsan": ("clang-14", ["-O1", "-g", "-D" + GUARD, "-fsanitize=thread"],
             ["-rdynamic", "-fsanitize=thread"]),
    # guard OFF: what a user builds; used by baseline_off and by a few checks as reference
    "nohooks": ("gcc", ["-O2", "-g"], ["-rdynamic"]),
}


class BuildError(Exception):
    def __init__(self, msg, log=None):
        super().__init__(msg)
        self.log = log


def _files(repo):
    out = []
    for top in ("src",):
        for d, dn, fn in os.walk(os.path.join(repo, top)):
            dn.sort()
            for f in sorted(fn):
                out.append(os.path.join(d, f))
    for f in ("Makefile",):
        p = os.path.join(repo, f)
        if os.path.exists(p):
            out.append(p)
    return out


def tree_hash(repo):
    h = hashlib.sha256()
    for p in _files(repo):
        h.update(os.path.relpath(p, repo).encode() + b"\0")
        with open(p, "rb") as f:
            h.update(hashlib.sha256(f.read()).digest())
    return h.hexdigest()[:16]


def _run(cmd, cwd=None, log=None, env=None):
    r = subprocess.run(cmd, cwd=cwd, stdout=subprocess.PIPE, stderr=subprocess.STDOUT, env=env)
    if log is not None:
        with open(log, "ab") as f:
            f.write((" ".join(cmd) + "\n").encode())
            f.write(r.stdout)
    return r.returncode, r.stdout.decode(errors="replace")


def _purge(keep):
    """Remove stale build directories (other tree hashes not used for 30 min)."""
    if not os.path.isdir(SCRATCH):
        return
    now = time.time()
    for d in os.listdir(SCRATCH):
        p = os.path.join(SCRATCH, d)
        if d == keep or not os.path.isdir(p):
            continue
        try:
            last = os.path.getmtime(os.path.join(p, ".lastuse"))
        except OSError:
            last = os.path.getmtime(p)
        if now - last > 1800:
            shutil.rmtree(p, ignore_errors=True)


class Build:
    """One scratch build directory for one content hash of the repo tree."""

    def __init__(self, repo="/repo"):
        self.repo = os.path.abspath(repo)
        self.hash = tree_hash(self.repo)
        self.dir = os.path.join(SCRATCH, self.hash)
        os.makedirs(self.dir, exist_ok=True)
        self.tree = os.path.join(self.dir, "tree")
        self.log = os.path.join(self.dir, "build.log")
        self._touch()
        _purge(self.hash)
        self._keepalive()

    def _touch(self):
        with open(os.path.join(self.dir, ".lastuse"), "w") as f:
            f.write(str(time.time()))

    def _keepalive(self):
        """A long run (thorough tier, slow box) must not lose its build directory to the purge of a concurrent check
        that works on another tree hash: refresh the stamp every few minutes for as long as this process lives."""
        import threading

        def loop():
            while True:
                time.sleep(240)
                try:
                    self._touch()
                except OSError:
                    return
        t = threading.Thread(target=loop, name="build-keepalive", daemon=True)
        t.start()

    def _lock(self, name):
        f = open(os.path.join(self.dir, "." + name + ".lock"), "w")
        fcntl.flock(f, fcntl.LOCK_EX)
        return f

    # ---- stage 0: snapshot + bootstrap -------------------------------------------------
    def boot(self):
        lk = self._lock("boot")
        try:
            done = os.path.join(self.dir, "boot", ".done")
            if os.path.exists(done):
                return
            if os.path.exists(self.tree):
                shutil.rmtree(self.tree)
            os.makedirs(self.tree)
            for top in ("src", "test", "tools", "examples"):
                s = os.path.join(self.repo, top)
                if os.path.isdir(s):
                    shutil.copytree(s, os.path.join(self.tree, top), symlinks=True)
            for f in ("Makefile",):
                shutil.copy2(os.path.join(self.repo, f), self.tree)
            bdir = os.path.join(self.dir, "boot")
            os.makedirs(os.path.join(bdir, "obj"), exist_ok=True)
            srcs = sorted(os.listdir(os.path.join(self.tree, "src/core")))
            srcs = ["src/core/" + s for s in srcs if s.endswith(".c")]
            bsrcs = ["src/boot/" + s for s in sorted(os.listdir(os.path.join(self.tree, "src/boot"))) if s.endswith(".c")]
            flags = ["-DJANET_BOOTSTRAP", '-DJANET_BUILD="verif"', "-O0", "-g", "-Isrc/include", "-Isrc/conf"] + COMMON
            objs = self._compile_many("gcc", flags, srcs + bsrcs, os.path.join(bdir, "obj"))
            rc, out = _run(["gcc"] + flags + ["-o", os.path.join(bdir, "janet_boot")] + objs + CLIBS, cwd=self.tree, log=self.log)
            if rc:
                raise BuildError("link janet_boot failed", self.log)
            for target, extra in (("janet.c", []), ("image.c", ["image-only"])):
                with open(os.path.join(bdir, target), "wb") as f:
                    try:
                        r = subprocess.run([os.path.join(bdir, "janet_boot"), ".", "JANET_PATH", "/usr/local/lib/janet"] + extra,
                                           cwd=self.tree, stdout=f, stderr=subprocess.PIPE, timeout=600)
                    except subprocess.TimeoutExpired:
                        raise BuildError("bootstrap (%s) hung for 600 s" % target, self.log)
                if r.returncode:
                    with open(self.log, "ab") as lf:
                        lf.write(r.stderr)
                    raise BuildError("bootstrap (%s) failed: %s" % (target, r.stderr.decode(errors='replace')[-400:]), self.log)
            open(done, "w").close()
        finally:
            lk.close()

    def _compile_many(self, cc, flags, srcs, objdir):
        os.makedirs(objdir, exist_ok=True)

        def one(s):
            o = os.path.join(objdir, os.path.basename(s)[:-2] + ".o")
            src = s if os.path.isabs(s) else os.path.join(self.tree, s)
            rc, out = _run([cc] + flags + ["-c", src, "-o", o], cwd=self.tree, log=None)
            return s, o, rc, out
        with ThreadPoolExecutor(max_workers=int(os.environ.get("VERIF_JOBS", "16"))) as ex:
            res = list(ex.map(one, srcs))
        bad = [(s, out) for s, o, rc, out in res if rc]
        if bad:
            with open(self.log, "a") as f:
                for s, out in bad:
                    f.write("== %s\n%s\n" % (s, out))
            raise BuildError("compile failed: %s\n%s" % (bad[0][0], bad[0][1][-1500:]), self.log)
        return [o for s, o, rc, out in res]

    # ---- stage 1: a variant ---------------------------------------------------------
    def variant(self, name, cc=None, cflags=None, ldflags=None):
        """Build (or reuse) variant `name`.  Returns dict(janet=, lib=, dir=, cc=, cflags=, ldflags=, tree=, include=[...])."""
        self.boot()
        if name in VARIANTS and cc is None:
            cc, cflags, ldflags = VARIANTS[name]
        vdir = os.path.join(self.dir, name)
        info = dict(janet=os.path.join(vdir, "janet"), lib=os.path.join(vdir, "libjanet.a"), dir=vdir, cc=cc,
                    cflags=list(cflags), ldflags=list(ldflags) + CLIBS, tree=self.tree,
                    include=["-I" + os.path.join(self.tree, "src/include"), "-I" + os.path.join(self.tree, "src/conf"),
                             "-iquote", os.path.join(self.tree, "src/core")],
                    boot=os.path.join(self.dir, "boot"))
        lk = self._lock(name)
        try:
            done = os.path.join(vdir, ".done")
            if os.path.exists(done):
                self._touch()
                return info
            os.makedirs(vdir, exist_ok=True)
            srcs = sorted(os.listdir(os.path.join(self.tree, "src/core")))
            srcs = ["src/core/" + s for s in srcs if s.endswith(".c")]
            flags = list(cflags) + ["-Isrc/include", "-Isrc/conf", '-DJANET_BUILD="verif"'] + COMMON
            objs = self._compile_many(cc, flags, srcs + [os.path.join(self.dir, "boot", "image.c")], os.path.join(vdir, "obj"))
            shell = self._compile_many(cc, flags, ["src/mainclient/shell.c"], os.path.join(vdir, "objshell"))
            if os.path.exists(info["lib"]):
                os.unlink(info["lib"])
            rc, out = _run(["ar", "rcs", info["lib"]] + objs, log=self.log)
            if rc:
                raise BuildError("ar failed", self.log)
            rc, out = _run([cc] + list(ldflags) + flags + ["-o", info["janet"]] + shell + objs + CLIBS, cwd=self.tree, log=self.log)
            if rc:
                raise BuildError("link janet failed: " + out[-1500:], self.log)
            open(done, "w").close()
            return info
        finally:
            lk.close()

    # ---- harness programs linked against a variant -------------------------------------
    def harness(self, variant, name, sources, extra_cflags=(), extra_ld=(), cxx=False):
        """Compile C harness `sources` (absolute paths under /verif/harness) against variant's libjanet.a.
        The harness may `#include "<tree>/src/core/xyz.c"`-style wrapper TUs through -DVERIF_TREE.  Output is
        cached by content hash of the sources."""
        v = self.variant(variant)
        h = hashlib.sha256()
        for s in sources:
            with open(s, "rb") as f:
                h.update(f.read())
        h.update(" ".join(list(extra_cflags) + list(extra_ld)).encode())
        out = os.path.join(v["dir"], "h_%s_%s" % (name, h.hexdigest()[:10]))
        lk = self._lock("h_" + variant + "_" + name)
        try:
            if os.path.exists(out):
                return out
            cc = v["cc"]
            if cxx:
                cc = {"gcc": "g++", "clang-14": "clang++-14"}.get(cc, cc)
            cflags = [f for f in v["cflags"]] + v["include"] + ['-DVERIF_TREE="%s"' % self.tree, "-w"] + list(extra_cflags)
            cmd = [cc] + cflags + ["-o", out + ".tmp"] + list(sources) + [v["lib"]] + v["ldflags"] + list(extra_ld)
            rc, o = _run(cmd, log=self.log)
            if rc:
                raise BuildError("harness %s failed to compile:\n%s" % (name, o[-3000:]), self.log)
            os.rename(out + ".tmp", out)
            return out
        finally:
            lk.close()


def baseline_off(repo="/repo"):
    """Run the repo's test suite with the guard OFF (plain user build). Exit status 0 iff all suites pass."""
    b = Build(repo)
    v = b.variant("nohooks")
    tests = sorted(f for f in os.listdir(os.path.join(b.tree, "test")) if f.startswith("suite-") and f.endswith(".janet"))
    failed = []
    # the suites use fixed TCP ports / unix socket paths: never run two suite runs at once on this machine
    os.makedirs(SCRATCH, exist_ok=True)
    suite_lock = open(os.path.join(SCRATCH, ".suite.lock"), "w")
    fcntl.flock(suite_lock, fcntl.LOCK_EX)
    for t in tests:
        for attempt in range(3):  # timing-sensitive suites (ev, filewatch) can fail under heavy machine load: retry
            try:
                r = subprocess.run([v["janet"], os.path.join("test", t)], cwd=b.tree, stdout=subprocess.PIPE, stderr=subprocess.STDOUT, timeout=300)
                ok = r.returncode == 0
            except subprocess.TimeoutExpired as e:
                r = subprocess.CompletedProcess([], 124, stdout=(e.stdout or b"") + b"\nTIMEOUT")
                ok = False
            if ok:
                break
        print(("PASS " if ok else "FAIL ") + "janet::test/" + t)
        if not ok:
            failed.append(t)
            sys.stdout.write(r.stdout.decode(errors="replace")[-2000:])
    print("%d passed, %d failed" % (len(tests) - len(failed), len(failed)))
    return 0 if not failed else 1


if __name__ == "__main__":
    if len(sys.argv) > 1 and sys.argv[1] == "baseline_off":
        sys.exit(baseline_off(os.environ.get("VERIF_REPO", "/repo")))
    b = Build(os.environ.get("VERIF_REPO", "/repo"))
    for vn in sys.argv[1:] or ["plain"]:
        t = time.time()
        v = b.variant(vn)
        print(vn, v["janet"], "%.1fs" % (time.time() - t))
