"""Shared driver code for the per-property checks (see DESIGN.md section 1).

A check module  checks/Cxx.py  defines  run(ctx)  and uses:

    ctx.tier, ctx.seed, ctx.rng            tier name, VERIF_SEED, splitmix64 PRNG
    ctx.build                              vlib.build.Build of the current /repo tree (ctx.build.variant("asan") ...)
    ctx.gen(relpath, text)                 write a regenerated Lean file under lean/JanetModel/Gen (only if changed)
    ctx.lean(targets)                      lake build; returns (ok, log)
    ctx.obligations(module, theorems)      lake build + forbidden-token grep + #print axioms audit; records
                                           obligations / discharged for the evidence file; returns list of broken ones
    ctx.driver(name)                       path of the compiled lean_exe line-protocol model driver
    ctx.model(name, lines)                 run the driver on the given protocol lines, return output lines
    ctx.violation(sig, replay, found=True) report (or match against known_findings.json)
    ctx.known_finding_still_fails(sig, what)
    ctx.finish(level, coverage, assumptions)
"""
import fcntl
import hashlib
import json
import os
import re
import subprocess
import sys
import time

from . import build as vbuild

VERIF = os.path.dirname(os.path.dirname(os.path.abspath(__file__)))
LEAN = os.path.join(VERIF, "lean")
OUT = VERIF


def _private_copies():
    """Development aid: when VERIF_REPO points at a scratch tree (mutation testing), work on a private rsync'ed copy of
    the Lean project (Gen/ files are rewritten from the tree under test) and write evidence/replays to a scratch
    directory, so that concurrent runs against different trees do not disturb each other or /verif."""
    global LEAN, OUT
    repo = os.environ.get("VERIF_REPO")
    if not repo or os.path.abspath(repo) == "/repo":
        return
    tag = hashlib.sha256(os.path.abspath(repo).encode()).hexdigest()[:10]
    base = os.path.join(vbuild.SCRATCH + "-alt", tag)
    os.makedirs(base, exist_ok=True)
    with open(os.path.join(base, ".lock"), "w") as lk:
        fcntl.flock(lk, fcntl.LOCK_EX)
        r = subprocess.run(["rsync", "-a", "--delete", "--exclude", "verif.lock", "--exclude", "audit_*", os.path.join(VERIF, "lean") + "/", os.path.join(base, "lean") + "/"])
        if r.returncode not in (0, 24):  # 24 = source files vanished (another lake build is running): harmless
            raise RuntimeError("rsync of the Lean project failed with %d" % r.returncode)
    LEAN = os.path.join(base, "lean")
    OUT = os.path.join(base, "out")
    os.makedirs(OUT, exist_ok=True)
    # private copies are 0.7-0.9 GB each: drop those of other trees that were not used for 90 minutes (130 stale copies
    # once filled the disk and turned running checks into spurious build failures)
    try:
        open(os.path.join(base, ".lastuse"), "w").write(str(time.time()))
        root = os.path.dirname(base)
        for d in os.listdir(root):
            q = os.path.join(root, d)
            if q == base or not os.path.isdir(q):
                continue
            try:
                last = os.path.getmtime(os.path.join(q, ".lastuse"))
            except OSError:
                last = os.path.getmtime(q)
            if time.time() - last > 5400:
                import shutil
                shutil.rmtree(q, ignore_errors=True)
    except OSError:
        pass

STD_AXIOMS = {"propext", "Classical.choice", "Quot.sound"}
FORBIDDEN = re.compile(r"\bsorry\b|\badmit\b|^\s*axiom\s|native_decide|bv_decide|implemented_by|\bunsafe\s|maxHeartbeats\s+0\b")

TRUSTED_BASE = [
    "Lean 4.33 kernel (thorough tier: re-checked with leanchecker)",
    "axioms propext, Classical.choice, Quot.sound only (audited with #print axioms on every run)",
    "translator tools/gen (transcribes tables/graphs from the current source; analyses are certificate-checked in Lean)",
    "correspondence harness, generators and canonicalisers under /verif/harness",
    "gcc/clang, ASan/UBSan as oracle for memory errors",
]


class SplitMix64:
    def __init__(self, seed):
        self.s = seed & 0xFFFFFFFFFFFFFFFF

    def next(self):
        self.s = (self.s + 0x9E3779B97F4A7C15) & 0xFFFFFFFFFFFFFFFF
        z = self.s
        z = ((z ^ (z >> 30)) * 0xBF58476D1CE4E5B9) & 0xFFFFFFFFFFFFFFFF
        z = ((z ^ (z >> 27)) * 0x94D049BB133111EB) & 0xFFFFFFFFFFFFFFFF
        return z ^ (z >> 31)

    def below(self, n):
        return self.next() % n if n > 0 else 0

    def range(self, lo, hi):  # inclusive
        return lo + self.below(hi - lo + 1)

    def choice(self, xs):
        return xs[self.below(len(xs))]

    def chance(self, num, den):
        return self.below(den) < num

    def fork(self, tag):
        h = int.from_bytes(hashlib.sha256(("%d/%s" % (self.s, tag)).encode()).digest()[:8], "little")
        return SplitMix64(h)

    def shuffle(self, xs):
        for i in range(len(xs) - 1, 0, -1):
            j = self.below(i + 1)
            xs[i], xs[j] = xs[j], xs[i]


def strip_lean_comments(src):
    """Remove -- line comments and /- -/ block comments (nested) and string literals' content is kept."""
    out = []
    i, n, depth = 0, len(src), 0
    while i < n:
        if src.startswith("/-", i):
            depth += 1
            i += 2
        elif depth and src.startswith("-/", i):
            depth -= 1
            i += 2
        elif depth:
            if src[i] == "\n":
                out.append("\n")
            i += 1
        elif src.startswith("--", i):
            while i < n and src[i] != "\n":
                i += 1
        elif src[i] == '"':
            j = i + 1
            while j < n and src[j] != '"':
                j += 2 if src[j] == "\\" else 1
            out.append('""')
            i = j + 1
        else:
            out.append(src[i])
            i += 1
    return "".join(out)


class Ctx:
    def __init__(self, pid, tier, seed, repo=None):
        self.pid = pid
        self.tier = tier
        self.seed = seed
        self.rng = SplitMix64(seed)
        self.repo = repo or os.environ.get("VERIF_REPO", "/repo")
        self.t0 = time.time()
        self._build = None
        self.nviol = 0
        self.nknown = 0
        self.n_obl = 0
        self.n_dis = 0
        self.obl_names = []
        self.axioms_seen = {}
        self.broken = []          # names of broken proof obligations / correspondences
        self.notes = []
        _private_copies()
        self.replay_dir = os.path.join(OUT, "replays", pid)
        os.makedirs(self.replay_dir, exist_ok=True)
        try:
            with open(os.path.join(VERIF, "known_findings.json")) as f:
                self.known = json.load(f)
        except FileNotFoundError:
            self.known = {"findings": []}
        self._known_printed = set()

    # ------------------------------------------------------------------ build
    @property
    def build(self):
        if self._build is None:
            self._build = vbuild.Build(self.repo)
        return self._build

    def try_variant(self, name):
        """Build a variant; a tree that does not build shows nothing -> violation naming the build log."""
        try:
            return self.build.variant(name)
        except vbuild.BuildError as e:
            self.violation("build-failed:" + name, {"kind": "build", "variant": name, "error": str(e), "log": e.log},
                           found=False, what="the working tree does not build (%s)" % name)
            return None

    def say(self, *a):
        print("[%s %6.1fs]" % (self.pid, time.time() - self.t0), *a, flush=True)

    # ------------------------------------------------------------------ lean
    def gen(self, relpath, text):
        p = os.path.join(LEAN, "JanetModel", "Gen", relpath)
        os.makedirs(os.path.dirname(p), exist_ok=True)
        old = None
        if os.path.exists(p):
            with open(p) as f:
                old = f.read()
        if old != text:
            with open(p + ".tmp", "w") as f:
                f.write(text)
            os.replace(p + ".tmp", p)
        return p

    def lean(self, targets, timeout=3000):
        os.makedirs(os.path.join(LEAN, ".lake"), exist_ok=True)
        with open(os.path.join(LEAN, ".lake", "verif.lock"), "w") as lk:
            fcntl.flock(lk, fcntl.LOCK_EX)
            r = subprocess.run(["lake", "build"] + list(targets), cwd=LEAN, stdout=subprocess.PIPE, stderr=subprocess.STDOUT,
                               timeout=timeout)
        return r.returncode == 0, r.stdout.decode(errors="replace")

    def module_files(self, module):
        """Transitive closure of JanetModel.* / Driver.* imports of `module`, as file paths."""
        seen, todo, files = set(), [module], []
        while todo:
            m = todo.pop()
            if m in seen:
                continue
            seen.add(m)
            p = os.path.join(LEAN, *m.split(".")) + ".lean"
            if not os.path.exists(p):
                continue
            files.append(p)
            with open(p) as f:
                for line in f:
                    mm = re.match(r"\s*(?:public\s+)?import\s+((?:JanetModel|Driver)[\w.]*)", line)
                    if mm:
                        todo.append(mm.group(1))
        return files

    def obligations(self, module, theorems, allow_axioms=()):
        """Kernel-check `module` (lake build) and audit `theorems` (fully qualified names).
        Returns the list of broken obligation names ([] when all discharged)."""
        self.n_obl += len(theorems)
        self.obl_names += list(theorems)
        ok, log = self.lean([module])
        if not ok:
            # which theorems are affected?  every error line names a file; report them all as broken
            errs = [l for l in log.splitlines() if "error" in l][:20]
            logp = os.path.join(self.replay_dir, "lake-%s.log" % module)
            with open(logp, "w") as f:
                f.write(log)
            broken = []
            for l in errs:
                for t in theorems:
                    if t.split(".")[-1] in l and t not in broken:
                        broken.append(t)
            if not broken:
                broken = ["%s (module does not build; first error: %s)" % (module, errs[0] if errs else log[-300:])]
            self.broken += broken
            self.say("lake build %s FAILED; log %s" % (module, logp))
            return broken
        # forbidden tokens
        bad = []
        for p in self.module_files(module):
            with open(p) as f:
                src = strip_lean_comments(f.read())
            for i, line in enumerate(src.splitlines(), 1):
                if FORBIDDEN.search(line):
                    bad.append("%s:%d: %s" % (os.path.relpath(p, LEAN), i, line.strip()[:120]))
        if bad:
            self.broken += ["forbidden token " + b for b in bad]
            return ["forbidden token " + b for b in bad]
        # axioms
        tmp = os.path.join(LEAN, ".lake", "audit_%s_%d.lean" % (self.pid, os.getpid()))
        with open(tmp, "w") as f:
            f.write("import %s\n" % module)
            for t in theorems:
                f.write("#print axioms %s\n" % t)
        r = subprocess.run(["lake", "env", "lean", tmp], cwd=LEAN, stdout=subprocess.PIPE, stderr=subprocess.STDOUT)
        os.unlink(tmp)
        out = r.stdout.decode(errors="replace")
        broken = []
        found = {}
        for m in re.finditer(r"'([^']+)' (depends on axioms: \[([^\]]*)\]|does not depend on any axioms)", out):
            name = m.group(1)
            axs = set(a.strip() for a in (m.group(3) or "").replace("\n", " ").split(",") if a.strip())
            found[name] = sorted(axs)
            extra = axs - STD_AXIOMS - set(allow_axioms)
            if extra:
                broken.append("%s uses non-standard axioms %s" % (name, sorted(extra)))
        for t in theorems:
            if t not in found:
                broken.append("%s: not found by #print axioms (%s)" % (t, out.strip().splitlines()[-1] if out.strip() else "no output"))
        self.axioms_seen.update(found)
        self.n_dis += len(theorems) - len([b for b in broken])
        self.broken += broken
        return broken

    def leanchecker(self, module):
        r = subprocess.run(["lake", "env", "leanchecker", module], cwd=LEAN, stdout=subprocess.PIPE, stderr=subprocess.STDOUT)
        return r.returncode == 0, r.stdout.decode(errors="replace")

    def driver(self, name=None):
        name = name or ("jm_" + self.pid.lower())
        ok, log = self.lean([name])
        if not ok:
            self.broken.append("model driver %s does not build" % name)
            logp = os.path.join(self.replay_dir, "lake-%s.log" % name)
            with open(logp, "w") as f:
                f.write(log)
            return None
        return os.path.join(LEAN, ".lake", "build", "bin", name)

    def model(self, lines, name=None, exe=None):
        exe = exe or self.driver(name)
        data = ("\n".join(lines) + "\n").encode()
        r = subprocess.run([exe], input=data, stdout=subprocess.PIPE, stderr=subprocess.PIPE)
        if r.returncode != 0:
            raise RuntimeError("model driver failed: " + r.stderr.decode(errors="replace")[-500:])
        return r.stdout.decode(errors="replace").splitlines()

    # ------------------------------------------------------------------ reporting
    def _match_known(self, sig):
        for k in self.known.get("findings", []):
            if k.get("property") == self.pid and k.get("status", "known") == "known" and k.get("signature") == sig:
                return k
        return None

    def violation(self, sig, replay, found=True, what=""):
        """Report a violation.  `sig` is a stable signature of the specific failing input / call site / history
        (used only to match known_findings.json).  `found`=False: a proof obligation or correspondence broke and
        no failing input was found."""
        k = self._match_known(sig)
        if k is not None:
            if sig not in self._known_printed:
                self._known_printed.add(sig)
                self.nknown += 1
                print("KNOWN-FINDING: property=%s %s" % (self.pid, k.get("what", what)), flush=True)
            return None
        self.nviol += 1
        replay = dict(replay)
        replay.setdefault("property", self.pid)
        replay.setdefault("seed", self.seed)
        replay.setdefault("signature", sig)
        replay.setdefault("what", what)
        replay["failing_input_found"] = bool(found)
        h = hashlib.sha256(json.dumps(replay, sort_keys=True, default=str).encode()).hexdigest()[:10]
        path = os.path.join(self.replay_dir, "%s-%s.json" % (self.pid, h))
        os.makedirs(self.replay_dir, exist_ok=True)
        with open(path, "w") as f:
            json.dump(replay, f, indent=1, default=str)
        print("VIOLATION property=%s replay=%s%s" % (self.pid, path, "" if found else " no-failing-input-found"), flush=True)
        if what:
            self.say("  ->", what)
        return path

    def finish(self, level, coverage, assumptions=(), checker_cmd=None):
        cov = dict(coverage)
        if self.n_obl:
            cov.setdefault("obligations", self.n_obl)
            cov.setdefault("discharged", self.n_dis)
            cov.setdefault("checker_cmd", checker_cmd or "cd /verif/lean && lake build && lake env lean <#print axioms audit>")
            cov.setdefault("trusted_base", TRUSTED_BASE)
            cov.setdefault("theorems", self.obl_names)
            cov.setdefault("axioms", self.axioms_seen)
        cov.setdefault("tree_hash", self.build.hash if self._build else vbuild.tree_hash(self.repo))
        if self.notes:
            cov["notes"] = self.notes
        ev = {
            "property_id": self.pid,
            "tier": self.tier,
            "seed": self.seed,
            "level": level,
            "coverage": cov,
            "assumptions": list(assumptions),
            "wall_s": round(time.time() - self.t0, 2),
            "violations": self.nviol,
            "known_findings_reported": self.nknown,
        }
        os.makedirs(os.path.join(OUT, "evidence"), exist_ok=True)
        p = os.path.join(OUT, "evidence", self.pid + ".json")
        with open(p + ".tmp", "w") as f:
            json.dump(ev, f, indent=1, default=str)
        os.replace(p + ".tmp", p)
        self.say("done: %d violation(s), %d known finding(s), evidence %s" % (self.nviol, self.nknown, p))
        return 1 if self.nviol else 0


def run_cmd(cmd, input=None, timeout=60, cwd=None, env=None):
    """Run a command; returns (rc, stdout, stderr) with rc = -signal on crash, None on timeout."""
    try:
        r = subprocess.run(cmd, input=input, stdout=subprocess.PIPE, stderr=subprocess.PIPE, timeout=timeout, cwd=cwd, env=env)
        return r.returncode, r.stdout, r.stderr
    except subprocess.TimeoutExpired as e:
        return None, e.stdout or b"", e.stderr or b""
