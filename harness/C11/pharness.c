/* C11 harness: wrapper TU around the real parse.c (current working tree, via -iquote <tree>/src/core).
 *
 * Drives the REAL parser API -- the static cfuns parser/new, parser/consume (with offsets), parser/byte,
 * parser/clone, parser/status, parser/produce, parser/has-more, parser/where, parser/error, parser/state,
 * parser/flush, parser/eof and the C entry janet_parser_consume -- on a byte string under a schedule of
 * chunk / query / clone operations and prints one canonical line per case.  Same line protocol as the Lean model
 * driver lean/Driver/C11.lean (jm_c11).
 *
 *   case <hexbytes|-> <op,op,...>     ->  "<events> | <trace> | <numeric-token oracle>"
 *   pstate ...                         (see below)
 *   rt <term tokens...>                ->  jdn round trip on the implementation:  ok <hex> | refused | MISMATCH ...
 *   jdn <term tokens...>               ->  hex of (string/format "%j" v) | refused
 *
 * Number tokens: janet_scan_numeric is intercepted (renamed by macro inside this TU only) so that every call the
 * parser makes is logged as  <tokenhex>=<result>;  the model treats "token -> number?" as that table.
 */
#define janet_scan_numeric verif_scan_numeric_hook
#include "parse.c"
#undef janet_scan_numeric
#include <stdio.h>
#include <stdlib.h>
#include <string.h>
#include <stdarg.h>
#include "state.h"

int janet_scan_numeric(const uint8_t *str, int32_t len, Janet *out);

/* ------------------------------------------------------------------ growable text */
typedef struct { char *d; size_t n, cap; } Txt;
static void tx_need(Txt *t, size_t k) {
    if (t->n + k + 1 > t->cap) {
        t->cap = 2 * (t->n + k + 1);
        t->d = realloc(t->d, t->cap);
    }
}
static void tx_putc(Txt *t, char c) { tx_need(t, 1); t->d[t->n++] = c; t->d[t->n] = 0; }
static void tx_puts(Txt *t, const char *s) { size_t k = strlen(s); tx_need(t, k); memcpy(t->d + t->n, s, k); t->n += k; t->d[t->n] = 0; }
static void tx_printf(Txt *t, const char *fmt, ...) {
    char b[256];
    va_list ap;
    va_start(ap, fmt);
    vsnprintf(b, sizeof b, fmt, ap);
    va_end(ap);
    tx_puts(t, b);
}
static void tx_hex(Txt *t, const uint8_t *p, size_t n) {
    static const char *H = "0123456789abcdef";
    for (size_t i = 0; i < n; i++) { tx_putc(t, H[p[i] >> 4]); tx_putc(t, H[p[i] & 15]); }
}
static void tx_clear(Txt *t) { t->n = 0; if (t->d) t->d[0] = 0; }
/* message text: printable ascii kept, everything else (incl. space) -> '_' */
static void tx_msg(Txt *t, const uint8_t *p, size_t n) {
    for (size_t i = 0; i < n; i++) tx_putc(t, (p[i] > 32 && p[i] < 127 && p[i] != '|') ? (char) p[i] : '_');
}

/* ------------------------------------------------------------------ numeric oracle log */
static Txt numlog;
static void canon_num(Txt *t, Janet v) {
    if (janet_checktype(v, JANET_NUMBER)) {
        union { double d; uint64_t u; } as;
        as.d = janet_unwrap_number(v);
        tx_printf(t, "n%016llx", (unsigned long long) as.u);
    } else if (janet_checktype(v, JANET_ABSTRACT)) {
        const JanetAbstractType *at = janet_abstract_type(janet_unwrap_abstract(v));
        if (!strcmp(at->name, "core/s64")) tx_printf(t, "i%lld", (long long) * (int64_t *) janet_unwrap_abstract(v));
        else if (!strcmp(at->name, "core/u64")) tx_printf(t, "u%llu", (unsigned long long) * (uint64_t *) janet_unwrap_abstract(v));
        else tx_printf(t, "abs:%s", at->name);
    } else {
        tx_puts(t, "?num");
    }
}
int verif_scan_numeric_hook(const uint8_t *str, int32_t len, Janet *out) {
    int r = janet_scan_numeric(str, len, out);
    tx_hex(&numlog, str, (size_t) len);
    tx_putc(&numlog, '=');
    if (r) tx_putc(&numlog, 'x'); else canon_num(&numlog, *out);
    tx_putc(&numlog, ',');
    return r;
}

/* ------------------------------------------------------------------ canonical value printer */
static void canon(Txt *t, Janet v, int sm);

static int cmpstr(const void *a, const void *b) { return strcmp(*(char *const *) a, *(char *const *) b); }

static void canon_dict(Txt *t, const JanetKV *kvs, int32_t cap, int sm) {
    int32_t n = 0;
    char **ents = malloc(sizeof(char *) * (size_t)(cap + 1));
    for (int32_t i = 0; i < cap; i++) {
        if (janet_checktype(kvs[i].key, JANET_NIL)) continue;
        Txt e = {0};
        /* sort key: canonical key without source-map info, then the full entry */
        canon(&e, kvs[i].key, 0);
        tx_putc(&e, '\x01');
        canon(&e, kvs[i].key, sm);
        tx_putc(&e, ' ');
        canon(&e, kvs[i].value, sm);
        ents[n++] = e.d;
    }
    qsort(ents, (size_t) n, sizeof(char *), cmpstr);
    for (int32_t i = 0; i < n; i++) {
        if (i) tx_putc(t, ' ');
        tx_puts(t, strchr(ents[i], '\x01') + 1);
        free(ents[i]);
    }
    free(ents);
}

static void canon(Txt *t, Janet v, int sm) {
    switch (janet_type(v)) {
        case JANET_NIL: tx_puts(t, "nil"); break;
        case JANET_BOOLEAN: tx_puts(t, janet_unwrap_boolean(v) ? "true" : "false"); break;
        case JANET_NUMBER: canon_num(t, v); break;
        case JANET_ABSTRACT: canon_num(t, v); break;
        case JANET_STRING: tx_putc(t, 's'); tx_hex(t, janet_unwrap_string(v), (size_t) janet_string_length(janet_unwrap_string(v))); break;
        case JANET_SYMBOL: tx_putc(t, 'y'); tx_hex(t, janet_unwrap_symbol(v), (size_t) janet_string_length(janet_unwrap_symbol(v))); break;
        case JANET_KEYWORD: tx_putc(t, 'k'); tx_hex(t, janet_unwrap_keyword(v), (size_t) janet_string_length(janet_unwrap_keyword(v))); break;
        case JANET_BUFFER: tx_putc(t, 'b'); tx_hex(t, janet_unwrap_buffer(v)->data, (size_t) janet_unwrap_buffer(v)->count); break;
        case JANET_TUPLE: {
            const Janet *tp = janet_unwrap_tuple(v);
            int br = (janet_tuple_flag(tp) & JANET_TUPLE_FLAG_BRACKETCTOR) ? 1 : 0;
            tx_putc(t, br ? '[' : '(');
            if (sm) tx_printf(t, "%d:%d", (int) janet_tuple_sm_line(tp), (int) janet_tuple_sm_column(tp));
            for (int32_t i = 0; i < janet_tuple_length(tp); i++) {
                if (i || sm) tx_putc(t, ' ');
                canon(t, tp[i], sm);
            }
            tx_putc(t, br ? ']' : ')');
            break;
        }
        case JANET_ARRAY: {
            JanetArray *a = janet_unwrap_array(v);
            tx_puts(t, "@[");
            for (int32_t i = 0; i < a->count; i++) {
                if (i) tx_putc(t, ' ');
                canon(t, a->data[i], sm);
            }
            tx_putc(t, ']');
            break;
        }
        case JANET_STRUCT: {
            const JanetKV *st = janet_unwrap_struct(v);
            tx_putc(t, '{');
            canon_dict(t, st, janet_struct_capacity(st), sm);
            tx_putc(t, '}');
            break;
        }
        case JANET_TABLE: {
            JanetTable *tb = janet_unwrap_table(v);
            tx_puts(t, "@{");
            canon_dict(t, tb->data, tb->capacity, sm);
            tx_putc(t, '}');
            break;
        }
        default: tx_printf(t, "<%s>", janet_type_names[janet_type(v)]); break;
    }
}

/* ------------------------------------------------------------------ protected calls of the real cfuns */
static int pcallc(JanetCFunction f, int32_t argc, Janet *argv, Janet *out) {
    JanetTryState ts;
    volatile int ok = 0;
    Janet r = janet_wrap_nil();
    JanetSignal sig = janet_try(&ts);
    if (sig == JANET_SIGNAL_OK) {
        r = f(argc, argv);
        ok = 1;
    } else {
        r = ts.payload;
    }
    janet_restore(&ts);
    *out = r;
    return ok ? 0 : 1;
}

static int hexval(int c) {
    if (c >= '0' && c <= '9') return c - '0';
    if (c >= 'a' && c <= 'f') return c - 'a' + 10;
    if (c >= 'A' && c <= 'F') return c - 'A' + 10;
    return -1;
}

/* ------------------------------------------------------------------ one run */
typedef struct {
    Janet pv;          /* the parser (abstract), GC-rooted */
    uint8_t *bytes;    /* exact-size heap copy: ASan sees over-reads */
    size_t len, pos;
    int rawerr;        /* 'R': take errors without draining the value queue first (values queued at that time are dropped) */
    int gcpause;       /* 'g': between the moment an error is latched and the moment parser/error hands it out, a forced collection,
                          allocations that reuse freed string blocks, and a second collection happen (the error text must not depend on it) */
    size_t eofoff;     /* added to the position label once parser/eof was called (same byte position, different phase) */
    Txt ev, tr;
    int nvalues;
    int nroots;
    Janet roots[64];
} Run;

static void tr_status(Run *r, const char *key) {
    Janet out;
    Janet a[1] = { r->pv };
    if (pcallc(cfun_parse_status, 1, a, &out)) { tx_printf(&r->tr, "@%zu:%s=PANIC ", r->pos + r->eofoff, key); return; }
    tx_printf(&r->tr, "@%zu:%s=%s ", r->pos + r->eofoff, key, (const char *) janet_unwrap_keyword(out));
}
static int status_is(Run *r, const char *s) {
    Janet out;
    Janet a[1] = { r->pv };
    if (pcallc(cfun_parse_status, 1, a, &out)) return 0;
    return !strcmp((const char *) janet_unwrap_keyword(out), s);
}
static void tr_where(Run *r, const char *key) {
    Janet out;
    Janet a[1] = { r->pv };
    if (pcallc(cfun_parse_where, 1, a, &out)) { tx_printf(&r->tr, "@%zu:%s=PANIC ", r->pos + r->eofoff, key); return; }
    const Janet *t = janet_unwrap_tuple(out);
    tx_printf(&r->tr, "@%zu:%s=%d:%d ", r->pos + r->eofoff, key, janet_unwrap_integer(t[0]), janet_unwrap_integer(t[1]));
}
static int has_more(Run *r) {
    Janet out;
    Janet a[1] = { r->pv };
    if (pcallc(cfun_parse_has_more, 1, a, &out)) return 0;
    return janet_truthy(out);
}
static void produce1(Run *r, int wrapped) {
    Janet out;
    Janet a[2] = { r->pv, janet_wrap_true() };
    if (pcallc(cfun_parse_produce, wrapped ? 2 : 1, a, &out)) { tx_puts(&r->ev, "v:PANIC "); return; }
    if (wrapped) {
        if (!janet_checktype(out, JANET_TUPLE) || janet_tuple_length(janet_unwrap_tuple(out)) != 1) { tx_puts(&r->ev, "v:BADWRAP "); return; }
        const Janet *t = janet_unwrap_tuple(out);
        tx_printf(&r->tr, "@wrap#%d=%d:%d ", r->nvalues, (int) janet_tuple_sm_line(t), (int) janet_tuple_sm_column(t));
        out = t[0];
    }
    tx_puts(&r->ev, "v:");
    canon(&r->ev, out, 1);
    tx_putc(&r->ev, ' ');
    r->nvalues++;
}
static void drain(Run *r) {
    int k = 0;
    while (has_more(r)) produce1(r, (k++) & 1);
}
static void tr_state(Run *r) {
    Janet out;
    Janet a[2] = { r->pv, janet_ckeywordv("delimiters") };
    if (pcallc(cfun_parse_state, 2, a, &out)) { tx_printf(&r->tr, "@%zu:t=PANIC ", r->pos + r->eofoff); return; }
    Janet out2;
    Janet b[2] = { r->pv, janet_ckeywordv("frames") };
    if (pcallc(cfun_parse_state, 2, b, &out2)) { tx_printf(&r->tr, "@%zu:t=PANIC ", r->pos + r->eofoff); return; }
    JanetArray *fr = janet_unwrap_array(out2);
    tx_printf(&r->tr, "@%zu:t=%d:", r->pos + r->eofoff, fr->count);
    tx_hex(&r->tr, janet_unwrap_string(out), (size_t) janet_string_length(janet_unwrap_string(out)));
    /* per frame: type, line, column */
    for (int32_t i = 0; i < fr->count; i++) {
        JanetTable *f = janet_unwrap_table(fr->data[i]);
        Janet ty = janet_table_get(f, janet_ckeywordv("type"));
        Janet ln = janet_table_get(f, janet_ckeywordv("line"));
        Janet co = janet_table_get(f, janet_ckeywordv("column"));
        tx_printf(&r->tr, ":%s,%d,%d", janet_checktype(ty, JANET_KEYWORD) ? (const char *) janet_unwrap_keyword(ty) : "?",
                  janet_unwrap_integer(ln), janet_unwrap_integer(co));
    }
    tx_putc(&r->tr, ' ');
}
/* internal fields of the parser struct (positions, lookback, flag, counts and every state frame) */
static void tr_internals(Run *r) {
    JanetParser *p = (JanetParser *) janet_unwrap_abstract(r->pv);
    tx_printf(&r->tr, "@%zu:i=%zu:%zu:%d:%d:%zu:%zu", r->pos + r->eofoff, p->line, p->column, p->lookback, p->flag, p->statecount, p->bufcount);
    tx_putc(&r->tr, ':');
    tx_hex(&r->tr, p->buf, p->bufcount);
    for (size_t i = 0; i < p->statecount; i++) {
        JanetParseState *s = p->states + i;
        const char *cn = s->consumer == root ? "root" : s->consumer == tokenchar ? "tok" : s->consumer == stringchar ? "str" :
                         s->consumer == escape1 ? "esc1" : s->consumer == escapeh ? "esch" : s->consumer == escapeu ? "escu" :
                         s->consumer == longstring ? "long" : s->consumer == comment ? "cmt" : s->consumer == atsign ? "at" : "?";
        /* the root frame's argn follows the produce schedule; report it relative to pending */
        tx_printf(&r->tr, ":%s,%x,%d,%d,%zu,%zu", cn, (unsigned) s->flags, (int) s->counter, i == 0 ? (int)(s->argn - (int32_t) p->pending) : (int) s->argn, s->line, s->column);
    }
    /* capacities of the three stacks (model: lean/JanetModel/Parse/Cap.lean) */
    /* separate, un-keyed token: capacities legitimately depend on the schedule (clone points, parser/state calls) */
    tx_printf(&r->tr, ":a%zu cap:%zu,%zu,%zu ", p->argcount - p->pending, p->bufcap, p->statecap, p->argcap);
}
/* direct oracle for the error / dead latch (Props.C11.error_latch, dead_latch): while an error is latched or the parser is dead,
   parser/byte, parser/consume and parser/eof must all panic and leave every field of the struct alone.  Prints only on failure. */
static void latch_probe(Run *r) {
    JanetParser *p = (JanetParser *) janet_unwrap_abstract(r->pv);
    size_t l = p->line, c = p->column, sc = p->statecount, ac = p->argcount, bc = p->bufcount, pd = p->pending;
    int lb = p->lookback, fl = p->flag;
    const char *er = p->error;
    Janet out;
    Janet a[2] = { r->pv, janet_wrap_integer(40) };
    int p1 = pcallc(cfun_parse_byte, 2, a, &out);
    Janet b[1] = { r->pv };
    int p2 = pcallc(cfun_parse_eof, 1, b, &out);
    Janet d[2] = { r->pv, janet_cstringv("x (") };
    int p3 = pcallc(cfun_parse_consume, 2, d, &out);
    p = (JanetParser *) janet_unwrap_abstract(r->pv);
    if (!p1 || !p2 || !p3 || l != p->line || c != p->column || sc != p->statecount || ac != p->argcount || bc != p->bufcount ||
            pd != p->pending || lb != p->lookback || fl != p->flag || er != p->error)
        tx_printf(&r->ev, "LATCH-MOVED:%d%d%d ", p1, p2, p3);
}
/* unrelated heap activity: a full collection, then strings of the sizes the generated parser messages have (a block the collector
   released is handed out again and overwritten), then another collection.  Nothing here references the parser. */
static void heap_churn(void) {
    uint8_t fill[160];
    janet_collect();
    memset(fill, 'G', sizeof fill);
    for (int k = 0; k < 96; k++) (void) janet_string(fill, 24 + (k * 7) % 130);
    janet_collect();
}
static void handle_error(Run *r) {
    Janet out;
    Janet a[1] = { r->pv };
    tr_status(r, "es");
    /* the raw flag word while the error is pending (JANET_PARSER_GENERATED_ERROR tells parsermark that `error` is a heap string) */
    tx_printf(&r->tr, "@%zu:ef=%d ", r->pos + r->eofoff, ((JanetParser *) janet_unwrap_abstract(r->pv))->flag);
    latch_probe(r);
    tr_where(r, "ew");
    if (r->gcpause) heap_churn();
    if (!r->rawerr) drain(r);
    if (r->gcpause) { heap_churn(); if (!status_is(r, "error")) tx_puts(&r->ev, "LATCH-MOVED:gc "); }
    tr_status(r, "es2");
    if (pcallc(cfun_parse_error, 1, a, &out)) { tx_puts(&r->ev, "e:PANIC "); return; }
    tx_puts(&r->ev, "e:");
    if (janet_checktype(out, JANET_STRING)) tx_msg(&r->ev, janet_unwrap_string(out), (size_t) janet_string_length(janet_unwrap_string(out)));
    else tx_puts(&r->ev, "NOT-A-STRING");
    tx_printf(&r->ev, "@%zu ", r->pos + r->eofoff);
    tr_status(r, "es3");
    if (pcallc(cfun_parse_error, 1, a, &out)) { tx_puts(&r->ev, "e:PANIC "); return; }
    if (!janet_checktype(out, JANET_NIL)) tx_puts(&r->ev, "e:SECOND-ERROR ");
}
static void tr_panic(Run *r, const char *key, Janet payload) {
    tx_printf(&r->tr, "@%zu:%s=panic:", r->pos + r->eofoff, key);
    if (janet_checktype(payload, JANET_STRING)) tx_msg(&r->tr, janet_unwrap_string(payload), (size_t) janet_string_length(janet_unwrap_string(payload)));
    tx_putc(&r->tr, ' ');
}

/* feed the next n bytes through parser/consume;  mode 0: (consume p bytes[0..end] pos)   mode 1: (consume p slice)   mode 2: buffer arg */
static void op_consume(Run *r, size_t n, int mode) {
    size_t end = r->pos + n;
    if (end > r->len) end = r->len;
    int guard = 0;
    while (r->pos < end && guard++ < 100000) {
        Janet out;
        Janet a[3];
        int argc;
        a[0] = r->pv;
        if (mode == 0) {
            a[1] = janet_stringv(r->bytes, (int32_t) end);
            a[2] = janet_wrap_integer((int32_t) r->pos);
            argc = 3;
        } else if (mode == 1) {
            a[1] = janet_stringv(r->bytes + r->pos, (int32_t)(end - r->pos));
            argc = 2;
        } else {
            JanetBuffer *b = janet_buffer((int32_t) r->len);
            janet_buffer_push_bytes(b, r->bytes, (int32_t) r->len);
            b->count = (int32_t) end;
            a[1] = janet_wrap_buffer(b);
            a[2] = janet_wrap_integer((int32_t) r->pos);
            argc = 3;
        }
        if (pcallc(cfun_parse_consume, argc, a, &out)) {
            tr_panic(r, "c", out);
            r->pos = end;
            return;
        }
        int32_t k = janet_unwrap_integer(out);
        if (k <= 0 || (size_t) k > end - r->pos) { tx_printf(&r->tr, "@%zu:c=BADCOUNT%d ", r->pos + r->eofoff, k); r->pos = end; return; }
        r->pos += (size_t) k;
        if (status_is(r, "error")) handle_error(r);
        else if (r->pos < end) { tx_printf(&r->tr, "@%zu:c=SHORT ", r->pos + r->eofoff); }
    }
}
static void op_bytes(Run *r, size_t n, int capi) {
    size_t end = r->pos + n;
    if (end > r->len) end = r->len;
    while (r->pos < end) {
        Janet out;
        uint8_t c = r->bytes[r->pos];
        if (capi) {
            JanetParser *p = (JanetParser *) janet_unwrap_abstract(r->pv);
            /* C API contract: caller checks status first (janet_parser_consume panics otherwise) */
            enum JanetParserStatus st = janet_parser_status(p);
            if (st == JANET_PARSE_DEAD || st == JANET_PARSE_ERROR) { tx_printf(&r->tr, "@%zu:j=%s ", r->pos + r->eofoff, st == JANET_PARSE_DEAD ? "dead" : "error"); r->pos = end; return; }
            janet_parser_consume(p, c);
        } else {
            /* high bits must be ignored by parser/byte */
            Janet a[2] = { r->pv, janet_wrap_integer((int32_t) c | ((r->pos & 1) ? 0x100 : 0)) };
            if (pcallc(cfun_parse_byte, 2, a, &out)) { tr_panic(r, "b", out); r->pos = end; return; }
        }
        r->pos++;
        if (status_is(r, "error")) handle_error(r);
    }
}
static void op_clone(Run *r, int switch_to_clone) {
    Janet out;
    Janet a[1] = { r->pv };
    if (pcallc(cfun_parse_clone, 1, a, &out)) { tr_panic(r, "k", out); return; }
    if (r->nroots < 64) { janet_gcroot(out); r->roots[r->nroots++] = out; }
    if (switch_to_clone) r->pv = out;
}
static void op_eof(Run *r) {
    Janet out;
    Janet a[1] = { r->pv };
    if (pcallc(cfun_parse_eof, 1, a, &out)) { tr_panic(r, "E", out); return; }
    r->eofoff = 1000000;
    if (status_is(r, "error")) handle_error(r);
    latch_probe(r);       /* dead (or dead + error already taken): nothing may be accepted any more */
    tr_status(r, "E");
}

static void run_case(const char *hex, const char *sched) {
    Run r;
    memset(&r, 0, sizeof r);
    size_t hl = (hex[0] == '-') ? 0 : strlen(hex);
    r.len = hl / 2;
    r.bytes = malloc(r.len ? r.len : 1);
    for (size_t i = 0; i < r.len; i++) r.bytes[i] = (uint8_t)(hexval(hex[2 * i]) * 16 + hexval(hex[2 * i + 1]));
    tx_clear(&numlog);
    Janet pv;
    if (pcallc(cfun_parse_parser, 0, NULL, &pv)) { printf("NEWPANIC\n"); return; }
    janet_gcroot(pv);
    r.roots[r.nroots++] = pv;
    r.pv = pv;
    const char *s = sched;
    while (*s) {
        char op = *s++;
        size_t n = 0;
        while (*s >= '0' && *s <= '9') n = n * 10 + (size_t)(*s++ - '0');
        if (*s == ',') s++;
        switch (op) {
            case 'c': op_consume(&r, n, 0); break;
            case 'C': op_consume(&r, n, 1); break;
            case 'u': op_consume(&r, n, 2); break;
            case 'b': op_bytes(&r, n, 0); break;
            case 'j': op_bytes(&r, n, 1); break;
            case 'k': op_clone(&r, 1); break;
            case 'K': op_clone(&r, 0); break;
            case 's': tr_status(&r, "s"); break;
            case 'w': tr_where(&r, "w"); break;
            case 't': tr_state(&r); break;
            case 'i': tr_internals(&r); break;
            case 'h': tx_printf(&r.tr, "h=%d ", has_more(&r)); break;
            case 'p': if (has_more(&r)) produce1(&r, 0); else { Janet o; Janet a[1] = { r.pv }; pcallc(cfun_parse_produce, 1, a, &o); tx_printf(&r.tr, "p=%s ", janet_checktype(o, JANET_NIL) ? "nil" : "NOTNIL"); } break;
            case 'P': if (has_more(&r)) produce1(&r, 1); else tx_puts(&r.tr, "P=none "); break;
            case 'D': drain(&r); break;
            case 'e': { Janet o; Janet a[1] = { r.pv }; if (pcallc(cfun_parse_error, 1, a, &o)) tr_panic(&r, "e", o); else tx_printf(&r.tr, "@%zu:e=%s ", r.pos + r.eofoff, janet_checktype(o, JANET_NIL) ? "nil" : "NOTNIL"); } break;
            case 'f': { Janet o; Janet a[1] = { r.pv }; drain(&r); if (pcallc(cfun_parse_flush, 1, a, &o)) tr_panic(&r, "f", o); } break;
            case 'F': { Janet o; Janet a[1] = { r.pv }; if (pcallc(cfun_parse_flush, 1, a, &o)) tr_panic(&r, "F", o); } break;
            case 'R': r.rawerr = 1; break;
            case 'g': r.gcpause = 1; break;
            case 'I': {
                /* parser/insert of a small menu of values: changes what is parsed (solo schedules only) */
                Janet iv;
                switch (n % 5) {
                    case 0: iv = janet_cstringv("ins"); break;
                    case 1: iv = janet_ckeywordv("k"); break;
                    case 2: iv = janet_wrap_nil(); break;
                    case 3: iv = janet_wrap_true(); break;
                    default: iv = janet_csymbolv("sy"); break;
                }
                Janet o;
                Janet a[2] = { r.pv, iv };
                if (pcallc(cfun_parse_insert, 2, a, &o)) tr_panic(&r, "I", o);
                if (status_is(&r, "error")) handle_error(&r);
                break;
            }
            case 'L': case 'M': {
                /* parser/where with arguments: L<n> sets the line, M<n> sets line 7 and column n */
                Janet o;
                Janet a[3] = { r.pv, janet_wrap_integer(op == 'L' ? (int32_t) n : 7), janet_wrap_integer((int32_t) n) };
                if (pcallc(cfun_parse_where, op == 'L' ? 2 : 3, a, &o)) tr_panic(&r, "L", o);
                else {
                    const Janet *t = janet_unwrap_tuple(o);
                    tx_printf(&r.tr, "@%zu:L=%d:%d ", r.pos + r.eofoff, janet_unwrap_integer(t[0]), janet_unwrap_integer(t[1]));
                }
                break;
            }
            case 'E': op_eof(&r); break;
            case 'G': janet_collect(); break;
            case 'x': {
                /* a second, unrelated live parser consumes bytes in between: must not influence this one (no state outside the struct) */
                static const uint8_t decoy_bytes[] = { '(', '"', '\\', 'x', '4', '`', '\n', ' ', '@', '\r' };
                Janet dv;
                if (!pcallc(cfun_parse_parser, 0, NULL, &dv)) {
                    JanetParser *dp = (JanetParser *) janet_unwrap_abstract(dv);
                    janet_gcroot(dv);
                    for (size_t di = 0; di < sizeof decoy_bytes; di++) {
                        if (janet_parser_status(dp) == JANET_PARSE_ERROR) janet_parser_error(dp);
                        janet_parser_consume(dp, decoy_bytes[di]);
                    }
                    janet_gcunroot(dv);
                }
                break;
            }
            default: tx_printf(&r.tr, "BADOP%c ", op); break;
        }
    }
    fputs(r.ev.d ? r.ev.d : "", stdout);
    fputs("| ", stdout);
    fputs(r.tr.d ? r.tr.d : "", stdout);
    fputs("| ", stdout);
    fputs(numlog.d ? numlog.d : "", stdout);
    fputc('\n', stdout);
    for (int i = 0; i < r.nroots; i++) janet_gcunroot(r.roots[i]);
    free(r.bytes);
    free(r.ev.d);
    free(r.tr.d);
}

/* ------------------------------------------------------------------ jdn terms */
static JanetTable *core_env;
static Janet fn_format, fn_parse, fn_deepeq, fn_parse_all;

static Janet resolve(const char *name) {
    Janet out = janet_wrap_nil();
    janet_resolve(core_env, janet_csymbol(name), &out);
    return out;
}
static int pcall_any(Janet f, int32_t argc, Janet *argv, Janet *out) {
    if (janet_checktype(f, JANET_CFUNCTION)) return pcallc(janet_unwrap_cfunction(f), argc, argv, out);
    JanetFiber *fiber = NULL;
    JanetSignal sig = janet_pcall(janet_unwrap_function(f), argc, argv, out, &fiber);
    return sig == JANET_SIGNAL_OK ? 0 : 1;
}

static uint8_t *unhex(const char *h, size_t *len) {
    size_t hl = strlen(h);
    uint8_t *b = malloc(hl / 2 + 1);
    for (size_t i = 0; i < hl / 2; i++) b[i] = (uint8_t)(hexval(h[2 * i]) * 16 + hexval(h[2 * i + 1]));
    *len = hl / 2;
    return b;
}

/* tokens: N T F n<16hex>[:text] s<hex> b<hex> y<hex> k<hex>  t( ... )  t[ ... ]  a[ ... ]  d{ ... }  m{ ... } */
static Janet build_term(char **toks, int ntok, int *ix) {
    if (*ix >= ntok) return janet_wrap_nil();
    char *t = toks[(*ix)++];
    size_t len;
    uint8_t *b;
    Janet v = janet_wrap_nil();
    switch (t[0]) {
        case 'N': return janet_wrap_nil();
        case 'T': return janet_wrap_true();
        case 'F': return janet_wrap_false();
        case 'n': {
            union { double d; uint64_t u; } as;
            char tmp[17];
            memcpy(tmp, t + 1, 16);
            tmp[16] = 0;
            as.u = strtoull(tmp, NULL, 16);
            return janet_wrap_number(as.d);
        }
        case 's': b = unhex(t + 1, &len); v = janet_stringv(b, (int32_t) len); free(b); return v;
        case 'y': b = unhex(t + 1, &len); v = janet_symbolv(b, (int32_t) len); free(b); return v;
        case 'k': b = unhex(t + 1, &len); v = janet_keywordv(b, (int32_t) len); free(b); return v;
        case 'b': { b = unhex(t + 1, &len); JanetBuffer *bf = janet_buffer((int32_t) len); janet_buffer_push_bytes(bf, b, (int32_t) len); free(b); return janet_wrap_buffer(bf); }
        case 't': case 'a': case 'd': case 'm': {
            char kind = t[0], open = t[1];
            JanetArray *items = janet_array(4);
            janet_gcroot(janet_wrap_array(items));
            while (*ix < ntok && strcmp(toks[*ix], ")") && strcmp(toks[*ix], "]") && strcmp(toks[*ix], "}")) {
                janet_array_push(items, build_term(toks, ntok, ix));
            }
            if (*ix < ntok)(*ix)++;
            if (kind == 't') {
                Janet *tb = janet_tuple_begin(items->count);
                memcpy(tb, items->data, sizeof(Janet) * (size_t) items->count);
                if (open == '[') janet_tuple_flag(tb) |= JANET_TUPLE_FLAG_BRACKETCTOR;
                v = janet_wrap_tuple(janet_tuple_end(tb));
            } else if (kind == 'a') {
                JanetArray *a = janet_array(items->count);
                for (int32_t i = 0; i < items->count; i++) janet_array_push(a, items->data[i]);
                v = janet_wrap_array(a);
            } else if (kind == 'd') {
                JanetKV *st = janet_struct_begin(items->count / 2);
                for (int32_t i = 0; i + 1 < items->count; i += 2) janet_struct_put(st, items->data[i], items->data[i + 1]);
                v = janet_wrap_struct(janet_struct_end(st));
            } else {
                JanetTable *tb = janet_table(items->count / 2);
                for (int32_t i = 0; i + 1 < items->count; i += 2) janet_table_put(tb, items->data[i], items->data[i + 1]);
                v = janet_wrap_table(tb);
            }
            janet_gcunroot(janet_wrap_array(items));
            return v;
        }
        default: return janet_wrap_nil();
    }
}

static void run_jdn(char **toks, int ntok, int roundtrip) {
    int ix = 0;
    Janet v = build_term(toks, ntok, &ix);
    janet_gcroot(v);
    Janet out;
    Janet a[2] = { janet_cstringv("%j"), v };
    if (pcall_any(fn_format, 2, a, &out)) {
        Txt m = {0};
        if (janet_checktype(out, JANET_STRING)) tx_msg(&m, janet_unwrap_string(out), (size_t) janet_string_length(janet_unwrap_string(out)));
        printf("refused %s\n", m.d ? m.d : "");
        free(m.d);
        janet_gcunroot(v);
        return;
    }
    janet_gcroot(out);
    const uint8_t *s = janet_unwrap_string(out);
    Txt hx = {0};
    tx_hex(&hx, s, (size_t) janet_string_length(s));
    if (!roundtrip) {
        printf("%s\n", hx.d ? hx.d : "-");
    } else {
        Janet back, eq;
        Janet b[1] = { out };
        Txt c = {0};
        if (pcall_any(fn_parse, 1, b, &back)) {
            if (janet_checktype(back, JANET_STRING)) tx_msg(&c, janet_unwrap_string(back), (size_t) janet_string_length(janet_unwrap_string(back)));
            printf("MISMATCH %s parse-error:%s\n", hx.d ? hx.d : "-", c.d ? c.d : "");
        } else {
            janet_gcroot(back);
            Janet e[2] = { back, v };
            int bad = pcall_any(fn_deepeq, 2, e, &eq);
            /* parse-all must give exactly one value too (nothing left over) */
            Janet all;
            int bad2 = pcall_any(fn_parse_all, 1, b, &all);
            int one = !bad2 && janet_checktype(all, JANET_ARRAY) && janet_unwrap_array(all)->count == 1;
            if (bad || !janet_truthy(eq) || !one) {
                canon(&c, back, 0);
                printf("MISMATCH %s back=%s%s\n", hx.d ? hx.d : "-", c.d ? c.d : "", one ? "" : " parse-all-count-not-1");
            } else {
                printf("ok %s\n", hx.d ? hx.d : "-");
            }
            janet_gcunroot(back);
        }
        free(c.d);
    }
    free(hx.d);
    janet_gcunroot(out);
    janet_gcunroot(v);
}

int main(void) {
    janet_init();
    core_env = janet_core_env(NULL);
    janet_gcroot(janet_wrap_table(core_env));
    fn_format = resolve("string/format");
    fn_parse = resolve("parse");
    fn_deepeq = resolve("deep=");
    fn_parse_all = resolve("parse-all");
    {
        /* janet_collect marks janet_vm.root_fiber unconditionally: give it one (we call the cfuns outside any fiber) */
        Janet f = janet_wrap_nil();
        janet_dostring(core_env, "(fn [] nil)", "c11", &f);
        JanetFiber *fb = janet_fiber(janet_unwrap_function(f), 64, 0, NULL);
        janet_gcroot(janet_wrap_fiber(fb));
        janet_vm.root_fiber = fb;
    }
    char *line = NULL;
    size_t cap = 0;
    ssize_t n;
    long count = 0;
    while ((n = getline(&line, &cap, stdin)) > 0) {
        while (n > 0 && (line[n - 1] == '\n' || line[n - 1] == '\r' || line[n - 1] == ' ')) line[--n] = 0;
        char **toks = malloc(sizeof(char *) * (size_t)(n / 2 + 2));
        int ntok = 0;
        for (char *q = strtok(line, " "); q; q = strtok(NULL, " ")) toks[ntok++] = q;
        if (ntok >= 2 && !strcmp(toks[0], "case")) {
            run_case(toks[1], ntok >= 3 ? toks[2] : "");
        } else if (ntok >= 2 && !strcmp(toks[0], "rt")) {
            run_jdn(toks + 1, ntok - 1, 1);
        } else if (ntok >= 2 && !strcmp(toks[0], "jdn")) {
            run_jdn(toks + 1, ntok - 1, 0);
        } else {
            printf("bad-op\n");
        }
        free(toks);
        if ((++count & 255) == 0) janet_collect();
        fflush(stdout);
    }
    janet_deinit();
    return 0;
}
