"""C11 generators: source texts (valid / damaged / random), schedules (chunkings x clone points x interleaved
queries) and JDN value terms.  Every random choice comes from the SplitMix64 `rng` handed in."""
import struct

WS = [b" ", b" ", b" ", b"\n", b"\n", b"\t", b"\r\n", b"\r", b"\x00", b"\v", b"\f", b"  ", b"\n  ", b"\r\n    "]
SYMCH = b"abcdefghijklmnopqrstuvwxyzABCXYZ0123456789!$%&*+-./:<=>?@^_"
SYMSTART = b"abcdefgxyzABC!$%&*<=>?^_/"
ESC1 = b"ntr0zfvab'?e\"\\"


def _utf8(rng):
    cp = rng.choice([0xE9, 0x3BB, 0x20AC, 0x1F600, 0x80, 0x7FF, 0x800, 0xFFFF, 0x10000, 0x10FFFF, rng.range(0x80, 0x10FFFF)])
    if 0xD800 <= cp <= 0xDFFF:
        cp = 0x3BB
    return chr(cp).encode("utf-8", "surrogatepass")


def number_token(rng):
    k = rng.below(16)
    if k == 0:
        return str(rng.range(-1000, 1000)).encode()
    if k == 1:
        return ("%d.%d" % (rng.range(-99, 99), rng.below(1000))).encode()
    if k == 2:
        return ("%de%d" % (rng.range(-99, 99), rng.range(-30, 30))).encode()
    if k == 3:
        return ("0x%x" % rng.below(1 << 40)).encode()
    if k == 4:
        return ("-0x%X.%x" % (rng.below(4096), rng.below(256))).encode()
    if k == 5:
        return ("%dr%s" % (rng.range(2, 36), "".join(rng.choice("01") for _ in range(rng.range(1, 6))))).encode()
    if k == 6:
        return ("1_000_%03d" % rng.below(1000)).encode()
    if k == 7:
        return rng.choice([b"1e308", b"1e309", b"-1e309", b"4.9e-324", b"2.2250738585072014e-308", b"1.7976931348623157e308", b"0.1", b"-0", b"-0.0",
                           b"9007199254740993", b"123456789012345678901234567890", b"+5", b".5", b"-.5e3", b"1.", b"0x1p4", b"1e+3", b"1E3", b"16r1F&3"])
    if k == 8:
        return ("%d:%s" % (rng.range(-5, 99999), rng.choice("sun"))).encode()
    if k == 9:
        return rng.choice([b"18446744073709551615:u", b"-9223372036854775808:s", b"9223372036854775808:s", b"-1:u", b"0x10:s", b"1.5:s", b"12:x", b"1:"])
    if k == 10:   # number-looking tokens that are not numbers -> symbols or errors
        return rng.choice([b"-", b"+", b".", b"-a", b"+x1", b".e", b"1z", b"0x", b"12abc", b"1e", b"--1", b"1..2", b"-e5", b"9x:s"])
    return ("%.17g" % struct.unpack("<d", struct.pack("<Q", rng.next()))[0]).encode().replace(b"nan", b"1").replace(b"inf", b"2")


SEP_FIXED = [b"0", b"10", b"1000000", b"0.5", b"0.05", b"0.000001", b"-0.0005e1", b"00.001", b"000123", b".001", b"-.05", b"1.0", b"100.001", b"1e5", b"1.5e-3",
             b"0x10", b"0xff.8", b"0x0.08", b"0x0.0001p16", b"-0x0.08p0", b"0x00ff", b"2r101", b"2r0.01", b"2r0.001&11", b"16r0.08", b"36rzz", b"16r1F&3",
             b"1:s", b"1000:u", b"0x10:s", b"-12:s", b"255:n", b"0.25:n", b"123456789012345678901234567890", b"9007199254740993", b"4.9e-324"]


def sep_literal(rng):
    """a numeric literal WITHOUT digit separators; mix of the generator's number tokens and fractions with zeros in front of the first
    significant digit (before and after the radix point) in the three base notations"""
    k = rng.below(4)
    if k == 0:
        return rng.choice(SEP_FIXED)
    if k == 1:
        t = number_token(rng)
        return t.replace(b"_", b"")
    base = rng.choice([10, 10, 16, 2, 8, 36])
    digs = "0123456789abcdefghijklmnopqrstuvwxyz"[:base]
    if base == 10:
        pre = ""
    elif base == 16 and rng.chance(1, 2):
        pre = "0x"
    else:
        pre = "%dr" % base
        if base == 10:
            pre = ""
    body = "0" * rng.range(0, 3) + rng.choice(["", "", digs[1:][rng.below(base - 1)]]) + "." + "0" * rng.range(0, 4) + \
        "".join(digs[rng.below(base)] for _ in range(rng.range(1, 4)))
    if body.startswith("."):
        body = rng.choice(["", "0"]) + body
    ex = ""
    if rng.chance(1, 3):
        if base == 10:
            ex = "e%d" % rng.range(-9, 9)
        elif pre == "0x":
            ex = "p%d" % rng.range(-9, 9)
        elif "e" not in digs:
            ex = "&%s" % digs[rng.below(base)]
    return (rng.choice(["", "", "-", "+"]) + pre + body + ex).encode()


def sep_variants(lit):
    """the literal with one `_` inserted at every position (also in front and at the end), and with `_` after every character"""
    out = [lit[:i] + b"_" + lit[i:] for i in range(0, len(lit) + 1)]
    out.append(b"".join(bytes([c]) + b"_" for c in lit))
    return out


def symbol_token(rng):
    n = rng.range(0, 6)
    s = bytes([rng.choice(SYMSTART)]) + bytes(rng.choice(SYMCH) for _ in range(n))
    if rng.chance(1, 8):
        s += _utf8(rng)
        if rng.chance(1, 2):
            s += bytes([rng.choice(SYMCH)])
    return s


def string_lit(rng, buffer=False):
    out = bytearray(b'@"' if buffer else b'"')
    for _ in range(rng.range(0, 10)):
        k = rng.below(12)
        if k < 5:
            out.append(rng.choice(b"abc xyz019;()[]{}#'`~,|@"))
        elif k == 5:
            out += b"\\" + bytes([rng.choice(ESC1)])
        elif k == 6:
            out += b"\\x%02x" % rng.below(256) if rng.chance(1, 2) else b"\\x%02X" % rng.below(256)
        elif k == 7:
            out += b"\\u%04x" % rng.choice([0, 0x41, 0x7f, 0x80, 0x7ff, 0x800, 0xffff, rng.below(0x10000)])
        elif k == 8:
            out += b"\\U%06x" % rng.choice([0, 0x10000, 0x10ffff, 0x1f600, rng.below(0x110000)])
        elif k == 9:
            out += rng.choice([b"\n", b"\r\n", b"\r", b"\t", b"\x00"])
        elif k == 10:
            out += _utf8(rng)
        else:
            out.append(rng.range(0x80, 0xff))
    out += b'"'
    return bytes(out)


def long_string(rng, buffer=False):
    nd = rng.choice([1, 1, 2, 2, 3, 5])
    d = b"`" * nd
    body = bytearray()
    nl = rng.choice([b"\n", b"\n", b"\r\n"])
    indent = rng.range(0, 6)
    if rng.chance(1, 2):
        body += nl
    for li in range(rng.range(0, 4)):
        if li or rng.chance(1, 2):
            body += b" " * rng.choice([indent, indent, indent, max(0, indent - 1), indent + 1, 0])
        for _ in range(rng.range(0, 6)):
            k = rng.below(10)
            if k < 6:
                body.append(rng.choice(b"abc xyz\\\"'#()"))
            elif k == 6 and nd > 1:
                body += b"`" * rng.range(1, nd - 1)
                body.append(rng.choice(b"ab "))
            elif k == 7:
                body.append(rng.range(0x80, 0xff))
            elif k == 8:
                body += b"\t"
            else:
                body.append(rng.choice(b" \x00q"))
        body += rng.choice([nl, nl, nl, b"\n", b"\r", b""])
    if body and body[-1:] == b"`":
        body += b" "
    return (b"@" if buffer else b"") + d + bytes(body) + d


def atom(rng):
    k = rng.below(20)
    if k < 4:
        return number_token(rng)
    if k < 8:
        return symbol_token(rng)
    if k < 10:
        return b":" + (symbol_token(rng) if rng.chance(7, 8) else b"")
    if k == 10:
        return rng.choice([b"nil", b"true", b"false", b"nil?", b"truex", b"fals", b"nilnil", b"@", b"@a", b"@1"])
    if k < 14:
        return string_lit(rng)
    if k == 14:
        return string_lit(rng, True)
    if k < 17:
        return long_string(rng)
    if k == 17:
        return long_string(rng, True)
    return symbol_token(rng)


def ws(rng, must=True):
    n = rng.range(1 if must else 0, 2)
    out = b"".join(rng.choice(WS) for _ in range(n))
    if rng.chance(1, 10):
        out += b"# " + bytes(rng.choice(b"abc ()[]\"`\\;\x80\xff\r") for _ in range(rng.range(0, 8))) + rng.choice([b"\n", b"\r\n"])
    return out


def form(rng, depth):
    k = rng.below(12)
    if depth <= 0 or k < 5:
        return atom(rng)
    if k == 5:
        return bytes([rng.choice(b"'~;,|")]) + (ws(rng, False) if rng.chance(1, 6) else b"") + form(rng, depth - 1)
    op, cl = rng.choice([(b"(", b")"), (b"[", b"]"), (b"{", b"}"), (b"@(", b")"), (b"@[", b"]"), (b"@{", b"}")])
    n = rng.range(0, 5)
    if op.endswith(b"{") and rng.chance(9, 10):
        n &= ~1
    items = [form(rng, depth - 1) for _ in range(n)]
    out = bytearray(op)
    out += ws(rng, False)
    for i, it in enumerate(items):
        out += it
        need = i + 1 < len(items)
        # tokens must be separated; strings / containers need no separator
        out += ws(rng, need) if (need or rng.chance(1, 3)) else b""
    out += cl
    return bytes(out)


def valid_text(rng):
    out = bytearray(ws(rng, False))
    for _ in range(rng.range(1, 4)):
        out += form(rng, rng.range(0, 4))
        out += ws(rng, True)
    if rng.chance(1, 3):
        out += form(rng, 1)   # last form without trailing separator: finished only by eof
    return bytes(out)


STRUCT = b"()[]{}@\"`'~;,|#\\ \n\r"


def damage(rng, t):
    t = bytearray(t)
    for _ in range(rng.range(1, 3)):
        k = rng.below(8)
        if not t:
            t += b"("
        i = rng.below(len(t))
        if k == 0:
            del t[i]
        elif k == 1:
            t.insert(i, rng.choice(STRUCT))
        elif k == 2:
            t[i] = rng.choice(STRUCT)
        elif k == 3:
            t = t[:i]
        elif k == 4:
            t.insert(i, rng.below(256))
        elif k == 5:
            t[i:i] = rng.choice([b"\\q", b"\\xZ1", b"\\u12", b"\\U110000", b"\\UFFFFFF", b"{1}", b"(]", b"[)", b"@", b"@ ", b"1a", b"\xc0\x80", b"a\xffb", b":\xe0\x80\x80",
                                 b"\xf8\x88\x80\x80\x80", b"\xed\xa0\x80", b"x\xc3", b"}", b"{:a}", b"``", b"`", b"@`", b"\r", b"\r\n", b"\n\r"])
        elif k == 6:
            t[i] = (t[i] + rng.choice([1, 0x80, 0xff])) & 0xff
        else:
            j = rng.below(len(t))
            t[i], t[j] = t[j], t[i]
    return bytes(t)


def random_bytes(rng):
    n = rng.range(0, 40)
    alpha = STRUCT * 3 + b"abc:019-+.e" * 2 + bytes(range(256))
    return bytes(rng.choice(alpha) for _ in range(n))


def text(rng):
    k = rng.below(10)
    if k < 5:
        return "valid", valid_text(rng)
    if k < 8:
        return "damaged", damage(rng, valid_text(rng))
    return "random", random_bytes(rng)


# ---------------------------------------------------------------------------------- schedules
QUERIES = "swtihpPDeGxx"


def _segments(n, cuts):
    pts = sorted(set([0, n] + [c for c in cuts if 0 < c < n]))
    return [(a, b) for a, b in zip(pts, pts[1:])]


def schedule_whole(n, flushes, op="c"):
    out = []
    for a, b in _segments(n, flushes):
        if a in flushes and a > 0:
            out.append("f")
        out.append("%s%d" % (op, b - a))
    if n in flushes or (0 in flushes):
        pass
    out += ["E", "D"]
    return ",".join(out)


def schedule_random(rng, n, flushes, clone_p=(1, 6), query_p=(1, 3)):
    """random chunk sizes / APIs, interleaved queries, clone points; flush ops exactly at the text's flush points"""
    out = []
    pos = 0
    fl = sorted(f for f in flushes if 0 < f < n)
    while pos < n:
        nxt = min([f for f in fl if f > pos] + [n])
        k = min(nxt - pos, rng.choice([1, 1, 2, 3, 5, 8, 13, 40, 1000]))
        out.append("%s%d" % (rng.choice("cCubj"), k))
        pos += k
        if pos in fl:
            out.append("f")
        while rng.chance(*query_p):
            out.append(rng.choice(QUERIES))
        if rng.chance(*clone_p):
            out.append(rng.choice("kK"))
            if rng.chance(1, 3):
                out.append("G")
    out += ["i", "t", "w", "s", "E"]
    if rng.chance(1, 5):
        out.append(rng.choice(["c1", "b1", "j1", "k", "s"]))   # after eof: parser is dead
    out.append("D")
    return ",".join(out)


def schedules(rng, n, flushes, count):
    s = [schedule_whole(n, flushes, "c"), schedule_whole(n, flushes, "b"), schedule_whole(n, flushes, "j"),
         ",".join((["i,t,w,s,c1"] * n)) + ",E,D" if not flushes else schedule_whole(n, flushes, "C")]
    for _ in range(max(0, count - len(s))):
        s.append(schedule_random(rng, n, flushes))
    # `g`: heap activity (forced collection, allocations, collection) between the moment an error is latched and parser/error, in the
    # byte-per-byte run and in every second random schedule (deterministic: no draw from the generator)
    s = [("g," + q) if (i == 1 or (i >= 4 and i % 2 == 1)) else q for i, q in enumerate(s)]
    s = [",".join(x for x in q.split(",") if x) for q in s]
    return s[:max(count, 4)]


# ---------------------------------------------------------------------------------- JDN value terms
BOUNDARY_DOUBLES = [0x0000000000000000, 0x8000000000000000, 0x0000000000000001, 0x000fffffffffffff, 0x0010000000000000, 0x7fefffffffffffff,
                    0xffefffffffffffff, 0x3ff0000000000000, 0x3ff0000000000001, 0x3fefffffffffffff, 0x4340000000000000, 0x4340000000000001,
                    0x433fffffffffffff, 0x3fb999999999999a, 0x3fd5555555555555, 0x41dfffffffc00000, 0xc1e0000000000000, 0x43e0000000000000,
                    0x4415af1d78b58c40, 0x3cb0000000000000, 0x0020000000000000, 0x7fe0000000000000, 0x4024000000000000, 0x408f400000000000]
BAD_DOUBLES = [0x7ff0000000000000, 0xfff0000000000000, 0x7ff8000000000000, 0xfff8000000000001]

SYMBOL_POOL = [b"a", b"foo-bar", b"+", b"-", b"*", b"<=", b"&", b"@", b"@x", b"x/y", b"a.b", b"_", b"$1", b"%", b"nil?", b"true!", b"e5", b"-e", b"+x", b".", b"..", b"x:", b"a:s",
               b"\xce\xbb", b"\xe2\x82\xac", b"\xf0\x9f\x98\x80", b"x\xc3\xa9y"]
# symbols whose printed form reads back as something else (or not at all) -- %j must refuse them or they must round-trip
TRICKY_SYMBOLS = [b"", b"nil", b"true", b"false", b"-1", b"+5", b".5", b"1", b"1a", b"0x10", b"-0x1", b"1e3", b"-1e3", b":a", b":", b"-1:s", b"5:u", b"a b", b"a(b", b"a\"", b"#x",
                  b"\xff", b"a\xc0\x80", b"\xe0\x80\x80", b"\xc3", b"a\x00b", b"a\nb", b"-.5", b"+.e", b"2r1", b"-2r1", b"1_0", b"-_1", b"+1_", b"-inf", b"-nan"]
KEYWORD_POOL = [b"", b"a", b"key", b"1", b"-1", b":", b"nil", b"a:b", b"\xce\xbb", b"@", b"x/y"]
TRICKY_KEYWORDS = [b"a b", b"\xff", b"a)", b"\xc0\x80", b"a\x00", b"(", b"\xf8\x88\x80\x80\x80"]


def _bytes_any(rng, n):
    k = rng.below(4)
    if k == 0:
        return bytes(rng.below(256) for _ in range(n))
    if k == 1:
        return bytes(rng.choice(b"\"\\\n\r\t\0\f\v\a\b\x1b'?`@ ~\x7f\x80\xff\x1f !") for _ in range(n))
    if k == 2:
        return bytes(rng.range(32, 126) for _ in range(n))
    return b"".join(_utf8(rng) for _ in range(n // 2 + 1))


def num_term(rng, allow_bad):
    k = rng.below(10)
    if k < 3:
        bits = rng.choice(BOUNDARY_DOUBLES)
    elif k < 5:
        bits = struct.unpack("<Q", struct.pack("<d", float(rng.range(-2**33, 2**33))))[0]
    elif k < 6 and allow_bad:
        bits = rng.choice(BAD_DOUBLES)
    elif k < 8:
        bits = struct.unpack("<Q", struct.pack("<d", rng.range(-10**6, 10**6) / rng.choice([1, 2, 3, 7, 10, 100, 1000, 3e10, 1e-20])))[0]
    else:
        bits = rng.next()
        if (bits >> 52) & 0x7ff == 0x7ff and not allow_bad:
            bits &= ~(1 << 62)
    d = struct.unpack("<d", struct.pack("<Q", bits))[0]
    return "n%016x:%s" % (bits, ("%.17g" % d))


def value_term(rng, depth, tricky, key=False):
    """returns (list of tokens, is_expected_printable)"""
    k = rng.below(16)
    if depth <= 0 or k < 8:
        a = rng.below(12)
        if a == 0:
            return [rng.choice(["N", "T", "F"]) if not key else rng.choice(["T", "F"])]
        if a < 3:
            return [num_term(rng, tricky and not key)]
        if a < 5:
            return ["s" + _bytes_any(rng, rng.range(0, 12)).hex()]
        if a == 5:
            return [("s" if key else "b") + _bytes_any(rng, rng.range(0, 12)).hex()]
        if a < 8:
            pool = SYMBOL_POOL + (TRICKY_SYMBOLS if tricky else [])
            return ["y" + rng.choice(pool).hex()]
        if a < 10:
            pool = KEYWORD_POOL + (TRICKY_KEYWORDS if tricky else [])
            return ["k" + rng.choice(pool).hex()]
        return ["s" + bytes([rng.below(256)]).hex()]
    kind = rng.choice(["t(", "t[", "d{"] if key else ["t(", "t[", "a[", "d{", "m{", "t(", "a["])
    close = {"(": ")", "[": "]", "{": "}"}[kind[1]]
    out = [kind]
    n = rng.range(0, 4)
    if kind[1] == "{":
        for _ in range(n):
            out += value_term(rng, depth - 1, tricky, key=True)
            out += value_term(rng, depth - 1, tricky, key=key)
    else:
        for _ in range(n):
            out += value_term(rng, depth - 1, tricky, key=key)
    out.append(close)
    return out


def nested_term(depth, kind="t("):
    close = {"(": ")", "[": "]", "{": "}"}[kind[1]]
    return [kind] * depth + ["n3ff0000000000000:1"] + [close] * depth


def mixed_nested(depth, rng=None):
    """containers of every kind nested `depth` deep: tuple > array > struct (as value under a keyword key) > table > bracket tuple > ...;
    with `rng`, every level also gets a few atom siblings"""
    kinds = ["t(", "a[", "d{", "m{", "t["]
    close = {"(": ")", "[": "]", "{": "}"}
    out, closers = [], []
    for i in range(depth):
        k = kinds[i % len(kinds)]
        out.append(k)
        if rng is not None and rng.chance(1, 2):
            if k[1] == "{":
                out += ["k" + bytes([97 + rng.below(26)]).hex() * 2, value_term(rng, 0, False)[0]]
            else:
                out += value_term(rng, 0, False)
        if k[1] == "{":
            out.append("k" + b"key".hex())
        closers.append(close[k[1]])
    out.append("s" + b"leaf".hex())
    for c in reversed(closers):
        out.append(c)
    return out


def schedule_solo(rng, n):
    """API-sequence fuzz: raw flushes and error taking without draining first (queued values are dropped, so the result depends on the
    schedule: compared with the model and checked for crashes only, never across schedules)"""
    out = ["R"] if rng.chance(1, 2) else []
    if n % 2:
        out.insert(0, "g")
    pos = 0
    while pos < n:
        k = min(n - pos, rng.choice([1, 2, 3, 5, 8, 13, 40]))
        out.append("%s%d" % (rng.choice("cCubj"), k))
        pos += k
        while rng.chance(1, 2):
            q = rng.choice("swtihpPDeGFtikKxIIL")
            if q == "I":
                q = "I%d" % rng.below(5)
            elif q == "L":
                q = rng.choice(["L%d" % rng.range(0, 40), "M%d" % rng.range(0, 30)])
            out.append(q)
    out += ["t", "i", "E", "t", "i", "D"]
    return ",".join(out)


# ---------------------------------------------------------------------------------- scratch-buffer reuse: sequences of complete forms
TINY = [b"\r", b"\n", b" ", b"x", b"\t", b"\x00"]


def tiny_long_string(rng):
    """long string / long buffer whose content is 0, 1 or 2 bytes from {CR, LF, space, plain byte}, or a short CR/LF-framed body"""
    nd = rng.choice([1, 1, 2, 3])
    d = b"`" * nd
    k = rng.below(8)
    if k == 0:
        body = b"" if nd > 1 else rng.choice(TINY)      # `` is an unfinished 2-delimiter string: avoid
    elif k < 4:
        body = rng.choice(TINY)
    elif k < 6:
        body = rng.choice(TINY) + rng.choice(TINY)
    else:
        body = rng.choice([b"\r\n", b"\n", b"\r", b""]) + bytes(rng.choice(b"ab `"[:3]) for _ in range(rng.range(0, 2))) + rng.choice([b"\r\n", b"\n", b"\r", b""])
    if not body:
        body = b"\r"
    return (b"@" if rng.chance(1, 4) else b"") + d + body + d


def filler_form(rng):
    """a complete form that leaves interesting bytes in the scratch buffer (LF / CR / backtick / space at low indices)"""
    k = rng.below(9)
    pre = rng.choice([b"a", b"\r", b"\n", b" ", b"ab", b""])
    if k == 0:
        return b"`" + pre + rng.choice([b"\n", b"\r\n", b"\r"]) + rng.choice([b"", b"b", b"\n", b" c"]) + b"`" if pre or True else b"`a`"
    if k == 1:
        return b'"' + rng.choice([b"a", b"", b"\\r", b"\\n"]) + rng.choice([b"\\n", b"\\r", b"\\n\\n", b"\\r\\n"]) + rng.choice([b"", b"b", b"\\n"]) + b'"'
    if k == 2:
        return b"``" + rng.choice([b"\n\n", b"\r\n\r\n", b"a`\n", b"\n`\n", b" \n "]) + b"``"
    if k == 3:
        return symbol_token(rng)
    if k == 4:
        return b"# " + rng.choice([b"c\r", b"\r", b"x"]) + b"\n" + symbol_token(rng)
    if k == 5:
        return b"(" + symbol_token(rng) + b" " + string_lit(rng) + b")"
    if k == 6:
        return number_token(rng)
    if k == 7:
        return b'@"' + rng.choice([b"\\n", b"a\\n", b"\\r\\n"]) + b'"'
    return long_string(rng)


def error_form(rng):
    """a self-contained erroneous form: exactly one error, reported when the form (or the separator after it) is read, nothing of it
    left open -- the client takes the error (`parser/error` flushes) and goes on with the next form"""
    k = rng.below(7)
    if k == 0:
        return rng.choice([b"1abc", b"9z", b"0x", b"12e", b"7up.and.more"])
    if k == 1:
        return b":k" + rng.choice([b"\xff", b"\xc3", b"\xe0\x80\x80"])
    if k == 2:
        return rng.choice([b"sy\xfe", b"\xff\xfe\xfd", b"a\xc0\xaf"])
    if k == 3:
        return b")"
    if k == 4:
        return b"]"
    if k == 5:
        return b"}"
    return rng.choice([b"3long-token-that-fills-the-scratch-buffer", b"1\xe9"])


def form_sequence(rng):
    """list of complete top-level forms (each followed by one separator when joined); later forms tend to be shorter than earlier ones;
    one form in three sequences is erroneous (error taken, parser flushed, later forms must parse as in a fresh parser)"""
    forms = []
    n = rng.range(2, 7)
    for i in range(n):
        if rng.chance(1 + i, n + 1):
            forms.append(tiny_long_string(rng))
        else:
            forms.append(filler_form(rng))
    if rng.chance(1, 3):
        forms.insert(rng.below(len(forms) + 1), error_form(rng))
    forms.append(tiny_long_string(rng))
    return forms


def join_forms(forms, sep=b" "):
    return b"".join(f + sep for f in forms)
