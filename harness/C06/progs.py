"""C06: program representation, enumeration / random generation, rendering (janet source, model script) and the
DIRECT ORACLE of the property on an implementation event log (independent of the Lean model).

program = {"limits": [cap, ...], "fibers": [[op, ...], ...]}     fiber 0 = main (spawns 1..n-1 in order, then its ops)
          optional "sups": [None | chan, ...] per fiber: fiber f is spawned by (ev/go fn nil c<chan>), the channel is its
          supervisor: when f finishes the loop pushes (:ok f nil) / (:error f nil) into it (logged as 90000 + 10 f + err)
op      = ("g", c, x) | ("t", c) | ("c", c) | ("y",) | ("y", ms) | ("s", [clause, ...]) | ("r", [clause, ...])
          | ("x", g)  (ev/cancel fiber-g "cancelled"), g != own fiber
          | ("d", ms, n)  (ev/with-deadline ms/1000 <the next n ops of this fiber>)
Durations: the harness clock advances 16 ms per read; a non-zero duration is 16*m + u with u in 1..15 unique in the
program, so that no two timers ever share a deadline (the heap's tie-breaking is not modelled).
clause  = ("t", c) | ("g", c, x)
Item values x are unique per program (they are the ghost ids).
          optional "heap": k   the value of every give is a FRESH heap object carrying the id x in its content
                               (1 string, 2 buffer, 3 array, 4 tuple, 5 = kind chosen per value: x mod 4 + 1), made by the
                               harness cfun (vpay kind x) inside a call frame that is gone when the operation returns, so
                               that a queued value is referenced by the channel only
          optional "gc": m     bit 0: a collection is forced at every log point (before every operation, after every
                               result, before every loop iteration, at the end); bit 1: at every interpreter safepoint
"""
HEAP_NAMES = {0: "int", 1: "str", 2: "buf", 3: "arr", 4: "tup", 5: "mix"}


def keep_opts(src, dst):
    for k in ("sups", "heap", "gc"):
        if src.get(k):
            dst[k] = list(src[k]) if k == "sups" else src[k]
    return dst

import itertools
import re


# ------------------------------------------------------------------------------------------------ values / rendering
def assign_values(prog):
    """Give every give op / give clause a unique value  f*1000 + i*10 + k + 1; make timer durations distinct mod 16."""
    out = []
    u = [0]

    def dur(ms):
        if ms == 0:
            return 0
        u[0] += 1
        return (ms // 16) * 16 + u[0] if u[0] <= 15 else 0
    for f, ops in enumerate(prog["fibers"]):
        fo = []
        ends = []
        for i, op in enumerate(ops):
            if op[0] == "g":
                fo.append(("g", op[1], f * 1000 + i * 10 + 1))
            elif op[0] in "sr":
                cls = []
                for k, cl in enumerate(op[1]):
                    cls.append(("g", cl[1], f * 1000 + i * 10 + k + 1) if cl[0] == "g" else cl)
                fo.append((op[0], cls))
            elif op[0] == "y" and len(op) > 1:
                fo.append(("y", dur(op[1])))
            elif op[0] == "d":
                # the body is the next n ops, clamped to the fiber's end and to the enclosing body
                end = min([i + 1 + op[2], len(ops)] + [e for e in ends if e > i])
                ends.append(end)
                fo.append(("d", dur(op[1] if op[1] else 1), end - i - 1))
            else:
                fo.append(op)
        out.append(fo)
    return keep_opts(prog, {"limits": list(prog["limits"]), "fibers": out})


def sup_of(prog, f):
    s = prog.get("sups") or []
    return s[f] if f < len(s) else None


SUP_OP = 10 ** 6     # "operation index" of a fiber's supervisor event: after all its operations


def sup_event(f, err):
    return 90000 + 10 * f + (1 if err else 0)


def clause_tok(cl):
    return "t%d" % cl[1] if cl[0] == "t" else "g%d:%d" % (cl[1], cl[2])


def op_tok(op):
    k = op[0]
    if k == "g":
        return "g%d:%d" % (op[1], op[2])
    if k == "t":
        return "t%d" % op[1]
    if k == "c":
        return "c%d" % op[1]
    if k == "y":
        return "y" if len(op) == 1 or op[1] == 0 else "y%d" % op[1]
    if k == "x":
        return "x%d" % op[1]
    if k == "d":
        return "d%d:%d" % (op[1], op[2])
    return k + ":" + ",".join(clause_tok(c) for c in op[1])


def model_line(prog, rng, cfg="gen"):
    lim = ",".join(str(x) for x in prog["limits"]) or "-"
    r = ",".join(str(x) for x in rng) or "-"
    return "prog %s %s %s " % (cfg, lim, r) + " / ".join(" ".join(fiber_toks(prog, f)) for f in range(len(prog["fibers"])))


def fiber_toks(prog, f):
    sv = sup_of(prog, f)
    return (["S%d" % sv] if sv is not None else []) + [op_tok(o) for o in prog["fibers"][f]]


def short(prog):
    opts = (" heap=%s" % HEAP_NAMES[prog["heap"]] if prog.get("heap") else "") + (" gc=%d" % prog["gc"] if prog.get("gc") else "")
    return "caps=%s%s | " % (",".join(map(str, prog["limits"])), opts) + " / ".join(" ".join(fiber_toks(prog, f)) for f in range(len(prog["fibers"])))


def value_janet(x, heap):
    if not heap:
        return "%d" % x
    return "(vpay %d %d)" % (heap if heap != 5 else (x // 10 + x // 1000) % 4 + 1, x)


def clause_janet(cl, heap=0):
    return "c%d" % cl[1] if cl[0] == "t" else "[c%d %s]" % (cl[1], value_janet(cl[2], heap))


def op_janet(op, heap=0):
    k = op[0]
    if heap > 0 and (k == "g" or k in "sr"):
        # the temporaries (the fresh payload, the clause tuple) live in a call frame that is popped when the operation
        # returns: afterwards only the channel refers to a queued value
        return "((fn [] %s))" % op_janet(op, -heap)
    heap = abs(heap)
    if k == "g":
        return "(ev/give c%d %s)" % (op[1], value_janet(op[2], heap))
    if k == "t":
        return "(ev/take c%d)" % op[1]
    if k == "c":
        return "(ev/chan-close c%d)" % op[1]
    if k == "y":
        return "(ev/sleep %s)" % ("0" if len(op) == 1 else "%.3f" % (op[1] / 1000.0))
    if k == "x":
        return "(do (ev/cancel (fibs %d) \"cancelled\") nil)" % op[1]
    return "(%s %s)" % ("ev/select" if k == "s" else "ev/rselect", " ".join(clause_janet(c, heap) for c in op[1]))


def janet_source(prog):
    heap = prog.get("heap", 0)
    uses_fibs = any(op[0] == "x" for ops in prog["fibers"] for op in ops)
    lines = ["(defn vprog []"] + (["  (def fibs @{0 (fiber/current)})"] if uses_fibs else [])
    if prog.get("gc"):
        lines.append("  (vopt %d)" % prog["gc"])
    for c, cap in enumerate(prog["limits"]):
        lines.append("  (def c%d (vchan (ev/chan %d) %d))" % (c, cap, c))

    def body(f, ops, i0=0):
        out, i = [], 0
        while i < len(ops):
            op = ops[i]
            if op[0] == "d":
                n = op[2]
                inner = body(f, ops[i + 1:i + 1 + n], i0 + i + 1)
                out.append("(vb %d %d) (ev/with-deadline %.3f %s nil)" % (f, i0 + i, op[1] / 1000.0, inner))
                i += 1 + n
            else:
                out.append("(vb %d %d) (ve %d %d %s)" % (f, i0 + i, f, i0 + i, op_janet(op, heap)))
                i += 1
        return " ".join(out)
    for f in range(1, len(prog["fibers"])):
        sv = sup_of(prog, f)
        spawn = "(vreg (ev/go (fn [] %s nil)%s) %d)" % (body(f, prog["fibers"][f]), "" if sv is None else " nil c%d" % sv, f)
        # the table of fibers exists for ev/cancel only; without it a spawned fiber is referenced by the event loop alone
        lines.append("  (put fibs %d %s)" % (f, spawn) if uses_fibs else "  " + spawn)
    lines.append("  " + body(0, prog["fibers"][0]) + " nil)")
    return "\n".join(lines) + "\n"


STANDALONE_PRELUDE = """# standalone replay: run with the janet binary; a hang shows as the process never exiting
(defn vchan [c k] c) (defn vreg [f k] f) (defn vb [f i] nil)
(defn vopt [m] (setdyn :vgc m) nil)   # forced collections: here only at every operation result
(defn vpay [kind id]   # a fresh heap value carrying the id in its content
  (def text (string "P" id ":" (string/repeat "x" 40)))
  (case kind 1 text 2 (buffer text) 3 @[id text] 4 [id text] id))
(defn ve [f i x] (if (dyn :vgc) (gccollect))
  (eprintf "fiber %d op %d -> %j" f i (if (abstract? x) :channel (if (and (tuple? x) (abstract? (get x 1))) [(x 0) :channel ;(drop 2 x)] x))) x)
"""


def janet_standalone(prog):
    return STANDALONE_PRELUDE + janet_source(prog) + "(vprog)\n"


# ------------------------------------------------------------------------------------------------ enumeration
def clause_alphabet(nch):
    return [("t", c) for c in range(nch)] + [("g", c, 0) for c in range(nch)]


def op_alphabet(nch, rselect=False, max_clauses=2):
    ops = []
    for c in range(nch):
        ops += [("g", c, 0), ("t", c), ("c", c)]
    ops.append(("y",))
    cl = clause_alphabet(nch)
    for n in range(1, max_clauses + 1):
        for cs in itertools.permutations(cl, n):
            if len(set(c[1] for c in cs)) != n:
                continue   # one channel per clause: a select naming a channel twice can match itself (separate sweep)
            ops.append(("s", list(cs)))
            if rselect and n >= 2:
                ops.append(("r", list(cs)))
    return ops


def shapes(total, max_fibers=4, max_ops=4):
    """ops-per-fiber tuples (main first; main may have 0 ops, spawned fibers at least 1) with the given total"""
    out = []
    for nf in range(1, max_fibers + 1):
        for counts in itertools.product(range(0, max_ops + 1), repeat=nf):
            if sum(counts) != total:
                continue
            if any(c == 0 for c in counts[1:]):
                continue
            out.append(counts)
    return out


def family_size(nch, total, caps=(0, 1, 2), **kw):
    a = len(op_alphabet(nch, **kw))
    return len(shapes(total)) * (a ** total) * (len(caps) ** nch)


def family_nth(nch, total, index, caps=(0, 1, 2), **kw):
    """index -> program, a bijection from range(family_size) (mixed radix)"""
    alpha = op_alphabet(nch, **kw)
    sh = shapes(total)
    index, si = divmod(index, len(sh))
    limits = []
    for _ in range(nch):
        index, ci = divmod(index, len(caps))
        limits.append(caps[ci])
    flat = []
    for _ in range(total):
        index, oi = divmod(index, len(alpha))
        flat.append(alpha[oi])
    fibers, k = [], 0
    for n in sh[si]:
        fibers.append(flat[k:k + n])
        k += n
    return assign_values({"limits": limits, "fibers": fibers})


def random_program(rng, max_fibers=4, max_ops=4, max_ch=3, max_cap=2, max_clauses=3, same_chan=False, timing=False):
    nch = rng.range(1, max_ch)
    nf = rng.range(2, max_fibers)
    limits = [rng.range(0, max_cap) for _ in range(nch)]
    fibers = []
    for f in range(nf):
        n = rng.range(0 if f == 0 else 1, max_ops)
        ops = []
        for k in range(n):
            r = rng.below(100)
            c = rng.below(nch)
            if timing and rng.chance(1, 4):
                t = rng.below(10)
                if t < 4:
                    ops.append(("x", rng.choice([g for g in range(nf) if g != f])))
                elif t < 7:
                    ops.append(("y", 16 * rng.below(4)))
                else:
                    ops.append(("d", 16 * rng.range(0, 3), rng.range(1, 3)))
                continue
            if r < 24:
                ops.append(("g", c, 0))
            elif r < 48:
                ops.append(("t", c))
            elif r < 56:
                ops.append(("c", c))
            elif r < 66:
                ops.append(("y",))
            else:
                ncl = rng.range(1, max_clauses)
                cls = []
                chans = list(range(nch))
                rng.shuffle(chans)
                for j in range(ncl):
                    if same_chan:
                        cc = rng.below(nch)
                    elif j < nch:
                        cc = chans[j]
                    else:
                        break
                    cls.append(("t", cc) if rng.chance(1, 2) else ("g", cc, 0))
                ops.append(("r" if r >= 84 else "s", cls))
        fibers.append(ops)
    return assign_values({"limits": limits, "fibers": fibers})


def supervised_program(rng):
    """random program (no cancel / deadline) in which some spawned fibers have a supervisor channel; the main fiber (and
    others) take from / close the supervisor channels"""
    prog = random_program(rng, max_fibers=4, max_ops=4, max_ch=3, max_cap=2, max_clauses=2)
    nf, nch = len(prog["fibers"]), len(prog["limits"])
    sups = [None] + [(rng.below(nch) if rng.chance(2, 3) else None) for _ in range(nf - 1)]
    used = sorted(set(c for c in sups if c is not None))
    fibers = [list(ops) for ops in prog["fibers"]]
    for c in used:     # somebody listens to / closes the supervisor channel
        r = rng.below(10)
        f = rng.below(nf)
        op = ("t", c) if r < 6 else ("c", c) if r < 8 else ("s", [("t", c)])
        fibers[f].insert(rng.below(len(fibers[f]) + 1), op)
    return assign_values({"limits": prog["limits"], "fibers": fibers, "sups": sups})


def ringwrap_program(rng):
    """A pump fiber sends `pre` values through channel 0 by itself (give / take in runs no longer than the capacity), so
    that the items ring buffer's head and tail walk round (the ring has 4 slots at first, 10 after the first resize), then
    fills the channel to its capacity and does a select with a give clause on it (or a plain give); other fibers take /
    give / select at random.  Programs are long (up to ~30 ops in the pump) but use 1-2 channels."""
    nch = rng.range(1, 2)
    limits = [rng.range(1, 3)] + [rng.range(0, 2) for _ in range(nch - 1)]
    lim = limits[0]
    nf = rng.range(2, 3)
    pump_at = rng.below(nf)
    fibers = []
    for f in range(nf):
        ops = []
        if f == pump_at:
            pre = rng.range(0, 11)
            while pre > 0:
                run = min(pre, rng.range(1, lim))
                ops += [("g", 0, 0)] * run + [("t", 0)] * run
                pre -= run
            ops += [("g", 0, 0)] * lim
            if rng.chance(4, 5):
                cls = [("g", 0, 0)]
                if nch > 1 and rng.chance(1, 2):
                    cls.insert(rng.below(2), ("t", 1) if rng.chance(1, 2) else ("g", 1, 0))
                ops.append(("r" if rng.chance(1, 4) else "s", cls))
            else:
                ops.append(("g", 0, 0))
            if rng.chance(1, 2):
                ops.append(("t", nch - 1))
            if rng.chance(2, 3):
                ops += [("t", 0)] * rng.range(1, lim + 1)     # drain: what is handed out after the ring went round
        else:
            for _ in range(rng.range(1, 4)):
                r = rng.below(10)
                c = rng.below(nch)
                if r < 4:
                    ops.append(("t", c))
                elif r < 6:
                    ops.append(("g", c, 0))
                elif r < 7:
                    ops.append(("y",))
                else:
                    ops.append(("s", [("t", c)] if rng.chance(1, 2) else [("g", c, 0)]))
        fibers.append(ops)
    return assign_values({"limits": limits, "fibers": fibers})


def waiters_program(rng):
    """Several fibers that wait on one or two small channels again and again (take loops, give loops on a full / capacity-0
    channel, selects), served by the main fiber between sleeps: the pending-reader / pending-writer rings are walked round
    (4 slots at first) with a few entries pending at any time.  Used with heap payloads and forced collections: the waiting
    fibers are referenced by the channels' pending queues only."""
    nch = rng.range(1, 2)
    limits = [rng.range(0, 1) for _ in range(nch)]
    nf = rng.range(3, 6)
    fibers = [[]]
    takers = givers = 0
    for f in range(1, nf):
        c = rng.below(nch)
        n = rng.range(1, 4)
        r = rng.below(10)
        if r < 6:
            fibers.append([("t", c)] * n)
            takers += n
        elif r < 8:
            fibers.append([("g", c, 0)] * n)
            givers += n
        else:
            fibers.append([("s", [("t", c)])] * n if rng.chance(1, 2) else [("s", [("g", c, 0)])] * n)
    main = [("y",)]
    for _ in range(rng.range(3, 12)):
        r = rng.below(10)
        c = rng.below(nch)
        main.append(("g", c, 0) if r < 5 else ("t", c) if r < 7 else ("y",))
    fibers[0] = main
    return assign_values({"limits": limits, "fibers": fibers})


def pump_sequences(cap, n):
    """every give/take sequence of length n that ONE fiber runs on one channel of capacity `cap` without ever waiting
    (the number of queued values stays within 0..cap), as strings over g/t"""
    out = []

    def go(prefix, count):
        if len(prefix) == n:
            out.append(prefix)
            return
        if count < cap:
            go(prefix + "g", count + 1)
        if count > 0:
            go(prefix + "t", count - 1)
    go("", 0)
    return out


def pump_program(cap, seq, heap=5, gc=1, tail=None):
    """single-fiber pump `seq` on channel 0 (capacity cap), then optionally `tail` ops; a second fiber if tail2 given"""
    ops = [("g", 0, 0) if ch == "g" else ("t", 0) for ch in seq] + list(tail or [])
    return assign_values({"limits": [cap], "fibers": [ops], "heap": heap, "gc": gc})


def with_heap(prog, heap, gc):
    d = dict(prog)
    d["heap"], d["gc"] = heap, gc
    return d


# ------------------------------------------------------------------------------------------------ log parsing
STATE_RE = re.compile(r"\|c(\d+) i=(\S*) r=(\S*) w=(\S*) X=(\d)(?: n=(\d+)/(\d)/(\d+))?")


def parse_pending(s):
    out = []
    for e in s.split(","):
        if e:
            m = re.match(r"(-?\d+)\.(\d+)([RWrwC])$", e)
            out.append((int(m.group(1)), int(m.group(2)), m.group(3)))
    return out


def parse_state(s):
    """'|c0 i=.. r=.. w=.. X=0|q=..|t=..|s=..[|st=..|lc=n]' -> dict"""
    st = {"chans": {}, "q": [], "t": [], "s": [], "st": None, "lc": None, "z": []}
    for m in STATE_RE.finditer(s):
        st["chans"][int(m.group(1))] = {
            "items": [x for x in m.group(2).split(",") if x],
            "r": parse_pending(m.group(3)), "w": parse_pending(m.group(4)), "closed": m.group(5) == "1",
            "cfc": (int(m.group(6)), m.group(7) == "1", int(m.group(8))) if m.group(6) is not None else None}
    for part in s.split("|"):
        if part.startswith("q="):
            st["q"] = [x for x in part[2:].split(",") if x]
        elif part.startswith("t="):
            st["t"] = [x for x in part[2:].split(",") if x]
        elif part.startswith("s="):
            st["s"] = [int(x) for x in part[2:].split(",") if x]
        elif part.startswith("z="):
            st["z"] = [int(x) for x in part[2:].split(",") if x]
        elif part.startswith("st="):
            st["st"] = part[3:].split(",")
        elif part.startswith("lc="):
            st["lc"] = int(part[3:])
    return st


def parse_log(log):
    """log text (events separated by ';') -> list of events
       ('L', state) ('B', f, i, state) ('E', f, i, result) ('F', state)"""
    ev = []
    for e in log.split(";"):
        if not e:
            continue
        if e[0] == "L":
            ev.append(("L", parse_state(e[1:])))
        elif e[0] == "F":
            ev.append(("F", parse_state(e[1:])))
        elif e[0] == "B":
            head, _, rest = e.partition("|")
            _, f, i = head.split()
            ev.append(("B", int(f), int(i), parse_state("|" + rest)))
        elif e[0] == "E":
            _, f, i, res = e.split(" ", 3)
            ev.append(("E", int(f), int(i), res))
    return ev


def live(entry, st):
    f, s, _ = entry
    return 0 <= f < len(st["s"]) and st["s"][f] == s


# ------------------------------------------------------------------------------------------------ direct oracle
# genuine, unrepaired behaviours of ev/select, reported under these exact signatures (known_findings.json)
LOSING_GIVE = "select-losing-give-clause-value-delivered"
SELF_MATCH = "select-self-match-leaves-registration"
KNOWN_KINDS = (LOSING_GIVE, SELF_MATCH)

def oracle(prog, verdict, log):
    """Check the statements of C06 on one implementation event log.  Returns (list of failures, stats).
    failure = (kind, text)."""
    fails = []
    stats = {"gives_immediate": 0, "gives_blocked": 0, "takes_ready": 0, "takes_waited": 0, "selects_immediate": 0,
             "selects_waited": 0, "close_wakes": 0, "received": 0, "nil_results": 0, "losing_give_delivered": 0,
             "deadlocks": 0, "errors": 0, "stale_tasks_in_runq": 0, "cancelled_fibers": 0, "kept_checks": 0,
             "kept_checks_select": 0, "select_gives_immediate": 0,
             "supervised_fibers": 0, "supervisor_events": 0, "count_full_capacity_checks": 0, "heap_values_received": 0}
    try:
        ev = parse_log(log)
    except Exception as e:  # malformed log is a result too
        return [("malformed-log", repr(e))], stats
    fibers = prog["fibers"]
    timing = any(op[0] in "xd" for ops in fibers for op in ops)   # cancellation: a waiter may die instead of being woken
    # who offers which value on which channel
    offered = {}   # value -> (fiber, opidx, chan, is_select)
    for f, ops in enumerate(fibers):
        for i, op in enumerate(ops):
            if op[0] == "g":
                offered[op[2]] = (f, i, op[1], False)
            elif op[0] in "sr":
                for cl in op[1]:
                    if cl[0] == "g":
                        offered[cl[2]] = (f, i, cl[1], True)
    for f in range(len(fibers)):
        sv = sup_of(prog, f)
        if sv is not None:
            for err in (0, 1):
                offered[sup_event(f, err)] = (f, SUP_OP, sv, False)
    begun = set((f, SUP_OP) for f in range(len(fibers)))   # (f, i) whose B was seen; (f, SUP_OP): the supervisor event of f
    closed_at = {}           # chan -> True once a close op began
    received_vals = {}       # value -> (taker fiber, opidx)
    recv_order = {}          # (giver, taker, chan) -> [values in receive order]
    open_op = {}             # fiber -> (i, B-state, index in ev)
    expect_close = {}        # fiber -> (expected result, chan)  set by a close on a live waiter
    select_result = {}       # (f, i) -> result
    select_waited_checked = set()
    inflight = {}            # fiber -> (item, where): a live task carrying an item for it was seen in the run queue
    same_chan_select = any(op[0] in "sr" and len(set(cl[1] for cl in op[1])) != len(op[1]) for ops in fibers for op in ops)

    def note_inflight(st, where):
        for q in st["q"]:
            parts = q.split(":")
            try:
                qf, exp = int(parts[0]), int(parts[-1])
            except ValueError:
                continue
            val = parts[1:-2]
            item = val[0] if len(val) == 1 and val[0].isdigit() else val[2] if len(val) == 3 and val[0] == "take" else None
            if item is not None and qf < len(st["s"]) and st["s"][qf] == exp:
                inflight[qf] = (item, where)
    last_state = None

    def check_state(st, where):
        for zf in st.get("z", []):
            regs = [(c, q) for c, ch in st["chans"].items() for q in "rw" for (pf, ps, m) in ch[q] if pf == zf]
            fails.append(("waiting-fiber-freed", "%s: fiber %d was freed by a collection although it had not finished%s - the channel's mark "
                          "function did not keep its waiting fiber alive; a later give / take / close would wake a dangling fiber" % (
                              where, zf, " (it is registered in the pending queues %r)" % regs if regs else "")))
        for c, ch in st["chans"].items():
            bad = [x for x in ch["items"] if x.startswith("?")]
            if bad:
                fails.append(("queued-value-freed", "%s: channel %d holds %r in its item queue %r: a queued heap value referenced only by the "
                              "channel was freed by a collection (the channel's mark function did not visit it)" % (where, c, bad, ch["items"])))
            if ch.get("cfc") is not None:
                # ev/count = number of queued items, ev/full = count >= capacity, ev/capacity = the capacity given to ev/chan
                stats["count_full_capacity_checks"] += 1
                want = (len(ch["items"]), len(ch["items"]) >= prog["limits"][c], prog["limits"][c])
                if ch["cfc"] != want:
                    fails.append(("count-full-capacity", "%s: channel %d: (ev/count, ev/full, ev/capacity) = %r, expected %r (items %r)" % (
                        where, c, ch["cfc"], want, ch["items"])))
            lr = [e for e in ch["r"] if live(e, st)]
            lw = [e for e in ch["w"] if live(e, st)]
            if lr and ch["items"] and not ch["closed"]:
                fails.append(("waiting-reader-with-items", "%s: channel %d has a live pending reader %r and items %r" % (where, c, lr, ch["items"])))
            if lr and lw:
                fails.append(("reader-and-writer-both-waiting", "%s: channel %d has live reader %r and live writer %r" % (where, c, lr, lw)))

    def check_kept(st, where):
        """registration_kept on the implementation: a fiber whose operation began and has not returned, and whose sched_id
        is still the one it had when the operation began (it has not been scheduled since), is registered - entries
        carrying that sched_id - exactly as its operation says: reader/writer, channel and mode; nothing lost, nothing
        added.  (Selects naming a channel twice are the known finding SELF_MATCH and are skipped, as in the theorem.)"""
        for f, (i, bst, bidx) in open_op.items():
            op = fibers[f][i]
            if f >= len(st["s"]) or f >= len(bst["s"]) or st["s"][f] != bst["s"][f]:
                continue
            k = op[0]
            if k == "g":
                if bst["chans"][op[1]]["closed"]:
                    continue     # the give raised: the fiber is dead, not suspended
                want = {("w", op[1], "W")}
            elif k == "t":
                want = {("r", op[1], "R")}
            elif k in "sr":
                # a select that is suspended: at its beginning no clause was ready (capacity / blocking rule of select)
                if bidx not in select_waited_checked:
                    select_waited_checked.add(bidx)
                    for cl in op[1]:
                        bch = bst["chans"][cl[1]]
                        blr = [x for x in bch["r"] if live(x, bst)]
                        ready = bch["closed"] or (bool(bch["items"]) if cl[0] == "t" else (len(bch["items"]) < prog["limits"][cl[1]] or bool(blr)))
                        if ready:
                            fails.append(("select-blocking-rule", "fiber %d op %d: select %s waited although its clause %s was ready "
                                          "(channel %d: items %r, limit %d, live readers %d, closed %s)" % (
                                              f, i, op_tok(op), clause_tok(cl), cl[1], bch["items"], prog["limits"][cl[1]], len(blr), bch["closed"])))
                if len(set(cl[1] for cl in op[1])) != len(op[1]):
                    continue
                want = set(("r", cl[1], "r") if cl[0] == "t" else ("w", cl[1], "w") for cl in op[1])
                stats["kept_checks_select"] += 1
            elif k == "y":
                want = set()
            else:
                continue
            have = set((q, c, m) for c, ch in st["chans"].items() for q in "rw" for (pf, ps, m) in ch[q]
                       if pf == f and ps == st["s"][f])
            stats["kept_checks"] += 1
            if have != want:
                fails.append(("registration-not-kept", "%s: fiber %d suspended in op %d (%s) with sched_id %d unchanged is registered as %r, "
                              "its operation says %r" % (where, f, i, op_tok(op), st["s"][f], sorted(have), sorted(want))))

    def receive(f, i, c, x, idx):
        stats["received"] += 1
        if prog.get("heap"):
            stats["heap_values_received"] += 1
        if x in ("?freed", "?corrupt"):
            fails.append(("received-not-given", "fiber %d op %d received from channel %d %s: the value was given while it was a live heap "
                          "object, sat in the channel's item queue, and the channel did not keep it alive across a collection - what the "
                          "taker gets is not what was given" % (f, i, c, "an object the collector has already freed (dangling reference)"
                                                               if x == "?freed" else "an object whose content is not the payload that was given")))
            return
        try:
            v = int(x)
        except ValueError:
            fails.append(("received-not-given", "fiber %d op %d received %r which is not an item" % (f, i, x)))
            return
        if v not in offered:
            fails.append(("received-not-given", "fiber %d op %d received %d, never given" % (f, i, v)))
            return
        g, gi, gc, is_sel = offered[v]
        if gc != c:
            fails.append(("received-not-given", "fiber %d op %d received %d on channel %d but it was given on channel %d" % (f, i, v, c, gc)))
        if (g, gi) not in begun:
            fails.append(("received-not-given", "fiber %d op %d received %d before its give began" % (f, i, v)))
        if v in received_vals:
            fails.append(("received-twice", "value %d received by fiber %d op %d and again by fiber %d op %d" % ((v,) + received_vals[v] + (f, i))))
        received_vals[v] = (f, i)
        recv_order.setdefault((g, f, c), []).append((gi, v))

    cancelled = {}           # fiber -> index of the E event of the ev/cancel that hit it
    completed = set()        # fibers whose operation result was just logged: running on, or finished - never registered
    for idx, e in enumerate(ev):
        if completed and e[0] in "BLF":
            stx = e[3] if e[0] == "B" else e[1]
            for c0, ch0 in stx["chans"].items():
                for cf in sorted(completed):
                    mine = [x for x in ch0["r"] + ch0["w"] if x[0] == cf and live(x, stx)]
                    if mine:
                        fails.append((SELF_MATCH if same_chan_select else "registration-left-behind", "fiber %d has a current registration %r on channel %d although its operation has "
                                      "returned (left behind by a select that was matched with itself)" % (cf, mine, c0)))
            completed = set()
        if e[0] == "E":
            completed.add(e[1])
        if e[0] in "BE" and e[1] in cancelled:
            fails.append(("resumed-after-cancel", "fiber %d was cancelled (event %d) while suspended, yet its code ran on: %s %d %d"
                          % (e[1], cancelled[e[1]], e[0], e[1], e[2])))
            del cancelled[e[1]]
        if e[0] in "LF":
            last_state = e[1]
            check_state(e[1], e[0])
            check_kept(e[1], "%s@%d" % (e[0], idx))
            note_inflight(e[1], "%s@%d" % (e[0], idx))
            continue
        if e[0] == "B":
            _, f, i, st = e
            last_state = st
            check_state(st, "B %d %d" % (f, i))
            check_kept(st, "B %d %d" % (f, i))
            note_inflight(st, "B %d %d" % (f, i))
            for c0, ch0 in st["chans"].items():
                mine = [x for x in ch0["r"] + ch0["w"] if x[0] == f and live(x, st)]
                if mine:
                    fails.append((SELF_MATCH if same_chan_select else "registration-left-behind", "fiber %d begins op %d while it still has a current registration %r on channel %d "
                                  "(left behind by a select that was matched with itself)" % (f, i, mine, c0)))
            for q in st["q"]:      # a task whose expected sched_id is no longer its fiber's: the filter must drop it
                parts = q.split(":")
                try:
                    if st["s"][int(parts[0])] != int(parts[-1]):
                        stats["stale_tasks_in_runq"] += 1
                except (ValueError, IndexError):
                    pass
            if f >= len(fibers) or i >= len(fibers[f]):
                fails.append(("malformed-log", "B for unknown op %d %d" % (f, i)))
                continue
            begun.add((f, i))
            open_op[f] = (i, st, idx)
            op = fibers[f][i]
            if op[0] == "c":
                c = op[1]
                ch = st["chans"].get(c)
                if ch and not ch["closed"]:
                    # closing wakes every waiter: each live entry's fiber must next see nil / [:close c]
                    for (wf, ws, mode) in ch["r"] + ch["w"]:
                        if live((wf, ws, mode), st) and wf not in expect_close and not timing:
                            expect_close[wf] = ("nil" if mode in "RW" else "close:%d" % c, c)
                            stats["close_wakes"] += 1
                closed_at[c] = True
            continue
        # E
        _, f, i, res = e
        if f in inflight:
            # an item was on its way to this fiber in a live task: that is what its operation must return (without
            # ev/cancel / deadlines nothing may re-schedule a fiber that already has its wake-up task)
            item, where = inflight.pop(f)
            got = res.split(":")[-1]
            if got != item and not timing:
                fails.append((SELF_MATCH if same_chan_select else "handed-value-dropped",
                              "fiber %d op %d returned %s although a live task carrying item %s for it was queued (%s): the item was "
                              "handed out and is received by nobody%s" % (f, i, res, item, where,
                              " (a select matched with itself was matched a second time before it ran)" if same_chan_select else "")))
        if f not in open_op or open_op[f][0] != i:
            fails.append(("result-without-operation", "E %d %d %s without matching B (resumed twice?)" % (f, i, res)))
            continue
        _, st, bidx = open_op.pop(f)
        immediate = (bidx == idx - 1)
        op = fibers[f][i]
        k = op[0]
        if f in expect_close:
            want, c = expect_close.pop(f)
            if res != want:
                fails.append(("close-did-not-wake", "fiber %d op %d was waiting on channel %d when it was closed; expected %s, got %s" % (f, i, c, want, res)))
        if res == "nil" and k in "gt":
            stats["nil_results"] += 1
        if k == "g":
            c = op[1]
            ch = st["chans"][c]
            lr = [x for x in ch["r"] if live(x, st)]
            should_complete = bool(lr) or len(ch["items"]) < prog["limits"][c]
            if immediate:
                stats["gives_immediate"] += 1
            else:
                stats["gives_blocked"] += 1
            if immediate != should_complete:
                fails.append(("give-blocking-rule", "fiber %d op %d give on channel %d (count %d, limit %d, live readers %d) %s" % (
                    f, i, c, len(ch["items"]), prog["limits"][c], len(lr), "completed at once" if immediate else "waited")))
            if res == "ch%d" % c:
                pass
            elif res == "nil" and closed_at.get(c):
                pass
            else:
                fails.append(("received-not-given", "fiber %d op %d: give on channel %d returned %s" % (f, i, c, res)))
        elif k == "t":
            c = op[1]
            ch = st["chans"][c]
            if res == "nil":
                if not closed_at.get(c):
                    fails.append(("received-not-given", "fiber %d op %d: take on open channel %d returned nil" % (f, i, c)))
            else:
                receive(f, i, c, res, idx)
                if ch["items"] and not ch["closed"]:
                    stats["takes_ready"] += 1
                    if res != ch["items"][0]:
                        fails.append(("take-blocking-rule", "fiber %d op %d: channel %d had items %r but take returned %s" % (f, i, c, ch["items"], res)))
                elif not ch["closed"]:
                    stats["takes_waited"] += 1
                    # channel was empty: the value must have been pushed after this take began
                    try:
                        v = int(res)
                        g, gi, gc, _ = offered[v]
                        gb = [j for j, x in enumerate(ev) if x[0] == "B" and x[1] == g and x[2] == gi]
                        if gb and gb[0] < bidx:
                            fails.append(("take-blocking-rule", "fiber %d op %d: take on empty channel %d returned %d whose give began earlier" % (f, i, c, v)))
                    except (ValueError, KeyError):
                        pass
        elif k == "c":
            if res != "ch%d" % op[1] or not immediate:
                fails.append(("received-not-given", "fiber %d op %d: close returned %s" % (f, i, res)))
        elif k == "y" or k == "x":
            if k == "x":
                # the stale-task filter must discard whatever was already queued for the cancelled fiber
                cancelled.setdefault(op[1], idx)
            if res != "nil":
                fails.append(("received-not-given", "fiber %d op %d: %s returned %s" % (f, i, op_tok(op), res)))
        elif k == "d":
            fails.append(("malformed-log", "result logged for a deadline marker"))
        else:
            # select / rselect: exactly one clause result, matching one of the clauses
            if immediate:
                stats["selects_immediate"] += 1
            else:
                stats["selects_waited"] += 1
            ok = False
            parts = res.split(":")
            if parts[0] == "give" and len(parts) == 2:
                ok = any(cl[0] == "g" and cl[1] == int(parts[1]) for cl in op[1])
                if ok and immediate and len(set(cl[1] for cl in op[1])) == len(op[1]):
                    # (a select naming a channel twice can be matched with itself and resumed with no event in between)
                    # capacity rule for a give clause: it completes at once only below capacity or with a taker waiting
                    gc = int(parts[1])
                    gch = st["chans"][gc]
                    glr = [x for x in gch["r"] if live(x, st)]
                    stats["select_gives_immediate"] += 1
                    if not (len(gch["items"]) < prog["limits"][gc] or glr):
                        fails.append(("select-give-blocking-rule", "fiber %d op %d: select %s completed its give clause on channel %d at once "
                                      "although the channel was at capacity (count %d, limit %d) with no taker waiting" % (
                                          f, i, op_tok(op), gc, len(gch["items"]), prog["limits"][gc])))
            elif parts[0] == "take" and len(parts) == 3:
                ok = any(cl[0] == "t" and cl[1] == int(parts[1]) for cl in op[1])
                if ok:
                    receive(f, i, int(parts[1]), parts[2], idx)
            elif parts[0] == "close" and len(parts) == 2:
                ok = any(cl[1] == int(parts[1]) for cl in op[1]) and closed_at.get(int(parts[1]), False)
            if not ok:
                fails.append(("select-not-one-clause", "fiber %d op %d: select %s returned %s" % (f, i, op_tok(op), res)))
            select_result[(f, i)] = res
    # order between one giver and one taker on one channel
    for (g, t, c), seq in recv_order.items():
        idxs = [gi for gi, v in seq]
        if idxs != sorted(idxs):
            fails.append(("fifo", "values from fiber %d to fiber %d on channel %d arrived out of order: %r" % (g, t, c, seq)))
    # a select that completed through one clause has nevertheless enqueued the value of another give clause, and
    # that value is delivered (janet enqueues at registration and never takes it back)
    for v, (tf, ti) in sorted(received_vals.items()):
        g, gi, gc, is_sel = offered.get(v, (None, None, None, False))
        if is_sel and (g, gi) in select_result and select_result[(g, gi)] != "give:%d" % gc and (tf, ti) != (g, gi):
            stats["losing_give_delivered"] += 1
            fails.append((LOSING_GIVE, "fiber %d op %d received %d, offered by the give clause on channel %d of the select of fiber %d op %d, "
                          "which returned %s" % (tf, ti, v, gc, g, gi, select_result[(g, gi)])))
    # end of run
    final = ev[-1][1] if ev and ev[-1][0] == "F" else None
    if final is None or final["st"] is None:
        fails.append(("malformed-log", "no final state"))
        return fails, stats
    if verdict not in ("ok", "idle-forever"):
        fails.append(("abnormal-run", "verdict %s" % verdict))
    stats["errors"] = sum(1 for s in final["st"] if s.startswith("error"))
    stats["cancelled_fibers"] = sum(1 for s in final["st"] if s in ("error:err-cancel", "error:err-deadline"))
    for f, s in enumerate(final["st"]):
        if s.startswith("error") and s not in (("error:err-closed", "error:err-cancel", "error:err-deadline") if timing else ("error:err-closed",)):
            fails.append(("unexpected-error", "fiber %d ended with %s" % (f, s)))
        if s in ("new", "alive"):
            fails.append(("abnormal-run", "fiber %d ended in state %s" % (f, s)))
    for f in expect_close:
        fails.append(("close-did-not-wake", "fiber %d was waiting on channel %d when it was closed and was never resumed" % (f, expect_close[f][1])))
    for f, s0 in enumerate(final["st"]):
        if not s0.startswith("suspended"):
            for c0, ch0 in final["chans"].items():
                mine = [x for x in ch0["r"] + ch0["w"] if x[0] == f and live(x, final)]
                if mine:
                    fails.append((SELF_MATCH if same_chan_select else "registration-left-behind", "fiber %d ended (%s) with a current registration %r on channel %d" % (f, s0, mine, c0)))
    # supervisor events: a supervised fiber that finished has produced exactly one event (:ok or :error, matching how
    # it ended), received by somebody or still queued in its supervisor channel - unless that channel was closed
    for f in range(len(fibers)):
        sv = sup_of(prog, f)
        if sv is None or f >= len(final["st"]):
            continue
        stats["supervised_fibers"] += 1
        ended = final["st"][f]
        seen = []
        for err in (0, 1):
            v = sup_event(f, err)
            n = (1 if v in received_vals else 0) + sum(ch["items"].count(str(v)) for ch in final["chans"].values())
            seen += [err] * n
        if ended == "dead" or ended.startswith("error"):
            want = [1 if ended.startswith("error") else 0]
            if seen != want and not (closed_at.get(sv) and seen == []):
                fails.append(("supervisor-event-count", "supervised fiber %d ended %s; events seen (0 = :ok, 1 = :error) %r, expected %r "
                              "(supervisor channel %d%s)" % (f, ended, seen, want, sv, ", closed during the run" if closed_at.get(sv) else "")))
            elif seen:
                stats["supervisor_events"] += 1
        elif seen:
            fails.append(("supervisor-event-count", "supervised fiber %d has not finished (%s) but events %r exist" % (f, ended, seen)))
    susp = [f for f, s in enumerate(final["st"]) if s.startswith("suspended")]
    if verdict == "ok" and (susp or final["lc"] != 0):
        fails.append(("abnormal-run", "loop finished with suspended fibers %r / listener count %r" % (susp, final["lc"])))
    if verdict == "idle-forever":
        stats["deadlocks"] += 1
        if not susp:
            fails.append(("lost-wakeup", "event loop idle forever although no fiber is suspended"))
        # every suspended fiber must still be reachable by a counterpart: a live registration in some channel queue
        for f in susp:
            regs = [(c, m) for c, ch in final["chans"].items() for (pf, ps, m) in ch["r"] + ch["w"] if pf == f and live((pf, ps, m), final)]
            if not regs:
                fails.append(("lost-wakeup", "fiber %d is suspended for ever: it has no live registration in any channel queue (its operation was matched or abandoned)" % f))
            for c, m in regs:
                ch = final["chans"][c]
                if m in "Rr" and ch["items"] and not ch["closed"]:
                    fails.append(("lost-wakeup", "fiber %d waits to take from channel %d which holds %r" % (f, c, ch["items"])))
                if m in "Ww" and len(ch["items"]) <= prog["limits"][c]:
                    fails.append(("lost-wakeup", "fiber %d waits to give on channel %d which is not above capacity" % (f, c)))
                if ch["closed"]:
                    fails.append(("lost-wakeup", "fiber %d still registered on closed channel %d" % (f, c)))
    return fails, stats
