/* C06 correspondence harness: wrapper TU around the real ev.c (current working tree) so that the file-static channel
 * structures, the run queue and the janet_q_* ring buffers are readable, with a VIRTUAL CLOCK (every clock read is
 * VCLOCK_STEP ms later than the previous one) and a non-blocking poll: the event loop never sleeps, and "the loop went to poll
 * with nothing that could ever wake it" becomes a logical, wall-clock-free observation (`idle-forever`).
 *
 * stdin protocol:
 *   P <id> <rngseed> <nbytes>\n<janet source of nbytes>      run one program, print one line  "P <id> <verdict> R=<u32,...> <log>"
 *                                                             preceded by "S <id> <log points with a wrapped items ring> <of these: full> <max ring capacity>
 *                                                             <forced collections> <heap payloads made> <payload contents read back>"
 *   Q <ops...>\n                                              ring-buffer script on a real JanetQueue (janet_q_*), one output line
 *   M <ops...>\n                                              the same ops on a real channel's items ring; per op the ids marked by janet_chanat_mark
 * Program source defines (defn vprog [] ...) using the cfuns  vchan vreg vb ve  registered below.
 */
#define clock_gettime verif_clock_gettime
#define epoll_wait verif_epoll_wait
#include "ev.c"   /* resolved through -iquote <scratch tree>/src/core */
#undef clock_gettime
#undef epoll_wait
#include <stdio.h>
#include <stdlib.h>
#include <string.h>
#include <stdarg.h>

/* ---- virtual time / poll ------------------------------------------------------------------------------------- */
#define VCLOCK_START 100000
#define VCLOCK_STEP 16
static int64_t vclock_ms = VCLOCK_START;
static int idle_forever = 0;
static int polls = 0;

int verif_clock_gettime(clockid_t id, struct timespec *ts) {
    (void) id;
    vclock_ms += VCLOCK_STEP;
    ts->tv_sec = vclock_ms / 1000;
    ts->tv_nsec = (vclock_ms % 1000) * 1000000;
    return 0;
}

int verif_epoll_wait(int epfd, struct epoll_event *events, int maxevents, int timeout) {
    (void) epfd; (void) events; (void) maxevents; (void) timeout;
    polls++;
    /* janet_loop1_impl has just armed (timer_enabled=1) or disarmed the timerfd.  No timer, no stream, no thread:
     * nothing can ever make this poll return. */
    if (!janet_vm.timer_enabled) idle_forever = 1;
    return 0;
}

/* ---- log buffer ------------------------------------------------------------------------------------------------ */
static char *lg = NULL; static size_t lgn = 0, lgcap = 0;
static void lput(const char *fmt, ...) {
    va_list ap;
    for (;;) {
        va_start(ap, fmt);
        int n = vsnprintf(lg + lgn, lgcap - lgn, fmt, ap);
        va_end(ap);
        if (n >= 0 && (size_t) n < lgcap - lgn) { lgn += n; return; }
        lgcap = lgcap ? lgcap * 2 : 1 << 16;
        lg = realloc(lg, lgcap);
    }
}

#define MAXF 16
#define MAXC 8
static JanetFiber *fib[MAXF]; static int nfib;
/* In a program with forced collections at log points only (opt_gc == 1 at the time of vreg) the spawned fibers are NOT
 * rooted by the harness: a fiber waiting on a channel is then kept alive by the channel's pending queue alone (its mark
 * function), a finished fiber is garbage.  What the log needs of a fiber (sched_id, status, last value) is cached while
 * the fiber is allocated; natural collections are switched off in such a program, so a fiber can only be freed by a forced
 * collection, i.e. right after the cache was refreshed. */
static int fib_rooted[MAXF], fib_freed[MAXF], fib_lost[MAXF];
static uint32_t fib_sched[MAXF];
static char fib_status[MAXF][48];
static size_t saved_gc_interval = 0;
static void canon(Janet x);
static const char *status_name(JanetFiber *f);
static void fib_refresh(void);
static JanetChannel *chs[MAXC]; static int nch;

static int fidx(JanetFiber *f) { for (int i = 0; i < nfib; i++) if (fib[i] == f) return i; return -1; }
static int cidx(void *c) { for (int i = 0; i < nch; i++) if ((void *) chs[i] == c) return i; return -1; }

/* ---- heap payloads and forced collections ------------------------------------------------------------------------
 * (vpay kind id) makes a FRESH heap object carrying the item id: 1 string, 2 buffer, 3 array @[id string], 4 tuple
 * [id string]; the text is "P<id>:" followed by PAY_FILL characters derived from the id.  The log prints the id read
 * back from the CONTENT of whatever object the channel hands out; an object that the collector has already freed is
 * printed as ?freed (ASan keeps freed blocks poisoned in its quarantine, so this is a read of the shadow, not of the
 * block), a live object whose content is not a well-formed payload as ?corrupt.
 * opt_gc bit 0: janet_collect() at every log point (op begin, op result, loop iteration, end);
 *        bit 1: the JANET_VERIF safepoint hook forces a collection at every interpreter safepoint as well. */
#if defined(__SANITIZE_ADDRESS__)
#include <sanitizer/asan_interface.h>
#define MEM_FREED(p, n) (__asan_region_is_poisoned((void *) (p), (n)) != NULL)
#else
#define MEM_FREED(p, n) 0
#endif
#define PAY_FILL 40
static int opt_gc = 0;
static long n_collections = 0, n_heap_payloads = 0, n_payload_reads = 0;
#ifdef JANET_VERIF
extern int (*janet_verif_gc_safepoint)(void);
static int safepoint_always(void) { return 1; }
#endif

static void pay_text(char *out, int id) {
    int n = sprintf(out, "P%d:", id);
    for (int k = 0; k < PAY_FILL; k++) out[n + k] = (char) ('a' + (id * 7 + k * 3) % 26);
    out[n + PAY_FILL] = 0;
}

/* -> id, or -1 freed, -2 corrupt */
static int pay_read_bytes(const uint8_t *bytes, int32_t len) {
    char want[96];
    if (MEM_FREED(bytes, len > 0 ? (size_t) len : 1)) return -1;
    if (len < 3 || bytes[0] != 'P') return -2;
    int id = atoi((const char *) bytes + 1);
    pay_text(want, id);
    if ((int32_t) strlen(want) != len || memcmp(want, bytes, len)) return -2;
    return id;
}

static int pay_read(Janet x) {
    n_payload_reads++;
    if (janet_checktype(x, JANET_STRING)) {
        const uint8_t *s = janet_unwrap_string(x);
        if (MEM_FREED(janet_string_head(s), sizeof(JanetStringHead))) return -1;
        return pay_read_bytes(s, janet_string_length(s));
    }
    if (janet_checktype(x, JANET_BUFFER)) {
        JanetBuffer *b = janet_unwrap_buffer(x);
        if (MEM_FREED(b, sizeof *b)) return -1;
        return pay_read_bytes(b->data, b->count);
    }
    const Janet *d; int32_t n;
    if (janet_checktype(x, JANET_ARRAY)) {
        JanetArray *a = janet_unwrap_array(x);
        if (MEM_FREED(a, sizeof *a)) return -1;
        d = a->data; n = a->count;
        if (n == 2 && MEM_FREED(d, 2 * sizeof(Janet))) return -1;
    } else {
        d = janet_unwrap_tuple(x);
        if (MEM_FREED(janet_tuple_head(d), sizeof(JanetTupleHead))) return -1;
        n = janet_tuple_length(d);
    }
    if (n != 2 || !janet_checktype(d[0], JANET_NUMBER) || !janet_checktype(d[1], JANET_STRING)) return -2;
    int inner = pay_read(d[1]);
    if (inner < 0) return inner;
    return inner == (int) janet_unwrap_number(d[0]) ? inner : -2;
}

static int is_payload_shape(Janet x) {
    if (janet_checktype(x, JANET_BUFFER) || janet_checktype(x, JANET_ARRAY)) return 1;
    if (janet_checktype(x, JANET_STRING)) {
        const uint8_t *s = janet_unwrap_string(x);
        if (MEM_FREED(janet_string_head(s), sizeof(JanetStringHead))) return 1;
        return janet_string_length(s) > 0 && s[0] == 'P';
    }
    if (janet_checktype(x, JANET_TUPLE)) {
        const Janet *t = janet_unwrap_tuple(x);
        if (MEM_FREED(janet_tuple_head(t), sizeof(JanetTupleHead))) return 1;
        return janet_tuple_length(t) == 2 && janet_checktype(t[0], JANET_NUMBER);
    }
    return 0;
}

static void canon(Janet x) {
    if (janet_checktype(x, JANET_NIL)) { lput("nil"); return; }
    if (janet_checktype(x, JANET_NUMBER)) { lput("%d", (int) janet_unwrap_number(x)); return; }
    if (is_payload_shape(x)) {
        int id = pay_read(x);
        if (id == -1) {
            /* from here on the program holds a dangling reference: no further forced collection (marking it would
             * crash the process before the log shows who receives it) */
            lput("?freed");
            opt_gc = 0;
#ifdef JANET_VERIF
            janet_verif_gc_safepoint = NULL;
#endif
        } else if (id == -2) lput("?corrupt"); else lput("%d", id);
        return;
    }
    if (janet_checktype(x, JANET_ABSTRACT)) { lput("ch%d", cidx(janet_unwrap_abstract(x))); return; }
    if (janet_checktype(x, JANET_TUPLE)) {
        const Janet *t = janet_unwrap_tuple(x);
        int32_t n = janet_tuple_length(t);
        /* supervisor event (:ok fiber task-id) / (:error fiber task-id): 90000 + 10 * fiber + (error ? 1 : 0) */
        if (n == 3 && janet_checktype(t[0], JANET_KEYWORD) && janet_checktype(t[1], JANET_FIBER)) {
            const char *k = (const char *) janet_unwrap_keyword(t[0]);
            int f = fidx(janet_unwrap_fiber(t[1]));
            if (f >= 0 && (!strcmp(k, "ok") || !strcmp(k, "error"))) { lput("%d", 90000 + 10 * f + (strcmp(k, "ok") ? 1 : 0)); return; }
        }
        if (n >= 2 && janet_checktype(t[0], JANET_KEYWORD) && janet_checktype(t[1], JANET_ABSTRACT)) {
            const char *k = (const char *) janet_unwrap_keyword(t[0]);
            int c = cidx(janet_unwrap_abstract(t[1]));
            if (!strcmp(k, "give") && n == 2) { lput("give:%d", c); return; }
            if (!strcmp(k, "close") && n == 2) { lput("close:%d", c); return; }
            if (!strcmp(k, "take") && n == 3) { lput("take:%d:", c); canon(t[2]); return; }
        }
    }
    if (janet_checktype(x, JANET_STRING)) {
        const char *s = (const char *) janet_unwrap_string(x);
        lput(strstr(s, "closed channel") ? "err-closed" : !strcmp(s, "cancelled") ? "err-cancel" :
             !strcmp(s, "deadline expired") ? "err-deadline" : !strcmp(s, "timeout") ? "err-timeout" : "err-other");
        return;
    }
    lput("?%d", (int) janet_type(x));
}

static void dump_pending(JanetQueue *q) {
    JanetChannelPending *p = q->data;
    int first = 1;
    for (int32_t i = q->head; i != q->tail; i = (i + 1 < q->capacity) ? i + 1 : 0) {
        static const char *modes = "RWrwC";
        lput("%s%d.%u%c", first ? "" : ",", fidx(p[i].fiber), p[i].sched_id, modes[p[i].mode]);
        first = 0;
    }
}

/* ring geometry of the item queues seen at the log points of the current program (reported on the separate "S" line,
 * which is not part of the compared log: the model keeps the queues as lists) */
static int geo_wrapped = 0, geo_maxcap = 0, geo_full_wrapped = 0;

static void fib_refresh(void) {
    for (int i = 0; i < nfib; i++) {
        if (!fib[i] || fib_freed[i]) continue;
        if (MEM_FREED(fib[i], sizeof(JanetFiber))) {
            fib_freed[i] = 1;
            /* finished fibers are garbage; anything else was still needed */
            if (strncmp(fib_status[i], "dead", 4) && strncmp(fib_status[i], "error", 5)) fib_lost[i] = 1;
            continue;
        }
        fib_sched[i] = fib[i]->sched_id;
        size_t mark = lgn;
        lput("%s", status_name(fib[i]));
        if (janet_fiber_status(fib[i]) == JANET_STATUS_ERROR) { lput(":"); canon(fib[i]->last_value); }
        snprintf(fib_status[i], sizeof fib_status[i], "%s", lg + mark);
        lgn = mark; lg[lgn] = 0;
    }
}

static void dump_state(void) {
    fib_refresh();
    if (opt_gc & 1) { janet_collect(); n_collections++; fib_refresh(); }
    for (int c = 0; c < nch; c++) {
        JanetChannel *ch = chs[c];
        if (ch->items.head > ch->items.tail) {
            geo_wrapped++;
            if (janet_q_count(&ch->items) >= ch->limit) geo_full_wrapped++;
        }
        if (ch->items.capacity > geo_maxcap) geo_maxcap = ch->items.capacity;
        lput("|c%d i=", c);
        Janet *d = ch->items.data;
        int first = 1;
        for (int32_t i = ch->items.head; i != ch->items.tail; i = (i + 1 < ch->items.capacity) ? i + 1 : 0) {
            if (!first) lput(",");
            canon(d[i]); first = 0;
        }
        lput(" r="); dump_pending(&ch->read_pending);
        lput(" w="); dump_pending(&ch->write_pending);
        lput(" X=%d", ch->closed);
        {   /* what (ev/count c) (ev/full c) (ev/capacity c) return in this state: the real cfuns */
            Janet av = janet_wrap_abstract(ch);
            Janet cn = cfun_channel_count(1, &av), fu = cfun_channel_full(1, &av), ca = cfun_channel_capacity(1, &av);
            lput(" n=%d/%d/%d", (int) janet_unwrap_integer(cn), janet_truthy(fu) ? 1 : 0, (int) janet_unwrap_integer(ca));
            /* geometry of the real item ring: the model prints that of the ring it got by replaying the same
               janet_q_push / janet_q_pop calls (Ev/Refine.lean: stepOps, replayR) */
            lput(" g=%d/%d/%d", ch->items.head, ch->items.tail, ch->items.capacity);
        }
    }
    lput("|q=");
    JanetTask *t = janet_vm.spawn.data;
    int first = 1;
    for (int32_t i = janet_vm.spawn.head; i != janet_vm.spawn.tail; i = (i + 1 < janet_vm.spawn.capacity) ? i + 1 : 0) {
        lput("%s%d:", first ? "" : ",", fidx(t[i].fiber));
        canon(t[i].value);
        lput(":%s:%u", t[i].sig == JANET_SIGNAL_OK ? "ok" : "sig", t[i].expected_sched_id);
        first = 0;
    }
    /* timers sorted by deadline (the virtual clock makes deadlines distinct) */
    lput("|t=");
    size_t n = janet_vm.tq_count;
    int64_t last = -1;
    for (size_t k = 0; k < n; k++) {
        size_t best = n;
        for (size_t i = 0; i < n; i++)
            if (janet_vm.tq[i].when > last && (best == n || janet_vm.tq[i].when < janet_vm.tq[best].when)) best = i;
        if (best == n) break;
        last = janet_vm.tq[best].when;
        JanetTimeout *t = &janet_vm.tq[best];
        lput("%s%d.%u@%lld%s%s", k ? "," : "", fidx(t->fiber), t->sched_id, (long long) t->when,
             t->curr_fiber ? (janet_fiber_can_resume(t->curr_fiber) ? "+" : "-") : "", t->is_error ? "!" : "");
    }
    lput("|s=");
    for (int i = 0; i < nfib; i++) lput("%s%u", i ? "," : "", fib_sched[i]);
    {   /* fibers that a collection freed although they had not finished (waiting in a channel's pending queue, ...) */
        int any = 0;
        for (int i = 0; i < nfib; i++) if (fib_lost[i]) { lput("%s%d", any ? "," : "|z=", i); any = 1; }
        if (any) { opt_gc = 0; }
    }
}

/* ---- cfuns visible to the generated programs ---------------------------------------------------------------- */
static Janet cfun_vchan(int32_t argc, Janet *argv) {
    janet_fixarity(argc, 2);
    int k = janet_getinteger(argv, 1);
    if (k < 0 || k >= MAXC) janet_panic("vchan index");
    chs[k] = janet_getchannel(argv, 0);
    if (k >= nch) nch = k + 1;
    janet_gcroot(argv[0]);
    return argv[0];
}
static Janet cfun_vreg(int32_t argc, Janet *argv) {
    janet_fixarity(argc, 2);
    int k = janet_getinteger(argv, 1);
    if (k < 0 || k >= MAXF) janet_panic("vreg index");
    fib[k] = janet_getfiber(argv, 0);
    if (k >= nfib) nfib = k + 1;
    fib_rooted[k] = (opt_gc != 1);
    if (fib_rooted[k]) janet_gcroot(argv[0]);
    return argv[0];
}
static Janet cfun_vb(int32_t argc, Janet *argv) {
    janet_fixarity(argc, 2);
    lput(";B %d %d", janet_getinteger(argv, 0), janet_getinteger(argv, 1));
    dump_state();
    return janet_wrap_nil();
}
static Janet cfun_ve(int32_t argc, Janet *argv) {
    janet_fixarity(argc, 3);
    lput(";E %d %d ", janet_getinteger(argv, 0), janet_getinteger(argv, 1));
    canon(argv[2]);
    return argv[2];
}
static Janet cfun_vpay(int32_t argc, Janet *argv) {
    janet_fixarity(argc, 2);
    int kind = janet_getinteger(argv, 0), id = janet_getinteger(argv, 1);
    char text[96];
    pay_text(text, id);
    n_heap_payloads++;
    switch (kind) {
        case 1: return janet_cstringv(text);
        case 2: { JanetBuffer *b = janet_buffer(8); janet_buffer_push_cstring(b, text); return janet_wrap_buffer(b); }
        case 3: { JanetArray *a = janet_array(2); janet_array_push(a, janet_wrap_number(id)); janet_array_push(a, janet_cstringv(text)); return janet_wrap_array(a); }
        case 4: { Janet *t = janet_tuple_begin(2); t[0] = janet_wrap_number(id); t[1] = janet_cstringv(text); return janet_wrap_tuple(janet_tuple_end(t)); }
        default: n_heap_payloads--; return janet_wrap_number(id);
    }
}
static Janet cfun_vopt(int32_t argc, Janet *argv) {
    janet_fixarity(argc, 1);
    opt_gc = janet_getinteger(argv, 0);
    if (opt_gc == 1 && !saved_gc_interval) {
        /* only the forced collections run in this program */
        saved_gc_interval = janet_vm.gc_interval;
        janet_vm.gc_interval = (size_t) 1 << 40;
    }
#ifdef JANET_VERIF
    janet_verif_gc_safepoint = (opt_gc & 2) ? safepoint_always : NULL;
#endif
    return janet_wrap_nil();
}
static const JanetReg cfuns[] = {
    {"vpay", cfun_vpay, NULL}, {"vopt", cfun_vopt, NULL},
    {"vchan", cfun_vchan, NULL}, {"vreg", cfun_vreg, NULL}, {"vb", cfun_vb, NULL}, {"ve", cfun_ve, NULL}, {NULL, NULL, NULL}
};

/* ---- run one program ------------------------------------------------------------------------------------------ */
static const char *status_name(JanetFiber *f) {
    switch (janet_fiber_status(f)) {
        case JANET_STATUS_DEAD: return "dead";
        case JANET_STATUS_ERROR: return "error";
        case JANET_STATUS_PENDING: return "pending";
        case JANET_STATUS_NEW: return "new";
        case JANET_STATUS_ALIVE: return "alive";
        default: return janet_status_names[janet_fiber_status(f)];
    }
}

static void run_program(const char *id, uint32_t seed, const char *src) {
    lgn = 0; lput("");
    nfib = 0; nch = 0; idle_forever = 0; polls = 0; vclock_ms = VCLOCK_START;
    geo_wrapped = 0; geo_maxcap = 0; geo_full_wrapped = 0;
    opt_gc = 0; n_collections = 0; n_heap_payloads = 0; n_payload_reads = 0;
#ifdef JANET_VERIF
    janet_verif_gc_safepoint = NULL;
#endif
    memset(fib, 0, sizeof fib); memset(chs, 0, sizeof chs);
    memset(fib_rooted, 0, sizeof fib_rooted); memset(fib_freed, 0, sizeof fib_freed); memset(fib_lost, 0, sizeof fib_lost);
    memset(fib_sched, 0, sizeof fib_sched); memset(fib_status, 0, sizeof fib_status);
    janet_rng_seed(&janet_vm.ev_rng, seed);
    JanetRNG copy = janet_vm.ev_rng;
    char rbuf[1024]; size_t rn = 0;
    for (int i = 0; i < 48; i++) rn += snprintf(rbuf + rn, sizeof rbuf - rn, "%s%u", i ? "," : "", janet_rng_u32(&copy));
    JanetTable *env = janet_table(8);
    env->proto = janet_core_env(NULL);
    janet_cfuns(env, NULL, cfuns);
    janet_gcroot(janet_wrap_table(env));
    const char *verdict = "ok";
    Janet out;
    if (janet_dostring(env, src, "prog", &out)) {
        verdict = "compile-error";
    } else {
        Janet fn;
        janet_resolve(env, janet_csymbol("vprog"), &fn);
        if (!janet_checktype(fn, JANET_FUNCTION)) {
            verdict = "no-vprog";
        } else {
            JanetFiber *mainf = janet_fiber(janet_unwrap_function(fn), 64, 0, NULL);
            mainf->env = env;
            fib[0] = mainf; nfib = 1; fib_rooted[0] = 1;
            janet_gcroot(janet_wrap_fiber(mainf));
            janet_schedule(mainf, janet_wrap_nil());
            int steps = 0;
            while (!janet_loop_done()) {
                lput(";L"); dump_state();
                janet_loop1();
                if (idle_forever) { verdict = "idle-forever"; break; }
                if (++steps > 5000) { verdict = "livelock"; break; }
            }
        }
    }
    lput(";F"); dump_state();
    lput("|st=");
    for (int i = 0; i < nfib; i++) lput("%s%s%s", i ? "," : "", fib[i] ? fib_status[i] : "none", fib_lost[i] ? "!freed" : "");
    if (saved_gc_interval) { janet_vm.gc_interval = saved_gc_interval; saved_gc_interval = 0; }
    lput("|lc=%d", (int) janet_atomic_load(&janet_vm.listener_count));
#ifdef JANET_VERIF
    janet_verif_gc_safepoint = NULL;
#endif
    opt_gc = 0;
    printf("S %s %d %d %d %ld %ld %ld\n", id, geo_wrapped, geo_full_wrapped, geo_maxcap, n_collections, n_heap_payloads, n_payload_reads);
    printf("P %s %s R=%s %s\n", id, verdict, rbuf, lg);
    /* A run that ended in a deadlock (loop idle for ever: run queue empty, no timer) leaves nothing behind in the VM but
     * the reference count of its suspended fibers; the fibers themselves are garbage once unrooted below.  Anything else
     * (pending tasks or timers, livelock, compile error) gets a fresh VM. */
    int idle_clean = !strcmp(verdict, "idle-forever") && janet_vm.spawn.head == janet_vm.spawn.tail && janet_vm.tq_count == 0
                     && janet_vm.root_fiber == NULL;
    if (idle_clean) {
        janet_vm.listener_count = 0;
        /* the abandoned fibers are still listed as live tasks (a GC root): forget them */
        for (int i = 0; i < nfib; i++) if (fib[i] && !fib_freed[i]) janet_table_remove(&janet_vm.active_tasks, janet_wrap_fiber(fib[i]));
        if (janet_vm.active_tasks.count != 0) idle_clean = 0;
    }
    int dirty = (strcmp(verdict, "ok") != 0 && !idle_clean) || janet_atomic_load(&janet_vm.listener_count) != 0
                || janet_vm.spawn.head != janet_vm.spawn.tail || janet_vm.tq_count != 0;
    for (int i = 0; i < nfib; i++) if (fib[i] && fib_rooted[i]) janet_gcunroot(janet_wrap_fiber(fib[i]));
    for (int i = 0; i < nch; i++) if (chs[i]) janet_gcunroot(janet_wrap_abstract(chs[i]));
    janet_gcunroot(janet_wrap_table(env));
    {   /* whatever a run may leave behind in the VM (the cfun registry grows with every janet_cfuns call, ...) is
         * bounded by starting from a fresh VM every 128 programs */
        static int since_init = 0;
        if (++since_init >= 128) dirty = 1;
        if (dirty) since_init = 0;
    }
    if (dirty) {
        /* abandoned suspended fibers keep the loop's reference count up: start from a fresh VM */
        janet_deinit();
        janet_init();
        janet_vm.listener_count = 0;
    }
}

/* ---- ring buffer script:  p<n> push, h<n> push_head, o pop ; after each op: cap/head/tail[logical contents] --------- */
static void run_queue(char *line) {
    JanetQueue q;
    janet_q_init(&q);
    char *save = NULL;
    int first = 1;
    for (char *tok = strtok_r(line, " ", &save); tok; tok = strtok_r(NULL, " ", &save)) {
        int64_t v = 0, popped = -1; int rc = 0;
        if (tok[0] == 'p') { v = atoll(tok + 1); rc = janet_q_push(&q, &v, sizeof v); }
        else if (tok[0] == 'h') { v = atoll(tok + 1); rc = janet_q_push_head(&q, &v, sizeof v); }
        else if (tok[0] == 'o') { rc = janet_q_pop(&q, &popped, sizeof popped); }
        else continue;
        printf("%s%d/%lld/%d/%d/%d/%d[", first ? "" : " ", rc, (long long) popped, q.capacity, q.head, q.tail, janet_q_count(&q));
        first = 0;
        int64_t *d = q.data; int f2 = 1;
        for (int32_t i = q.head; i != q.tail; i = (i + 1 < q.capacity) ? i + 1 : 0) { printf("%s%lld", f2 ? "" : ",", (long long) d[i]); f2 = 0; }
        printf("]");
    }
    printf("\n");
    janet_q_deinit(&q);
}

/* ---- mark script: the same ops on the items ring of a REAL channel holding fresh heap strings; after each op the real
 * gcmark callback of the channel type (janet_chanat_mark) is called and the ids of the objects it marked are printed
 * (sorted), then the marks are cleared.  No collection runs here: only the mark function's walk is observed. ---------- */
#define MAXOBJ 4096
static void run_mark(char *line) {
    static Janet objs[MAXOBJ];
    int nobj = 0;
    JanetChannel *ch = janet_channel_make(1000);
    janet_gcroot(janet_wrap_abstract(ch));
    int saved = janet_gclock();
    char *save = NULL;
    int first = 1;
    for (char *tok = strtok_r(line, " ", &save); tok; tok = strtok_r(NULL, " ", &save)) {
        if ((tok[0] == 'p' || tok[0] == 'h') && nobj < MAXOBJ) {
            char text[96];
            int id = atoi(tok + 1);
            pay_text(text, id);
            Janet v = janet_cstringv(text);
            objs[nobj++] = v;
            if (tok[0] == 'p') janet_q_push(&ch->items, &v, sizeof v); else janet_q_push_head(&ch->items, &v, sizeof v);
        } else if (tok[0] == 'o') {
            Janet v;
            janet_q_pop(&ch->items, &v, sizeof v);
        } else continue;
        janet_channel_type.gcmark(ch, sizeof *ch);
        /* ids are handed out in increasing order by the generator; print in id order */
        printf("%s[", first ? "" : " ");
        first = 0;
        int f2 = 1;
        int ids[MAXOBJ], n = 0;
        for (int k = 0; k < nobj; k++) {
            JanetGCObject *hd = (JanetGCObject *) janet_string_head(janet_unwrap_string(objs[k]));
            if (hd->flags & JANET_MEM_REACHABLE) {
                hd->flags &= ~JANET_MEM_REACHABLE;
                ids[n++] = pay_read(objs[k]);
            }
        }
        for (int a = 1; a < n; a++) { int v = ids[a], b = a; while (b > 0 && ids[b - 1] > v) { ids[b] = ids[b - 1]; b--; } ids[b] = v; }
        for (int a = 0; a < n; a++) { printf("%s%d", f2 ? "" : ",", ids[a]); f2 = 0; }
        printf("]");
    }
    printf("\n");
    /* empty the ring before the channel is released, then let the strings go */
    ch->items.head = ch->items.tail = 0;
    janet_gcunlock(saved);
    janet_gcunroot(janet_wrap_abstract(ch));
}

int main(void) {
    janet_init();
    char *line = NULL; size_t cap = 0; ssize_t n;
    while ((n = getline(&line, &cap, stdin)) > 0) {
        while (n > 0 && (line[n - 1] == '\n' || line[n - 1] == '\r')) line[--n] = 0;
        if (line[0] == 'P' && line[1] == ' ') {
            char id[64]; unsigned seed; long nbytes;
            if (sscanf(line + 2, "%63s %u %ld", id, &seed, &nbytes) != 3) { printf("bad-header\n"); continue; }
            char *src = malloc(nbytes + 1);
            if (fread(src, 1, nbytes, stdin) != (size_t) nbytes) { printf("short-read\n"); free(src); break; }
            src[nbytes] = 0;
            run_program(id, seed, src);
            free(src);
        } else if (line[0] == 'Q' && line[1] == ' ') {
            run_queue(line + 2);
        } else if (line[0] == 'M' && line[1] == ' ') {
            run_mark(line + 2);
        } else if (n > 0) {
            printf("bad-line\n");
        }
        fflush(stdout);
    }
    janet_deinit();
    return 0;
}
