"""C03 pool generator: emits a janet script that builds a pool of values, each *content* in every way the property
lists (literal, constructor with every / many insertion orders, table/to-struct, freeze, parse, unmarshal, after forced
collections that recycle interned symbols).  Every random choice comes from the rng passed in (ctx.rng fork).

The abstract content is a python tuple:
  ('num', bits64) ('nil',) ('bool', b) ('str', bytes) ('sym', bytes) ('kw', bytes)
  ('tuple', bracket, [items]) ('struct', [(k, v), ...], proto_or_None) ('ref', name)
The check does NOT trust these trees for its oracle: content classes are recomputed from what the harness serialises.
"""
import itertools
import re
import struct as pystruct

SAFE = re.compile(rb"^[a-zA-Z][a-zA-Z0-9\-_@!?*+<>=]*$")
RESERVED = {b"nil", b"true", b"false"}


def bits_of_float(x):
    return pystruct.unpack("<Q", pystruct.pack("<d", x))[0]


def float_of_bits(b):
    return pystruct.unpack("<d", pystruct.pack("<Q", b))[0]


def is_nan_bits(b):
    return (b & 0x7FFFFFFFFFFFFFFF) > 0x7FF0000000000000


def jstr(bs):
    out = ['"']
    for c in bs:
        if 32 <= c < 127 and c not in (34, 92):
            out.append(chr(c))
        else:
            out.append("\\x%02X" % c)
    out.append('"')
    return "".join(out)


# literals the compiler can encode differently: immediates (-128..127), integers just outside, constants, non-numbers
LITERALS = ["-129", "-128", "-127", "-1", "0", "-0", "1", "5", "126", "127", "128", "255", "100000", "0.5", "-2.5", "1e100",
            "nil", "true", "false", ":a", ":aa", '"aa"', '""', "'abc", "'(1 2)", "'[1 2]", "'()"]

OPS = [("lt", "<"), ("le", "<="), ("gt", ">"), ("ge", ">="), ("eq", "="), ("ne", "not=")]


def literal_fn(lit):
    """(fn [x] [...]) evaluating every comparison operator against the literal through every compiled shape; the result is
    a tuple of  :shape/op value  pairs (the harness derives the expected value from the op name and the C API)."""
    parts = [":lit/lit", lit]
    for code, op in OPS:
        parts += [":inline/%s" % code, "(%s x %s)" % (op, lit)]                       # x OP literal  (immediate opcodes when possible)
        parts += [":inline/r%s" % code, "(%s %s x)" % (op, lit)]                      # literal OP x
        parts += [":if/%s" % code, "(if (%s x %s) true false)" % (op, lit)]           # as a branch condition
        parts += [":if/r%s" % code, "(if (%s %s x) true false)" % (op, lit)]
        parts += [":ifnot/%s" % code, "(if (not (%s x %s)) false true)" % (op, lit)]
        parts += [":while/%s" % code, "(do (var r false) (while (%s x %s) (set r true) (break)) r)" % (op, lit)]
        parts += [":and/%s" % code, "(and (%s x %s) true)" % (op, lit)]
        parts += [":apply/%s" % code, "(apply %s [x %s])" % (op, lit)]                # the function value
        parts += [":apply/r%s" % code, "(apply %s [%s x])" % (op, lit)]
        parts += [":letbound/%s" % code, "(let [y %s] (%s x y))" % (lit, op)]          # literal first moved to a register
        if code not in ("ne",):
            parts += [":chain/lxl-%s" % code, "(%s %s x %s)" % (op, lit, lit)]        # n-ary chains
            parts += [":chain/xlx-%s" % code, "(%s x %s x)" % (op, lit)]
            parts += [":chain/xxl-%s" % code, "(%s x x %s)" % (op, lit)]
    parts += [":fn/cmp", "(cmp x %s)" % lit, ":fn/rcmp", "(cmp %s x)" % lit, ":fn/compare", "(if (abstract? x) (cmp x %s) (compare x %s))" % (lit, lit)]
    return "(fn [x] [%s])" % " ".join(parts)


def literal_prelude():
    return "(def c03-litfns [%s])" % "\n  ".join(literal_fn(l) for l in LITERALS)


class Gen:
    def __init__(self, rng, scale=1):
        self.rng = rng
        self.scale = scale
        self.entries = []       # (label, source)
        self.prelude = []
        self.refs = []
        self.stats = {}

    # ------------------------------------------------------------------ atoms
    def number_bits(self):
        r = self.rng
        fixed = [0.0, -0.0, 1.0, -1.0, 2.0, 0.5, -0.5, 1.5, 2.0**31 - 1, 2.0**31, 2.0**31 + 1, -2.0**31, -2.0**31 - 1, -2.0**31 + 1,
                 2.0**32, 2.0**32 - 1, 2.0**53 - 1, 2.0**53, 2.0**53 + 2, -2.0**53, -(2.0**53 - 1), float("inf"), float("-inf"),
                 5e-324, -5e-324, 1e308, 1.7976931348623157e308, -1.7976931348623157e308, 2.2250738585072014e-308, 1e-310, 3.0, 255.0, 256.0,
                 0.1, 0.30000000000000004, 1e15, 123456789.0]
        bs = [bits_of_float(x) for x in fixed]
        # pairs with equal hi^lo (same janet_hash, different value): full 32-bit hash collisions between number keys
        for hi, lo in ((0x3FF00000, 0), (0x40000000, 0), (0x40080000, 0), (0xC0000000, 0)):
            for d in (1, 0x10, 0x8000):
                bs.append(((hi ^ d) << 32) | (lo ^ d))
        for _ in range(10 * self.scale):
            k = r.below(4)
            if k == 0:
                v = float(r.range(-70000, 70000))
                bs.append(bits_of_float(v))
            elif k == 1:
                v = float(r.range(-2**53, 2**53))
                bs.append(bits_of_float(v))
            else:
                b = r.next()
                if is_nan_bits(b):
                    b &= 0x800FFFFFFFFFFFFF
                bs.append(b)
        out, seen = [], set()
        for b in bs:
            if b not in seen:
                seen.add(b)
                out.append(b)
        return out

    def names(self):
        r = self.rng
        fixed = [b"", b"a", b"b", b"aa", b"b@", b"ab", b"abc", b"abd", b"x", b"y", b"z", b"key", b"c\x1f", b"\x00", b"a\x00", b"\xff\xfe", b"tmp-5", b"tmp-17",
                 b"tmpk-9", b"hello", b"A", b"aaa", b"ab@", b"b@a", b"ba!"]  # aa/b@ , aaa/ab@/b@a... : equal djb2 hashes
        for _ in range(6 * self.scale):
            n = r.range(1, 6)
            fixed.append(bytes(r.choice(b"abcxyz019-") for _ in range(n)))
        out, seen = [], set()
        for b in fixed:
            if b not in seen:
                seen.add(b)
                out.append(b)
        return out

    # ------------------------------------------------------------------ source text
    def lit(self, node):
        """literal text that the janet parser reads back as this content, or None"""
        k = node[0]
        if k == "num":
            v = float_of_bits(node[1])
            if v == v and abs(v) <= 2.0**53 and v == int(v):
                if node[1] == 0x8000000000000000:
                    return "-0"
                return str(int(v))
            return None
        if k == "nil":
            return "nil"
        if k == "bool":
            return "true" if node[1] else "false"
        if k == "str":
            return jstr(node[1])
        if k == "kw":
            return ":" + node[1].decode() if (node[1] == b"" or SAFE.match(node[1])) else None
        if k == "sym":
            return node[1].decode() if SAFE.match(node[1]) and node[1] not in RESERVED else None
        if k == "tuple":
            parts = [self.lit(x) for x in node[2]]
            if any(p is None for p in parts):
                return None
            return ("[%s]" if node[1] else "(%s)") % " ".join(parts)
        if k == "struct":
            if node[2] is not None:
                return None
            parts = []
            for kk, vv in node[1]:
                a, b = self.lit(kk), self.lit(vv)
                if a is None or b is None:
                    return None
                parts += [a, b]
            return "{%s}" % " ".join(parts)
        return None

    def has_ref(self, node):
        k = node[0]
        if k == "ref":
            return True
        if k == "tuple":
            return any(self.has_ref(x) for x in node[2])
        if k == "struct":
            return any(self.has_ref(a) or self.has_ref(b) for a, b in node[1]) or (node[2] is not None and self.has_ref(node[2]))
        return False

    def atom_srcs(self, node):
        """every way of building an atom"""
        k = node[0]
        out = []
        lit = self.lit(node)
        if k == "num":
            b = node[1]
            out.append(("nb", "(nb 0x%X 0x%X)" % (b >> 32, b & 0xFFFFFFFF)))
            if lit is not None:
                out.append(("literal", lit))
                out.append(("parse", "(parse ``%s``)" % lit))
                out.append(("unmarshal", "(unmarshal (marshal %s))" % lit))
            else:
                out.append(("unmarshal", "(unmarshal (marshal (nb 0x%X 0x%X)))" % (b >> 32, b & 0xFFFFFFFF)))
        elif k in ("nil", "bool"):
            out.append(("literal", lit))
        elif k == "str":
            s = jstr(node[1])
            out += [("literal", s), ("string-ctor", "(string %s)" % s), ("unmarshal", "(unmarshal (marshal %s))" % s),
                    ("from-buffer", "(string (buffer %s))" % s), ("parse", "(parse ``%s``)" % s if b"`" not in node[1] else s)]
            if len(node[1]) >= 2:
                out.append(("concat", "(string %s %s)" % (jstr(node[1][:1]), jstr(node[1][1:]))))
        elif k == "kw":
            s = jstr(node[1])
            out += [("keyword-ctor", "(keyword %s)" % s), ("unmarshal", "(unmarshal (marshal (keyword %s)))" % s)]
            if lit is not None:
                out += [("literal", lit), ("parse", "(parse ``%s``)" % lit)]
            if len(node[1]) >= 2:
                out.append(("concat", "(keyword %s %s)" % (jstr(node[1][:1]), jstr(node[1][1:]))))
        elif k == "sym":
            s = jstr(node[1])
            out += [("symbol-ctor", "(symbol %s)" % s), ("unmarshal", "(unmarshal (marshal (symbol %s)))" % s)]
            if lit is not None:
                out += [("literal", "'" + lit), ("parse", "(parse ``%s``)" % lit)]
            if len(node[1]) >= 2:
                out.append(("concat", "(symbol %s %s)" % (jstr(node[1][:1]), jstr(node[1][1:]))))
        elif k == "ref":
            out.append(("ref", node[1]))
        return out

    def emit(self, node):
        """one randomly chosen way of building the content"""
        rs = self.recipes(node, limit=4)
        return self.rng.choice(rs)[1]

    def recipes(self, node, limit=None):
        k = node[0]
        r = self.rng
        if k not in ("tuple", "struct"):
            return self.atom_srcs(node)
        out = []
        lit = self.lit(node)
        noref = not self.has_ref(node)
        if k == "tuple":
            items = lambda: " ".join(self.emit(x) for x in node[2])
            if node[1]:
                out.append(("tuple/brackets", "(tuple/brackets %s)" % items()))
                out.append(("tuple/brackets-splice", "(tuple/brackets ;[%s])" % items()))
                if lit is not None:
                    out.append(("quoted-literal", "'" + lit))
                    out.append(("parse", "(parse ``%s``)" % lit))
                if noref:
                    out.append(("unmarshal", "(unmarshal (marshal (tuple/brackets %s)))" % items()))
            else:
                out.append(("tuple", "(tuple %s)" % items()))
                out.append(("bracket-form-in-code", "[%s]" % items()))
                out.append(("tuple-splice", "(tuple ;(array %s))" % items()))
                out.append(("tuple/slice", "(tuple/slice (array nil %s) 1)" % items()))
                out.append(("tuple/slice-of-brackets", "(tuple/slice (tuple/brackets %s))" % items()))
                if noref:
                    out.append(("freeze", "(freeze (array %s))" % items()))
                    out.append(("unmarshal", "(unmarshal (marshal (tuple %s)))" % items()))
                if lit is not None:
                    out.append(("quoted-literal", "'" + lit))
                    out.append(("parse", "(parse ``%s``)" % lit))
        else:
            pairs = list(node[1])
            proto = node[2]

            def kvsrc(ps):
                return " ".join("%s %s" % (self.emit(a), self.emit(b)) for a, b in ps)
            n = len(pairs)
            if n <= 3:
                orders = [list(p) for p in itertools.permutations(pairs)]
            else:
                orders = [pairs, pairs[::-1]]
                for _ in range(4):
                    p = list(pairs)
                    r.shuffle(p)
                    orders.append(p)
            if proto is None:
                for o in orders:
                    out.append(("struct-ctor-order", "(struct %s)" % kvsrc(o)))
                sh = list(pairs)
                r.shuffle(sh)
                out.append(("literal-in-code", "{%s}" % kvsrc(sh)))
                sh = list(pairs)
                r.shuffle(sh)
                out.append(("table/to-struct", "(table/to-struct (table %s))" % kvsrc(sh)))
                # table built by successive puts and deletes (different table layout / tombstones), then converted
                sh = list(pairs)
                r.shuffle(sh)
                puts = " ".join("(put t %s %s)" % (self.emit(a), self.emit(b)) for a, b in sh)
                out.append(("table-puts/to-struct", "(let [t @{}] (put t :c03-junk 1) (put t 12345 2) %s (put t :c03-junk nil) (put t 12345 nil) (table/to-struct t))" % puts))
                if noref:
                    out.append(("freeze", "(freeze (table %s))" % kvsrc(pairs)))
                    out.append(("unmarshal", "(unmarshal (marshal (struct %s)))" % kvsrc(pairs)))
                if n:
                    # duplicate keys: the last value wins; announced count exceeds the real one -> janet_struct_end rebuilds
                    a, b = pairs[r.below(n)]
                    sh = list(pairs)
                    r.shuffle(sh)
                    out.append(("struct-ctor-duplicate-key", "(struct %s %s %s)" % (self.emit(a), self.emit(("kw", b"c03-overwritten")), kvsrc(sh))))
                    sh = list(pairs)
                    r.shuffle(sh)
                    out.append(("struct-ctor-nil-value", "(struct %s :c03-dropped nil)" % kvsrc(sh)))
                    out.append(("struct-ctor-nil-key", "(struct nil 1 %s)" % kvsrc(sh)))
                    out.append(("struct-splice-kvs", "(struct ;(kvs (struct %s)))" % kvsrc(sh)))
                    out.append(("proto-flatten", "(struct/proto-flatten (struct %s))" % kvsrc(sh)))
                    if n >= 2:
                        h = n // 2
                        out.append(("proto-flatten-of-proto", "(struct/proto-flatten (struct/with-proto (struct %s) %s))" % (kvsrc(pairs[:h]), kvsrc(pairs[h:]))))
                        out.append(("merge/to-struct", "(table/to-struct (merge (struct %s) (struct %s)))" % (kvsrc(pairs[:h]), kvsrc(pairs[h:]))))
                if lit is not None:
                    out.append(("parse", "(parse ``%s``)" % lit))
                    out.append(("quoted-literal", "'" + lit))
            else:
                for o in orders:
                    out.append(("with-proto-order", "(struct/with-proto %s %s)" % (self.emit(proto), kvsrc(o))))
                if noref:
                    out.append(("unmarshal", "(unmarshal (marshal (struct/with-proto %s %s)))" % (self.emit(proto), kvsrc(pairs))))
                    out.append(("freeze-table-with-proto", "(freeze (table/setproto (table %s) (struct/to-table %s)))" % (kvsrc(pairs), self.emit(proto))))
                if n:
                    a, b = pairs[r.below(n)]
                    out.append(("with-proto-duplicate-key", "(struct/with-proto %s %s :c03-x %s)" % (self.emit(proto), self.emit(a), kvsrc(pairs))))
        if limit is not None and len(out) > limit:
            idx = list(range(len(out)))
            r.shuffle(idx)
            out = [out[i] for i in idx[:limit]]
        return out

    # ------------------------------------------------------------------ contents
    def build(self, n_composite):
        r = self.rng
        nums = [("num", b) for b in self.number_bits()]
        names = self.names()
        strs = [("str", b) for b in names]
        kws = [("kw", b) for b in names]
        syms = [("sym", b) for b in names]
        consts = [("nil",), ("bool", True), ("bool", False)]
        self.prelude += [
            literal_prelude(),
            "(def r0 @[])", "(def r1 @[])", "(def r2 @[1 2])", "(def r3 @{})", "(def r4 @{})", "(def r5 @{:a 1})", '(def r6 @"")', '(def r7 @"")',
            '(def r8 @"abc")', "(def r9 (fn [] 1))", "(def r10 (fn [] 1))", "(def r11 (fiber/new (fn [] 1)))", "(def r12 (fiber/new (fn [] 1)))",
            "(def r13 print)", "(def r14 type)", "(def r15 (fn [x] (fn [] x)))", "(def r16 (r15 1))", "(def r17 (r15 1))", '(def r18 @"abc")', "(def r19 @[1 2])"]
        refs = [("ref", "r%d" % i) for i in range(20)]
        atoms = nums + strs + kws + syms + consts
        keyable = [a for a in atoms if a[0] != "nil"]

        def atom():
            k = r.below(10)
            if k < 3:
                return r.choice(nums)
            if k < 5:
                return r.choice(strs)
            if k < 7:
                return r.choice(kws)
            if k < 8:
                return r.choice(syms)
            if k < 9:
                return r.choice(consts)
            return r.choice(refs)
        # hash-colliding key groups (same janet_hash): djb2 collisions across string / keyword / symbol, numbers with same hi^lo
        groups = [[("str", b"aa"), ("str", b"b@"), ("kw", b"aa"), ("kw", b"b@"), ("sym", b"aa"), ("sym", b"b@")],
                  [("str", b"aaa"), ("str", b"ab@"), ("str", b"b@a"), ("kw", b"aaa"), ("kw", b"ab@"), ("kw", b"ba!")],
                  [("num", 0x3FF0000000000000), ("num", (0x3FF00001 << 32) | 1), ("num", (0x3FF00010 << 32) | 0x10), ("num", (0x3FF08000 << 32) | 0x8000)],
                  [("num", 0), ("num", 0x8000000000000000), ("nil",), ("bool", False)]]

        def node(depth):
            k = r.below(10)
            if depth <= 0 or k < 4:
                return atom()
            if k < 7:
                n = r.choice([0, 1, 1, 2, 2, 3, 4])
                return ("tuple", r.chance(1, 3), [node(depth - 1) for _ in range(n)])
            return struct(depth)

        def struct(depth, allow_proto=True):
            n = r.choice([0, 1, 2, 2, 3, 3, 4, 5, 6, 9])
            keys, seen = [], set()
            grp = r.choice(groups) if r.chance(1, 3) else None
            for _ in range(n):
                for _try in range(10):
                    if grp and r.chance(2, 3):
                        kk = r.choice(grp)
                    else:
                        kk = r.choice(keyable) if r.chance(5, 6) else node(depth - 1)
                    if kk[0] == "nil":
                        continue
                    ck = canon(kk)
                    if ck not in seen:
                        seen.add(ck)
                        keys.append(kk)
                        break
            pairs = []
            for kk in keys:
                v = node(depth - 1)
                if v[0] == "nil":
                    v = ("bool", True)
                pairs.append((kk, v))
            proto = None
            if allow_proto and r.chance(1, 4):
                proto = struct(depth - 1, allow_proto=r.chance(1, 3))
            return ("struct", pairs, proto)

        def canon(x):
            if x[0] == "num":
                v = float_of_bits(x[1])
                return ("num", 0.0 if v == 0 else v)
            if x[0] == "tuple":
                return ("tuple", x[1], tuple(canon(y) for y in x[2]))
            if x[0] == "struct":
                return ("struct", frozenset((canon(a), canon(b)) for a, b in x[1]), None if x[2] is None else canon(x[2]))
            return x

        composites = []
        # targeted: every colliding group as the key set of one struct, and sub-sets of it
        for g in groups:
            ks = [k_ for k_ in g if k_[0] != "nil"]
            composites.append(("struct", [(k_, ("num", bits_of_float(float(i + 1)))) for i, k_ in enumerate(ks)], None))
            composites.append(("struct", [(k_, ("num", bits_of_float(float(i + 1)))) for i, k_ in enumerate(ks[:3])], None))
        composites.append(("struct", [], None))
        composites.append(("tuple", False, []))
        composites.append(("tuple", True, []))
        composites.append(("struct", [(("kw", b"a"), ("num", bits_of_float(1.0)))], ("struct", [(("kw", b"b"), ("num", bits_of_float(2.0)))], None)))
        composites.append(("struct", [(("kw", b"a"), ("num", bits_of_float(1.0)))], ("struct", [], None)))
        composites.append(("struct", [], ("struct", [(("kw", b"a"), ("num", bits_of_float(1.0)))], None)))
        composites.append(("tuple", False, [("num", 0)]))
        composites.append(("tuple", False, [("num", 0x8000000000000000)]))
        composites.append(("struct", [(("num", 0x8000000000000000), ("num", 0))], None))
        composites.append(("struct", [(("num", 0), ("num", 0x8000000000000000))], None))
        composites.append(("struct", [(("tuple", False, [("num", 0)]), ("bool", True))], None))
        composites.append(("struct", [(("tuple", True, [("num", 0x8000000000000000)]), ("bool", True))], None))
        while len(composites) < n_composite:
            c = node(3)
            if c[0] in ("tuple", "struct"):
                composites.append(c)
        self.composites = composites
        # ---- emit
        E = self.entries
        churn = 0

        def do_churn():
            nonlocal churn
            churn += 1
            # many short-lived symbols and keywords, some with the names used in the pool, then a forced collection:
            # the symbol cache gets tombstones, later interning walks / reuses them
            E.append(("@stmt", "(for i 0 %d (symbol \"tmp-\" i) (keyword \"tmpk-\" i) (symbol \"c03churn%d-\" i))" % (300 + 50 * churn, churn)))
            E.append(("@stmt", "(gccollect)"))
        for a in atoms:
            for lab, src in self.atom_srcs(a):
                E.append((a[0] + ":" + lab, src))
        do_churn()
        for rf in refs:
            E.append(("ref", rf[1]))
            E.append(("ref-again", rf[1]))
        for i, c in enumerate(composites):
            for lab, src in self.recipes(c):
                E.append((c[0] + ":" + lab, src))
            if i % 7 == 3:
                do_churn()
        # symbols / keywords once more, after all the churn
        do_churn()
        # abstract values whose type has compare / hash hooks (core/s64, core/u64): boundary values, each built in several ways
        s64 = [0, 1, -1, 2, 5, 2**31 - 1, 2**31, -2**31, -2**31 - 1, 2**32, 2**53, -2**53, 2**53 + 1, 2**62, -2**62, 2**63 - 1, 2**63 - 2,
               -2**63, -2**63 + 1]
        u64 = [0, 1, 2, 5, 2**31, 2**32 - 1, 2**32, 2**53, 2**53 + 1, 2**63 - 1, 2**63, 2**63 + 1, 2**64 - 1, 2**64 - 2]
        for _ in range(8 * self.scale):
            v = r.next()
            u64.append(v)
            s64.append(v - 2**64 if v >= 2**63 else v)
        for v in s64:
            E.append(("abstract:int/s64-string", '(int/s64 "%d")' % v))
            if abs(v) <= 2**53:
                E.append(("abstract:int/s64-number", "(int/s64 %d)" % v))
            if -2**63 < v:
                E.append(("abstract:int/s64-arith", '(+ (int/s64 "%d") 1)' % (v - 1)))
            E.append(("abstract:int/s64-unmarshal", '(unmarshal (marshal (int/s64 "%d")))' % v))
        for v in u64:
            E.append(("abstract:int/u64-string", '(int/u64 "%d")' % v))
            if v <= 2**53:
                E.append(("abstract:int/u64-number", "(int/u64 %d)" % v))
            if v > 0:
                E.append(("abstract:int/u64-arith", '(+ (int/u64 "%d") 1)' % (v - 1)))
        E.append(("abstract:in-tuple", '[(int/s64 "9223372036854775807") (int/u64 5)]'))
        E.append(("abstract:in-tuple", '(tuple (int/s64 "9223372036854775807") (int/u64 "5"))'))
        E.append(("abstract:as-key", '{(int/s64 -1) 1 (int/u64 "18446744073709551615") 2}'))
        E.append(("abstract:as-key", '(struct (int/u64 "18446744073709551615") 2 (int/s64 "-1") 1)'))
        # abstract values WITHOUT compare / hash hooks (identity: janet_compare_abstract falls back to type pointer, then address;
        # janet_hash to the pointer hash): two objects of each of three types, each pushed twice, also inside tuples, as struct
        # keys and values, next to boxed integers
        self.prelude += ["(def ab0 (math/rng 1))", "(def ab1 (math/rng 1))", "(def ab2 (parser/new))", "(def ab3 (parser/new))",
                         '(def ab4 (peg/compile "a"))', '(def ab5 (peg/compile "a"))', '(def abi (int/s64 "77"))']
        for i in range(6):
            E.append(("abstract:unhooked", "ab%d" % i))
        for i in range(6):
            E.append(("abstract:unhooked-again", "ab%d" % i))
        E.append(("abstract:unhooked-in-tuple", "[ab0 ab2]"))
        E.append(("abstract:unhooked-in-tuple", "(tuple ab0 ab2)"))
        E.append(("abstract:unhooked-in-tuple", "[ab1 ab2]"))
        E.append(("abstract:unhooked-in-tuple", "[ab0 (int/s64 3) ab4]"))
        E.append(("abstract:unhooked-in-tuple", '[ab0 (int/s64 "3") ab4]'))
        E.append(("abstract:unhooked-as-key", "{ab0 1 ab3 (int/u64 2)}"))
        E.append(("abstract:unhooked-as-key", '(struct ab3 (int/u64 "2") ab0 1)'))
        E.append(("abstract:same-object-twice", "[abi abi]"))
        E.append(("abstract:same-object-twice", '[abi (int/s64 "77")]'))
        E.append(("abstract:in-proto", '(struct/with-proto {(int/s64 1) ab5} (int/u64 1) :v)'))
        E.append(("abstract:in-proto", '(struct/with-proto (struct (int/s64 "1") ab5) (int/u64 "1") :v)'))
        # values that SHARE a tuple / struct object (janet_equals' pointer short-cuts `t1 == t2` / `s1 == s2` fire in the middle of a
        # traversal): the shared object first, last, as key, as value, as prototype; beside a copy with equal content
        self.prelude += ["(def sh0 [1 :a])", "(def sh1 {:a 1 :b [2]})", "(def sh2 (tuple 1 :a))", "(def sh3 (struct :b [2] :a 1))"]
        for a_, b_ in (("sh0", "sh2"), ("sh1", "sh3")):
            for other in (a_, b_):
                E.append(("shared:first", "[%s 1]" % other))
                E.append(("shared:first", "[%s 2]" % other))
                E.append(("shared:last", "[0 %s]" % other))
                E.append(("shared:twice", "[%s %s]" % (a_, other)))
                E.append(("shared:as-value", "{:k %s :z 1}" % other))
                E.append(("shared:as-value", "{:k %s :z 2}" % other))
                E.append(("shared:as-key", "{%s 1 :z 1}" % other))
                E.append(("shared:as-key", "{%s 1 :z 2}" % other))
        # … followed by a difference the hash short-cut cannot see (elements with EQUAL hashes: djb2 collisions "aa" / "b@", numbers with
        # the same hi^lo): the containers have equal stored hashes and lengths, so janet_equals really walks them, and meets the
        # shared object first
        same_hash = [('"aa"', '"b@"'), (":aa", ":b@"), ("1", "(nb 0x3FF00001 0x1)")]
        for sh in ("sh0", "sh1"):
            for x_, y_ in same_hash:
                for tail in (x_, y_):
                    E.append(("shared:then-equal-hash-difference", "[%s %s]" % (sh, tail)))
                    E.append(("shared:then-equal-hash-difference", "[%s %s %s]" % (sh, sh, tail)))
                    E.append(("shared:then-equal-hash-difference", "{:k %s :z %s}" % (sh, tail)))
                    E.append(("shared:then-equal-hash-difference", "{:z %s :k %s}" % (sh, tail)))
                    E.append(("shared:then-equal-hash-difference", "(struct/with-proto %s :q %s)" % ("sh1", tail)))
        E.append(("shared:as-proto", "(struct/with-proto sh1 :q 1)"))
        E.append(("shared:as-proto", "(struct/with-proto sh1 :q 2)"))
        E.append(("shared:as-proto", "(struct/with-proto sh3 :q 1)"))
        for a in syms + kws:
            srcs = self.atom_srcs(a)
            lab, src = srcs[r.below(len(srcs))]
            E.append((a[0] + ":after-gc:" + lab, src))
        # NaN (session 3): excluded from the laws, but part of the model type.  Only patterns whose NaN-box tag bits 47..50 are
        # zero are numbers: quiet / negative quiet / signalling / payload-carrying NaN; alone, inside tuples, as struct values,
        # as (ignored) struct and table keys, inside a tuple used as key (accepted).
        nb = lambda b: "(nb 0x%X 0x%X)" % (b >> 32, b & 0xFFFFFFFF)
        for b in (0x7FF8000000000000, 0xFFF8000000000000, 0x7FF0000000000001, 0x7FF8000000000123, 0xFFF0000000007FFF):
            E.append(("nan:nb", nb(b)))
        E.append(("nan:math/nan", "math/nan"))
        E.append(("nan:computed", "(- math/inf math/inf)"))
        E.append(("nan:negated", "(- math/nan)"))
        E.append(("nan:unmarshal", "(unmarshal (marshal math/nan))"))
        E.append(("nan:in-tuple", "[math/nan]"))
        E.append(("nan:in-tuple", "(tuple 1 %s :a)" % nb(0x7FF0000000000001)))
        E.append(("nan:in-tuple-shared", "(let [t [math/nan 1]] [t t])"))
        E.append(("nan:as-struct-value", "{:a math/nan}"))
        E.append(("nan:as-struct-value", "(struct :a %s)" % nb(0xFFF8000000000000)))
        E.append(("nan:as-struct-key-ignored", "(struct math/nan 1 :a 2)"))
        E.append(("nan:as-struct-key-ignored", "(struct :a 2 %s 1 %s 3)" % (nb(0x7FF0000000000001), nb(0xFFF8000000000000))))
        E.append(("nan:as-struct-key-ignored", "(struct :a 2)"))
        E.append(("nan:as-table-key-ignored", "(table/to-struct (let [t @{}] (put t math/nan 1) (put t :a 2) t))"))
        E.append(("nan:tuple-key-accepted", "(struct [math/nan] 1)"))
        E.append(("nan:tuple-key-accepted", "(struct [math/nan] 1 :b 2)"))
        return self

    def script(self):
        lines = ["(def pool @[])", "(defn P [x] (array/push pool x))"] + self.prelude
        labels = []
        for lab, src in self.entries:
            if lab == "@stmt":
                lines.append(src)
            else:
                lines.append("(P %s)" % src)
                labels.append((lab, src))
        lines.append("pool")
        return "\n".join(lines) + "\n", labels
