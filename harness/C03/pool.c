/* C03 harness: evaluates a generated janet script that builds a pool of values in many different ways, then
 *   - serialises every pool value structurally (numbers as 64-bit patterns, struct slot arrays as they are in memory,
 *     reference types as their NaN-boxed word) in the line protocol of lean/Driver/C03.lean;
 *   - prints the matrices of janet_equals / janet_compare (C API) and checks the VM-level operators
 *     (= < <= > >= not= cmp compare, inline and through `apply`) and (hash x) against them;
 *   - checks the laws of the property directly on those implementation outputs: all pairs, all triples.
 * Second mode `symcache <seed> <rounds> <n>`: interning scenario with forced collections, checks pointer identity
 * of same-bytes symbols and the invariants of janet_vm.cache.
 *
 * Linked against the variant's libjanet.a; state.h gives janet_vm. */
/* the sweep's call of janet_symbol_deinit goes through a logging wrapper (symhist mode: the order in which the collector
 * frees symbols is part of the history the model replays) */
#define janet_symbol_deinit c03_real_symbol_deinit
#include "symcache.c"   /* wrapper TU (resolved through -iquote <scratch tree>/src/core): gives JANET_SYMCACHE_DELETED; must come first */
#undef janet_symbol_deinit
static void c03_note_deinit(const uint8_t *sym);
void janet_symbol_deinit(const uint8_t *sym);
void janet_symbol_deinit(const uint8_t *sym) { c03_note_deinit(sym); c03_real_symbol_deinit(sym); }
#include <stdio.h>
#include <stdlib.h>
#include <string.h>
#include <inttypes.h>
#include <stdarg.h>

/* janet_collect() dereferences janet_vm.root_fiber, which is NULL outside janet_continue: collect from inside a fiber */
static JanetTable *g_env;
static void collect(void) { Janet out; janet_dostring(g_env, "(gccollect)", "collect", &out); }

static uint64_t bits_of(Janet x) { uint64_t u; memcpy(&u, &x, 8); return u; }

/* ---- registry of every symbol / keyword seen, for the identity check */
typedef struct { const uint8_t *p; int type; } SymSeen;
static SymSeen *seen = NULL; static size_t nseen = 0, capseen = 0;
static void note_sym(const uint8_t *p, int type) {
    if (nseen == capseen) { capseen = capseen ? capseen * 2 : 256; seen = realloc(seen, capseen * sizeof(SymSeen)); }
    seen[nseen].p = p; seen[nseen].type = type; nseen++;
}

static int unsupported;   /* set when a value contains something the abstract-free model `JVal` does not cover (abstract, depth) */
static int has_abs;       /* the value contains an abstract: it goes to the model with abstracts (`AVal`, driver commands aval / arow) */
static int too_deep;
static int has_nan;

static void ser_bytes(const uint8_t *s) {
    int32_t n = janet_string_length(s);
    if (!n) { fputs(" -", stdout); return; }
    putchar(' ');
    for (int32_t i = 0; i < n; i++) printf("%02x", s[i]);
}

static void ser(Janet x, int depth) {
    if (depth > 400) { unsupported = 1; too_deep = 1; fputs("nil", stdout); return; }
    switch (janet_type(x)) {
        case JANET_NUMBER: {
            double d = janet_unwrap_number(x); uint64_t u; memcpy(&u, &d, 8);
            if (d != d) has_nan = 1;
            printf("n %016" PRIx64, u); break;
        }
        case JANET_NIL: fputs("nil", stdout); break;
        case JANET_BOOLEAN: fputs(janet_unwrap_boolean(x) ? "t" : "f", stdout); break;
        case JANET_STRING: putchar('s'); ser_bytes(janet_unwrap_string(x)); break;
        case JANET_SYMBOL: putchar('y'); ser_bytes(janet_unwrap_symbol(x)); note_sym(janet_unwrap_symbol(x), JANET_SYMBOL); break;
        case JANET_KEYWORD: putchar('k'); ser_bytes(janet_unwrap_keyword(x)); note_sym(janet_unwrap_keyword(x), JANET_KEYWORD); break;
        case JANET_TUPLE: {
            const Janet *t = janet_unwrap_tuple(x);
            printf("T %d %d", (janet_tuple_flag(t) & JANET_TUPLE_FLAG_BRACKETCTOR) ? 1 : 0, janet_tuple_length(t));
            for (int32_t i = 0; i < janet_tuple_length(t); i++) { putchar(' '); ser(t[i], depth + 1); }
            break;
        }
        case JANET_STRUCT: {
            const JanetKV *st = janet_unwrap_struct(x);
            int32_t cap = janet_struct_capacity(st);
            printf("S %d %d", cap, janet_struct_proto(st) ? 1 : 0);
            for (int32_t i = 0; i < cap; i++) { putchar(' '); ser(st[i].key, depth + 1); putchar(' '); ser(st[i].value, depth + 1); }
            if (janet_struct_proto(st)) { putchar(' '); ser(janet_wrap_struct(janet_struct_proto(st)), depth + 1); }
            break;
        }
        case JANET_ABSTRACT: {
            /* outside `JVal`, inside `AVal`: a <type name> <content> <NaN-boxed word> <address of the JanetAbstractType>.
               For the boxed integers (types with compare / hash hooks) the content is the 8-byte payload the hooks read,
               for every other abstract type it is the boxed word (identity). */
            void *p = janet_unwrap_abstract(x);
            const char *nm = janet_abstract_type(p)->name;
            unsupported = 1; has_abs = 1;
            fputs("a ", stdout);
            for (const char *q = nm; *q; q++) printf("%02x", (unsigned char) *q);
            if (!strcmp(nm, "core/s64") || !strcmp(nm, "core/u64")) { uint64_t v; memcpy(&v, p, 8); printf(" %016" PRIx64, v); }
            else printf(" %016" PRIx64, bits_of(x));
            printf(" %016" PRIx64 " %016" PRIx64, bits_of(x), (uint64_t) (uintptr_t) janet_abstract_type(p));
            break;
        }
        default: printf("r %d %016" PRIx64, (int) janet_type(x), bits_of(x)); break;
    }
}

/* addresses of the tuple / struct objects of a value, in the preorder of `ser` (a struct: its slots key, value, …, then its
   prototype): what janet_equals' pointer short-cuts `t1 == t2` / `s1 == s2` look at (model: Value/PtrShortcut.lean) */
static void ser_addrs(Janet x, int depth) {
    if (depth > 400) return;
    if (janet_checktype(x, JANET_TUPLE)) {
        const Janet *t = janet_unwrap_tuple(x);
        printf(" %" PRIx64, (uint64_t) (uintptr_t) t);
        for (int32_t i = 0; i < janet_tuple_length(t); i++) ser_addrs(t[i], depth + 1);
    } else if (janet_checktype(x, JANET_STRUCT)) {
        const JanetKV *st = janet_unwrap_struct(x);
        printf(" %" PRIx64, (uint64_t) (uintptr_t) st);
        for (int32_t i = 0; i < janet_struct_capacity(st); i++) { ser_addrs(st[i].key, depth + 1); ser_addrs(st[i].value, depth + 1); }
        if (janet_struct_proto(st)) ser_addrs(janet_wrap_struct(janet_struct_proto(st)), depth + 1);
    }
}

/* internal-state checks on every struct / tuple reachable from a pool value: stored hash and length fields */
static long nviol = 0;
static void law(const char *name, long i, long j, long k, const char *detail) {
    nviol++;
    if (nviol <= 200) { printf("law %s %ld %ld %ld %s\n", name, i, j, k, detail ? detail : ""); fflush(stdout); }  /* a later sanitizer abort must not lose it */
}

static void check_fields(Janet x, long idx, int depth) {
    if (depth > 60) return;
    if (janet_checktype(x, JANET_TUPLE)) {
        const Janet *t = janet_unwrap_tuple(x);
        if (janet_tuple_hash(t) != janet_array_calchash(t, janet_tuple_length(t))) law("tuple-stored-hash", idx, -1, -1, "");
        for (int32_t i = 0; i < janet_tuple_length(t); i++) check_fields(t[i], idx, depth + 1);
    } else if (janet_checktype(x, JANET_STRUCT)) {
        const JanetKV *st = janet_unwrap_struct(x);
        int32_t cap = janet_struct_capacity(st), occ = 0;
        for (int32_t i = 0; i < cap; i++) {
            if (!janet_checktype(st[i].key, JANET_NIL)) {
                occ++;
                /* every key is found where it lies */
                const JanetKV *f = janet_struct_find(st, st[i].key);
                if (f != st + i) law("struct-find-own-key", idx, i, -1, "");
                if (janet_checktype(st[i].value, JANET_NIL)) law("struct-nil-value", idx, i, -1, "");
            }
            check_fields(st[i].key, idx, depth + 1); check_fields(st[i].value, idx, depth + 1);
        }
        if (occ != janet_struct_length(st)) law("struct-length-field", idx, occ, janet_struct_length(st), "");
        if (cap != janet_tablen(2 * janet_struct_length(st))) law("struct-capacity", idx, cap, janet_struct_length(st), "");
        int32_t h = janet_kv_calchash(st, cap);
        if (janet_struct_proto(st)) h += 2654435761u * janet_struct_hash(janet_struct_proto(st));
        if (h != janet_struct_hash(st)) law("struct-stored-hash", idx, -1, -1, "");
        if (janet_struct_proto(st)) check_fields(janet_wrap_struct(janet_struct_proto(st)), idx, depth + 1);
    }
}

static Janet cfun_nb(int32_t argc, Janet *argv) {
    janet_fixarity(argc, 2);
    uint64_t hi = (uint64_t) janet_getnumber(argv, 0), lo = (uint64_t) janet_getnumber(argv, 1);
    uint64_t u = (hi << 32) | (lo & 0xFFFFFFFFu);
    double d; memcpy(&d, &u, 8);
    return janet_wrap_number(d);
}

static const char *PRELUDE =
    "(defn vmops [a b]\n"
    "  (+ (if (= a b) 1 0) (if (< a b) 2 0) (if (<= a b) 4 0) (if (> a b) 8 0) (if (>= a b) 16 0) (if (not= a b) 32 0)\n"
    "     (* 64 (+ 1 (cmp a b))) (* 256 (+ 1 (if (or (abstract? a) (abstract? b)) (cmp a b) (compare a b))))\n"
    "     (if (apply = [a b]) 1024 0) (if (apply < [a b]) 2048 0) (if (apply <= [a b]) 4096 0)\n"
    "     (if (apply > [a b]) 8192 0) (if (apply >= [a b]) 16384 0) (if (apply not= [a b]) 32768 0)\n"
    "     (if (deep= a b) 65536 0)))\n"
    "(defn vmhash [a] (hash a))\n";

static char cmpchar(int e, int c) {
    if (c < 0) return e ? 'L' : '<';
    if (c > 0) return e ? 'G' : '>';
    return e ? '=' : 'Z';
}

/* expected value of one literal-shape form, from the C API results: c = compare(x, lit), c2 = compare(lit, x), e = equals */
static int lit_expect(const char *op, int c, int c2, int e, int *isnum, int *num) {
    *isnum = 0;
    if (!strcmp(op, "lt")) return c < 0;   if (!strcmp(op, "le")) return c <= 0;
    if (!strcmp(op, "gt")) return c > 0;   if (!strcmp(op, "ge")) return c >= 0;
    if (!strcmp(op, "eq")) return e;       if (!strcmp(op, "ne")) return !e;
    if (!strcmp(op, "rlt")) return c2 < 0; if (!strcmp(op, "rle")) return c2 <= 0;
    if (!strcmp(op, "rgt")) return c2 > 0; if (!strcmp(op, "rge")) return c2 >= 0;
    if (!strcmp(op, "req")) return e;      if (!strcmp(op, "rne")) return !e;
    if (!strcmp(op, "lxl-lt")) return c2 < 0 && c < 0;   if (!strcmp(op, "lxl-le")) return c2 <= 0 && c <= 0;
    if (!strcmp(op, "lxl-gt")) return c2 > 0 && c > 0;   if (!strcmp(op, "lxl-ge")) return c2 >= 0 && c >= 0;
    if (!strcmp(op, "lxl-eq")) return e;
    if (!strcmp(op, "xlx-lt")) return c < 0 && c2 < 0;   if (!strcmp(op, "xlx-le")) return c <= 0 && c2 <= 0;
    if (!strcmp(op, "xlx-gt")) return c > 0 && c2 > 0;   if (!strcmp(op, "xlx-ge")) return c >= 0 && c2 >= 0;
    if (!strcmp(op, "xlx-eq")) return e;
    if (!strcmp(op, "xxl-lt")) return 0;                 if (!strcmp(op, "xxl-le")) return c <= 0;
    if (!strcmp(op, "xxl-gt")) return 0;                 if (!strcmp(op, "xxl-ge")) return c >= 0;
    if (!strcmp(op, "xxl-eq")) return e;
    if (!strcmp(op, "cmp") || !strcmp(op, "compare")) { *isnum = 1; *num = c; return 0; }
    if (!strcmp(op, "rcmp")) { *isnum = 1; *num = c2; return 0; }
    return -1;
}

/* every pool value against every literal, through every compiled shape (functions generated into the script) */
static void run_literal_shapes(JanetTable *env, JanetArray *pool, const int *skip, long *forms_out, long *calls_out) {
    Janet fns = janet_wrap_nil();
    janet_resolve(env, janet_csymbol("c03-litfns"), &fns);
    if (!janet_checktype(fns, JANET_TUPLE)) return;
    const Janet *ft = janet_unwrap_tuple(fns);
    long forms = 0, calls = 0, reported = 0;
    for (int32_t li = 0; li < janet_tuple_length(ft); li++) {
        if (!janet_checktype(ft[li], JANET_FUNCTION)) continue;
        for (int32_t i = 0; i < pool->count; i++) {
            if (skip[i]) continue;
            Janet args[1] = { pool->data[i] };
            Janet r; JanetFiber *fib = NULL;
            calls++;
            if (janet_pcall(janet_unwrap_function(ft[li]), 1, args, &r, &fib) != JANET_SIGNAL_OK || !janet_checktype(r, JANET_TUPLE)) {
                law("vm-literal-error", i, li, -1, ""); continue;
            }
            const Janet *rt = janet_unwrap_tuple(r);
            int32_t rn = janet_tuple_length(rt);
            if (rn < 2) continue;
            Janet lit = rt[1];
            int c = janet_compare(pool->data[i], lit), c2 = janet_compare(lit, pool->data[i]), e = janet_equals(pool->data[i], lit);
            for (int32_t k = 2; k + 1 < rn; k += 2) {
                if (!janet_checktype(rt[k], JANET_KEYWORD)) continue;
                const char *code = (const char *) janet_unwrap_keyword(rt[k]);
                const char *op = strchr(code, '/'); op = op ? op + 1 : code;
                int isnum, num, want = lit_expect(op, c, c2, e, &isnum, &num);
                if (!strcmp(op, "compare") && janet_checktype(pool->data[i], JANET_ABSTRACT)) continue;   /* polymorphic */
                forms++;
                int ok;
                if (isnum) ok = janet_checktype(rt[k + 1], JANET_NUMBER) && janet_unwrap_number(rt[k + 1]) == (double) num;
                else if (want < 0) ok = 0;
                else ok = janet_checktype(rt[k + 1], JANET_BOOLEAN) && janet_unwrap_boolean(rt[k + 1]) == want;
                if (!ok) {
                    nviol++;
                    if (reported++ < 12) {
                        printf("law vm-literal-operators %d %d -1 code=%s got=", i, li, code);
                        ser(rt[k + 1], 0);
                        if (isnum) printf(" want=%d\n", num); else printf(" want=%s\n", want ? "t" : "f");
                    }
                }
            }
        }
    }
    *forms_out = forms; *calls_out = calls;
}

static int run_pool(const char *path) {
    FILE *f = fopen(path, "rb");
    if (!f) { printf("error cannot-open-script\n"); return 2; }
    fseek(f, 0, SEEK_END); long sz = ftell(f); fseek(f, 0, SEEK_SET);
    char *src = malloc(sz + 1); if (fread(src, 1, sz, f) != (size_t) sz) { printf("error read\n"); return 2; } src[sz] = 0; fclose(f);
    JanetTable *env = g_env = janet_core_env(NULL);
    janet_def(env, "nb", janet_wrap_cfunction(cfun_nb), "number from hi/lo 32-bit halves");
    Janet out;
    if (janet_dostring(env, PRELUDE, "prelude", &out)) { printf("error prelude\n"); return 2; }
    if (janet_dostring(env, src, path, &out)) { printf("error script-failed\n"); return 2; }
    janet_gcroot(out);
    if (!janet_checktype(out, JANET_ARRAY)) { printf("error script-result-not-array\n"); return 2; }
    JanetArray *pool = janet_unwrap_array(out);
    Janet vmops = janet_wrap_nil(), vmhash = janet_wrap_nil();
    janet_resolve(env, janet_csymbol("vmops"), &vmops);
    janet_resolve(env, janet_csymbol("vmhash"), &vmhash);
    if (!janet_checktype(vmops, JANET_FUNCTION)) { printf("error no-vmops\n"); return 2; }
    /* a collection now: everything the script dropped is swept, interned symbols of dropped values are tombstoned */
    collect();
    int32_t n = pool->count;
    int *skip = calloc(n, sizeof(int));
    int32_t *hs = calloc(n, sizeof(int32_t));
    for (int32_t i = 0; i < n; i++) {
        unsupported = 0; has_nan = 0; has_abs = 0; too_deep = 0;
        printf("val %d ", i);
        ser(pool->data[i], 0);
        putchar('\n');
        hs[i] = janet_hash(pool->data[i]);
        skip[i] = has_nan;
        printf("meta %d hash %d model %d nan %d amodel %d", i, hs[i], unsupported ? 0 : 1, has_nan, (has_abs && !too_deep) ? 1 : 0);
        if (janet_checktype(pool->data[i], JANET_STRUCT)) printf(" len %d", janet_struct_length(janet_unwrap_struct(pool->data[i])));
        putchar('\n');
        if (!too_deep) { printf("adr %d", i); ser_addrs(pool->data[i], 0); putchar('\n'); }
        check_fields(pool->data[i], i, 0);
        /* (hash x) at the language level */
        Janet hv; JanetFiber *fib = NULL;
        Janet args1[1] = { pool->data[i] };
        if (janet_pcall(janet_unwrap_function(vmhash), 1, args1, &hv, &fib) != JANET_SIGNAL_OK || !janet_checktype(hv, JANET_NUMBER) ||
                (int32_t) janet_unwrap_number(hv) != hs[i]) law("vm-hash", i, -1, -1, "");
    }
    /* matrices */
    signed char *cm = malloc((size_t) n * n), *em = malloc((size_t) n * n);
    char *row = malloc(n + 1);
    long vmcalls = 0;
    for (int32_t i = 0; i < n; i++) {
        for (int32_t j = 0; j < n; j++) {
            int e = janet_equals(pool->data[i], pool->data[j]);
            int c = janet_compare(pool->data[i], pool->data[j]);
            if (c < -1 || c > 1) law("compare-range", i, j, c, "");
            em[(size_t) i * n + j] = (signed char) e; cm[(size_t) i * n + j] = (signed char) c;
            row[j] = cmpchar(e, c);
            /* VM-level operators must say the same */
            Janet args[2] = { pool->data[i], pool->data[j] };
            Janet r; JanetFiber *fib = NULL;
            JanetSignal sig = janet_pcall(janet_unwrap_function(vmops), 2, args, &r, &fib);
            vmcalls++;
            if (sig != JANET_SIGNAL_OK || !janet_checktype(r, JANET_NUMBER)) { law("vm-error", i, j, -1, ""); continue; }
            long m = (long) janet_unwrap_number(r);
            long want = (e ? 1 : 0) | (c < 0 ? 2 : 0) | (c <= 0 ? 4 : 0) | (c > 0 ? 8 : 0) | (c >= 0 ? 16 : 0) | (e ? 0 : 32)
                        | 64 * (c + 1) | 256 * (c + 1)
                        | (e ? 1024 : 0) | (c < 0 ? 2048 : 0) | (c <= 0 ? 4096 : 0) | (c > 0 ? 8192 : 0) | (c >= 0 ? 16384 : 0) | (e ? 0 : 32768)
                        | (m & 65536);
            if (janet_checktype(pool->data[i], JANET_ABSTRACT) || janet_checktype(pool->data[j], JANET_ABSTRACT)) {
                /* `compare` is polymorphic (int/s64 vs number etc. compare by value): only the primitive operators are checked */
                m &= ~(long)(3 * 256); want &= ~(long)(3 * 256);
            }
            if (m != want && !(skip[i] || skip[j])) { char d[64]; snprintf(d, sizeof d, "got=%ld want=%ld", m, want); law("vm-operators", i, j, -1, d); }
        }
        row[n] = 0;
        printf("capi %d %s\n", i, row);
    }
    long litforms = 0, litcalls = 0;
    run_literal_shapes(env, pool, skip, &litforms, &litcalls);
    /* ---- the laws, directly on implementation outputs */
    long pairs = 0, triples = 0;
    for (int32_t i = 0; i < n; i++) {
        if (skip[i]) continue;
        if (!em[(size_t) i * n + i]) law("equals-reflexive", i, i, -1, "");
        if (cm[(size_t) i * n + i] != 0) law("compare-reflexive", i, i, -1, "");
        for (int32_t j = 0; j < n; j++) {
            if (skip[j]) continue;
            pairs++;
            int e = em[(size_t) i * n + j], c = cm[(size_t) i * n + j];
            if (e != em[(size_t) j * n + i]) law("equals-symmetric", i, j, -1, "");
            if (c != -cm[(size_t) j * n + i]) law("compare-antisymmetric", i, j, -1, "");
            if ((c == 0) != (e != 0)) law("compare-zero-iff-equals", i, j, -1, "");
            if (e && hs[i] != hs[j]) law("equal-implies-same-hash", i, j, -1, "");
        }
    }
    for (int32_t i = 0; i < n; i++) {
        if (skip[i]) continue;
        for (int32_t j = 0; j < n; j++) {
            if (skip[j]) continue;
            int eij = em[(size_t) i * n + j], cij = cm[(size_t) i * n + j];
            const signed char *ej = em + (size_t) j * n, *cj = cm + (size_t) j * n, *ei = em + (size_t) i * n, *ci = cm + (size_t) i * n;
            for (int32_t k = 0; k < n; k++) {
                if (skip[k]) continue;
                triples++;
                if (eij && ej[k] && !ei[k]) law("equals-transitive", i, j, k, "");
                if (cij <= 0 && cj[k] <= 0 && ci[k] > 0) law("compare-transitive", i, j, k, "");
                if (cij <= 0 && cj[k] <= 0 && (cij < 0 || cj[k] < 0) && ci[k] >= 0) law("compare-transitive-strict", i, j, k, "");
            }
        }
    }
    /* same bytes => same pointer, for every symbol / keyword met while serialising */
    long symcmp = 0;
    for (size_t a = 0; a < nseen; a++)
        for (size_t b = a + 1; b < nseen; b++) {
            if (seen[a].type != seen[b].type || seen[a].p == seen[b].p) continue;
            symcmp++;
            if (janet_string_length(seen[a].p) == janet_string_length(seen[b].p) &&
                    !memcmp(seen[a].p, seen[b].p, janet_string_length(seen[a].p))) law("symbol-identity", (long) a, (long) b, -1, (const char *) seen[a].p);
        }
    printf("summary n %d pairs %ld triples %ld vmcalls %ld symbols %zu litforms %ld litcalls %ld violations %ld\n", n, pairs, triples, vmcalls, nseen, litforms, litcalls, nviol);
    return 0;
}

/* ------------------------------------------------------------------------------------------------------------------
 * symbol cache scenario */
static uint64_t sm_state;
static uint64_t sm_next(void) {
    uint64_t z = (sm_state += 0x9E3779B97F4A7C15ull);
    z = (z ^ (z >> 30)) * 0xBF58476D1CE4E5B9ull; z = (z ^ (z >> 27)) * 0x94D049BB133111EBull; return z ^ (z >> 31);
}

static int cmp_sym(const void *a, const void *b) {
    const uint8_t *x = *(const uint8_t *const *) a, *y = *(const uint8_t *const *) b;
    int32_t lx = janet_string_length(x), ly = janet_string_length(y);
    if (lx != ly) return lx < ly ? -1 : 1;
    return memcmp(x, y, lx);
}

/* invariants of janet_vm.cache: no two live entries with the same bytes; every live entry is reachable from its
 * home slot without crossing an empty slot; counters agree */
static long cache_live, cache_dead;
static void cache_check(long round, const char *when) {
    uint32_t cap = janet_vm.cache_capacity, live = 0, dead = 0;
    const uint8_t **lv = malloc(sizeof(*lv) * (cap ? cap : 1));
    if (cap & (cap - 1)) law("symcache-capacity-not-pow2", round, cap, -1, when);
    for (uint32_t i = 0; i < cap; i++) {
        const uint8_t *p = janet_vm.cache[i];
        if (!p) continue;
        if (p == JANET_SYMCACHE_DELETED) { dead++; continue; }
        lv[live++] = p;
        uint32_t home = (uint32_t) janet_string_hash(p) & (cap - 1);
        for (uint32_t k = home; k != i; k = (k + 1) & (cap - 1))
            if (!janet_vm.cache[k]) { law("symcache-unreachable-entry", round, i, home, when); break; }
        if (janet_string_hash(p) != janet_string_calchash(p, janet_string_length(p))) law("symcache-stored-hash", round, i, -1, when);
    }
    if (live != janet_vm.cache_count) law("symcache-count", round, live, janet_vm.cache_count, when);
    /* cache_deleted is only an upper bound: janet_symcache_put reuses a tombstone without decrementing it */
    if (dead > janet_vm.cache_deleted) law("symcache-deleted-count", round, dead, janet_vm.cache_deleted, when);
    qsort(lv, live, sizeof(*lv), cmp_sym);
    for (uint32_t i = 1; i < live; i++)
        if (!cmp_sym(&lv[i - 1], &lv[i])) law("symcache-duplicate-entry", round, i, -1, (const char *) lv[i]);
    free(lv);
    cache_live = live; cache_dead = dead;
}

typedef struct { char *name; const uint8_t *ptr; int rooted; int kw; } Kept;

static long wrapnames, lastbucket, preinterned, gensyms, gensym_skips;

/* the harness's own successor function on gensym counters (digits 0-9 a-z A-Z, most significant first after the `_`);
 * written from the documented format, not copied from inc_gensym */
static void c03_inc(uint8_t *ctr) {
    static const char digits[] = "0123456789abcdefghijklmnopqrstuvwxyzABCDEFGHIJKLMNOPQRSTUVWXYZ";
    for (int i = 6; i >= 1; i--) {
        const char *q = strchr(digits, ctr[i]);
        int v = q ? (int)(q - digits) : 0;
        if (v < 61) { ctr[i] = (uint8_t) digits[v + 1]; return; }
        ctr[i] = '0';
    }
}

/* a gensym result: interning its bytes gives the same object; no rooted symbol has the same bytes at another address;
 * with any rooted symbol, `=` and compare agree */
static void check_gensym(const uint8_t *g, Kept *kept, size_t nk, long round) {
    int32_t len = janet_string_length(g);
    for (size_t q = 0; q < nk; q++) {
        if (!kept[q].rooted || (int32_t) strlen(kept[q].name) != len || memcmp(kept[q].name, g, len)) continue;
        if (kept[q].ptr != g) {
            law("gensym-duplicates-live-symbol", round, (long) q, -1, kept[q].name);
            Janet a = kept[q].kw ? janet_wrap_keyword(kept[q].ptr) : janet_wrap_symbol(kept[q].ptr), b = janet_wrap_symbol(g);
            if (!kept[q].kw && !janet_equals(a, b) && janet_compare(a, b) == 0) law("compare-zero-iff-equals", round, (long) q, -1, kept[q].name);
            if (!kept[q].kw && !janet_equals(a, b) && janet_hash(a) == janet_hash(b) && janet_string_equal(kept[q].ptr, g))
                law("symbol-identity", round, (long) q, -1, kept[q].name);
        } else law("gensym-returns-live-symbol", round, (long) q, -1, kept[q].name);
    }
    if (janet_symbol(g, len) != g) law("gensym-not-interned", round, -1, -1, (const char *) g);
}

static int run_symcache(uint64_t seed, int rounds, int n) {
    sm_state = seed;
    JanetTable *env = g_env = janet_core_env(NULL);
    janet_gcroot(janet_wrap_table(env));
    Kept *kept = NULL; size_t nk = 0, capk = 0;
    long lookups = 0, moved = 0, maxdead = 0, resizes = 0;
    uint32_t lastcap = janet_vm.cache_capacity;
    cache_check(-1, "start");
    for (int r = 0; r < rounds; r++) {
        for (int k = 0; k < n; k++) {
            char buf[64];
            /* short names from a small alphabet collide in the low hash bits often; some names are re-created every round */
            if (sm_next() % 4 == 0) snprintf(buf, sizeof buf, "c03-%d", (int)(sm_next() % (uint64_t)(2 * n)));
            else snprintf(buf, sizeof buf, "c03%c%c-%d-%d", 'a' + (int)(sm_next() % 6), 'a' + (int)(sm_next() % 6), r, k);
            int kw = (int)(sm_next() & 1);
            const uint8_t *p = kw ? janet_ckeyword(buf) : janet_csymbol(buf);
            if (sm_next() % 2) {
                /* keep: root it and remember the pointer (a name kept twice must give the same pointer) */
                for (size_t q = 0; q < nk; q++)
                    if (kept[q].rooted && !strcmp(kept[q].name, buf) && kept[q].ptr != p) law("symbol-duplicate-live", r, k, (long) q, buf);
                if (nk == capk) { capk = capk ? 2 * capk : 1024; kept = realloc(kept, capk * sizeof(Kept)); }
                kept[nk].name = strdup(buf); kept[nk].ptr = p; kept[nk].rooted = 1; kept[nk].kw = kw;
                janet_gcroot(kw ? janet_wrap_keyword(p) : janet_wrap_symbol(p));
                nk++;
            }
            if (janet_vm.cache_capacity != lastcap) { resizes++; lastcap = janet_vm.cache_capacity; }
        }
        /* ---- engineered collisions: names whose home bucket (for the capacity the cache has NOW) is the last bucket, the one
         * before it, bucket 0 or a random one, so that probe chains run through the end of the array and wrap to the front;
         * the first name of a group is usually left unrooted (it is swept, leaving a hole / tombstone in front of the others) */
        for (int grp = 0; grp < 6; grp++) {
            uint32_t cap = janet_vm.cache_capacity;
            uint32_t pick = (uint32_t)(sm_next() % 4);
            uint32_t target = pick == 0 || pick == 1 ? cap - 1 : pick == 2 ? cap - 2 : (uint32_t)(sm_next() % cap);
            int want = 2 + (int)(sm_next() % 3), got = 0;
            for (uint32_t tries = 0; tries < 40 * cap && got < want; tries++) {
                char buf[64];
                snprintf(buf, sizeof buf, "c03w%d-%d-%u", r, grp, tries);
                uint32_t home = (uint32_t) janet_string_calchash((const uint8_t *) buf, (int32_t) strlen(buf)) & (cap - 1);
                if (home != target && !(got > 0 && home == ((target + 1) & (cap - 1)) && sm_next() % 4 == 0)) continue;
                int kw = (int)(sm_next() & 1);
                const uint8_t *p = kw ? janet_ckeyword(buf) : janet_csymbol(buf);
                wrapnames++;
                if (janet_vm.cache[cap - 1] == p && janet_vm.cache_capacity == cap) lastbucket++;
                if (got > 0 ? sm_next() % 4 != 0 : sm_next() % 4 == 0) {
                    if (nk == capk) { capk = capk ? 2 * capk : 1024; kept = realloc(kept, capk * sizeof(Kept)); }
                    kept[nk].name = strdup(buf); kept[nk].ptr = p; kept[nk].rooted = 1; kept[nk].kw = kw;
                    janet_gcroot(kw ? janet_wrap_keyword(p) : janet_wrap_symbol(p));
                    nk++;
                }
                got++;
            }
        }
        /* ---- gensym: some of the names that FOLLOW the counter are interned by other means (symbol / keyword: one cache) before
         * gensym gets there; every gensym result must be a symbol whose bytes no live symbol has */
        for (int grp = 0; grp < 4; grp++) {
            uint8_t ctr[8];
            memcpy(ctr, janet_vm.gensym_counter, 8);
            int skip = (int)(sm_next() % 3), ahead = (int)(sm_next() % 5);
            for (int j = 0; j < skip; j++) c03_inc(ctr);
            for (int j = 0; j < ahead; j++) {
                c03_inc(ctr);
                char buf[8]; memcpy(buf, ctr, 7); buf[7] = 0;
                int kw = (int)(sm_next() % 3 == 0);
                const uint8_t *p = kw ? janet_ckeyword(buf) : janet_csymbol(buf);
                preinterned++;
                if (sm_next() % 4) {
                    if (nk == capk) { capk = capk ? 2 * capk : 1024; kept = realloc(kept, capk * sizeof(Kept)); }
                    kept[nk].name = strdup(buf); kept[nk].ptr = p; kept[nk].rooted = 1; kept[nk].kw = kw;
                    janet_gcroot(kw ? janet_wrap_keyword(p) : janet_wrap_symbol(p));
                    nk++;
                }
            }
            int ng = 1 + (int)(sm_next() % 4);
            for (int j = 0; j < ng; j++) {
                uint8_t before[8]; memcpy(before, janet_vm.gensym_counter, 8);
                const uint8_t *g = janet_symbol_gen();
                gensyms++;
                c03_inc(before);   /* the usual case: exactly one step (the previous result is still alive); more = it skipped names */
                if (memcmp(before, janet_vm.gensym_counter, 7) && j > 0) gensym_skips++;
                check_gensym(g, kept, nk, r);
                if (sm_next() % 2) {
                    if (nk == capk) { capk = capk ? 2 * capk : 1024; kept = realloc(kept, capk * sizeof(Kept)); }
                    kept[nk].name = strdup((const char *) g); kept[nk].ptr = g; kept[nk].rooted = 1; kept[nk].kw = 0;
                    janet_gcroot(janet_wrap_symbol(g));
                    nk++;
                }
            }
        }
        cache_check(r, "after-intern");
        collect();                           /* unkept symbols die: tombstones */
        cache_check(r, "after-collect");
        if (cache_dead > maxdead) maxdead = cache_dead;
        /* interning the bytes of a live symbol again must return the very same pointer (even when the probe passes
         * tombstones, in which case symcache.c moves the entry into the first tombstone) */
        for (size_t q = 0; q < nk; q++) {
            if (!kept[q].rooted) continue;
            uint32_t cap = janet_vm.cache_capacity, slot0 = 0, slot1 = 0;
            for (uint32_t i = 0; i < cap; i++) if (janet_vm.cache[i] == kept[q].ptr) { slot0 = i; break; }
            const uint8_t *p = janet_symbol((const uint8_t *) kept[q].name, (int32_t) strlen(kept[q].name));
            lookups++;
            if (p != kept[q].ptr) { law("symbol-duplicate-after-collect", r, (long) q, -1, kept[q].name); continue; }
            for (uint32_t i = 0; i < cap; i++) if (janet_vm.cache[i] == kept[q].ptr) { slot1 = i; break; }
            if (slot0 != slot1) moved++;
            if (!janet_equals(janet_wrap_symbol(p), janet_wrap_symbol(kept[q].ptr))) law("symbol-not-equal", r, (long) q, -1, kept[q].name);
        }
        cache_check(r, "after-relookup");
        /* let go of a random third of what is kept, so later rounds tombstone older entries too */
        for (size_t q = 0; q < nk; q++)
            if (kept[q].rooted && sm_next() % 3 == 0) {
                janet_gcunroot(kept[q].kw ? janet_wrap_keyword(kept[q].ptr) : janet_wrap_symbol(kept[q].ptr));
                kept[q].rooted = 0;
                /* the same name may still be rooted through another kept entry; then it stays alive, which is fine */
            }
    }
    printf("summary symcache rounds %d per_round %d lookups %ld moved_into_tombstone %ld max_tombstones %ld resizes %ld capacity %u live %ld "
           "engineered_wrap_names %ld placed_in_last_bucket %ld gensyms %ld gensym_format_names_preinterned %ld gensyms_that_skipped %ld violations %ld\n",
           rounds, n, lookups, moved, maxdead, resizes, janet_vm.cache_capacity, cache_live, wrapnames, lastbucket, gensyms, preinterned, gensym_skips, nviol);
    return 0;
}

/* ------------------------------------------------------------------------------------------------------------------
 * struct layout scenario: the same key/value set inserted in MANY orders must give identical slot arrays.
 * Key sets are drawn from a candidate pool using the real janet_hash so that they share a home bucket or adjacent
 * buckets modulo the capacity the struct will get (probe clusters with displacement), or are plain small integers. */
typedef struct { Janet k; int32_t h; } Cand;
static Cand *cands; static int ncand;

static void add_cand(Janet k) {
    cands[ncand].k = k; cands[ncand].h = janet_hash(k); ncand++;
    if (!janet_checktype(k, JANET_NUMBER)) janet_gcroot(k);
}

static const JanetKV *build_order(const Janet *keys, const Janet *vals, const int *ord, int n) {
    JanetKV *st = janet_struct_begin(n);
    for (int i = 0; i < n; i++) janet_struct_put(st, keys[ord[i]], vals[ord[i]]);
    return janet_struct_end(st);
}

static int same_slots(const JanetKV *a, const JanetKV *b) {
    if (janet_struct_capacity(a) != janet_struct_capacity(b) || janet_struct_length(a) != janet_struct_length(b)) return 0;
    for (int32_t i = 0; i < janet_struct_capacity(a); i++)
        if (bits_of(a[i].key) != bits_of(b[i].key) || bits_of(a[i].value) != bits_of(b[i].value)) return 0;
    return 1;
}

static const char *LAYOUT_PRELUDE =
    "(defn c03-ways [ks vs]\n"          /* the same insertion order through the language-level constructors */
    "  (def args @[]) (def t @{})\n"
    "  (for i 0 (length ks) (array/push args (ks i) (vs i)) (put t (ks i) (vs i)))\n"
    "  (def s (struct ;args))\n"
    "  [s (table/to-struct t) (freeze t) (unmarshal (marshal s)) (parse (string/format \"%j\" s)) (struct ;(kvs s))\n"
    "   (table/to-struct (merge @{} s))])\n";

static int run_layout(uint64_t seed, int nsets, int maxperm, int nmodel) {
    sm_state = seed;
    JanetTable *env = g_env = janet_core_env(NULL);
    janet_gcroot(janet_wrap_table(env));
    Janet out;
    if (janet_dostring(env, LAYOUT_PRELUDE, "layout-prelude", &out)) { printf("error layout-prelude\n"); return 2; }
    Janet ways = janet_wrap_nil();
    janet_resolve(env, janet_csymbol("c03-ways"), &ways);
    if (!janet_checktype(ways, JANET_FUNCTION)) { printf("error no-c03-ways\n"); return 2; }
    cands = malloc(sizeof(Cand) * 4096); ncand = 0;
    for (int i = -60; i <= 600; i++) add_cand(janet_wrap_number(i));
    for (int i = 0; i < 120; i++) add_cand(janet_wrap_number(i + 0.5));
    for (int i = 0; i < 300; i++) { char b[16]; snprintf(b, sizeof b, "k%d", i); add_cand(janet_cstringv(b)); add_cand(janet_ckeywordv(b)); }
    for (int i = 0; i < 26; i++) for (int j = 0; j < 8; j++) { char b[4] = { (char)('a' + i), (char)('a' + j), 0, 0 }; add_cand(janet_ckeywordv(b)); add_cand(janet_csymbolv(b)); }
    long builds = 0, langbuilds = 0, fails = 0, maxcluster = 0, engineered = 0;
    long sizehist[16] = {0};
    for (int s = 0; s < nsets; s++) {
        int n = 5 + (int)(sm_next() % 5);            /* 5..9 keys */
        if (sm_next() % 8 == 0) n = 3 + (int)(sm_next() % 2);
        int32_t cap = janet_tablen(2 * n);
        Janet keys[16], vals[16]; int idx[16];
        int mode = (int)(sm_next() % 4);             /* 0: plain small ints; 1..3: engineered window of width mode */
        int got = 0;
        if (mode == 0) {
            int span = 40 + (int)(sm_next() % 80), base = (int)(sm_next() % 200);
            while (got < n) {
                int c = 60 + base + (int)(sm_next() % span);   /* index of the integer (base + …) in cands */
                int dup = 0; for (int q = 0; q < got; q++) if (idx[q] == c) dup = 1;
                if (!dup) idx[got++] = c;
            }
        } else {
            engineered++;
            uint32_t b = (uint32_t)(sm_next() % (uint64_t) cap);
            int tries = 0;
            while (got < n && tries < 200000) {
                int c = (int)(sm_next() % (uint64_t) ncand); tries++;
                uint32_t home = (uint32_t) cands[c].h & (uint32_t)(cap - 1);
                uint32_t off = (home + cap - b) & (uint32_t)(cap - 1);
                if (off >= (uint32_t) mode && tries < 150000) continue;
                int dup = 0; for (int q = 0; q < got; q++) if (idx[q] == c) dup = 1;
                if (!dup) idx[got++] = c;
            }
        }
        sizehist[n]++;
        for (int i = 0; i < n; i++) { keys[i] = cands[idx[i]].k; vals[i] = janet_wrap_number(i + 1); }
        int ord[16]; for (int i = 0; i < n; i++) ord[i] = i;
        const JanetKV *ref = build_order(keys, vals, ord, n);
        janet_gcroot(janet_wrap_struct(ref));
        /* longest run of occupied slots (cluster size), for the coverage report */
        { int32_t run = 0, best = 0; for (int32_t i = 0; i < 2 * cap; i++) { if (!janet_checktype(ref[i & (cap - 1)].key, JANET_NIL)) { run++; if (run > best) best = run; } else run = 0; }
          if (best > cap) best = cap; if (best > maxcluster) maxcluster = best; }
        if (s < nmodel) {
            printf("lset %d\n", n);
            for (int i = 0; i < n; i++) { fputs("lkey ", stdout); ser(keys[i], 0); putchar('\n'); }
            fputs("lref ", stdout); ser(janet_wrap_struct(ref), 0); putchar('\n');
        }
        int allperms = n <= 6;
        long nperm = allperms ? 1 : maxperm;
        if (allperms) for (int i = 2; i <= n; i++) nperm *= i;
        int failed_here = 0;
        int c[16] = {0}; int hi = 1;                  /* Heap's algorithm state */
        for (long pi = 0; pi < nperm && !failed_here; pi++) {
            if (pi > 0) {
                if (allperms) {
                    while (hi < n && c[hi] >= hi) { c[hi] = 0; hi++; }
                    if (hi >= n) break;
                    int a = (hi & 1) ? c[hi] : 0, t = ord[a]; ord[a] = ord[hi]; ord[hi] = t;
                    c[hi]++; hi = 1;
                } else {
                    for (int i = n - 1; i > 0; i--) { int j = (int)(sm_next() % (uint64_t)(i + 1)), t = ord[i]; ord[i] = ord[j]; ord[j] = t; }
                }
            }
            const JanetKV *st = build_order(keys, vals, ord, n);
            builds++;
            int bad = !same_slots(ref, st) || janet_struct_hash(ref) != janet_struct_hash(st) ||
                      !janet_equals(janet_wrap_struct(ref), janet_wrap_struct(st)) || janet_compare(janet_wrap_struct(ref), janet_wrap_struct(st)) != 0 ||
                      janet_compare(janet_wrap_struct(st), janet_wrap_struct(ref)) != 0;
            const char *via = "janet_struct_put";
            if (!bad && (pi % 97 == 0 || pi == nperm - 1)) {
                /* the same order through struct / table/to-struct / freeze / unmarshal / parse / splice / merge */
                Janet ko[16], vo[16];
                for (int i = 0; i < n; i++) { ko[i] = keys[ord[i]]; vo[i] = vals[ord[i]]; }
                Janet args[2] = { janet_wrap_tuple(janet_tuple_n(ko, n)), janet_wrap_tuple(janet_tuple_n(vo, n)) };
                Janet r; JanetFiber *fib = NULL;
                if (janet_pcall(janet_unwrap_function(ways), 2, args, &r, &fib) != JANET_SIGNAL_OK || !janet_checktype(r, JANET_TUPLE)) {
                    law("layout-constructors-error", s, pi, -1, ""); bad = 0;
                } else {
                    static const char *names[] = {"struct", "table/to-struct", "freeze", "unmarshal", "parse", "struct-splice-kvs", "merge/to-struct"};
                    const Janet *rt = janet_unwrap_tuple(r);
                    for (int32_t w = 0; w < janet_tuple_length(rt) && !bad; w++) {
                        langbuilds++;
                        if (!janet_checktype(rt[w], JANET_STRUCT)) { bad = 1; via = names[w]; break; }
                        const JanetKV *s2 = janet_unwrap_struct(rt[w]);
                        /* parse / unmarshal make new strings: compare with janet_equals on slots instead of bits for those */
                        int same = janet_struct_capacity(s2) == cap && janet_struct_hash(s2) == janet_struct_hash(ref);
                        for (int32_t i = 0; same && i < cap; i++)
                            same = janet_equals(s2[i].key, ref[i].key) && janet_equals(s2[i].value, ref[i].value);
                        if (!same || !janet_equals(rt[w], janet_wrap_struct(ref)) || janet_compare(rt[w], janet_wrap_struct(ref)) != 0) { bad = 1; via = names[w]; }
                    }
                }
            }
            if (bad) {
                fails++; failed_here = 1;
                if (fails <= 3) {
                    law("layout-order-dependent", s, pi, n, via);
                    printf("lfail %d %s\n", n, via);
                    for (int i = 0; i < n; i++) { fputs("lfkey ", stdout); ser(keys[i], 0); putchar('\n'); }
                    fputs("lforder", stdout); for (int i = 0; i < n; i++) printf(" %d", ord[i]); putchar('\n');
                } else nviol++;
            }
        }
        janet_gcunroot(janet_wrap_struct(ref));
        if ((s & 15) == 15) collect();
    }
    printf("summary layout sets %d engineered %ld builds %ld language_level_builds %ld max_cluster %ld failing_sets %ld violations %ld sizes", nsets, engineered, builds, langbuilds, maxcluster, fails, nviol);
    for (int i = 3; i <= 9; i++) printf(" %d:%ld", i, sizehist[i]);
    putchar('\n');
    return 0;
}

/* ------------------------------------------------------------------------------------------------------------------
 * duplicate-key scenario (session 3): insertion sequences in which the same key occurs several times (also as a different
 * but `=` key object: -0 for +0, a fresh tuple), with nil keys / values and NaN keys interspersed, any announced count,
 * replace = 1 (janet_struct_put) or 0 (struct/proto-flatten).  Direct oracle: the finished struct must be bit for bit the
 * struct of the final key->value map (first key object, last / first value) built in several orders; lookups return the
 * winning value.  The first <nmodel> cases are printed for the Lean model (structOfCount / structOfCountKeep / finalMap). */
static int is_nan_key(Janet k) { return janet_checktype(k, JANET_NUMBER) && janet_unwrap_number(k) != janet_unwrap_number(k); }

static int run_dups(uint64_t seed, int ncases, int nmodel) {
    sm_state = seed;
    JanetTable *env = g_env = janet_core_env(NULL);
    janet_gcroot(janet_wrap_table(env));
    Janet structfn = janet_wrap_nil();
    janet_resolve(env, janet_csymbol("struct"), &structfn);
    cands = malloc(sizeof(Cand) * 4096); ncand = 0;
    for (int i = -40; i <= 300; i++) add_cand(janet_wrap_number(i));
    for (int i = 0; i < 60; i++) add_cand(janet_wrap_number(i + 0.5));
    for (int i = 0; i < 200; i++) { char b[16]; snprintf(b, sizeof b, "k%d", i); add_cand(janet_cstringv(b)); add_cand(janet_ckeywordv(b)); }
    for (int i = 0; i < 40; i++) { Janet e[2] = { janet_wrap_number(i % 7), janet_ckeywordv(i & 1 ? "p" : "q") }; add_cand(janet_wrap_tuple(janet_tuple_n(e, 1 + (i & 1)))); }
    long builds = 0, under = 0, keep = 0, dupputs = 0, aliasputs = 0, ignored = 0, nanputs = 0, lang = 0, maxmult = 0;
    long lenhist[24] = {0};
    for (int cs = 0; cs < ncases; cs++) {
        int n = 2 + (int)(sm_next() % 6);                 /* distinct keys 2..7 */
        int m = n + (int)(sm_next() % (uint64_t)(n + 3));  /* puts */
        if (m > 20) m = 20;
        int32_t capg = janet_tablen(2 * m);
        int idx[8], got = 0, mode = (int)(sm_next() % 3);
        uint32_t b = (uint32_t)(sm_next() % (uint64_t) capg);
        int tries = 0;
        while (got < n) {
            int c = (int)(sm_next() % (uint64_t) ncand); tries++;
            if (mode && tries < 100000) {
                uint32_t home = (uint32_t) cands[c].h & (uint32_t)(capg - 1);
                if (((home + capg - b) & (uint32_t)(capg - 1)) >= (uint32_t)(mode + 1)) continue;
            }
            int dup = 0; for (int q = 0; q < got; q++) if (janet_equals(cands[idx[q]].k, cands[c].k)) dup = 1;
            if (!dup) idx[got++] = c;
        }
        /* every third case has the number 0 among its keys, so that -0 / +0 (equal keys, different bits) occur as duplicates */
        if (sm_next() % 3 == 0) { int has0 = 0; for (int q = 0; q < n; q++) if (idx[q] == 40) has0 = 1; if (!has0) idx[0] = 40; }
        int r = (sm_next() % 5) ? 1 : 0;
        Janet ks[24], vs[24]; int mult[8] = {0};
        for (int i = 0; i < m; i++) {
            int which = i < n ? i : (int)(sm_next() % (uint64_t) n);        /* every key at least once, then repeats */
            if (i >= n) dupputs++;
            Janet k = cands[idx[which]].k;
            mult[which]++; if (mult[which] > maxmult) maxmult = mult[which];
            /* a different but equal key object */
            if (janet_checktype(k, JANET_NUMBER) && janet_unwrap_number(k) == 0 && (sm_next() & 1)) { k = janet_wrap_number(-0.0); aliasputs++; }
            else if (janet_checktype(k, JANET_TUPLE) && (sm_next() & 1)) { const Janet *t = janet_unwrap_tuple(k); k = janet_wrap_tuple(janet_tuple_n(t, janet_tuple_length(t))); aliasputs++; }
            ks[i] = k; vs[i] = janet_wrap_number(100 + i);
            uint64_t roll = sm_next() % 24;
            if (roll == 0) { vs[i] = janet_wrap_nil(); ignored++; }
            else if (roll == 1) { ks[i] = janet_wrap_nil(); ignored++; }
            else if (roll == 2) { ks[i] = janet_wrap_number(0.0 / 0.0); nanputs++; }
        }
        /* shuffle the sequence (so that first occurrences are not always in front) */
        for (int i = m - 1; i > 0; i--) { int j = (int)(sm_next() % (uint64_t)(i + 1)); Janet t = ks[i]; ks[i] = ks[j]; ks[j] = t; t = vs[i]; vs[i] = vs[j]; vs[j] = t; }
        int accepted = 0;
        for (int i = 0; i < m; i++) if (!janet_checktype(ks[i], JANET_NIL) && !janet_checktype(vs[i], JANET_NIL) && !is_nan_key(ks[i])) accepted++;
        int c = m + (int)(sm_next() % 4);
        int isunder = 0;
        if (sm_next() % 6 == 0 && accepted > 1) { c = 1 + (int)(sm_next() % (uint64_t)(accepted - 1)); isunder = 1; under++; }
        if (!r) keep++;
        JanetKV *sb = janet_struct_begin(c);
        for (int i = 0; i < m; i++) janet_struct_put_ext(sb, ks[i], vs[i], r);
        const JanetKV *st = janet_struct_end(sb);
        janet_gcroot(janet_wrap_struct(st));
        builds++;
        if (cs < nmodel) {
            printf("dcase %d %d %d %d\n", r, c, m, isunder);
            for (int i = 0; i < m; i++) { fputs("dkv ", stdout); ser(ks[i], 0); putchar(' '); ser(vs[i], 0); putchar('\n'); }
            fputs("dref ", stdout); ser(janet_wrap_struct(st), 0); putchar('\n');
        }
        /* independent final map */
        Janet fk[24], fv[24]; int fn = 0;
        for (int i = 0; i < m; i++) {
            if (janet_checktype(ks[i], JANET_NIL) || janet_checktype(vs[i], JANET_NIL) || is_nan_key(ks[i])) continue;
            int at = -1; for (int q = 0; q < fn; q++) if (janet_equals(fk[q], ks[i])) at = q;
            if (at < 0) { if (!isunder || fn < c) { fk[fn] = ks[i]; fv[fn] = vs[i]; fn++; } }   /* under-announced: extra NEW keys are dropped … */
            else if (r && (!isunder || fn < c)) fv[at] = vs[i];                                /* … and so is a replacing put once the struct is full */
        }
        lenhist[fn < 24 ? fn : 23]++;
        if (janet_struct_length(st) != fn) law("dups-length", cs, janet_struct_length(st), fn, "");
        for (int q = 0; q < fn; q++) {
            Janet g = janet_struct_get(st, fk[q]);
            if (bits_of(g) != bits_of(fv[q])) law("dups-winning-value", cs, q, r, "");
        }
        int ord[24]; for (int i = 0; i < fn; i++) ord[i] = i;
        for (int rep = 0; rep < 4; rep++) {
            if (rep == 1) for (int i = 0; i < fn / 2; i++) { int t = ord[i]; ord[i] = ord[fn - 1 - i]; ord[fn - 1 - i] = t; }
            if (rep >= 2) for (int i = fn - 1; i > 0; i--) { int j = (int)(sm_next() % (uint64_t)(i + 1)), t = ord[i]; ord[i] = ord[j]; ord[j] = t; }
            const JanetKV *ref = build_order(fk, fv, ord, fn);
            builds++;
            /* the property: same content => `=`, same hash, compare 0, and the same layout slot by slot up to `=` of keys; values
             * bit for bit (which value wins).  WHICH of several `=` key objects is kept (the first) is compared by the model
             * correspondence, not here: another choice would not violate the property. */
            int same = janet_struct_capacity(ref) == janet_struct_capacity(st) && janet_struct_length(ref) == janet_struct_length(st);
            for (int32_t i = 0; same && i < janet_struct_capacity(st); i++)
                same = janet_equals(ref[i].key, st[i].key) && bits_of(ref[i].value) == bits_of(st[i].value);
            if (!same || janet_struct_hash(ref) != janet_struct_hash(st) || !janet_equals(janet_wrap_struct(ref), janet_wrap_struct(st)) ||
                janet_compare(janet_wrap_struct(ref), janet_wrap_struct(st)) != 0)
                law("dups-final-map", cs, rep, r, isunder ? "under-announced" : "");
        }
        /* the language-level constructor (announces the number of pairs) */
        if (r && !isunder && janet_checktype(structfn, JANET_CFUNCTION)) {
            Janet args[48];
            for (int i = 0; i < m; i++) { args[2 * i] = ks[i]; args[2 * i + 1] = vs[i]; }
            Janet res = janet_unwrap_cfunction(structfn)(2 * m, args);
            lang++;
            if (!janet_checktype(res, JANET_STRUCT) || !janet_equals(res, janet_wrap_struct(st)) || janet_hash(res) != janet_hash(janet_wrap_struct(st)))
                law("dups-struct-constructor", cs, -1, -1, "");
        }
        janet_gcunroot(janet_wrap_struct(st));
        if ((cs & 31) == 31) collect();
    }
    printf("summary dups cases %d builds %ld replace0 %ld under_announced %ld repeated_puts %ld alias_key_puts %ld ignored_nil_puts %ld nan_key_puts %ld struct_constructor %ld max_multiplicity %ld violations %ld mapsizes",
           ncases, builds, keep, under, dupputs, aliasputs, ignored, nanputs, lang, maxmult, nviol);
    for (int i = 0; i <= 8; i++) printf(" %d:%ld", i, lenhist[i]);
    putchar('\n');
    return 0;
}

/* ------------------------------------------------------------------------------------------------------------------
 * symbol cache histories on a FRESH VM (no core environment: the cache starts empty at its initial capacity), replayed by
 * the Lean model (Value/SymCache.lean + SymGen.lean): janet_symbol / janet_keyword, janet_symbol_gen, and real collections
 * (janet_collect; the order in which the sweep calls janet_symbol_deinit is logged by the wrapper at the top of this file).
 * After every collection and at the end the whole of janet_vm.cache, the counters and the gensym counter are dumped.
 * Names are engineered with the real hash: home buckets at the end of the array (wrap-around), shared homes, names that
 * follow the gensym counter. */
static int hist_logging;
static char *hbuf_ops, *hbuf_res; static size_t hlen_ops, hlen_res, hcap_ops, hcap_res;
static void happend(char **buf, size_t *len, size_t *cap, const char *fmt, ...) {
    va_list ap; char tmp[256];
    va_start(ap, fmt); int n = vsnprintf(tmp, sizeof tmp, fmt, ap); va_end(ap);
    if (*len + (size_t) n + 2 > *cap) { *cap = (*cap ? *cap * 2 : 1 << 16) + (size_t) n; *buf = realloc(*buf, *cap); }
    memcpy(*buf + *len, tmp, (size_t) n); *len += (size_t) n; (*buf)[*len] = 0;
}
#define HOPS(...) happend(&hbuf_ops, &hlen_ops, &hcap_ops, __VA_ARGS__)
#define HRES(...) happend(&hbuf_res, &hlen_res, &hcap_res, __VA_ARGS__)
static void hexname(char *out, const uint8_t *p, int32_t n) { for (int32_t i = 0; i < n; i++) sprintf(out + 2 * i, "%02x", p[i]); out[2 * n] = 0; }
static void c03_note_deinit(const uint8_t *sym) {
    if (!hist_logging) return;
    char hx[160]; int32_t n = janet_string_length(sym);
    if (n > 70) n = 70;
    hexname(hx, sym, n);
    HOPS(" D%s", hx); HRES(" d");
}
static void hist_dump(void) {
    char hx[32]; hexname(hx, janet_vm.gensym_counter, 7);
    HOPS(" X"); HRES(" x%u,%u,%u,%s", janet_vm.cache_capacity, janet_vm.cache_count, janet_vm.cache_deleted, hx);
    for (uint32_t i = 0; i < janet_vm.cache_capacity; i++) {
        const uint8_t *p = janet_vm.cache[i];
        if (!p) continue;
        if (p == JANET_SYMCACHE_DELETED) { HRES(",%u:-", i); continue; }
        char h2[160]; int32_t n = janet_string_length(p); if (n > 70) n = 70;
        hexname(h2, p, n);
        HRES(",%u:%s", i, h2);
    }
}

static int run_symhist(uint64_t seed, int nhist, int nops) {
    sm_state = seed;
    long tot_ops = 0, tot_intern = 0, tot_gensym = 0, tot_collect = 0, tot_deinit = 0, tot_resize = 0, tot_last = 0, tot_lookup = 0, tot_skip = 0, mincap = 1 << 30, maxcap = 0;
    for (int h = 0; h < nhist; h++) {
        hist_logging = 0;
        janet_deinit(); janet_init();
        hlen_ops = hlen_res = 0;
        Kept *kept = NULL; size_t nk = 0, capk = 0;
        uint32_t lastcap = janet_vm.cache_capacity;
        hist_logging = 1;
        /* a history has a bias: mostly last-bucket collisions / mostly gensym / mass interning with shrinking resizes / mixed */
        int bias = (int)(sm_next() % 4);
        int serial = 0, massdone = 0;
        for (int k = 0; k < nops; k++) {
            uint32_t cap = janet_vm.cache_capacity;
            uint64_t roll = sm_next() % 100;
            char buf[80]; buf[0] = 0;
            int what;   /* 0 intern engineered, 1 intern ahead of the counter, 2 gensym, 3 lookup kept, 4 unroot, 5 collect, 6 mass */
            if (bias == 0) what = roll < 45 ? 0 : roll < 50 ? 1 : roll < 58 ? 2 : roll < 72 ? 3 : roll < 86 ? 4 : roll < 98 ? 5 : 6;
            else if (bias == 1) what = roll < 15 ? 0 : roll < 40 ? 1 : roll < 70 ? 2 : roll < 78 ? 3 : roll < 90 ? 4 : roll < 99 ? 5 : 6;
            else if (bias == 2) what = roll < 30 ? 0 : roll < 35 ? 1 : roll < 42 ? 2 : roll < 52 ? 3 : roll < 70 ? 4 : roll < 84 ? 5 : 6;
            else what = roll < 30 ? 0 : roll < 42 ? 1 : roll < 58 ? 2 : roll < 70 ? 3 : roll < 84 ? 4 : roll < 97 ? 5 : 6;
            tot_ops++;
            if (what == 0 || what == 1) {
                if (what == 0) {
                    uint32_t pick = (uint32_t)(sm_next() % 8);
                    uint32_t target = pick < 4 ? cap - 1 : pick == 4 ? cap - 2 : pick == 5 ? 0 : (uint32_t)(sm_next() % (cap < 8 ? cap : 8));
                    for (uint32_t tries = 0; tries < 60 * cap; tries++) {
                        snprintf(buf, sizeof buf, "h%d-%d", h % 7, serial++);
                        if (((uint32_t) janet_string_calchash((const uint8_t *) buf, (int32_t) strlen(buf)) & (cap - 1)) == target) break;
                    }
                } else {
                    uint8_t ctr[8]; memcpy(ctr, janet_vm.gensym_counter, 8);
                    int ahead = 1 + (int)(sm_next() % 3);
                    for (int j = 0; j < ahead; j++) c03_inc(ctr);
                    memcpy(buf, ctr, 7); buf[7] = 0;
                }
                int kw = (int)(sm_next() % 3 == 0);
                size_t before = janet_vm.block_count;
                const uint8_t *p = kw ? janet_ckeyword(buf) : janet_csymbol(buf);
                int isnew = janet_vm.block_count != before;
                char hx[170]; hexname(hx, (const uint8_t *) buf, (int32_t) strlen(buf));
                HOPS(" I%s", hx); HRES(" %c", isnew ? 'n' : 'o');
                tot_intern++;
                if (janet_vm.cache_capacity == cap && janet_vm.cache[cap - 1] == p && isnew) tot_last++;
                for (size_t q = 0; q < nk; q++)
                    if (kept[q].rooted && !strcmp(kept[q].name, buf) && kept[q].ptr != p) law("symbol-duplicate-live", h, k, (long) q, buf);
                if (sm_next() % 100 < (what == 0 ? 55 : 75)) {
                    if (nk == capk) { capk = capk ? 2 * capk : 256; kept = realloc(kept, capk * sizeof(Kept)); }
                    kept[nk].name = strdup(buf); kept[nk].ptr = p; kept[nk].rooted = 1; kept[nk].kw = kw;
                    janet_gcroot(kw ? janet_wrap_keyword(p) : janet_wrap_symbol(p));
                    nk++;
                }
            } else if (what == 2) {
                uint8_t before[8]; memcpy(before, janet_vm.gensym_counter, 8);
                const uint8_t *g = janet_symbol_gen();
                char hx[32]; hexname(hx, g, janet_string_length(g));
                HOPS(" G"); HRES(" g%s", hx);
                tot_gensym++;
                c03_inc(before);
                if (memcmp(before, janet_vm.gensym_counter, 7) && memcmp(g, "_000000", 7)) tot_skip++;
                check_gensym(g, kept, nk, h);
                HOPS(" I%s", hx); HRES(" o");          /* check_gensym interned the bytes again */
                if (sm_next() % 100 < 60) {
                    if (nk == capk) { capk = capk ? 2 * capk : 256; kept = realloc(kept, capk * sizeof(Kept)); }
                    kept[nk].name = strdup((const char *) g); kept[nk].ptr = g; kept[nk].rooted = 1; kept[nk].kw = 0;
                    janet_gcroot(janet_wrap_symbol(g));
                    nk++;
                }
            } else if (what == 3 && nk) {
                size_t q = (size_t)(sm_next() % nk);
                if (!kept[q].rooted) continue;
                size_t before = janet_vm.block_count;
                const uint8_t *p = janet_symbol((const uint8_t *) kept[q].name, (int32_t) strlen(kept[q].name));
                char hx[170]; hexname(hx, (const uint8_t *) kept[q].name, (int32_t) strlen(kept[q].name));
                HOPS(" I%s", hx); HRES(" %c", janet_vm.block_count != before ? 'n' : 'o');
                tot_lookup++;
                if (p != kept[q].ptr) law("symbol-duplicate-after-collect", h, k, (long) q, kept[q].name);
            } else if (what == 4 && nk) {
                size_t q = (size_t)(sm_next() % nk);
                if (!kept[q].rooted) continue;
                janet_gcunroot(kept[q].kw ? janet_wrap_keyword(kept[q].ptr) : janet_wrap_symbol(kept[q].ptr));
                kept[q].rooted = 0;
                /* the same object may be rooted through another kept entry: then that entry keeps it alive */
            } else if (what == 5) {
                janet_collect();
                tot_collect++;
                hist_dump();
                cache_check(h, "symhist-after-collect");
                /* every rooted name must still be found at its address */
                for (size_t q = 0; q < nk; q++) {
                    if (!kept[q].rooted) continue;
                    int found = 0;
                    for (uint32_t i = 0; i < janet_vm.cache_capacity; i++) if (janet_vm.cache[i] == kept[q].ptr) { found = 1; break; }
                    if (!found) law("symcache-lost-live-symbol", h, k, (long) q, kept[q].name);
                }
            } else if (what == 6) {
                /* mass interning of unrooted names: growth; the next collection leaves mostly tombstones, the next put shrinks */
                if (bias < 2 || massdone >= 2) continue;
                massdone++;
                int m = 150 + (int)(sm_next() % 500);
                for (int j = 0; j < m; j++) {
                    snprintf(buf, sizeof buf, "m%d-%d", h % 5, serial++);
                    size_t before = janet_vm.block_count;
                    const uint8_t *p = janet_csymbol(buf);
                    char hx[170]; hexname(hx, (const uint8_t *) buf, (int32_t) strlen(buf));
                    HOPS(" I%s", hx); HRES(" %c", janet_vm.block_count != before ? 'n' : 'o');
                    tot_intern++;
                    if (j % 97 == 0) {
                        if (nk == capk) { capk = capk ? 2 * capk : 256; kept = realloc(kept, capk * sizeof(Kept)); }
                        kept[nk].name = strdup(buf); kept[nk].ptr = p; kept[nk].rooted = 1; kept[nk].kw = 0;
                        janet_gcroot(janet_wrap_symbol(p));
                        nk++;
                    }
                }
            }
            if (janet_vm.cache_capacity != lastcap) { tot_resize++; lastcap = janet_vm.cache_capacity; }
            if ((long) lastcap < mincap) mincap = lastcap;
            if ((long) lastcap > maxcap) maxcap = lastcap;
        }
        hist_dump();
        cache_check(h, "symhist-end");
        hist_logging = 0;
        for (char *q = hbuf_ops; *q; q++) if (*q == 'D') tot_deinit++;
        printf("hops %d%s\n", h, hbuf_ops);
        printf("hres %d%s\n", h, hbuf_res);
        for (size_t q = 0; q < nk; q++) free(kept[q].name);
        free(kept);
    }
    printf("summary symhist histories %d ops %ld interns %ld lookups_of_rooted %ld gensyms %ld gensyms_that_skipped %ld collections %ld symbols_swept %ld "
           "resizes %ld min_capacity %ld max_capacity %ld new_symbols_placed_in_last_bucket %ld violations %ld\n",
           nhist, tot_ops, tot_intern, tot_lookup, tot_gensym, tot_skip, tot_collect, tot_deinit, tot_resize, mincap, maxcap, tot_last, nviol);
    return 0;
}

int main(int argc, char **argv) {
    janet_init();
    int rc;
    if (argc >= 3 && !strcmp(argv[1], "pool")) rc = run_pool(argv[2]);
    else if (argc >= 5 && !strcmp(argv[1], "symcache")) rc = run_symcache(strtoull(argv[2], NULL, 10), atoi(argv[3]), atoi(argv[4]));
    else if (argc >= 5 && !strcmp(argv[1], "symhist")) rc = run_symhist(strtoull(argv[2], NULL, 10), atoi(argv[3]), atoi(argv[4]));
    else if (argc >= 5 && !strcmp(argv[1], "dups")) rc = run_dups(strtoull(argv[2], NULL, 10), atoi(argv[3]), atoi(argv[4]));
    else if (argc >= 6 && !strcmp(argv[1], "layout")) rc = run_layout(strtoull(argv[2], NULL, 10), atoi(argv[3]), atoi(argv[4]), atoi(argv[5]));
    else { printf("usage: pool <script> | symcache <seed> <rounds> <n> | layout <seed> <sets> <maxperm> <nmodel> | dups <seed> <cases> <nmodel>\n"); rc = 2; }
    fflush(stdout);
    return rc;
}
