/* C19 correspondence harness: drives the real janet_fiber_pushn / janet_fiber_funcframe / janet_fiber_funcframe_tail
 * with the op lines of the model driver (lean/Driver/C19.lean) and prints the fiber's frame bookkeeping after each op.
 *   new <capacity> <slotcount>   fresh fiber running a function with <slotcount> slots     -> state line
 *   push n | tail s a min max v | call s a min max v                                      -> state line | "arity"
 *   ret                          janet_fiber_popframe                                     -> state line
 */
#include <janet.h>
#include <stdio.h>
#include <stdlib.h>
#include <string.h>
#include "fiber.h"
#include "gc.h"

static JanetFunction *mkfn(int slotcount, int arity, int min, int max, int vararg) {
    JanetFuncDef *def = janet_funcdef_alloc();
    def->slotcount = slotcount;
    def->arity = arity;
    def->min_arity = min;
    def->max_arity = max;
    def->flags = vararg ? JANET_FUNCDEF_FLAG_VARARG : 0;
    def->bytecode = janet_malloc(sizeof(uint32_t));
    def->bytecode[0] = JOP_RETURN_NIL;
    def->bytecode_length = 1;
    return janet_thunk(def);
}

static void show(JanetFiber *f) {
    printf("%d %d %d %d\n", f->frame, f->stackstart, f->stacktop, f->capacity);
}

int main(void) {
    char line[256];
    janet_init();
    janet_gclock();
    JanetFiber *fiber = NULL;
    while (fgets(line, sizeof line, stdin)) {
        char op[32];
        int a = 0, b = 0, c = 0, d = 0, e = 0;
        int n = sscanf(line, "%31s %d %d %d %d %d", op, &a, &b, &c, &d, &e);
        if (n < 1) { printf("bad-op\n"); continue; }
        if (!strcmp(op, "new")) {
            fiber = janet_fiber(mkfn(b, 0, 0, 0, 0), a, 0, NULL);
            if (!fiber) { printf("arity\n"); continue; }
            show(fiber);
        } else if (!fiber) {
            printf("bad-op\n");
        } else if (!strcmp(op, "push")) {
            Janet *vals = janet_smalloc(sizeof(Janet) * (a ? a : 1));
            for (int i = 0; i < a; i++) vals[i] = janet_wrap_integer(i);
            janet_fiber_pushn(fiber, vals, a);
            janet_sfree(vals);
            show(fiber);
        } else if (!strcmp(op, "tail")) {
            if (janet_fiber_funcframe_tail(fiber, mkfn(a, b, c, d, e))) printf("arity\n");
            else show(fiber);
        } else if (!strcmp(op, "call")) {
            if (janet_fiber_funcframe(fiber, mkfn(a, b, c, d, e))) printf("arity\n");
            else show(fiber);
        } else if (!strcmp(op, "ret")) {
            janet_fiber_popframe(fiber);
            show(fiber);
        } else {
            printf("bad-op\n");
        }
    }
    fflush(stdout);
    return 0;
}
