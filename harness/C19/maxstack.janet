# C19 correspondence, fiber-stack side: how deep does a non-tail self recursion get on a fiber with a given
# maxstack before the VM (JOP_CALL: `if (fiber->stacktop > fiber->maxstack) vm_throw("stack overflow")`) refuses?
# usage: janet maxstack.janet M1 M2 ...     prints, per function shape and M:
#   MS <shape> <capacity> <slot0> <M> <tailfirst> <slot> <arity> <nargs> <frames entered> <error text>
# The model driver (lean/Driver/C19.lean, op `overflow`) predicts <frames entered> and the error from the slot counts
# alone.  Slot counts are read from the compiled functions (disasm), nothing is assumed about the compiler.

(var depth 0)

# shapes: self recursion with 1, 2, 3 and 5 arguments and different numbers of locals (= slot counts)
(defn rec1 [n] (set depth n) (+ 1 (rec1 (+ n 1))))
(defn rec2 [n a] (set depth n) (+ 1 (rec2 (+ n 1) a)))
(defn rec3 [n a b] (set depth n) (def x (+ a b)) (def y (* a b)) (+ x y (rec3 (+ n 1) a b)))
(defn rec5 [n a b c d] (set depth n) (def x (+ a b c d)) (def y [a b c d x]) (+ x (length y) (rec5 (+ n 1) a b c d)))

(def shapes
  [["rec1" rec1 (fn [] (rec1 1)) 1]
   ["rec2" rec2 (fn [] (rec2 1 :a)) 2]
   ["rec3" rec3 (fn [] (rec3 1 2 3)) 3]
   ["rec5" rec5 (fn [] (rec5 1 2 3 4 5)) 5]])

(defn slots [f] ((disasm f) :slotcount))

(each m (map scan-number (drop 1 (dyn :args)))
  (each [name f thunk nargs] shapes
    (set depth 0)
    (def fib (fiber/new thunk :e))
    (fiber/setmaxstack fib m)
    (def res (resume fib))
    (def err (if (= (fiber/status fib) :error) (string res) (string "no-error:" (fiber/status fib))))
    # the thunk's call is in tail position: JOP_TAILCALL reuses the thunk's frame
    (print "MS " name " 64 " (slots thunk) " " m " 1 " (slots f) " " ((disasm f) :arity) " " nargs " " depth " " err)))
