/* C19: depth-counter balance oracle for peg_rule.  Wrapper TU: includes peg.c (replaces peg.o at link time) and adds a
 * C function `verif/peg-depth` = peg/match that returns [matched? depth-counter-after - depth-counter-before].  Every
 * match that returns normally must give the budget back exactly: a non-zero drift means some path through a combinator
 * releases (up1) more or less than it charged (down1).  Runs the janet script given as argv[1]. */
#include "peg.c"
#include <stdio.h>

static Janet verif_peg_depth(int32_t argc, Janet *argv) {
    PegCall c = peg_cfun_init(argc, argv, 0);
    int32_t before = c.s.depth;
    const uint8_t *result = peg_rule(&c.s, c.s.bytecode, c.bytes.bytes + c.start);
    Janet tup[2];
    tup[0] = janet_wrap_boolean(result != NULL);
    tup[1] = janet_wrap_integer(c.s.depth - before);
    return janet_wrap_tuple(janet_tuple_n(tup, 2));
}

int main(int argc, char **argv) {
    if (argc < 2) return 2;
    janet_init();
    JanetTable *env = janet_core_env(NULL);
    janet_def(env, "verif/peg-depth", janet_wrap_cfunction(verif_peg_depth), "depth drift of one peg match");
    JanetArray *args = janet_array(argc);
    for (int i = 0; i < argc; i++) janet_array_push(args, janet_cstringv(argv[i]));
    janet_table_put(env, janet_ckeywordv("args"), janet_wrap_array(args));
    janet_table_put(env, janet_ckeywordv("current-file"), janet_cstringv(argv[1]));
    char buf[1024];
    snprintf(buf, sizeof buf, "(dofile \"%s\" :env (curenv))", argv[1]);
    Janet out;
    int rc = janet_dostring(env, buf, "pegdepth", &out);
    janet_deinit();
    return rc ? 1 : 0;
}
